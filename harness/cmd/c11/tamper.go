package main

import (
	"bytes"
	"context"
	"fmt"
	"math/rand"
	"os"
	"sort"
	"strings"
	"time"

	"perkeep.org/pkg/blob"
	"perkeep.org/pkg/blobserver"

	"verif.local/harness/ev"
	"verif.local/harness/sto"
)

// plain is one plaintext blob and what the harness learnt about its stored form.
type plain struct {
	Ref        blob.Ref
	Data       []byte
	Kind       string
	Enc        blob.Ref // ciphertext blob in the wrapped "blobs" store
	Meta       blob.Ref // single-entry meta blob written by its receive
	exLo, exHi int      // content range excluded from the leak windows
	crafted    bool
	forged     string // what the crafted line claims (evidence)
}

func mkPlain(hash, kind string, data []byte) plain {
	return plain{Ref: sto.RefOf(hash, data), Data: data, Kind: kind}
}

func randBytes(rng *rand.Rand, n int) []byte {
	b := make([]byte, n)
	rng.Read(b)
	return b
}

// universeA: every size class around the age STREAM chunk size, low-entropy contents, several hashes.
// The universe is split over two kinds of store instance (small blobs: exhaustive flips, many
// mutants; large blobs: multi-chunk ciphertexts, costly verification) to bound the cost of
// verifying every plaintext after every mutant.
func universeA(rng *rand.Rand, large bool) []plain {
	var out []plain
	sizes := []int{0, 1, 11, 12, 13, 100, 300, 1000, 4096}
	if large {
		sizes = []int{100, 300, 65535, 65536, 65537, 150000}
	}
	for _, n := range sizes {
		h := "sha224"
		switch n {
		case 100, 65535:
			h = "sha1"
		case 300:
			h = "sha256"
		}
		out = append(out, mkPlain(h, fmt.Sprintf("random-%d", n), randBytes(rng, n)))
	}
	if large {
		out = append(out, mkPlain("sha224", "zeros-70000", make([]byte, 70000)))
		return out
	}
	out = append(out, mkPlain("sha224", "zeros-3000", make([]byte, 3000)))
	unit := fmt.Sprintf("perkeep c11 secret %d; ", rng.Intn(1000))
	out = append(out, mkPlain("sha224", "repeated-text", []byte(strings.Repeat(unit, 5000/len(unit)))))
	out = append(out, mkPlain("sha224", "schema-json", []byte(fmt.Sprintf("{\"camliVersion\": 1,\n  \"camliType\": \"bytes\",\n  \"parts\": [],\n  \"verifNonce\": %d\n}", rng.Int63()))))
	return out
}

// craftedPlain is a plaintext blob whose CONTENT has the shape of a meta blob: it names the
// plaintext ref of victim and the ciphertext ref of donor.  It is an ordinary user blob.
func craftedPlain(victim, donor plain, sizeDelta int) plain {
	return craftedLine(victim, donor.Enc, len(victim.Data)+sizeDelta)
}

// craftedLine is the general form: the line claims that victim has the given size and is held by
// the ciphertext blob encRef (which need not exist).
func craftedLine(victim plain, encRef blob.Ref, size int) plain {
	head := fmt.Sprintf("#camlistore/encmeta=2\n%s/%d/", victim.Ref, size)
	enc := encRef.String()
	p := mkPlain("sha224", "meta-shaped", []byte(head+enc+"\n"))
	p.exLo, p.exHi = len(head), len(head)+len(enc)
	p.crafted = true
	return p
}

// receive stores p through the encrypt store and learns its ciphertext / meta blob names
// from the writes that reached the lower stores.
func (in *inst) receive(p *plain) error {
	nb, nm := in.blobs.nEvents(), in.meta.nEvents()
	in.kv.begin(p.Ref.String())
	var sb blob.SizedRef
	var err error
	pan := in.r.Guard("ReceiveBlob", map[string]any{"case_id": in.id, "plaintext": p.Ref.String()}, func() {
		sb, err = blobserver.Receive(context.Background(), in.S, p.Ref, bytes.NewReader(p.Data))
	})
	in.kv.end()
	if pan {
		return fmt.Errorf("panic")
	}
	if err != nil {
		return err
	}
	in.r.Eval(1)
	if sb.Ref != p.Ref || int(sb.Size) != len(p.Data) {
		in.r.Violation("wrong-size/receive", fmt.Sprintf("ReceiveBlob(%s, %d bytes) acknowledged %v", p.Ref, len(p.Data), sb),
			map[string]any{"case_id": in.id, "plaintext": p.Ref.String(), "size": len(p.Data), "ack": sb.String()})
	}
	// which ciphertext blob holds p: the store's own index row says so ("<size>/<encrypted ref>");
	// fall back to the first write this receive made to the wrapped blobs store
	if v, err := in.kv.KeyValue.Get(p.Ref.String()); err == nil {
		if i := strings.IndexByte(v, '/'); i >= 0 {
			if enc, ok := blob.Parse(v[i+1:]); ok && in.blobs.raw(enc) != nil {
				p.Enc = enc
			}
		}
	}
	for _, e := range in.blobs.eventsFrom(nb) {
		if e.Op == "ReceiveBlob" && !e.Err && !p.Enc.Valid() {
			p.Enc = e.Refs[0]
		}
	}
	for _, e := range in.meta.eventsFrom(nm) {
		if e.Op == "ReceiveBlob" && !e.Err && e.Size < packedMin && !p.Meta.Valid() {
			p.Meta = e.Refs[0]
		}
	}
	return nil
}

// newLower returns the refs of blobs written to l since event index from.
func newLower(l *lowStore, from int) []blob.Ref {
	var out []blob.Ref
	for _, e := range l.eventsFrom(from) {
		if e.Op == "ReceiveBlob" && !e.Err {
			out = append(out, e.Refs...)
		}
	}
	return out
}

// layout finds the structure of versionByte || age_v1(...): end of the textual header
// (= offset of the 16-byte nonce) and the start offsets of the STREAM chunks.
func layout(b []byte) (hdrEnd int, chunks []int) {
	i := bytes.Index(b, []byte("\n--- "))
	if i < 0 {
		return 0, nil
	}
	j := bytes.IndexByte(b[i+1:], '\n')
	if j < 0 {
		return 0, nil
	}
	hdrEnd = i + 1 + j + 1
	const encChunk = 64*1024 + 16
	for off := hdrEnd + 16; off < len(b); off += encChunk {
		chunks = append(chunks, off)
	}
	return hdrEnd, chunks
}

// flipPositions: all positions for blobs <= 1 KiB, else structural positions plus n seeded ones.
func flipPositions(rng *rand.Rand, b []byte, n int) (pos []int, exhaustive bool) {
	if len(b) <= 1024 {
		pos = make([]int, len(b))
		for i := range pos {
			pos[i] = i
		}
		return pos, true
	}
	set := map[int]bool{}
	add := func(p int) {
		if p >= 0 && p < len(b) {
			set[p] = true
		}
	}
	hdrEnd, chunks := layout(b)
	for p := 0; p < 12; p++ { // version byte and the start of the age header
		add(p)
	}
	for p := 1; p < hdrEnd; p += 9 { // the whole header region, strided
		add(p)
	}
	if s := bytes.Index(b, []byte("-> ")); s >= 0 {
		for p := s; p < s+14; p++ {
			add(p)
		}
	}
	for p := hdrEnd - 48; p < hdrEnd+18; p++ { // MAC line, nonce, first payload bytes
		add(p)
	}
	for _, c := range chunks {
		for p := c - 17; p <= c+1; p++ { // tag of the previous chunk, first bytes of this one
			add(p)
		}
	}
	for p := len(b) - 17; p < len(b); p++ {
		add(p)
	}
	for len(set) < n+60 && len(set) < len(b) {
		add(rng.Intn(len(b)))
	}
	for p := range set {
		pos = append(pos, p)
	}
	sort.Ints(pos)
	return pos, false
}

func truncLengths(b []byte) []int {
	hdrEnd, chunks := layout(b)
	set := map[int]bool{0: true, 1: true, len(b) / 2: true, len(b) - 1: true, len(b) - 16: true, len(b) - 17: true}
	if hdrEnd > 0 {
		set[hdrEnd-1], set[hdrEnd], set[hdrEnd+15], set[hdrEnd+16] = true, true, true, true
		set[(hdrEnd+len(b))/2] = true
	}
	for _, c := range chunks[min(1, len(chunks)):] {
		set[c], set[c-1], set[c+1], set[c+16] = true, true, true, true
	}
	var out []int
	for n := range set {
		if n >= 0 && n < len(b) {
			out = append(out, n)
		}
	}
	sort.Ints(out)
	return out
}

type mutant struct {
	ID       string `json:"case_id"`
	Class    string `json:"class"`  // flip | truncate | extend | swap | swap-crafted
	Target   string `json:"target"` // data | meta
	Name     string `json:"tampered_blob"`
	Desc     string `json:"mutation"`
	Affected string `json:"plaintext_of_tampered_blob,omitempty"`
	ref      blob.Ref
	bytes    []byte
	affected int
}

// tstore is one store subjected to the tamper enumeration.
type tstore struct {
	r      *ev.Run
	in     *inst
	id     string
	plains []plain
	sc     *scanner
	rng    *rand.Rand
	// configuration
	nFlipLarge int
	masksPer   int
	checkAll   bool // verify every plaintext after every mutant (else: affected + sample)
	dataSel    []int
	metaSel    []blob.Ref
	swapLimit  int
	cases      int
	hung       bool // a start-up never returned: the lower memory store is locked up, stop
}

func (t *tstore) sig(class, what string, m *mutant) string {
	return fmt.Sprintf("%s/%s/%s", what, class, m.Target)
}

// verify applies the exact-or-error rule to the plaintexts in idx through store s.
func (t *tstore) verify(s blobserver.Storage, m *mutant, idx []int) (affectedOutcome string) {
	affectedOutcome = "n/a"
	for _, i := range idx {
		p := &t.plains[i]
		var got []byte
		var size uint32
		var err error
		if t.r.Guard("Fetch-after-"+m.Class+"-"+m.Target, m, func() { got, size, err = fetchAll(s, p.Ref) }) {
			continue
		}
		t.r.Eval(1)
		out := "error"
		if err == nil {
			switch {
			case !bytes.Equal(got, p.Data):
				t.r.Violation(t.sig(m.Class, "tamper-undetected", m),
					fmt.Sprintf("after %s of %s blob %s (%s): Fetch(%s) [%s, %d bytes] succeeded with %d DIFFERENT bytes (reported size %d); first bytes %q, want %q",
						m.Class, m.Target, m.Name, m.Desc, p.Ref, p.Kind, len(p.Data), len(got), size, head(got), head(p.Data)), m)
				out = "different"
			case int(size) != len(p.Data):
				t.r.Violation(t.sig(m.Class, "wrong-size", m)+"/fetch",
					fmt.Sprintf("after %s of %s blob %s (%s): Fetch(%s) returned the right bytes but size %d, want %d", m.Class, m.Target, m.Name, m.Desc, p.Ref, size, len(p.Data)), m)
				out = "wrong-size"
			default:
				out = "exact"
			}
		}
		if i == m.affected {
			affectedOutcome = out
		}
		var present bool
		var ssize uint32
		var serr error
		if t.r.Guard("StatBlobs-after-"+m.Class+"-"+m.Target, m, func() { present, ssize, serr = stat1(s, p.Ref) }) {
			continue
		}
		t.r.Eval(1)
		if serr == nil && present && int(ssize) != len(p.Data) {
			t.r.Violation(t.sig(m.Class, "wrong-size", m)+"/stat",
				fmt.Sprintf("after %s of %s blob %s (%s): StatBlobs(%s) reports size %d, true plaintext size %d", m.Class, m.Target, m.Name, m.Desc, p.Ref, ssize, len(p.Data)), m)
		}
	}
	return affectedOutcome
}

func head(b []byte) string {
	if len(b) > 24 {
		b = b[:24]
	}
	return string(b)
}

func (t *tstore) checkIdx(m *mutant) []int {
	if t.checkAll {
		idx := make([]int, len(t.plains))
		for i := range idx {
			idx[i] = i
		}
		return idx
	}
	set := map[int]bool{}
	if m.affected >= 0 {
		set[m.affected] = true
	}
	h := rand.New(rand.NewSource(int64(len(m.ID)) + int64(t.cases)))
	for len(set) < 6 && len(set) < len(t.plains) {
		set[h.Intn(len(t.plains))] = true
	}
	var idx []int
	for i := range set {
		idx = append(idx, i)
	}
	sort.Ints(idx)
	return idx
}

func allIdx(n int) []int {
	idx := make([]int, n)
	for i := range idx {
		idx[i] = i
	}
	return idx
}

// apply serves m.bytes under m.ref, evaluates the oracle, restores the original.
func (t *tstore) apply(m *mutant, orig []byte) {
	if !t.r.Only(m.ID) || t.hung {
		return
	}
	if bytes.Equal(m.bytes, orig) {
		return // not a mutation
	}
	t.cases++
	cls := m.Class
	t.r.Count("tamper_"+cls+"_"+m.Target, 1)
	t.r.Note("tamper_classes", cls+"/"+m.Target)
	t.r.Distinct(m.ID)
	if t.cases%997 == 1 {
		t.r.Sample(m)
	}
	if m.Target == "data" {
		t.in.blobs.setOver(m.ref, m.bytes)
		out := t.verify(t.in.S, m, t.checkIdx(m))
		t.in.blobs.clearOver(m.ref)
		t.r.Note("tamper_outcomes", m.Target+"/"+cls+"/"+out)
		return
	}
	// meta: the live incarnation never re-reads meta blobs; what matters is a start with a lost index
	t.in.meta.setOver(m.ref, m.bytes)
	s, _, _, err := t.in.create(nil)
	t.r.Eval(1)
	if err == errHang {
		t.hung = true
		t.r.Note("tamper_outcomes", m.Target+"/"+cls+"/creation-hung")
	} else if err != nil {
		t.r.Note("tamper_outcomes", m.Target+"/"+cls+"/creation-refused")
	} else {
		t.verify(s, m, allIdx(len(t.plains)))
		t.r.Note("tamper_outcomes", m.Target+"/"+cls+"/creation-succeeded")
		// A flipped, truncated or extended meta blob cannot be told from the original by what is left
		// of it: a start-up that succeeds over it has IGNORED the damage (a substitution by another
		// valid blob is different: nothing marks it as damage).  Then nothing may be missing either.
		if cls == "flip" || cls == "truncate" || cls == "extend" {
			for i := range t.plains {
				p := &t.plains[i]
				got, _, ferr := fetchAll(s, p.Ref)
				t.r.Eval(1)
				if ferr != nil || !bytes.Equal(got, p.Data) {
					t.r.Violation(t.sig(cls, "tamper-ignored", m),
						fmt.Sprintf("after %s of meta blob %s (%s) a start with a lost index SUCCEEDED, yet Fetch(%s) fails (%v): the damage was neither reported nor harmless", cls, m.Name, m.Desc, p.Ref, ferr), m)
					break
				}
			}
		}
	}
	t.in.meta.clearOver(m.ref)
}

var masks = []byte{0x01, 0x02, 0x04, 0x08, 0x10, 0x20, 0x40, 0x80, 0xff}

func (t *tstore) mutateOne(target string, l *lowStore, ref blob.Ref, affected int, bi int) {
	orig := l.raw(ref)
	if orig == nil {
		t.r.Inconclusive(fmt.Sprintf("%s: lower blob %s vanished", t.id, ref))
		return
	}
	aff := ""
	if affected >= 0 {
		aff = fmt.Sprintf("%s [%s, %d bytes]", t.plains[affected].Ref, t.plains[affected].Kind, len(t.plains[affected].Data))
	}
	mk := func(class, desc string, b []byte) *mutant {
		return &mutant{ID: fmt.Sprintf("%s/%s/%s/%d/%s;", t.id, class, target, bi, desc), Class: class, Target: target,
			Name: ref.String(), Desc: desc, Affected: aff, ref: ref, bytes: b, affected: affected}
	}
	pos, exhaustive := flipPositions(t.rng, orig, t.nFlipLarge)
	if exhaustive {
		t.r.Note("flip_coverage", target+"/exhaustive-positions")
	} else {
		t.r.Note("flip_coverage", target+"/structural+seeded-positions")
	}
	hdrEnd, chunks := layout(orig)
	if len(chunks) > 1 {
		t.r.Note("structures", target+"/multi-chunk")
	}
	for _, p := range pos {
		for k := 0; k < t.masksPer; k++ {
			mask := masks[t.rng.Intn(len(masks))]
			if k == 1 {
				mask = byte(1 + t.rng.Intn(255))
			}
			b := append([]byte(nil), orig...)
			b[p] ^= mask
			region := "payload"
			switch {
			case p == 0:
				region = "version"
			case p < hdrEnd:
				region = "age-header"
			case p < hdrEnd+16:
				region = "nonce"
			case p == len(orig)-1:
				region = "last-byte"
			}
			for _, c := range chunks {
				if p >= c-16 && p <= c && c > hdrEnd+16 {
					region = "chunk-boundary"
				}
			}
			t.r.Note("flip_regions", target+"/"+region)
			t.apply(mk("flip", fmt.Sprintf("byte %d of %d ^= 0x%02x (%s)", p, len(orig), mask, region), b), orig)
		}
	}
	for _, n := range truncLengths(orig) {
		t.apply(mk("truncate", fmt.Sprintf("to %d of %d bytes", n, len(orig)), append([]byte(nil), orig[:n]...)), orig)
	}
	for _, ext := range [][]byte{{0}, {byte(1 + t.rng.Intn(255))}, make([]byte, 16), randBytes(t.rng, 16), orig[max(0, len(orig)-16):]} {
		t.apply(mk("extend", fmt.Sprintf("+%d bytes %x", len(ext), ext), append(append([]byte(nil), orig...), ext...)), orig)
	}
}

// lowerOrder lists the blobs of the two lower stores in an order determined by the history, not by
// the (randomised) ciphertext hashes: blobs the harness cannot attribute to one plaintext first
// (packed meta blobs, largest first), then the others in the order of their plaintexts.
func (t *tstore) lowerOrder() (data, meta []blob.Ref) {
	order := func(l *lowStore, owned func(p *plain) blob.Ref) []blob.Ref {
		present := map[blob.Ref]bool{}
		for _, ref := range l.refs() {
			present[ref] = true
		}
		var out, rest []blob.Ref
		for i := range t.plains {
			if ref := owned(&t.plains[i]); ref.Valid() && present[ref] {
				out = append(out, ref)
				delete(present, ref)
			}
		}
		for ref := range present {
			rest = append(rest, ref)
		}
		sort.Slice(rest, func(i, j int) bool {
			a, b := len(l.raw(rest[i])), len(l.raw(rest[j]))
			if a != b {
				return a > b
			}
			return rest[i].String() < rest[j].String()
		})
		return append(rest, out...)
	}
	return order(t.in.blobs, func(p *plain) blob.Ref { return p.Enc }), order(t.in.meta, func(p *plain) blob.Ref { return p.Meta })
}

func (t *tstore) swap(targetL *lowStore, target string, vi int, victim blob.Ref, srcL *lowStore, srcKind string, si int, src blob.Ref, affected int, crafted bool) {
	orig := targetL.raw(victim)
	b := srcL.raw(src)
	if orig == nil || b == nil {
		return
	}
	class := "swap"
	if crafted {
		class = "swap-crafted"
	}
	aff := ""
	if affected >= 0 {
		aff = t.plains[affected].Ref.String()
	}
	m := &mutant{ID: fmt.Sprintf("%s/%s/%s/%d<-%s:%d;", t.id, class, target, vi, srcKind, si), Class: class, Target: target,
		Name: victim.String(), Desc: fmt.Sprintf("serves the bytes of %s blob %s", srcKind, src), Affected: aff,
		ref: victim, bytes: b, affected: affected}
	t.r.Note("swap_kinds", srcKind+"->"+target)
	t.apply(m, orig)
}

// run performs the whole enumeration over the store.
func (t *tstore) run() {
	in := t.in
	encOf := map[blob.Ref]int{}
	craftedEnc := map[blob.Ref]bool{}
	for i, p := range t.plains {
		if p.Enc.Valid() {
			encOf[p.Enc] = i
			if p.crafted {
				craftedEnc[p.Enc] = true
			}
		}
	}
	dataRefs, metaRefs := t.lowerOrder()
	t.setReadonly(true)
	// baseline: untampered, a start with a lost index recovers everything
	base := &mutant{ID: t.id + "/baseline;", Class: "none", Target: "meta", affected: -1}
	s, _, _, err := in.create(nil)
	if err != nil {
		t.r.Violation("unrecoverable/untampered", fmt.Sprintf("%s: re-creating the store over untampered lower stores with an empty index failed: %v", t.id, err), base)
		return
	}
	t.verifyStrict(s, base)

	dsel := t.dataSel
	if dsel == nil {
		dsel = allIdx(len(dataRefs))
	}
	for _, di := range dsel {
		ref := dataRefs[di]
		aff, ok := encOf[ref]
		if !ok {
			aff = -1
		}
		t.mutateOne("data", in.blobs, ref, aff, di)
	}
	msel := t.metaSel
	if msel == nil {
		msel = metaRefs
	}
	for mi, ref := range msel {
		t.mutateOne("meta", in.meta, ref, -1, mi)
	}
	// swaps
	type pair struct{ a, b int }
	pairs := func(na, nb int, same bool) []pair {
		var ps []pair
		for a := 0; a < na; a++ {
			for b := 0; b < nb; b++ {
				if same && a == b {
					continue
				}
				ps = append(ps, pair{a, b})
			}
		}
		if t.swapLimit > 0 && len(ps) > t.swapLimit {
			t.rng.Shuffle(len(ps), func(i, j int) { ps[i], ps[j] = ps[j], ps[i] })
			ps = ps[:t.swapLimit]
		}
		return ps
	}
	affOf := func(ref blob.Ref) int {
		if i, ok := encOf[ref]; ok {
			return i
		}
		return -1
	}
	for _, p := range pairs(len(dataRefs), len(dataRefs), true) { // data <- data
		t.swap(in.blobs, "data", p.a, dataRefs[p.a], in.blobs, "data", p.b, dataRefs[p.b], affOf(dataRefs[p.a]), false)
	}
	for _, p := range pairs(len(dataRefs), len(metaRefs), false) { // data <- meta
		t.swap(in.blobs, "data", p.a, dataRefs[p.a], in.meta, "meta", p.b, metaRefs[p.b], affOf(dataRefs[p.a]), false)
	}
	for _, p := range pairs(len(metaRefs), len(metaRefs), true) { // meta <- meta
		t.swap(in.meta, "meta", p.a, metaRefs[p.a], in.meta, "meta", p.b, metaRefs[p.b], -1, false)
	}
	for _, p := range pairs(len(metaRefs), len(dataRefs), false) { // meta <- data
		t.swap(in.meta, "meta", p.a, metaRefs[p.a], in.blobs, "data", p.b, dataRefs[p.b], -1, craftedEnc[dataRefs[p.b]])
	}
	t.craftedTargeted(dataRefs, metaRefs, 0)
	t.r.Count("tamper_cases", t.cases)
}

func (t *tstore) setReadonly(ro bool) {
	for _, l := range []*lowStore{t.in.blobs, t.in.meta} {
		l.mu.Lock()
		l.readonly = ro
		l.mu.Unlock()
	}
}

// craftedTargeted is the targeted form of the crafted substitution: each meta-shaped user blob (those
// at plaintext index >= from) replaces the own meta blob of the victim it names (always run, also when
// the pair sampling skipped it).
func (t *tstore) craftedTargeted(dataRefs, metaRefs []blob.Ref, from int) {
	in := t.in
	for i := from; i < len(t.plains); i++ {
		p := t.plains[i]
		if !p.crafted {
			continue
		}
		for _, v := range t.plains {
			if bytes.Contains(p.Data, []byte(v.Ref.String()+"/")) && v.Meta.Valid() && in.meta.raw(v.Meta) != nil {
				if p.forged != "" {
					t.r.Note("crafted_meta_lines", p.forged)
				}
				t.swap(in.meta, "meta", idxOf(metaRefs, v.Meta), v.Meta, in.blobs, "data", idxOf(dataRefs, p.Enc), p.Enc, -1, true)
			}
		}
	}
}

// verifyStrict: on untampered stores every plaintext must be fetched intact and stat'ed with its size.
func (t *tstore) verifyStrict(s blobserver.Storage, m *mutant) {
	for i := range t.plains {
		p := &t.plains[i]
		got, size, err := fetchAll(s, p.Ref)
		t.r.Eval(2)
		if err != nil || !bytes.Equal(got, p.Data) || int(size) != len(p.Data) {
			t.r.Violation("lost-after-index-loss/untampered", fmt.Sprintf("%s: untampered store re-created with an empty index: Fetch(%s) = %d bytes, size %d, err %v; want %d bytes", t.id, p.Ref, len(got), size, err, len(p.Data)), m)
		}
		present, ssize, serr := stat1(s, p.Ref)
		if serr != nil || !present || int(ssize) != len(p.Data) {
			t.r.Violation("lost-after-index-loss/untampered", fmt.Sprintf("%s: untampered store re-created with an empty index: StatBlobs(%s) = present %v size %d err %v; want size %d", t.id, p.Ref, present, ssize, serr, len(p.Data)), m)
		}
	}
}

// tamperA builds a store with the size-class universe plus the meta-shaped user blob and enumerates.
func tamperA(r *ev.Run, root string, n int, large bool) {
	id := fmt.Sprintf("tA%d", n)
	if large {
		id = fmt.Sprintf("tL%d", n)
	}
	if !r.Only(id + "/") {
		return
	}
	defer timed(id)()
	rng := r.Rand("tamperA/" + id)
	in, err := newInst(r, root, id)
	if err != nil {
		r.Inconclusive("key file: " + err.Error())
		return
	}
	if err := in.open(nil); err != nil {
		r.Violation("unrecoverable/empty", "creating an encrypt store over empty stores failed: "+err.Error(), map[string]any{"case_id": id})
		return
	}
	t := &tstore{r: r, in: in, id: id, sc: newScanner(), rng: rng,
		nFlipLarge: r.Pick(256, 768), masksPer: r.Pick(1, 2), checkAll: true}
	in.sc = t.sc
	t.plains = universeA(rng, large)
	if !t.receiveAll(0) {
		return
	}
	// the meta-shaped user blob: names one plaintext as victim and the ciphertext of another as donor
	vi, di := 5, 6
	if large {
		vi, di = 0, 1
	}
	n0 := len(t.plains)
	add := func(p plain, forged string) {
		p.forged = forged
		t.plains = append(t.plains, p)
	}
	add(craftedPlain(t.plains[vi], t.plains[di], 0), "true-size/other-ciphertext")
	if !large {
		// a second one that names the victim's own ciphertext but a wrong size
		add(craftedPlain(t.plains[7], t.plains[7], 1), "size+1/own-ciphertext")
	}
	if !t.receiveAll(n0) {
		return
	}
	in.leakCheckAll(t.sc, t.plains, "after all receives")
	r.Count("bytes_scanned", t.sc.takeScanned())
	t.run()
	if t.hung {
		return
	}
	// Second phase: further forged lines.  The size field is what a fetch learns FIRST about a blob (before
	// any ciphertext is read), so its edge values get their own substitutions: 0 and the true size, naming
	// the victim's own, another or no stored ciphertext.  These user blobs are received only now (so that the
	// enumeration above is not enlarged by their ciphertext and meta blobs, which have the shape of the first
	// crafted blob's) and take part in the targeted substitution only; every plaintext is verified after each.
	t.setReadonly(false)
	n1, cases1 := len(t.plains), t.cases
	absent := sto.RefOf("sha224", randBytes(rng, 32)) // names no stored ciphertext
	if !large {
		add(craftedLine(t.plains[7], t.plains[7].Enc, 0), "size-0/own-ciphertext")
		add(craftedLine(t.plains[5], t.plains[6].Enc, 0), "size-0/other-ciphertext")
		add(craftedLine(t.plains[8], absent, 0), "size-0/absent-ciphertext")
		add(craftedLine(t.plains[6], t.plains[6].Enc, len(t.plains[6].Data)), "true-size/own-ciphertext")
		add(craftedLine(t.plains[1], absent, len(t.plains[1].Data)), "true-size/absent-ciphertext")
	} else {
		add(craftedLine(t.plains[3], t.plains[3].Enc, 0), "size-0/own-ciphertext")
		add(craftedLine(t.plains[0], t.plains[1].Enc, 0), "size-0/other-ciphertext")
	}
	if !t.receiveAll(n1) {
		return
	}
	in.leakCheckAll(t.sc, t.plains, "after the receives of the second phase")
	t.setReadonly(true)
	dataRefs, metaRefs := t.lowerOrder()
	t.craftedTargeted(dataRefs, metaRefs, n1)
	r.Count("tamper_cases", t.cases-cases1)
	r.Count("plaintext_blobs", len(t.plains))
	if t.hung {
		return
	}
	in.leakCheckAll(t.sc, t.plains, "after the tamper phase (state restored)")
	r.Count("bytes_scanned", t.sc.takeScanned())
}

func (t *tstore) receiveAll(from int) bool {
	in := t.in
	for i := from; i < len(t.plains); i++ {
		p := &t.plains[i]
		t.sc.addPlain(i, p.Ref, p.Data, p.exLo, p.exHi)
		nb, nm := in.blobs.nEvents(), in.meta.nEvents()
		if err := in.receive(p); err != nil {
			t.r.Inconclusive(fmt.Sprintf("%s: receive of %s failed without any fault: %v", t.id, p.Ref, err))
			return false
		}
		t.r.Note("plaintext_kinds", p.Kind)
		in.leakCheck(t.sc, in.blobs, newLower(in.blobs, nb), t.plains, "after receive")
		in.leakCheck(t.sc, in.meta, newLower(in.meta, nm), t.plains, "after receive")
	}
	return true
}

// tamperB builds a store by a long history (so that the meta store holds a multi-chunk packed
// meta blob plus single ones) and tampers with the meta blobs and a sample of data blobs.
func tamperB(r *ev.Run, root string, n int) {
	id := fmt.Sprintf("tB%d", n)
	if !r.Only(id + "/") {
		return
	}
	defer timed(id)()
	rng := r.Rand("tamperB/" + id)
	in, err := newInst(r, root, id)
	if err != nil {
		r.Inconclusive("key file: " + err.Error())
		return
	}
	if err := in.open(nil); err != nil {
		r.Violation("unrecoverable/empty", "creating an encrypt store over empty stores failed: "+err.Error(), map[string]any{"case_id": id})
		return
	}
	t := &tstore{r: r, in: in, id: id, sc: newScanner(), rng: rng,
		nFlipLarge: r.Pick(256, 768), masksPer: 1, checkAll: false, swapLimit: r.Pick(10, 40)}
	in.sc = t.sc
	// receive until the meta store holds a packed meta blob of more than one STREAM chunk (> 64 KiB:
	// about 5 nested compactions) and a few single ones; a compaction that ended by the benign index
	// race only delays this, hence the bound instead of a fixed count
	nmin := 5*heapLimit + 8 + rng.Intn(12)
	multi := func() bool {
		for _, ref := range in.meta.refs() {
			if _, ch := layout(in.meta.raw(ref)); len(ch) > 1 {
				return true
			}
		}
		return false
	}
	for i := 0; i < 1500; i++ {
		if i >= nmin && (i-nmin)%20 == 0 && multi() {
			break
		}
		t.plains = append(t.plains, mkPlain("sha224", "small", []byte(fmt.Sprintf("c11 %s blob %d %x", id, i, randBytes(rng, 8+rng.Intn(40))))))
		if !t.receiveAll1(i) {
			return
		}
		// let each compaction finish before the next receive, so that the packed blobs nest (101, 201, ... lines)
		if !in.waitQuiesce(30 * time.Second) {
			r.Inconclusive(id + ": compaction did not reach a terminal event within 30 s")
			return
		}
	}
	if !in.waitQuiesce(30 * time.Second) {
		r.Inconclusive(id + ": compaction did not reach a terminal event within 30 s")
		return
	}
	noteCompactions(r, in)
	in.leakCheckAll(t.sc, t.plains, "after all receives and compactions")
	r.Count("bytes_scanned", t.sc.takeScanned())
	r.Count("plaintext_blobs", len(t.plains))
	// choose targets: the largest meta blob (packed), 3 seeded single meta blobs, 4 seeded data blobs
	_, metaRefs := t.lowerOrder()
	if len(metaRefs) == 0 {
		r.Inconclusive(id + ": no meta blobs")
		return
	}
	big := in.meta.raw(metaRefs[0])
	if _, ch := layout(big); len(ch) > 1 {
		r.Note("structures", "packed-meta/multi-chunk")
	}
	if len(big) >= packedMin {
		r.Note("structures", "packed-meta")
	}
	t.metaSel = []blob.Ref{metaRefs[0]}
	for _, i := range rng.Perm(len(metaRefs) - 1)[:min(3, len(metaRefs)-1)] {
		t.metaSel = append(t.metaSel, metaRefs[1+i])
	}
	nd := len(in.blobs.refs())
	t.dataSel = rng.Perm(nd)[:min(4, nd)]
	t.run()
	// packed <-> single swaps explicitly (the sampled pairs may have missed them)
	if len(metaRefs) > 1 && !t.hung {
		last := len(metaRefs) - 1
		t.swap(in.meta, "meta", 0, metaRefs[0], in.meta, "meta", last, metaRefs[last], -1, false)
		t.swap(in.meta, "meta", last, metaRefs[last], in.meta, "meta", 0, metaRefs[0], -1, false)
	}
	in.leakCheckAll(t.sc, t.plains, "after the tamper phase (state restored)")
	r.Count("bytes_scanned", t.sc.takeScanned())
}

func (t *tstore) receiveAll1(i int) bool {
	in := t.in
	p := &t.plains[i]
	t.sc.addPlain(i, p.Ref, p.Data, p.exLo, p.exHi)
	nb, nm := in.blobs.nEvents(), in.meta.nEvents()
	if err := in.receive(p); err != nil {
		t.r.Inconclusive(fmt.Sprintf("%s: receive of %s failed without any fault: %v", t.id, p.Ref, err))
		return false
	}
	in.leakCheck(t.sc, in.blobs, newLower(in.blobs, nb), t.plains, "after receive")
	in.leakCheck(t.sc, in.meta, newLower(in.meta, nm), t.plains, "after receive")
	return true
}

// noteCompactions records the compactions the harness observed on the current incarnation.
func noteCompactions(r *ev.Run, in *inst) {
	m := in.meta
	m.mu.Lock()
	done, packed := m.compactDone[in.inc], m.packedOK[in.inc]
	m.mu.Unlock()
	if done > 0 && packed > 0 {
		r.Note("compaction", "completed")
		r.Count("compactions_completed", done)
	}
	if n := in.kv.nAborts(); n > 0 {
		r.Note("compaction", "aborted-by-index-race")
		r.Count("compactions_aborted_by_index_race", n)
	}
}

func timed(id string) func() {
	t0 := time.Now()
	return func() { fmt.Fprintf(os.Stderr, "c11: job %s took %.1fs\n", id, time.Since(t0).Seconds()) }
}

func idxOf(refs []blob.Ref, ref blob.Ref) int {
	for i, r := range refs {
		if r == ref {
			return i
		}
	}
	return -1
}
