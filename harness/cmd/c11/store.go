package main

import (
	"bytes"
	"context"
	"errors"
	"fmt"
	"io"
	"os"
	"runtime"
	"strings"
	"sync"
	"sync/atomic"
	"time"

	"go4.org/jsonconfig"
	"perkeep.org/pkg/blob"
	"perkeep.org/pkg/blobserver"
	_ "perkeep.org/pkg/blobserver/encrypt"
	"perkeep.org/pkg/blobserver/localdisk"
	"perkeep.org/pkg/blobserver/memory"
	"perkeep.org/pkg/sorted"

	"verif.local/harness/ev"
	"verif.local/harness/inject"
	"verif.local/harness/sto"
)

// packedMin is the size above which a blob written to the meta store is taken to be a
// packed (compacted) meta blob: a single-entry meta blob is ~360 bytes, a packed one has
// >= 101 lines (~14 KiB).  Used for *targeting* faults and for observation only.
const packedMin = 4000

// heapLimit mirrors encrypt.SmallMetaCountLimit+1: the number of recordMeta calls that
// launches one compaction.  Only used to know what to wait for, never for a verdict.
const heapLimit = 101

var errHook = errors.New("verif: injected failure of a wrapped-store write (simulated crash)")

type action int

const (
	actPass     action = iota
	actFail            // no effect, error
	actPartial         // RemoveBlobs: remove a strict subset, then error
	actDoneFail        // full effect, then error (lost ack)
)

// lowEvent is one write that reached a lower store.
type lowEvent struct {
	Inc  int
	Op   string
	Refs []blob.Ref
	Size int
	Err  bool
}

// lowStore is a harness-owned wrapped store: a real memory.Storage plus (a) a table of
// tampered contents served instead of the stored bytes, (b) a write hook, (c) an event log.
type lowStore struct {
	name string
	mem  backing
	// loose: the backing store does not verify that the bytes it is given hash to the blob's name
	// (perkeep's localdisk; memory.Storage does verify)
	loose bool

	mu       sync.Mutex
	over     map[blob.Ref][]byte
	readonly bool
	events   []lowEvent
	// hook decides the fate of a write (called without mu held): what to do, for a partial
	// removal how many refs to remove, and whether the incarnation crashes right after.
	hook func(op string, refs []blob.Ref, size int) (act action, k int, crash bool)
	// gate makes a crash crisp: every write holds it shared while it takes effect; crashing an
	// incarnation takes it exclusively, so no effect of the old incarnation happens afterwards.
	gate sync.RWMutex
	// per-incarnation counters
	uploadsOK   map[int]int
	removesDone map[int]int
	packedFail  map[int]int
	packedOK    map[int]int
	compactDone map[int]int
	// fullMin > 0: a blob of at least that size written to this (meta) store is a packed meta blob with
	// >= encrypt.FullMetaBlobSize lines, which its compaction does not put back on the small-meta heap
	fullMin int
	fullOK  map[int]int
	// failOnce: when 1, the next write of a small (non-packed) blob to this store fails once without
	// taking effect (a transient fault; the caller retries the receive)
	failOnce atomic.Int32
}

// backing is the real perkeep store under a lowStore plus raw access for the harness.
type backing interface {
	blobserver.Storage
	BlobContents(br blob.Ref) (contents string, ok bool)
	BlobrefStrings() []string
	NumBlobs() int
}

func newLow(name string) *lowStore {
	return &lowStore{name: name, mem: &memory.Storage{}, over: map[blob.Ref][]byte{},
		uploadsOK: map[int]int{}, removesDone: map[int]int{}, packedFail: map[int]int{}, packedOK: map[int]int{}, compactDone: map[int]int{}, fullOK: map[int]int{}}
}

// diskBacking is a real localdisk store: like most of perkeep's stores (and unlike memory.Storage)
// it stores whatever bytes it is handed under the given name without re-hashing them.
type diskBacking struct {
	*localdisk.DiskStorage
}

func (d diskBacking) BlobContents(br blob.Ref) (string, bool) {
	rc, _, err := d.Fetch(context.Background(), br)
	if err != nil {
		return "", false
	}
	defer rc.Close()
	b, err := io.ReadAll(rc)
	if err != nil {
		return "", false
	}
	return string(b), true
}

func (d diskBacking) BlobrefStrings() []string {
	var out []string
	blobserver.EnumerateAll(context.Background(), d.DiskStorage, func(sb blob.SizedRef) error {
		out = append(out, sb.Ref.String())
		return nil
	})
	return out
}

func (d diskBacking) NumBlobs() int { return len(d.BlobrefStrings()) }

// newLowDisk is a wrapped store backed by a localdisk directory.
func newLowDisk(name, dir string) (*lowStore, error) {
	if err := os.MkdirAll(dir, 0700); err != nil {
		return nil, err
	}
	ds, err := localdisk.New(dir)
	if err != nil {
		return nil, err
	}
	l := newLow(name)
	l.mem, l.loose = diskBacking{ds}, true
	return l, nil
}

func (l *lowStore) raw(ref blob.Ref) []byte {
	s, ok := l.mem.BlobContents(ref)
	if !ok {
		return nil
	}
	return []byte(s)
}

func (l *lowStore) refs() []blob.Ref {
	var out []blob.Ref
	for _, s := range l.mem.BlobrefStrings() {
		out = append(out, blob.MustParse(s))
	}
	return out
}

func (l *lowStore) setOver(ref blob.Ref, b []byte) {
	l.mu.Lock()
	l.over[ref] = b
	l.mu.Unlock()
}

func (l *lowStore) clearOver(ref blob.Ref) {
	l.mu.Lock()
	delete(l.over, ref)
	l.mu.Unlock()
}

func (l *lowStore) overOf(ref blob.Ref) ([]byte, bool) {
	l.mu.Lock()
	defer l.mu.Unlock()
	b, ok := l.over[ref]
	return b, ok
}

func (l *lowStore) Fetch(ctx context.Context, ref blob.Ref) (io.ReadCloser, uint32, error) {
	if b, ok := l.overOf(ref); ok {
		return io.NopCloser(bytes.NewReader(b)), uint32(len(b)), nil
	}
	return l.mem.Fetch(ctx, ref)
}

func (l *lowStore) StatBlobs(ctx context.Context, blobs []blob.Ref, fn func(blob.SizedRef) error) error {
	return l.mem.StatBlobs(ctx, blobs, func(sb blob.SizedRef) error {
		if b, ok := l.overOf(sb.Ref); ok {
			sb.Size = uint32(len(b))
		}
		return fn(sb)
	})
}

func (l *lowStore) EnumerateBlobs(ctx context.Context, dest chan<- blob.SizedRef, after string, limit int) error {
	l.mu.Lock()
	nover := len(l.over)
	l.mu.Unlock()
	if nover == 0 {
		return l.mem.EnumerateBlobs(ctx, dest, after, limit)
	}
	defer close(dest)
	ch := make(chan blob.SizedRef, 16)
	errc := make(chan error, 1)
	go func() { errc <- l.mem.EnumerateBlobs(ctx, ch, after, limit) }()
	for sb := range ch {
		if b, ok := l.overOf(sb.Ref); ok {
			sb.Size = uint32(len(b))
		}
		select {
		case dest <- sb:
		case <-ctx.Done():
			for range ch {
			}
			<-errc
			return ctx.Err()
		}
	}
	return <-errc
}

func (l *lowStore) record(e lowEvent) {
	l.mu.Lock()
	l.events = append(l.events, e)
	switch e.Op {
	case "ReceiveBlob":
		if !e.Err {
			l.uploadsOK[e.Inc]++
			if e.Size >= packedMin {
				l.packedOK[e.Inc]++
			}
			if l.fullMin > 0 && e.Size >= l.fullMin {
				l.fullOK[e.Inc]++
			}
		} else if e.Size >= packedMin {
			l.packedFail[e.Inc]++
		}
	case "RemoveBlobs":
		l.removesDone[e.Inc]++
		if !e.Err {
			l.compactDone[e.Inc]++
		}
	}
	l.mu.Unlock()
}

// view is the handle one incarnation of the encrypt store has on a lower store.
type view struct {
	in   *inst
	l    *lowStore
	inc  int
	dead *atomic.Bool // the incarnation crashed: no further effect
	plan *inject.Plan
	sf   *scanFault // not nil: one read fault aimed at the start-up scan of this incarnation (recover4.go)
}

func (v *view) Fetch(ctx context.Context, ref blob.Ref) (io.ReadCloser, uint32, error) {
	v.in.handed(v.l, "Fetch", "name", []byte(ref.String()), true)
	if v.sf != nil && v.sf.hitFetch(ref) {
		return v.sf.fetch(ctx, v.l, ref)
	}
	return v.l.Fetch(ctx, ref)
}
func (v *view) StatBlobs(ctx context.Context, blobs []blob.Ref, fn func(blob.SizedRef) error) error {
	for _, ref := range blobs {
		v.in.handed(v.l, "StatBlobs", "name", []byte(ref.String()), true)
	}
	return v.l.StatBlobs(ctx, blobs, fn)
}
func (v *view) EnumerateBlobs(ctx context.Context, dest chan<- blob.SizedRef, after string, limit int) error {
	v.in.handed(v.l, "EnumerateBlobs", "cursor", []byte(after), true)
	if v.sf != nil && v.sf.hitEnum() {
		return v.sf.enumerate(ctx, v.l, dest, after, limit)
	}
	return v.l.EnumerateBlobs(ctx, dest, after, limit)
}

func (v *view) crashNow() {
	v.dead.Store(true)
	v.plan.FreezeNow()
}

func (v *view) ReceiveBlob(ctx context.Context, br blob.Ref, src io.Reader) (blob.SizedRef, error) {
	l := v.l
	all, err := io.ReadAll(src)
	if err != nil {
		return blob.SizedRef{}, err
	}
	v.in.handed(l, "ReceiveBlob", "name", []byte(br.String()), true)
	v.in.handed(l, "ReceiveBlob", "body", all, false)
	l.gate.RLock()
	defer l.gate.RUnlock()
	if v.dead.Load() {
		return blob.SizedRef{}, inject.ErrFrozen
	}
	l.mu.Lock()
	ro, hook := l.readonly, l.hook
	l.mu.Unlock()
	if ro {
		return blob.SizedRef{}, errors.New("verif: wrapped store is read-only during the tamper phase")
	}
	if len(all) < packedMin && l.failOnce.CompareAndSwap(1, 0) {
		l.record(lowEvent{Inc: v.inc, Op: "ReceiveBlob", Refs: []blob.Ref{br}, Size: len(all), Err: true})
		return blob.SizedRef{}, errHook
	}
	act, crash := actPass, false
	if hook != nil {
		act, _, crash = hook("ReceiveBlob", []blob.Ref{br}, len(all))
	}
	if crash {
		defer v.crashNow()
	}
	if act == actFail {
		l.record(lowEvent{Inc: v.inc, Op: "ReceiveBlob", Refs: []blob.Ref{br}, Size: len(all), Err: true})
		return blob.SizedRef{}, errHook
	}
	sb, err := l.mem.ReceiveBlob(ctx, br, bytes.NewReader(all))
	if err == nil && act == actDoneFail {
		err = errHook
	}
	l.record(lowEvent{Inc: v.inc, Op: "ReceiveBlob", Refs: []blob.Ref{br}, Size: len(all), Err: err != nil})
	if err != nil {
		return blob.SizedRef{}, err
	}
	return sb, nil
}

func (v *view) RemoveBlobs(ctx context.Context, blobs []blob.Ref) error {
	l := v.l
	for _, ref := range blobs {
		v.in.handed(l, "RemoveBlobs", "name", []byte(ref.String()), true)
	}
	l.gate.RLock()
	defer l.gate.RUnlock()
	if v.dead.Load() {
		return inject.ErrFrozen
	}
	l.mu.Lock()
	ro, hook := l.readonly, l.hook
	l.mu.Unlock()
	if ro {
		return errors.New("verif: wrapped store is read-only during the tamper phase")
	}
	act, k, crash := actPass, 0, false
	if hook != nil {
		act, k, crash = hook("RemoveBlobs", blobs, 0)
	}
	if crash {
		defer v.crashNow()
	}
	refs := append([]blob.Ref(nil), blobs...)
	var err error
	switch act {
	case actFail:
		refs = nil
		err = errHook
	case actPartial:
		if k >= len(blobs) {
			k = len(blobs) - 1
		}
		if k > 0 {
			l.mem.RemoveBlobs(ctx, blobs[:k])
		}
		refs = refs[:k]
		err = errHook
	case actDoneFail:
		l.mem.RemoveBlobs(ctx, blobs)
		err = errHook
	default:
		err = l.mem.RemoveBlobs(ctx, blobs)
	}
	l.record(lowEvent{Inc: v.inc, Op: "RemoveBlobs", Refs: refs, Size: len(blobs), Err: err != nil})
	return err
}

func (l *lowStore) eventsFrom(i int) []lowEvent {
	l.mu.Lock()
	defer l.mu.Unlock()
	if i >= len(l.events) {
		return nil
	}
	return append([]lowEvent(nil), l.events[i:]...)
}

func (l *lowStore) nEvents() int {
	l.mu.Lock()
	defer l.mu.Unlock()
	return len(l.events)
}

// spyKV is the local meta index handed to the encrypt store.  It detects the one benign
// way a launched compaction ends without touching the meta store: its index lookup of the
// blob whose receive is still in flight misses (ReceiveBlob records the meta blob before
// it sets the index row).
//
// With watch set it also tells the lookups of compaction goroutines (makePackedMetaBlob is the
// entry function of the calling goroutine) from foreground lookups; that allows (a) waiting for
// the termination of exactly the compaction goroutines of this store, (b) a transient failure of
// the j-th lookup made by a compaction, (c) delaying the index row of the receive that triggers a
// compaction until the compaction has looked that row up (a slow, e.g. disk-backed, index).
type spyKV struct {
	sorted.KeyValue
	mu       sync.Mutex
	inflight string
	misses   int
	aborts   int

	watch      bool
	packers    map[int64]bool // goroutine ids seen inside makePackedMetaBlob, not yet known to have ended
	packerGets int
	packerErrs int // lookups of a compaction that returned an error (each ends that compaction on the unchanged tree)

	failPackerGet int // >0: the failPackerGet-th compaction lookup from now fails once with errKVTransient
	faultFired    int
	faultKey      string

	failSet      int // >0: the failSet-th Set from now fails once with errKVTransient (no effect)
	setFaultHits int

	// holdKey: the lookup of holdKey by a compaction goroutine waits until the foreground Set of holdKey
	// was made (forces the usual order of a receive's index row and the compaction that the receive launched)
	holdKey string
	holdCh  chan struct{}
	holdSet bool

	gateKey     string        // Set(gateKey) waits until a compaction looked gateKey up
	gateCh      chan struct{} // closed when that lookup was seen
	gateSeen    bool
	gateWaits   int
	gateExpired int
}

var errKVTransient = errors.New("verif: injected transient failure of a meta index call")

// gateLimit bounds the delay of a gated Set; its expiry only means the interleaving was not forced.
const gateLimit = 2 * time.Second

func (k *spyKV) begin(key string) {
	k.mu.Lock()
	k.inflight, k.misses = key, 0
	k.mu.Unlock()
}

func (k *spyKV) end() {
	k.mu.Lock()
	k.inflight, k.misses = "", 0
	k.mu.Unlock()
}

// packerGoid reports whether the calling goroutine is a compaction goroutine and its id.
func packerGoid() (int64, bool) {
	var buf [8192]byte
	b := buf[:runtime.Stack(buf[:], false)]
	if !bytes.Contains(b, []byte("makePackedMetaBlob")) {
		return 0, false
	}
	// "goroutine 123 [running]:"
	b = bytes.TrimPrefix(b, []byte("goroutine "))
	var id int64
	for _, c := range b {
		if c < '0' || c > '9' {
			break
		}
		id = id*10 + int64(c-'0')
	}
	return id, id != 0
}

func (k *spyKV) Get(key string) (string, error) {
	if !k.watch {
		v, err := k.KeyValue.Get(key)
		if err != nil {
			k.mu.Lock()
			if key == k.inflight && k.inflight != "" {
				k.misses++
				if k.misses >= 2 {
					k.aborts++
				}
			}
			k.mu.Unlock()
		}
		return v, err
	}
	goid, packer := packerGoid()
	if !packer {
		return k.KeyValue.Get(key)
	}
	k.mu.Lock()
	if k.packers == nil {
		k.packers = map[int64]bool{}
	}
	k.packers[goid] = true
	k.packerGets++
	var hold chan struct{}
	if key == k.holdKey && k.holdKey != "" && !k.holdSet {
		hold = k.holdCh
	}
	if hold != nil {
		k.mu.Unlock()
		tm := time.NewTimer(gateLimit)
		select {
		case <-hold:
		case <-tm.C:
		}
		tm.Stop()
		k.mu.Lock()
	}
	inject := false
	if k.failPackerGet > 0 {
		k.failPackerGet--
		if k.failPackerGet == 0 {
			inject = true
			k.faultFired++
			k.faultKey = key
		}
	}
	k.mu.Unlock()
	var v string
	var err error
	if inject {
		err = errKVTransient
	} else {
		v, err = k.KeyValue.Get(key)
	}
	k.mu.Lock()
	if err != nil {
		k.packerErrs++
		k.aborts++
	}
	if key == k.gateKey && k.gateKey != "" && !k.gateSeen {
		k.gateSeen = true
		close(k.gateCh)
	}
	k.mu.Unlock()
	return v, err
}

// armGate delays the next Set of key until a compaction goroutine has looked key up.
func (k *spyKV) armGate(key string) {
	k.mu.Lock()
	k.gateKey, k.gateCh, k.gateSeen = key, make(chan struct{}), false
	k.mu.Unlock()
}

// disarmGate returns whether the compaction's lookup of the gated key happened before its Set.
func (k *spyKV) disarmGate() (forced bool) {
	k.mu.Lock()
	defer k.mu.Unlock()
	forced = k.gateSeen && k.gateWaits > 0 && k.gateExpired == 0
	k.gateKey, k.gateWaits, k.gateExpired = "", 0, 0
	return forced
}

func (k *spyKV) Set(key, value string) error {
	k.mu.Lock()
	if k.failSet > 0 {
		if k.failSet--; k.failSet == 0 {
			k.setFaultHits++
			k.mu.Unlock()
			return errKVTransient
		}
	}
	var ch chan struct{}
	if key == k.gateKey && k.gateKey != "" {
		ch = k.gateCh
		k.gateWaits++
	}
	k.mu.Unlock()
	if ch != nil {
		tm := time.NewTimer(gateLimit)
		select {
		case <-ch:
		case <-tm.C:
			k.mu.Lock()
			k.gateExpired++
			k.mu.Unlock()
		}
		tm.Stop()
	}
	err := k.KeyValue.Set(key, value)
	k.mu.Lock()
	if key == k.holdKey && k.holdKey != "" && !k.holdSet {
		k.holdSet = true
		close(k.holdCh)
	}
	k.mu.Unlock()
	return err
}

// armHold makes a compaction's lookup of key wait (bounded) for the foreground Set of key.
func (k *spyKV) armHold(key string) {
	k.mu.Lock()
	k.holdKey, k.holdCh, k.holdSet = key, make(chan struct{}), false
	k.mu.Unlock()
}

// armPackerGetFault makes the j-th index lookup of compaction goroutines (counted from now) fail once.
func (k *spyKV) armPackerGetFault(j int) {
	k.mu.Lock()
	k.failPackerGet = j
	k.mu.Unlock()
}

// packerFault reports how many injected lookup failures fired and disarms a pending one.
func (k *spyKV) packerFault() (fired int, key string) {
	k.mu.Lock()
	defer k.mu.Unlock()
	k.failPackerGet = 0
	return k.faultFired, k.faultKey
}

func (k *spyKV) nAborts() int {
	k.mu.Lock()
	defer k.mu.Unlock()
	return k.aborts
}

func (k *spyKV) nPackerErrs() int {
	k.mu.Lock()
	defer k.mu.Unlock()
	return k.packerErrs
}

// waitPackers waits until none of the compaction goroutines that ever looked something up in this
// index exists any more (goroutine ids are never reused).  A timeout is reported by the caller as
// inconclusive.
func (k *spyKV) waitPackers(d time.Duration) bool {
	deadline := time.Now().Add(d)
	pause := 200 * time.Microsecond
	for {
		k.mu.Lock()
		n := len(k.packers)
		ids := make([]int64, 0, n)
		for id := range k.packers {
			ids = append(ids, id)
		}
		k.mu.Unlock()
		if n == 0 {
			return true
		}
		dump := growDump()
		k.mu.Lock()
		for _, id := range ids {
			if !bytes.Contains(dump, []byte(fmt.Sprintf("goroutine %d [", id))) {
				delete(k.packers, id)
			}
		}
		n = len(k.packers)
		k.mu.Unlock()
		if n == 0 {
			return true
		}
		if time.Now().After(deadline) {
			return false
		}
		time.Sleep(pause)
		if pause < 20*time.Millisecond {
			pause *= 2
		}
	}
}

// growDump returns the stacks of all goroutines.
func growDump() []byte {
	for n := 1 << 20; ; n *= 2 {
		buf := make([]byte, n)
		if m := runtime.Stack(buf, true); m < n {
			return buf[:m]
		}
		if n >= 256<<20 {
			return buf
		}
	}
}

// inst is one encrypt store over two harness-owned lower stores.
type inst struct {
	r       *ev.Run
	id      string
	keyFile string
	blobs   *lowStore
	meta    *lowStore

	inc      int
	dead     *atomic.Bool // of the current incarnation
	lastDead *atomic.Bool // of the most recent creation attempt
	plan     *inject.Plan
	lastPlan *inject.Plan // plan of the most recent creation attempt
	m0next   int          // meta blobs present at the most recent creation attempt
	kv       *spyKV
	S        blobserver.Storage
	m0       int // meta blobs present when the current incarnation started

	// skipMin > 0: size from which a meta blob has more than encrypt.FullMetaBlobSize lines (long histories; only
	// used to know which compactions to wait for)
	skipMin int

	// leak monitor over what is handed to the wrapped stores
	sc      *scanner
	argMu   sync.Mutex
	argSeen map[string]bool

	// options of the NEXT creation (reset by it)
	keepIndex sorted.KeyValue // not nil: the next incarnation gets this index instead of an empty one
	watchKV   bool            // every incarnation's index tells compaction lookups from foreground ones
	armKV     func(kv *spyKV) // prepares the next incarnation's index before the store is created
	scanFault *scanFault      // not nil: the next incarnation's meta store misbehaves once during its start-up scan
}

const agree = "that encryption support hasn't been peer-reviewed, isn't finished, and its format might change."

func newInst(r *ev.Run, root, id string) (*inst, error) {
	dir, err := os.MkdirTemp(root, id+"-")
	if err != nil {
		return nil, err
	}
	env := &sto.Env{Dir: dir}
	kf, err := sto.WriteAgeKey(env)
	if err != nil {
		return nil, err
	}
	return &inst{r: r, id: id, keyFile: kf, blobs: newLow("blobs"), meta: newLow("meta")}, nil
}

// create builds a NEW encrypt store over the same lower stores with fresh wrappers and an
// EMPTY meta index (unless keepIndex hands it a surviving one).  arm may prepare the plan before
// any call is made.
func (in *inst) create(arm func(p *inject.Plan)) (blobserver.Storage, *inject.Plan, *spyKV, error) {
	in.inc++
	in.m0next = in.meta.mem.NumBlobs()
	if in.skipMin > 0 {
		// meta blobs with more than encrypt.FullMetaBlobSize lines are not put on the small-meta heap
		in.m0next = 0
		blobserver.EnumerateAll(context.Background(), in.meta.mem, func(sb blob.SizedRef) error {
			if int(sb.Size) < in.skipMin {
				in.m0next++
			}
			return nil
		})
	}
	plan := inject.NewPlan()
	in.lastPlan = plan
	dead := new(atomic.Bool)
	in.lastDead = dead
	if arm != nil {
		arm(plan)
	}
	ld := sto.NewLoader()
	ld.Set("/enc-blobs/", inject.Wrap("blobs", &view{in: in, l: in.blobs, inc: in.inc, dead: dead, plan: plan}, plan))
	ld.Set("/enc-meta/", inject.Wrap("meta", &view{in: in, l: in.meta, inc: in.inc, dead: dead, plan: plan, sf: in.scanFault}, plan))
	in.scanFault = nil
	kv := &spyKV{KeyValue: sorted.NewMemoryKeyValue(), watch: in.watchKV}
	if in.keepIndex != nil {
		kv.KeyValue = in.keepIndex
		in.keepIndex = nil
	}
	if in.armKV != nil {
		in.armKV(kv)
		in.armKV = nil
	}
	name := fmt.Sprintf("c11-%s-%d", in.id, in.inc)
	kvc := inject.RegisterKV(name, kv)
	defer inject.UnregisterKV(name)
	conf := jsonconfig.Obj{
		"I_AGREE": agree, "keyFile": in.keyFile,
		"blobs": "/enc-blobs/", "meta": "/enc-meta/",
		"metaIndex": map[string]any(kvc),
	}
	type res struct {
		s   blobserver.Storage
		err error
	}
	done := make(chan res, 1)
	go func() {
		var s blobserver.Storage
		var err error
		if in.r.Guard("CreateStorage", map[string]any{"case_id": in.id, "incarnation": in.inc}, func() {
			s, err = blobserver.CreateStorage("encrypt", ld, conf)
		}) {
			err = errors.New("panic in CreateStorage")
		}
		done <- res{s, err}
	}()
	// Watchdog: the start-up scan takes milliseconds.  If it has not returned after createLimit the
	// goroutine dump decides: a lock cycle through perkeep frames is reported, anything else is inconclusive.
	tm := time.NewTimer(createLimit)
	defer tm.Stop()
	select {
	case x := <-done:
		return x.s, plan, kv, x.err
	case <-tm.C:
		in.reportHang()
		return nil, plan, kv, errHang
	}
}

const createLimit = 20 * time.Second

var errHang = errors.New("verif: CreateStorage(encrypt) did not return")

// lockCycle extracts from a goroutine dump the ids of the goroutines in the three roles of the
// start-up lock cycle: the meta-store enumeration of the start-up scan (holds the store's read
// lock while it sends), a compaction write waiting for the store's write lock, scan fetches
// waiting for the read lock behind that writer.
func lockCycle(dump string) (enum, writer, readers map[string]bool, frames []string) {
	enum, writer, readers = map[string]bool{}, map[string]bool{}, map[string]bool{}
	for _, g := range strings.Split(dump, "\n\n") {
		id := g
		if i := strings.IndexByte(g, '['); i > 0 {
			id = strings.TrimSpace(g[:i])
		}
		switch {
		case strings.Contains(g, "memory.(*Storage).EnumerateBlobs"):
			enum[id] = true
		case strings.Contains(g, "sync.(*RWMutex).Lock") && strings.Contains(g, "makePackedMetaBlob"):
			writer[id] = true
		case strings.Contains(g, "sync.(*RWMutex).RLock") && strings.Contains(g, "readAllMetaBlobs"):
			readers[id] = true
		default:
			continue
		}
		if len(frames) < 6 {
			frames = append(frames, ev.PerkeepFrames(g))
		}
	}
	return
}

func common(a, b map[string]bool) int {
	n := 0
	for k := range a {
		if b[k] {
			n++
		}
	}
	return n
}

func stackDump() string {
	buf := make([]byte, 16<<20)
	return string(buf[:runtime.Stack(buf, true)])
}

// reportHang inspects the goroutines of a start-up that did not return: the verdict needs the SAME
// goroutines in all three roles of the lock cycle in two dumps taken seconds apart.
func (in *inst) reportHang() {
	d1 := stackDump()
	time.Sleep(3 * time.Second)
	d2 := stackDump()
	e1, w1, r1, frames := lockCycle(d1)
	e2, w2, r2, _ := lockCycle(d2)
	fmt.Fprintf(os.Stderr, "c11: %s: CreateStorage did not return within %v; goroutine dump:\n%s\n", in.id, createLimit, d2)
	if ne, nw, nr := common(e1, e2), common(w1, w2), common(r1, r2); ne > 0 && nw > 0 && nr > 0 {
		in.r.Violation("hang/start-up-scan-vs-compaction",
			fmt.Sprintf("%s: CreateStorage(encrypt) with an empty index over %d meta blobs never returns: the start-up scan launched a compaction whose write to the meta store waits for the store's lock, which the still-running enumeration of the same store holds while its consumer waits for meta fetches that queue behind the writer (same goroutines in two dumps 3 s apart: enumerations holding the lock: %d, compaction writers waiting: %d, scan fetches waiting: %d)\n%s",
				in.id, in.m0next, ne, nw, nr, strings.Join(frames, "\n--\n")),
			map[string]any{"case_id": in.id, "incarnation": in.inc, "meta_blobs_at_start": in.m0next})
		return
	}
	in.r.Inconclusive(fmt.Sprintf("%s: CreateStorage(encrypt) did not return within %v and the goroutine dumps show no persistent lock cycle; see the worker log", in.id, createLimit))
}

// open replaces the current incarnation by a new one (the previous one must be frozen or idle).
func (in *inst) open(arm func(p *inject.Plan)) error {
	s, plan, kv, err := in.create(arm)
	m0 := in.m0next
	if err != nil {
		return err
	}
	in.S, in.plan, in.kv, in.m0, in.dead = s, plan, kv, m0, in.lastDead
	return nil
}

// crash ends the most recently created incarnation for good: its wrappers are frozen and,
// once crash returns, no write of it can take effect on the lower stores any more.
func (in *inst) crash() {
	in.lastPlan.FreezeNow()
	for _, l := range []*lowStore{in.blobs, in.meta} {
		l.gate.Lock()
		in.lastDead.Store(true)
		l.gate.Unlock()
	}
}

// compactionCounts returns (launched, terminated) compaction goroutines of the current
// incarnation as far as the harness can tell from the events it observed.
func (in *inst) compactionCounts() (launched, terminated int) {
	m := in.meta
	m.mu.Lock()
	up, rm, pf, full := m.uploadsOK[in.inc], m.removesDone[in.inc], m.packedFail[in.inc], m.fullOK[in.inc]
	m.mu.Unlock()
	return (in.m0 + up - full) / heapLimit, rm + pf + in.kv.nAborts()
}

// waitQuiesce waits (bounded) for every launched compaction to reach its terminal event.
// It is a wait for an event; a timeout is reported by the caller as inconclusive.
func (in *inst) waitQuiesce(d time.Duration) bool {
	deadline := time.Now().Add(d)
	for {
		l, t := in.compactionCounts()
		if t >= l || in.plan.Frozen() {
			return true
		}
		if time.Now().After(deadline) {
			return false
		}
		time.Sleep(200 * time.Microsecond)
	}
}

func fetchAll(s blobserver.Storage, ref blob.Ref) ([]byte, uint32, error) {
	rc, size, err := s.Fetch(context.Background(), ref)
	if err != nil {
		return nil, 0, err
	}
	defer rc.Close()
	b, err := io.ReadAll(rc)
	return b, size, err
}

// stat1 stats one ref: present, size, error.
func stat1(s blobserver.Storage, ref blob.Ref) (bool, uint32, error) {
	var got []blob.SizedRef
	var mu sync.Mutex
	err := s.StatBlobs(context.Background(), []blob.Ref{ref}, func(sb blob.SizedRef) error {
		mu.Lock()
		got = append(got, sb)
		mu.Unlock()
		return nil
	})
	if err != nil {
		return false, 0, err
	}
	for _, sb := range got {
		if sb.Ref == ref {
			return true, sb.Size, nil
		}
	}
	return false, 0, nil
}
