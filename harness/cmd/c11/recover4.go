package main

import (
	"context"
	"errors"
	"fmt"
	"io"
	"os"
	"sort"
	"sync"
	"time"

	"perkeep.org/pkg/blob"

	"verif.local/harness/ev"
)

// Start-up scans that meet a failing meta store.  The mapping plain ref -> ciphertext must be
// recoverable from the wrapped stores after the index is lost; the only code that recovers it is the
// start-up scan (list every meta blob, fetch and decode each).  When the LISTING of the meta store
// fails (at once, part-way, after the last entry, on the next page) or the FETCH of one listed meta
// blob fails (error, body that breaks off), the scan has not seen the whole mapping.  Oracle:
//
//   - CreateStorage fails: fine; the fault was transient, so the next creation (no fault, empty index)
//     must succeed and serve every acknowledged blob (whatever a compaction launched by the refused
//     scan did to the meta store meanwhile);
//   - CreateStorage succeeds: then the store it returned must serve every acknowledged blob
//     (stat-able with its size, enumerated once, fetched intact) -- a store that starts silently with
//     part of the mapping reports acknowledged blobs as missing.
var scanFaultKinds = []string{
	"listing-fails-at-once",
	"listing-fails-part-way",
	"listing-fails-after-the-last-entry",
	"listing-fails-on-the-next-page",
	"fetch-of-a-listed-meta-blob-fails",
	"fetch-body-of-a-listed-meta-blob-breaks-off",
	// not a fault of a wrapped store: one write of a recovered row into the (fresh, local) index fails
	"index-write-fails-during-the-scan",
}

// what the meta store holds when the faulted start-up scan runs
var scanFaultStates = []string{
	"small-meta-blobs-only",
	"packed-and-small-meta-blobs",
	"over-100-small-meta-blobs", // the scan itself launches a compaction once it has read 101 of them
}

// scanLaunch: a listing that delivered that many small meta blobs before it failed made the scan record
// more than 100 of them (a failing listing may leave up to 17 delivered entries unprocessed).  Only used
// to place the fault and to know whether a compaction is worth waiting for.
const scanLaunch = heapLimit + 17

// Round 7: the error KIND of the failing Fetch.  A listed meta blob whose Fetch answers os.ErrNotExist
// (a listing and a content that disagree for a moment: lagging replica, eventually consistent listing)
// is as unread as one whose Fetch fails otherwise: the scan must refuse or still end with the whole
// mapping.  Own case ids (sf1000...) so that the earlier cases keep their ids and seeds.
var scanFaultKinds7 = []string{
	"fetch-of-a-listed-meta-blob-says-not-found",
}

const scanFault7Base = 1000

var errScanFault = errors.New("verif: injected read failure of the wrapped meta store (transient)")

// scanFault is one read fault of the meta store handed to one incarnation.
type scanFault struct {
	kind string
	// listing: the enumCall-th EnumerateBlobs call (0-based; -1: none) delivers cut entries (cut < 0: all
	// it has), closes the channel and returns an error
	enumCall int
	cut      int
	// fetch: the first Fetch of fetchRef fails (bodyPermille < 0) or succeeds with a body that fails
	// after bodyPermille/1000 of its bytes
	fetchRef     blob.Ref
	bodyPermille int
	fetchErr     error // not nil: what the failing Fetch returns instead of errScanFault
	// index: the setCall-th Set (1-based; 0: none) of the new incarnation's index fails once
	setCall int
	kv      *spyKV

	mu        sync.Mutex
	enumCalls int
	fired     int
	listed    int // entries the hit listing had
	delivered int // entries it delivered before the error
}

func (f *scanFault) hitEnum() bool {
	f.mu.Lock()
	defer f.mu.Unlock()
	i := f.enumCalls
	f.enumCalls++
	if f.enumCall >= 0 && i == f.enumCall {
		f.fired++
		return true
	}
	return false
}

func (f *scanFault) hitFetch(ref blob.Ref) bool {
	f.mu.Lock()
	defer f.mu.Unlock()
	if f.fetchRef.Valid() && ref == f.fetchRef && f.fired == 0 {
		f.fired++
		return true
	}
	return false
}

func (f *scanFault) nFired() int {
	f.mu.Lock()
	defer f.mu.Unlock()
	if f.kv != nil {
		f.kv.mu.Lock()
		defer f.kv.mu.Unlock()
		return f.kv.setFaultHits
	}
	return f.fired
}

func (f *scanFault) enumerate(ctx context.Context, l *lowStore, dest chan<- blob.SizedRef, after string, limit int) error {
	defer close(dest)
	mid := make(chan blob.SizedRef, 16)
	errc := make(chan error, 1)
	go func() { errc <- l.EnumerateBlobs(ctx, mid, after, limit) }()
	var all []blob.SizedRef
	for sb := range mid {
		all = append(all, sb)
	}
	if err := <-errc; err != nil {
		return err
	}
	n := len(all)
	if f.cut >= 0 && f.cut < n {
		n = f.cut
	}
	for _, sb := range all[:n] {
		select {
		case dest <- sb:
		case <-ctx.Done():
			return ctx.Err()
		}
	}
	f.mu.Lock()
	f.listed, f.delivered = len(all), n
	f.mu.Unlock()
	return errScanFault
}

// brokenBody serves data and then fails instead of reporting the end.
type brokenBody struct{ data []byte }

func (b *brokenBody) Read(p []byte) (int, error) {
	if len(b.data) == 0 {
		return 0, errScanFault
	}
	n := copy(p, b.data)
	b.data = b.data[n:]
	return n, nil
}

func (b *brokenBody) Close() error { return nil }

func (f *scanFault) fetch(ctx context.Context, l *lowStore, ref blob.Ref) (io.ReadCloser, uint32, error) {
	if f.bodyPermille < 0 {
		if f.fetchErr != nil {
			return nil, 0, f.fetchErr
		}
		return nil, 0, errScanFault
	}
	rc, size, err := l.Fetch(ctx, ref)
	if err != nil {
		return nil, 0, err
	}
	all, err := io.ReadAll(rc)
	rc.Close()
	if err != nil {
		return nil, 0, err
	}
	return &brokenBody{data: all[:len(all)*f.bodyPermille/1000]}, size, nil
}

func (f *scanFault) describe() string {
	f.mu.Lock()
	defer f.mu.Unlock()
	switch {
	case f.setCall > 0:
		return fmt.Sprintf("%s: Set call #%d of the new meta index failed once", f.kind, f.setCall)
	case f.enumCall >= 0 && f.fired > 0:
		return fmt.Sprintf("%s: EnumerateBlobs call #%d of the meta store delivered %d of its %d entries, then failed", f.kind, f.enumCall, f.delivered, f.listed)
	case f.enumCall >= 0:
		return fmt.Sprintf("%s: EnumerateBlobs call #%d of the meta store (never made)", f.kind, f.enumCall)
	case f.bodyPermille < 0 && f.fetchErr != nil:
		return fmt.Sprintf("%s: Fetch(%s) of the meta store (a ref its listing returned) answered once with %q (errors.Is os.ErrNotExist: %v)", f.kind, f.fetchRef, f.fetchErr, errors.Is(f.fetchErr, os.ErrNotExist))
	case f.bodyPermille < 0:
		return fmt.Sprintf("%s: Fetch(%s) of the meta store failed once", f.kind, f.fetchRef)
	}
	return fmt.Sprintf("%s: the body of Fetch(%s) of the meta store failed once after %d/1000 of its bytes", f.kind, f.fetchRef, f.bodyPermille)
}

// packedBy reports how many packed meta blobs incarnation inc wrote and how many compactions of it
// reached a terminal event at the meta store.
func (l *lowStore) packedBy(inc int) (packed, ended int) {
	l.mu.Lock()
	defer l.mu.Unlock()
	return l.packedOK[inc], l.removesDone[inc] + l.packedFail[inc]
}

func runScanFault(r *ev.Run, root string, c int) {
	id := fmt.Sprintf("sf%d", c)
	if !r.Only(id + ";") {
		return
	}
	defer timed(id)()
	kind := scanFaultKinds[c%len(scanFaultKinds)]
	state := scanFaultStates[(c/len(scanFaultKinds))%len(scanFaultStates)]
	if c >= scanFault7Base {
		kind = scanFaultKinds7[(c-scanFault7Base)%len(scanFaultKinds7)]
		state = scanFaultStates[((c-scanFault7Base)/len(scanFaultKinds7))%len(scanFaultStates)]
	}
	in, err := newInst(r, root, id)
	if err != nil {
		r.Inconclusive("key file: " + err.Error())
		return
	}
	in.watchKV = true
	hs := newHistory(r, in, id, 0, "start-up-scan-fault/"+kind+"/"+state)
	in.sc = hs.sc
	rng := hs.rng
	first, n := "none", 5+rng.Intn(90)
	switch state {
	case "packed-and-small-meta-blobs":
		n = heapLimit + 4 + rng.Intn(80)
	case "over-100-small-meta-blobs":
		// every packed upload is refused: the small meta blobs stay and more accumulate
		first, n = "packed-upload-fails", 2*heapLimit+30+rng.Intn(60)
	}
	hs.rec.Receives = n
	if err := hs.open(first); err != nil {
		r.Violation("unrecoverable/empty", "creating an encrypt store over empty stores failed: "+err.Error(), hs.rec)
		return
	}
	if !hs.fill(n) || !hs.settle() {
		return
	}
	in.crash()
	in.meta.mu.Lock()
	in.meta.hook = nil
	in.meta.mu.Unlock()

	// the fault, placed from what the (now quiescent) meta store holds
	metaRefs := in.meta.refs()
	sort.Slice(metaRefs, func(i, j int) bool { return metaRefs[i].String() < metaRefs[j].String() })
	nm := len(metaRefs)
	if nm < 2 {
		r.Inconclusive(fmt.Sprintf("%s: only %d meta blobs below", id, nm))
		return
	}
	npacked := 0
	for _, ref := range metaRefs {
		if len(in.meta.raw(ref)) >= packedMin {
			npacked++
		}
	}
	f := &scanFault{kind: kind, enumCall: -1, bodyPermille: -1}
	switch kind {
	case "listing-fails-at-once":
		f.enumCall, f.cut = 0, 0
	case "listing-fails-part-way":
		f.enumCall = 0
		switch v := rng.Intn(4); {
		case v == 0:
			f.cut = 1
		case v == 1:
			f.cut = nm - 1
		case state == "over-100-small-meta-blobs" && nm > scanLaunch+1:
			f.cut = scanLaunch + rng.Intn(nm-scanLaunch) // enough for the refused scan to launch a compaction
		default:
			f.cut = 1 + rng.Intn(nm-1)
		}
	case "listing-fails-after-the-last-entry":
		f.enumCall, f.cut = 0, -1
	case "listing-fails-on-the-next-page":
		f.enumCall, f.cut = 1, 0
	case "index-write-fails-during-the-scan":
		// the scan writes one row per acknowledged blob
		f.setCall = 1 + rng.Intn(len(hs.acked))
		in.armKV = func(kv *spyKV) {
			f.kv = kv
			kv.failSet = f.setCall
		}
	default:
		f.fetchRef = metaRefs[rng.Intn(nm)]
		if npacked > 0 && rng.Intn(2) == 0 {
			// aim at a packed meta blob
			for _, ref := range metaRefs {
				if len(in.meta.raw(ref)) >= packedMin {
					f.fetchRef = ref
				}
			}
		}
		if kind == "fetch-of-a-listed-meta-blob-says-not-found" {
			// the plain error value every blobserver uses; later repetitions (thorough) also a wrapped one
			f.fetchErr = os.ErrNotExist
			if c-scanFault7Base >= len(scanFaultKinds7)*len(scanFaultStates) && rng.Intn(2) == 0 {
				f.fetchErr = fmt.Errorf("verif: meta blob %v: %w", f.fetchRef, os.ErrNotExist)
			}
		}
		if kind == "fetch-body-of-a-listed-meta-blob-breaks-off" {
			f.bodyPermille = []int{0, 500, 999, rng.Intn(1000)}[rng.Intn(4)]
		}
	}
	r.Note("scan_fault_states", state)
	if state == "packed-and-small-meta-blobs" && npacked == 0 {
		r.Note("scan_fault_states", state+"(no-compaction)")
	}

	// the faulted creation
	noteCompactions(r, in)
	in.scanFault = f
	s, plan, kv, cerr := in.create(nil)
	if cerr == errHang {
		return // reported by the creation watchdog
	}
	inc, m0 := in.inc, in.m0next
	fired := f.nFired() > 0
	hs.rec.Fault = f.describe()
	label := "start-up-scan-fault/" + kind
	if !fired {
		// the call aimed at was never made: an ordinary restart
		r.Note("scan_faults", kind+"/not-delivered")
		label = "start-up-scan-fault-not-delivered/" + kind
	} else {
		r.Note("scan_faults", kind)
		r.Count("scan_faults_delivered", 1)
	}
	hs.rec.Restarts = append(hs.rec.Restarts, fmt.Sprintf("%s@%d", label, len(hs.ackSeq)))
	next := "after-start-up-with-scan-fault/" + kind
	switch {
	case cerr != nil && !fired:
		r.Violation("unrecoverable/"+label, fmt.Sprintf("%s: with the meta index lost and no fault delivered, the store cannot be created from the wrapped stores: %v (acknowledged blobs: %d)", id, cerr, len(hs.acked)), hs.rec)
		return
	case cerr != nil:
		r.Note("scan_fault_outcomes", kind+"/creation-refused")
		r.Note("scan_fault_outcomes", state+"/creation-refused")
		next = "after-refused-start-up/" + kind
		// a compaction launched by the refused scan may be running: seeded, let it reach its terminal
		// event at the meta store (bounded wait for an event; proceeding without it is just another
		// crash point) or cut it off wherever it is
		if rng.Intn(2) == 0 {
			for deadline := time.Now().Add(3 * time.Second); time.Now().Before(deadline); time.Sleep(200 * time.Microsecond) {
				f.mu.Lock()
				launched := f.delivered >= scanLaunch
				f.mu.Unlock()
				if _, ended := in.meta.packedBy(inc); !launched || ended+kv.nAborts() > 0 {
					break
				}
			}
		}
		in.crash()
		in.kv = kv
		if packed, _ := in.meta.packedBy(inc); packed > 0 {
			r.Note("scan_fault_events", "compaction-launched-by-a-refused-start-up-scan/packed-meta-uploaded")
		}
	default:
		// the store started although its scan met the fault: it must know every acknowledged blob
		r.Note("scan_fault_outcomes", kind+"/creation-succeeded")
		in.S, in.plan, in.kv, in.m0, in.dead = s, plan, kv, m0, in.lastDead
		r.Count("restarts", 1)
		r.Note("restarts", label)
		hs.verify(label)
		in.kv.waitPackers(10 * time.Second) // its scan saw part of the meta store: the usual count of launched compactions does not apply
		in.crash()
	}
	// the fault is over: a creation with an empty index must recover everything
	if !hs.restart(next) {
		return
	}
	// and the store goes on: a few more receives, then the index is lost again
	if !hs.fill(rng.Intn(40)) || !hs.settle() {
		return
	}
	if !hs.lossRestart("final/after-start-up-scan-fault") {
		return
	}
	r.Count("scan_fault_histories", 1)
	hs.finish("start-up-scan-fault/" + kind + "/" + state)
}
