package main

// files / localdisk: every prefix of the last operation's VFS call sequence x {un-synced data kept,
// dropped, zeroed}, restart of a NEW files.Storage on the crash state, journal oracle.

import (
	"fmt"

	"perkeep.org/pkg/blobserver/files"

	"verif.local/harness/ev"
	"verif.local/harness/sto"
)

const vfsRoot = "/blobs"

var vfsVariants = []string{"kept", "dropped", "zeroed"}

type filesCase struct {
	state   *vstate
	variant string
	info    caseInfo
	hist    history
	idx     int
	cont    int // how the in-flight op is continued: remove: 0 re-receive, 1 re-remove; receive: 0 retry, 2 retry then remove
}

// filesCases executes the history on a live crash-VFS and returns one crash case per prefix of the
// last operation's call trace (plus cuts inside each Write) and variant.
func filesCases(r *ev.Run, w *world, h history) []filesCase {
	vfs := newCrashVFS(newVState(vfsRoot))
	s := files.NewStorage(vfs, vfsRoot)
	bad := func(sig, what string) {
		r.Violation("prefix-"+sig, "while executing the history prefix without any crash: "+what, caseInfo{CaseID: "files-" + h.ID + ";", Store: "files", History: h.strings(w)})
	}
	ck := sto.NewChecker(s, "files", fullCaps, w.Uni, bad)
	n := len(h.Ops)
	do := func(op hop) {
		if op.Recv {
			ck.Receive(w.Uni[op.B])
		} else {
			ck.Remove([]sto.Blob{w.Uni[op.B]})
		}
	}
	for _, op := range h.Ops[:n-1] {
		do(op)
	}
	snap := vfs.snapshot()
	p0 := vfs.logLen()
	last := h.Ops[n-1]
	do(last)
	tail := vfs.logFrom(p0)
	r.Eval(ck.Evals)
	opName := "remove"
	if last.Recv {
		opName = "recv"
	}
	for _, c := range tail {
		r.Note("vfs_calls_in_last_op", opName+"/"+c.Op)
	}
	r.Count("files_last_op_calls", len(tail))

	var out []filesCase
	hs := h.strings(w)
	mk := func(k int, partial int, kind, off string) {
		st := snap.clone()
		for _, c := range tail[:k] {
			if c.mutating() {
				st.apply(c)
			}
		}
		detail := fmt.Sprintf("crash after %d of %d VFS calls of the last op", k, len(tail))
		if partial > 0 {
			c := tail[k]
			c.Data = c.Data[:partial]
			st.apply(c)
			detail += fmt.Sprintf(" and %d of %d bytes of the next Write", partial, tail[k].N)
		}
		trace := ""
		for i, c := range tail {
			if i == k {
				trace += " <CRASH>"
			}
			trace += " " + c.Op
		}
		if k == len(tail) {
			trace += " <CRASH>"
		}
		unsynced := st.unsyncedBytes()
		for _, v := range vfsVariants {
			for cont := 0; cont < 3; cont++ {
				if cont == 1 && last.Recv || cont == 2 && (!last.Recv || partial > 0) {
					continue
				}
				idx := len(out)
				out = append(out, filesCase{state: st.crash(v), variant: v, hist: h, idx: idx, cont: cont, info: caseInfo{
					CaseID: fmt.Sprintf("files-%s-s%d;", h.ID, idx), Store: "files", Shape: h.Shape, History: hs,
					Kind: opName + "-" + kind + "-" + v, Off: off + []string{"", "/reremove", "/retry-remove"}[cont],
					Detail: fmt.Sprintf("%s; calls:%s; un-synced bytes at crash: %d (%s)", detail, trace, unsynced, v),
				}})
			}
		}
	}
	for k := 0; k <= len(tail); k++ {
		kind := "before-first-call"
		if k > 0 {
			kind = "after-" + tail[k-1].Op
		}
		mk(k, 0, kind, fmt.Sprintf("call%d", k))
		if k < len(tail) && tail[k].Op == "write" && tail[k].N > 1 {
			n := tail[k].N
			seen := map[int]bool{}
			for i, p := range []int{1, n / 2, n - 1} {
				if p <= 0 || p >= n || seen[p] {
					continue
				}
				seen[p] = true
				mk(k, p, "mid-write", []string{"first", "mid", "last"}[i])
			}
		}
	}
	return out
}

func runFilesCase(r *ev.Run, w *world, fc filesCase) {
	if !r.Only(fc.info.CaseID) {
		return
	}
	o := newOracle(r, w, fc.hist, fc.info)
	r.Guard("files-restart", fc.info, func() {
		vfs := newCrashVFS(fc.state)
		s := files.NewStorage(vfs, vfsRoot) // the restarted process
		ck := o.checker(s, "files")
		ck.Audit(o.rng, false)
		o.done(ck)
		o.continueHistory(ck, fc.cont)
		ck.Audit(o.rng, true)
		o.done(ck)
		// a second restart (every op acknowledged, un-synced data dropped) must still agree with the journal
		s2 := files.NewStorage(newCrashVFS(vfs.snapshot().crash("dropped")), vfsRoot)
		ck2 := o.checker(s2, "files")
		ck2.Audit(o.rng, false)
		o.done(ck2)
	})
	r.Count("restarts_files", 1)
	r.Note("restarts", "files/"+fc.info.Kind)
	r.Note("crash_points_files", fc.info.Kind[:len(fc.info.Kind)-len(fc.variant)-1])
	r.Note("vfs_variants", fc.variant)
	r.Distinct("files|" + fc.hist.ID + "|" + fc.info.Kind + "|" + fc.info.Off)
	if o.violations == 0 {
		r.Count("cases_held", 1)
	}
	if fc.idx >= 3 {
		sampleFirst(r, "files", map[string]any{"case": fc.info, "continued_with": o.trace})
	}
}
