package main

// An in-memory, crash-modelling implementation of files.VFS.
//
// Per file the model keeps the content the process sees (cur) and how much of it is durable
// (durLen: Write appends to cur only, Sync makes everything written so far durable).  Metadata
// operations (MkdirAll, TempFile creation, Rename, Remove, RemoveDir) are ordered and durable once
// they return.  Every call is logged; the mutating ones can be re-applied to a clone of an earlier
// state, which yields the state after any prefix of the call sequence.  crash() turns a state into
// what a restarted process finds: un-synced data kept, dropped, or replaced by zeros.

import (
	"bytes"
	"fmt"
	"io"
	"os"
	"path/filepath"
	"sort"
	"strings"
	"sync"
	"syscall"
	"time"

	"perkeep.org/pkg/blobserver/files"
)

type vcall struct {
	Op    string `json:"op"` // mkdirall tempfile write sync close rename remove removedir | stat lstat open readdir
	Path  string `json:"path,omitempty"`
	Path2 string `json:"path2,omitempty"`
	Ino   int    `json:"ino,omitempty"`
	Data  []byte `json:"-"`
	N     int    `json:"n,omitempty"`
}

func (c vcall) mutating() bool {
	switch c.Op {
	case "stat", "lstat", "open", "readdir", "syncfail":
		return false
	}
	return true
}

type inode struct {
	cur    []byte
	durLen int
}

type vstate struct {
	dirs    map[string]bool
	files   map[string]int
	inodes  map[int]*inode
	nextIno int
	nextTmp int
}

func newVState(root string) *vstate {
	st := &vstate{dirs: map[string]bool{}, files: map[string]int{}, inodes: map[int]*inode{}, nextIno: 1}
	st.mkdirAll(root)
	return st
}

func (st *vstate) clone() *vstate {
	n := &vstate{dirs: make(map[string]bool, len(st.dirs)), files: make(map[string]int, len(st.files)),
		inodes: make(map[int]*inode, len(st.inodes)), nextIno: st.nextIno, nextTmp: st.nextTmp}
	for k := range st.dirs {
		n.dirs[k] = true
	}
	for k, v := range st.files {
		n.files[k] = v
	}
	for k, v := range st.inodes {
		n.inodes[k] = &inode{cur: append([]byte(nil), v.cur...), durLen: v.durLen}
	}
	return n
}

func (st *vstate) mkdirAll(p string) {
	p = filepath.Clean(p)
	for p != "/" && p != "." {
		st.dirs[p] = true
		p = filepath.Dir(p)
	}
	st.dirs["/"] = true
}

// apply performs one mutating call on the state (no validation: the live VFS validated it).
func (st *vstate) apply(c vcall) {
	switch c.Op {
	case "mkdirall":
		st.mkdirAll(c.Path)
	case "tempfile":
		st.files[c.Path] = c.Ino
		st.inodes[c.Ino] = &inode{}
		if c.Ino >= st.nextIno {
			st.nextIno = c.Ino + 1
		}
		st.nextTmp++
	case "write":
		if in := st.inodes[c.Ino]; in != nil {
			in.cur = append(in.cur, c.Data...)
		}
	case "sync":
		if in := st.inodes[c.Ino]; in != nil {
			in.durLen = len(in.cur)
		}
	case "close":
	case "rename":
		if ino, ok := st.files[c.Path]; ok {
			delete(st.files, c.Path)
			st.files[c.Path2] = ino
		}
	case "remove", "removedir":
		delete(st.files, c.Path)
		if st.dirs[c.Path] {
			pre := c.Path + "/"
			for d := range st.dirs {
				if d == c.Path || strings.HasPrefix(d, pre) {
					delete(st.dirs, d)
				}
			}
			for f := range st.files {
				if strings.HasPrefix(f, pre) {
					delete(st.files, f)
				}
			}
		}
	}
}

// crash returns what a restarted process finds.  variant: "kept" (page cache survived: a killed
// process), "dropped" (un-synced data lost), "zeroed" (un-synced data lost but the file length was
// already journalled: the tail reads as zeros).  Unlinked inodes disappear.
func (st *vstate) crash(variant string) *vstate {
	n := &vstate{dirs: make(map[string]bool, len(st.dirs)), files: make(map[string]int, len(st.files)),
		inodes: map[int]*inode{}, nextIno: st.nextIno, nextTmp: st.nextTmp}
	for k := range st.dirs {
		n.dirs[k] = true
	}
	for p, ino := range st.files {
		in := st.inodes[ino]
		var content []byte
		switch variant {
		case "kept":
			content = append(content, in.cur...)
		case "dropped":
			content = append(content, in.cur[:in.durLen]...)
		case "zeroed":
			content = append(content, in.cur[:in.durLen]...)
			content = append(content, make([]byte, len(in.cur)-in.durLen)...)
		default:
			panic("variant " + variant)
		}
		n.files[p] = ino
		n.inodes[ino] = &inode{cur: content, durLen: len(content)}
	}
	return n
}

func (st *vstate) unsyncedBytes() int {
	n := 0
	for _, ino := range st.files {
		in := st.inodes[ino]
		n += len(in.cur) - in.durLen
	}
	return n
}

// crashVFS is the live VFS over a vstate.
type crashVFS struct {
	mu  sync.Mutex
	st  *vstate
	log []vcall
	// syncFault, when set, is consumed by the next Sync of a temp file: that Sync makes nothing
	// durable and returns the error (logged as the non-mutating call "syncfail").  See syncfault.go.
	syncFault error
}

var _ files.VFS = (*crashVFS)(nil)

func newCrashVFS(st *vstate) *crashVFS { return &crashVFS{st: st} }

func (v *crashVFS) logLen() int {
	v.mu.Lock()
	defer v.mu.Unlock()
	return len(v.log)
}

func (v *crashVFS) logFrom(i int) []vcall {
	v.mu.Lock()
	defer v.mu.Unlock()
	return append([]vcall(nil), v.log[i:]...)
}

func (v *crashVFS) snapshot() *vstate {
	v.mu.Lock()
	defer v.mu.Unlock()
	return v.st.clone()
}

func (v *crashVFS) do(c vcall) {
	if c.mutating() {
		v.st.apply(c)
	}
	c.N = len(c.Data)
	v.log = append(v.log, c)
}

func enoent(op, p string) error { return &os.PathError{Op: op, Path: p, Err: syscall.ENOENT} }

func (v *crashVFS) Remove(p string) error {
	p = filepath.Clean(p)
	v.mu.Lock()
	defer v.mu.Unlock()
	v.do(vcall{Op: "remove", Path: p}) // like osFS (robustio.RemoveAll): no error when absent
	return nil
}

func (v *crashVFS) RemoveDir(p string) error {
	p = filepath.Clean(p)
	v.mu.Lock()
	defer v.mu.Unlock()
	v.do(vcall{Op: "removedir", Path: p})
	return nil
}

type vinfo struct {
	name string
	size int64
	dir  bool
}

func (i vinfo) Name() string { return i.name }
func (i vinfo) Size() int64  { return i.size }
func (i vinfo) Mode() os.FileMode {
	if i.dir {
		return os.ModeDir | 0o700
	}
	return 0o600
}
func (i vinfo) ModTime() time.Time { return time.Date(2001, 1, 1, 0, 0, 0, 0, time.UTC) }
func (i vinfo) IsDir() bool        { return i.dir }
func (i vinfo) Sys() any           { return nil }

func (v *crashVFS) stat(op, p string) (os.FileInfo, error) {
	p = filepath.Clean(p)
	v.mu.Lock()
	defer v.mu.Unlock()
	v.do(vcall{Op: op, Path: p})
	if ino, ok := v.st.files[p]; ok {
		return vinfo{name: filepath.Base(p), size: int64(len(v.st.inodes[ino].cur))}, nil
	}
	if v.st.dirs[p] {
		return vinfo{name: filepath.Base(p), dir: true}, nil
	}
	return nil, enoent(op, p)
}

func (v *crashVFS) Stat(p string) (os.FileInfo, error)  { return v.stat("stat", p) }
func (v *crashVFS) Lstat(p string) (os.FileInfo, error) { return v.stat("lstat", p) }

type rfile struct{ *bytes.Reader }

func (rfile) Close() error { return nil }

func (v *crashVFS) Open(p string) (files.ReadableFile, error) {
	p = filepath.Clean(p)
	v.mu.Lock()
	defer v.mu.Unlock()
	v.do(vcall{Op: "open", Path: p})
	ino, ok := v.st.files[p]
	if !ok {
		return nil, enoent("open", p)
	}
	return rfile{bytes.NewReader(append([]byte(nil), v.st.inodes[ino].cur...))}, nil
}

func (v *crashVFS) MkdirAll(p string, perm os.FileMode) error {
	p = filepath.Clean(p)
	v.mu.Lock()
	defer v.mu.Unlock()
	for q := p; q != "/" && q != "."; q = filepath.Dir(q) {
		if _, isFile := v.st.files[q]; isFile {
			return &os.PathError{Op: "mkdir", Path: q, Err: syscall.ENOTDIR}
		}
	}
	v.do(vcall{Op: "mkdirall", Path: p})
	return nil
}

func (v *crashVFS) Rename(oldname, newname string) error {
	oldname, newname = filepath.Clean(oldname), filepath.Clean(newname)
	v.mu.Lock()
	defer v.mu.Unlock()
	if _, ok := v.st.files[oldname]; !ok {
		return &os.LinkError{Op: "rename", Old: oldname, New: newname, Err: syscall.ENOENT}
	}
	if !v.st.dirs[filepath.Dir(newname)] {
		return &os.LinkError{Op: "rename", Old: oldname, New: newname, Err: syscall.ENOENT}
	}
	if v.st.dirs[newname] {
		return &os.LinkError{Op: "rename", Old: oldname, New: newname, Err: syscall.EISDIR}
	}
	v.do(vcall{Op: "rename", Path: oldname, Path2: newname})
	return nil
}

type wfile struct {
	v      *crashVFS
	ino    int
	name   string
	closed bool
}

var _ files.WritableFile = (*wfile)(nil)

func (v *crashVFS) TempFile(dir, prefix string) (files.WritableFile, error) {
	dir = filepath.Clean(dir)
	v.mu.Lock()
	defer v.mu.Unlock()
	if !v.st.dirs[dir] {
		return nil, enoent("open", filepath.Join(dir, prefix))
	}
	var name string
	for {
		name = filepath.Join(dir, fmt.Sprintf("%s%09d", prefix, 100000+v.st.nextTmp))
		if _, ok := v.st.files[name]; !ok {
			break
		}
		v.st.nextTmp++
	}
	ino := v.st.nextIno
	v.do(vcall{Op: "tempfile", Path: name, Ino: ino})
	return &wfile{v: v, ino: ino, name: name}, nil
}

func (w *wfile) Name() string { return w.name }

func (w *wfile) Write(p []byte) (int, error) {
	w.v.mu.Lock()
	defer w.v.mu.Unlock()
	if w.closed {
		return 0, os.ErrClosed
	}
	w.v.do(vcall{Op: "write", Ino: w.ino, Path: w.name, Data: append([]byte(nil), p...)})
	return len(p), nil
}

func (w *wfile) Sync() error {
	w.v.mu.Lock()
	defer w.v.mu.Unlock()
	if w.closed {
		return os.ErrClosed
	}
	if err := w.v.syncFault; err != nil {
		w.v.syncFault = nil
		w.v.do(vcall{Op: "syncfail", Ino: w.ino, Path: w.name})
		return err
	}
	w.v.do(vcall{Op: "sync", Ino: w.ino, Path: w.name})
	return nil
}

func (w *wfile) Close() error {
	w.v.mu.Lock()
	defer w.v.mu.Unlock()
	if w.closed {
		return os.ErrClosed
	}
	w.closed = true
	w.v.do(vcall{Op: "close", Ino: w.ino, Path: w.name})
	return nil
}

func (v *crashVFS) ReadDirNames(dir string) ([]string, error) {
	dir = filepath.Clean(dir)
	v.mu.Lock()
	defer v.mu.Unlock()
	v.do(vcall{Op: "readdir", Path: dir})
	if !v.st.dirs[dir] {
		return nil, enoent("open", dir)
	}
	var names []string
	for d := range v.st.dirs {
		if d != dir && filepath.Dir(d) == dir {
			names = append(names, filepath.Base(d))
		}
	}
	for f := range v.st.files {
		if filepath.Dir(f) == dir {
			names = append(names, filepath.Base(f))
		}
	}
	sort.Sort(sort.Reverse(sort.StringSlice(names))) // any order is legal; not the sorted one
	return names, nil
}

var _ io.Reader = rfile{}
