package main

// Power-loss ordering on the real OS, observed with strace: a child runs a bounded receive/remove
// loop on localdisk / diskpacked; the system-call trace (write, pwrite64, fallocate, fsync,
// fdatasync with fd paths) is replayed against a per-file dirty bit.  At the instant a receive is
// acknowledged (the child's journal "A" line) no blob-data file written during that receive may
// still have un-synced bytes: the page cache hides a missing fsync from every SIGKILL test, this
// does not.  (The index KV's own durability is not judged here.)

import (
	"bufio"
	"bytes"
	"fmt"
	"math/rand"
	"os"
	"os/exec"
	"path/filepath"
	"regexp"
	"sort"
	"strings"
	"sync"
	"time"

	"verif.local/harness/ev"
	"verif.local/harness/sto"
)

// packWrites is what the system-call trace of the diskpacked child shows about the ORDER in which
// one RemoveBlobs changes a pack file: "H" = the record header is rewritten (pwrite64 of the
// xxxx-0000 marker), "Z" = the body is released (fallocate punch, or a write of zero bytes).  The
// crash-state materialiser (packed.go) can see the pack only at the index-mutation instant; which
// of header and body is changed first BETWEEN two such instants is taken from here, so that "what a
// process death can leave" follows the code under test and is not assumed.
type packWrites struct {
	ready  chan struct{} // closed when the trace was evaluated (or cannot be had)
	mu     sync.Mutex
	orders map[string]int // "H,Z" / "Z,H" -> removes (of a present, non-empty blob) that showed it
	other  map[string]int // any other pattern (not modelled)
	source string
	// the same for the removes the child made with hole punching refused (zero-fill fallback)
	ordersNP map[string]int
}

var packOrder = &packWrites{ready: make(chan struct{}), orders: map[string]int{}, ordersNP: map[string]int{}, other: map[string]int{}, source: "assumed (no system-call trace)"}

// removeOrders waits for the trace and returns the observed relative orders of header rewrite and
// body release ("HZ", "ZH"); without an observation the order of dele.go as it was read (header
// first) is assumed and said so in the evidence.
//
// noPunch selects the observation of the removes made without hole punching (the zero-fill
// fallback is other code than the punch: its order is observed separately).
func (p *packWrites) removeOrders(noPunch bool) (orders []string, source string) {
	<-p.ready
	p.mu.Lock()
	defer p.mu.Unlock()
	m, src := p.orders, p.source
	if noPunch {
		m, src = p.ordersNP, p.source+", removes with the hole punch refused"
	}
	for k := range m {
		orders = append(orders, strings.ReplaceAll(k, ",", ""))
	}
	sort.Strings(orders)
	if len(orders) == 0 {
		return []string{"HZ"}, "assumed"
	}
	return orders, src
}

var (
	reSysStart  = regexp.MustCompile(`^(\d+)\s+(write|pwrite64|fsync|fdatasync|fallocate)\((\d+)<([^>]*)>(.*)$`)
	reSysResume = regexp.MustCompile(`^(\d+)\s+<\.\.\. (\w+) resumed>`)
	reQuoted    = regexp.MustCompile(`^, "((?:[^"\\]|\\.)*)"`)
)

var (
	reDeletedMarker = regexp.MustCompile(`^x+-0*$`)
	reZeros         = regexp.MustCompile(`^(\\0)+$`)
)

// probeBlobs are received and removed one by one at the end of the traced diskpacked child, so
// that the trace shows a remove of a present blob for a spread of body sizes.
var probeSizes = []int{1, 40, 300, 5000, 70000, 1 << 20}

func addProbeBlobs(w *world, seed int64) {
	rng := rand.New(rand.NewSource(seed ^ 0x70be))
	for _, n := range probeSizes {
		data := randBytes(rng, n)
		data[0] |= 1 // never an all-zero body
		w.Uni = append(w.Uni, sto.Blob{Ref: sto.RefOf("sha224", data), Data: data})
	}
}

// syscallOrder traces one child.  observeOnly (a replay of another case): the trace is only read
// for the pack write order of removes, the fsync-before-ack oracle is not evaluated.
func syscallOrder(r *ev.Run, kind, scratch string, observeOnly bool) {
	packedKind := strings.HasPrefix(kind, "diskpacked")
	if packedKind {
		defer close(packOrder.ready)
	}
	strace, err := exec.LookPath("strace")
	if err != nil {
		return
	}
	exe, _ := os.Executable()
	rng := r.Rand("syscall-order/" + kind)
	wseed, oseed := rng.Int63(), rng.Int63()
	w := killWorld(wseed)
	if packedKind {
		addProbeBlobs(w, wseed)
	}
	dir := filepath.Join(scratch, "so-"+kind)
	os.MkdirAll(dir, 0o755)
	defer os.RemoveAll(dir)
	jpath := filepath.Join(scratch, "so-journal-"+kind)
	tpath := filepath.Join(scratch, "so-trace-"+kind)
	defer os.Remove(jpath)
	defer os.Remove(tpath)
	cmd := exec.Command(strace, "-f", "-y", "-s", "24", "-e", "trace=write,pwrite64,fsync,fdatasync,fallocate", "-o", tpath, exe)
	cmd.Env = append(os.Environ(), "VERIF_CHILD=c03kill", "VERIF_WORKER=", "C03_STORE="+kind, "C03_DIR="+dir, "C03_JOURNAL="+jpath,
		fmt.Sprintf("C03_WSEED=%d", wseed), fmt.Sprintf("C03_OSEED=%d", oseed), "C03_MAXOPS=40")
	if packedKind {
		cmd.Env = append(cmd.Env, "C03_ORDER_PROBE=1")
	}
	var out bytes.Buffer
	cmd.Stdout, cmd.Stderr = &out, &out
	done := make(chan error, 1)
	if err := cmd.Start(); err != nil {
		r.Extra("syscall_order_"+kind, "unavailable: "+err.Error())
		return
	}
	go func() { done <- cmd.Wait() }()
	select {
	case err = <-done:
	case <-time.After(180 * time.Second):
		cmd.Process.Kill()
		<-done
		r.Extra("syscall_order_"+kind, "unavailable: traced child did not finish in 180s")
		return
	}
	f, ferr := os.Open(tpath)
	if err != nil || ferr != nil {
		r.Extra("syscall_order_"+kind, fmt.Sprintf("unavailable: strace run failed: %v %v %s", err, ferr, firstLine(out.String())))
		return
	}
	defer f.Close()

	type pend struct{ name, path string }
	pending := map[string]pend{}
	dirtyRecv := map[string]int{} // blob-data file -> un-synced bytes written during a receive
	dirtyOther := map[string]bool{}
	var cur *hop
	curNo := ""
	var curPack []string // pack-file effects of the remove that is open, in trace order
	removesSeen := 0
	noPunchRound := false // the child said that from here on its removes are refused the hole punch
	removesSeenNP, punchesInNP := 0, 0
	acks, recvAcks, fsyncs, dataWrites := 0, 0, 0, 0
	idxDir := filepath.Join(dir, "idx") + string(filepath.Separator)
	isData := func(p string) bool {
		if !strings.HasPrefix(p, dir+string(filepath.Separator)) || strings.HasPrefix(p, idxDir) {
			return false
		}
		b := filepath.Base(p)
		return strings.HasSuffix(b, ".blobs") || strings.Contains(b, ".dat")
	}
	synced := func(p string) {
		fsyncs++
		delete(dirtyRecv, p)
		delete(dirtyOther, p)
	}
	sc := bufio.NewScanner(f)
	sc.Buffer(make([]byte, 1<<20), 1<<22)
	for sc.Scan() {
		line := sc.Text()
		if m := reSysResume.FindStringSubmatch(line); m != nil {
			p, ok := pending[m[1]]
			delete(pending, m[1])
			if ok && (p.name == "fsync" || p.name == "fdatasync") && strings.Contains(line, "= 0") {
				synced(p.path)
			}
			continue
		}
		m := reSysStart.FindStringSubmatch(line)
		if m == nil {
			continue
		}
		pid, name, path, rest := m[1], m[2], m[4], m[5]
		unfinished := strings.Contains(rest, "<unfinished")
		if unfinished {
			pending[pid] = pend{name, path}
		}
		switch name {
		case "fsync", "fdatasync":
			if !unfinished && strings.Contains(rest, "= 0") {
				synced(path)
			}
		default: // write, pwrite64, fallocate
			if path == jpath {
				q := reQuoted.FindStringSubmatch(rest)
				if q == nil {
					continue
				}
				fs := strings.Fields(strings.ReplaceAll(q[1], `\n`, ""))
				if len(fs) >= 2 && fs[0] == "N" && fs[1] == "nopunch" {
					noPunchRound = true
				} else if len(fs) >= 4 && fs[0] == "B" {
					cur, curNo = &hop{Recv: fs[2] == "R"}, fs[1]
					fmt.Sscan(fs[3], &cur.B)
					curPack = nil
				} else if len(fs) >= 2 && fs[0] == "A" && cur != nil && fs[1] == curNo {
					acks++
					if !cur.Recv && packedKind && len(curPack) > 0 {
						// the order in which this acknowledged remove changed the pack
						removesSeen++
						pat := strings.Join(curPack, ",")
						size := -1
						if cur.B >= 0 && cur.B < len(w.Uni) {
							size = len(w.Uni[cur.B].Data)
						}
						mode := ""
						packOrder.mu.Lock()
						switch {
						case (pat == "H,Z" || pat == "Z,H") && noPunchRound:
							packOrder.ordersNP[pat]++
							removesSeenNP++
							mode = " without hole punching"
						case pat == "H,Z" || pat == "Z,H":
							packOrder.orders[pat]++
						case pat == "H" && size == 0:
						default:
							packOrder.other[pat]++
						}
						packOrder.mu.Unlock()
						r.Note("observed_pack_write_order", fmt.Sprintf("remove%s (body %s): %s", mode, sizeClass(size), pat))
					}
					if cur.Recv && observeOnly {
						dirtyRecv = map[string]int{}
					} else if cur.Recv {
						recvAcks++
						r.Eval(1)
						for p, n := range dirtyRecv {
							label := "localdisk"
							if strings.HasPrefix(kind, "diskpacked") {
								label = "diskpacked"
							}
							r.Violation("unsynced-at-ack/"+label,
								fmt.Sprintf("[%s] receive #%s of blob #%d(%dB) was acknowledged while %d write call(s) to %s made during that receive were not followed by an fsync: a power loss after the ack loses or tears an acknowledged blob",
									kind, curNo, cur.B, len(w.Uni[cur.B].Data), n, strings.TrimPrefix(p, dir)),
								caseInfo{CaseID: "syscall-order-" + kind + ";", Store: kind, Kind: "power-loss-after-ack", Detail: "strace -f -y of a child running 40 receive/remove ops; dirty bit per blob-data file"})
							delete(dirtyRecv, p)
						}
					} else if len(dirtyOther) > 0 {
						r.Count("remove_acks_with_unsynced_pack_bytes", 1)
					}
					cur = nil
				}
				continue
			}
			if !isData(path) {
				continue
			}
			dataWrites++
			if cur != nil && !cur.Recv && strings.HasSuffix(path, ".blobs") && !strings.Contains(rest, "= -1 ") {
				e := "?" + name
				q := reQuoted.FindStringSubmatch(rest)
				switch {
				case name == "fallocate":
					e = "Z"
					if noPunchRound {
						punchesInNP++
					}
				case q != nil && name == "pwrite64" && reDeletedMarker.MatchString(q[1]):
					e = "H"
				case q != nil && reZeros.MatchString(q[1]):
					e = "Z"
				}
				// the FIRST occurrence of an effect is when the pack content changes: repeating it
				// (zero fill, then a punch of the same extent) changes no byte
				seen := false
				for _, x := range curPack {
					seen = seen || x == e
				}
				if !seen {
					curPack = append(curPack, e)
				}
			}
			if cur != nil && cur.Recv {
				dirtyRecv[path]++
			} else {
				dirtyOther[path] = true
			}
		}
	}
	if packedKind {
		packOrder.mu.Lock()
		if len(packOrder.orders) > 0 {
			packOrder.source = "strace of the " + kind + " child"
			r.Note("events", "remove-pack-order-observed")
		}
		if len(packOrder.ordersNP) > 0 && punchesInNP == 0 {
			r.Note("events", "remove-pack-order-observed-nopunch")
		}
		if punchesInNP > 0 {
			r.Inconclusive(fmt.Sprintf("the traced child made %d fallocate call(s) on pack files after it had switched hole punching off: the diskpacked verif hook is not effective", punchesInNP))
		}
		r.Count("removes_with_pack_write_order_observed_nopunch", removesSeenNP)
		for pat, n := range packOrder.other {
			// the materialiser models one header rewrite and one body release per remove
			r.Inconclusive(fmt.Sprintf("diskpacked remove changed the pack in a pattern the crash-state materialiser does not model: %q (%d removes; H = deleted-marker pwrite, Z = punch / zero fill)", pat, n))
		}
		packOrder.mu.Unlock()
		r.Count("removes_with_pack_write_order_observed", removesSeen)
	}
	if observeOnly {
		return
	}
	r.Extra("syscall_order_"+kind, map[string]int{"acks": acks, "receive_acks_checked": recvAcks, "fsyncs_seen": fsyncs, "blob_data_writes_seen": dataWrites})
	if recvAcks > 0 && dataWrites > 0 {
		sampleFirst(r, "syscall-order", map[string]any{"case": "strace -f -y of a child running 40 receive/remove ops on " + kind, "receive_acks_checked": recvAcks, "blob_data_writes": dataWrites, "fsyncs": fsyncs})
		r.Note("events", "syscall-order-"+kind)
		r.Distinct("syscall-order|" + kind)
	} else {
		r.Extra("syscall_order_"+kind+"_problem", fmt.Sprintf("trace unusable: acks=%d writes=%d fsyncs=%d child output: %s", recvAcks, dataWrites, fsyncs, firstLine(out.String())))
	}
}

// straceUsable reports whether strace exists and may trace a child here.
func straceUsable() (bool, string) {
	strace, err := exec.LookPath("strace")
	if err != nil {
		return false, err.Error()
	}
	if out, err := exec.Command(strace, "-o", os.DevNull, "-e", "trace=fsync", "true").CombinedOutput(); err != nil {
		return false, fmt.Sprintf("%v: %s", err, firstLine(string(out)))
	}
	return true, ""
}

func sizeClass(n int) string {
	switch {
	case n < 0:
		return "unknown"
	case n == 0:
		return "empty"
	case n <= 4096:
		return "<=4K"
	case n <= 256<<10:
		return "<=256K"
	}
	return ">256K"
}

func firstLine(s string) string {
	if i := strings.IndexByte(s, '\n'); i >= 0 {
		s = s[:i]
	}
	if len(s) > 200 {
		s = s[:200]
	}
	return s
}
