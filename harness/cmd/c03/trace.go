package main

// Power-loss ordering on the real OS, observed with strace: a child runs a bounded receive/remove
// loop on localdisk / diskpacked; the system-call trace (write, pwrite64, fallocate, fsync,
// fdatasync with fd paths) is replayed against a per-file dirty bit.  At the instant a receive is
// acknowledged (the child's journal "A" line) no blob-data file written during that receive may
// still have un-synced bytes: the page cache hides a missing fsync from every SIGKILL test, this
// does not.  (The index KV's own durability is not judged here.)

import (
	"bufio"
	"bytes"
	"fmt"
	"os"
	"os/exec"
	"path/filepath"
	"regexp"
	"strings"
	"time"

	"verif.local/harness/ev"
)

var (
	reSysStart  = regexp.MustCompile(`^(\d+)\s+(write|pwrite64|fsync|fdatasync|fallocate)\((\d+)<([^>]*)>(.*)$`)
	reSysResume = regexp.MustCompile(`^(\d+)\s+<\.\.\. (\w+) resumed>`)
	reQuoted    = regexp.MustCompile(`^, "((?:[^"\\]|\\.)*)"`)
)

func syscallOrder(r *ev.Run, kind, scratch string) {
	strace, err := exec.LookPath("strace")
	if err != nil {
		return
	}
	exe, _ := os.Executable()
	rng := r.Rand("syscall-order/" + kind)
	wseed, oseed := rng.Int63(), rng.Int63()
	w := killWorld(wseed)
	dir := filepath.Join(scratch, "so-"+kind)
	os.MkdirAll(dir, 0o755)
	defer os.RemoveAll(dir)
	jpath := filepath.Join(scratch, "so-journal-"+kind)
	tpath := filepath.Join(scratch, "so-trace-"+kind)
	defer os.Remove(jpath)
	defer os.Remove(tpath)
	cmd := exec.Command(strace, "-f", "-y", "-s", "24", "-e", "trace=write,pwrite64,fsync,fdatasync,fallocate", "-o", tpath, exe)
	cmd.Env = append(os.Environ(), "VERIF_CHILD=c03kill", "VERIF_WORKER=", "C03_STORE="+kind, "C03_DIR="+dir, "C03_JOURNAL="+jpath,
		fmt.Sprintf("C03_WSEED=%d", wseed), fmt.Sprintf("C03_OSEED=%d", oseed), "C03_MAXOPS=40")
	var out bytes.Buffer
	cmd.Stdout, cmd.Stderr = &out, &out
	done := make(chan error, 1)
	if err := cmd.Start(); err != nil {
		r.Extra("syscall_order_"+kind, "unavailable: "+err.Error())
		return
	}
	go func() { done <- cmd.Wait() }()
	select {
	case err = <-done:
	case <-time.After(180 * time.Second):
		cmd.Process.Kill()
		<-done
		r.Extra("syscall_order_"+kind, "unavailable: traced child did not finish in 180s")
		return
	}
	f, ferr := os.Open(tpath)
	if err != nil || ferr != nil {
		r.Extra("syscall_order_"+kind, fmt.Sprintf("unavailable: strace run failed: %v %v %s", err, ferr, firstLine(out.String())))
		return
	}
	defer f.Close()

	type pend struct{ name, path string }
	pending := map[string]pend{}
	dirtyRecv := map[string]int{} // blob-data file -> un-synced bytes written during a receive
	dirtyOther := map[string]bool{}
	var cur *hop
	curNo := ""
	acks, recvAcks, fsyncs, dataWrites := 0, 0, 0, 0
	idxDir := filepath.Join(dir, "idx") + string(filepath.Separator)
	isData := func(p string) bool {
		if !strings.HasPrefix(p, dir+string(filepath.Separator)) || strings.HasPrefix(p, idxDir) {
			return false
		}
		b := filepath.Base(p)
		return strings.HasSuffix(b, ".blobs") || strings.Contains(b, ".dat")
	}
	synced := func(p string) {
		fsyncs++
		delete(dirtyRecv, p)
		delete(dirtyOther, p)
	}
	sc := bufio.NewScanner(f)
	sc.Buffer(make([]byte, 1<<20), 1<<22)
	for sc.Scan() {
		line := sc.Text()
		if m := reSysResume.FindStringSubmatch(line); m != nil {
			p, ok := pending[m[1]]
			delete(pending, m[1])
			if ok && (p.name == "fsync" || p.name == "fdatasync") && strings.Contains(line, "= 0") {
				synced(p.path)
			}
			continue
		}
		m := reSysStart.FindStringSubmatch(line)
		if m == nil {
			continue
		}
		pid, name, path, rest := m[1], m[2], m[4], m[5]
		unfinished := strings.Contains(rest, "<unfinished")
		if unfinished {
			pending[pid] = pend{name, path}
		}
		switch name {
		case "fsync", "fdatasync":
			if !unfinished && strings.Contains(rest, "= 0") {
				synced(path)
			}
		default: // write, pwrite64, fallocate
			if path == jpath {
				q := reQuoted.FindStringSubmatch(rest)
				if q == nil {
					continue
				}
				fs := strings.Fields(strings.ReplaceAll(q[1], `\n`, ""))
				if len(fs) >= 4 && fs[0] == "B" {
					cur, curNo = &hop{Recv: fs[2] == "R"}, fs[1]
					fmt.Sscan(fs[3], &cur.B)
				} else if len(fs) >= 2 && fs[0] == "A" && cur != nil && fs[1] == curNo {
					acks++
					if cur.Recv {
						recvAcks++
						r.Eval(1)
						for p, n := range dirtyRecv {
							label := "localdisk"
							if strings.HasPrefix(kind, "diskpacked") {
								label = "diskpacked"
							}
							r.Violation("unsynced-at-ack/"+label,
								fmt.Sprintf("[%s] receive #%s of blob #%d(%dB) was acknowledged while %d write call(s) to %s made during that receive were not followed by an fsync: a power loss after the ack loses or tears an acknowledged blob",
									kind, curNo, cur.B, len(w.Uni[cur.B].Data), n, strings.TrimPrefix(p, dir)),
								caseInfo{CaseID: "syscall-order-" + kind + ";", Store: kind, Kind: "power-loss-after-ack", Detail: "strace -f -y of a child running 40 receive/remove ops; dirty bit per blob-data file"})
							delete(dirtyRecv, p)
						}
					} else if len(dirtyOther) > 0 {
						r.Count("remove_acks_with_unsynced_pack_bytes", 1)
					}
					cur = nil
				}
				continue
			}
			if !isData(path) {
				continue
			}
			dataWrites++
			if cur != nil && cur.Recv {
				dirtyRecv[path]++
			} else {
				dirtyOther[path] = true
			}
		}
	}
	r.Extra("syscall_order_"+kind, map[string]int{"acks": acks, "receive_acks_checked": recvAcks, "fsyncs_seen": fsyncs, "blob_data_writes_seen": dataWrites})
	if recvAcks > 0 && dataWrites > 0 {
		sampleFirst(r, "syscall-order", map[string]any{"case": "strace -f -y of a child running 40 receive/remove ops on " + kind, "receive_acks_checked": recvAcks, "blob_data_writes": dataWrites, "fsyncs": fsyncs})
		r.Note("events", "syscall-order-"+kind)
		r.Distinct("syscall-order|" + kind)
	} else {
		r.Extra("syscall_order_"+kind+"_problem", fmt.Sprintf("trace unusable: acks=%d writes=%d fsyncs=%d child output: %s", recvAcks, dataWrites, fsyncs, firstLine(out.String())))
	}
}

// straceUsable reports whether strace exists and may trace a child here.
func straceUsable() (bool, string) {
	strace, err := exec.LookPath("strace")
	if err != nil {
		return false, err.Error()
	}
	if out, err := exec.Command(strace, "-o", os.DevNull, "-e", "trace=fsync", "true").CombinedOutput(); err != nil {
		return false, fmt.Sprintf("%v: %s", err, firstLine(string(out)))
	}
	return true, ""
}

func firstLine(s string) string {
	if i := strings.IndexByte(s, '\n'); i >= 0 {
		s = s[:i]
	}
	if len(s) > 200 {
		s = s[:200]
	}
	return s
}
