package main

// The journal oracle shared by both stores.
//
// A history is a list of acknowledged receive/remove operations plus one last operation that was in
// flight when the process died.  The journal defines a maybe-map: acked receives not later removed
// are certain-present, the in-flight operation makes its blob uncertain (unless the operation could
// not change the blob's presence: a duplicate receive of a present blob, a remove of an absent one),
// everything else is certain-absent.  Whatever is observed present must have exactly its bytes.

import (
	"context"
	"fmt"
	"io"
	"math/rand"
	"sort"
	"strings"
	"sync"

	"perkeep.org/pkg/blob"
	"perkeep.org/pkg/blobserver"

	"verif.local/harness/ev"
	"verif.local/harness/sto"
)

type hop struct {
	Recv bool `json:"recv"`
	B    int  `json:"b"` // index into world.Uni
}

type history struct {
	ID    string
	Shape string
	Ops   []hop
}

// world is the blob universe of one run: history blobs first, continuation blobs after.
type world struct {
	Uni []sto.Blob
	NH  int
	// reserved indices (never used in a history prefix)
	small, large, roll, absent int
	big2                       int // a second over-sized blob free for prefixes (forces a roll-over)
}

const packMaxFileSize = 2000

func randBytes(rng *rand.Rand, n int) []byte {
	b := make([]byte, n)
	rng.Read(b)
	return b
}

func makeWorld(rng *rand.Rand) *world {
	w := &world{}
	add := func(data []byte) int {
		w.Uni = append(w.Uni, sto.FromBytes(data))
		return len(w.Uni) - 1
	}
	add(nil)                           // 0: the empty blob
	add(randBytes(rng, 1))             // 1
	add(randBytes(rng, 7))             // 2
	add(randBytes(rng, 40))            // 3
	add(make([]byte, 64))              // 4: zeros (a zeroed body is indistinguishable from the blob)
	add(randBytes(rng, 150))           // 5
	add(randBytes(rng, 185))           // 6: largest record <= 256 bytes
	add(randBytes(rng, 300))           // 7
	w.big2 = add(randBytes(rng, 2300)) // 8: larger than maxFileSize
	w.small = add(randBytes(rng, 20+rng.Intn(150)))
	w.large = add(randBytes(rng, 700))
	w.roll = add(randBytes(rng, 2600))
	w.absent = add(randBytes(rng, 33))
	w.NH = len(w.Uni)
	// continuation blobs: together larger than maxFileSize, so continuing always rolls a pack over
	for _, n := range []int{10, 120, 600, 900, 1100, 50} {
		add(randBytes(rng, n))
	}
	return w
}

func (w *world) reserved(i int) bool {
	return i == w.small || i == w.large || i == w.roll || i == w.absent
}

var shapes = []string{"recv-small", "remove-body", "recv-large", "recv-rollover", "remove-oldpack",
	"rerecv-after-remove", "remove-empty", "dup-recv", "recv-empty", "remove-absent", "random", "remove-big"}

// genHistory builds a history whose last operation has the given shape.  Every history contains the
// empty blob, a duplicate receive and a remove followed by a re-receive.
func genHistory(rng *rand.Rand, w *world, id, shape string) history {
	h := history{ID: id, Shape: shape}
	present := map[int]bool{}
	add := func(recv bool, b int) {
		h.Ops = append(h.Ops, hop{recv, b})
		if recv {
			present[b] = true
		} else {
			delete(present, b)
		}
	}
	free := func() int {
		for {
			if i := rng.Intn(w.NH); !w.reserved(i) && i != w.big2 {
				return i
			}
		}
	}
	somePresent := func(pred func(int) bool) int {
		var c []int
		for i := range present {
			if pred == nil || pred(i) {
				c = append(c, i)
			}
		}
		if len(c) == 0 {
			return -1
		}
		sort.Ints(c)
		return c[rng.Intn(len(c))]
	}
	random := func() {
		if rng.Intn(10) < 7 || len(present) == 0 {
			add(true, free())
		} else if rng.Intn(6) == 0 {
			add(false, free()) // possibly absent
		} else {
			add(false, somePresent(nil))
		}
	}
	old := 3 + rng.Intn(4) // a blob with a body, received first (lands in pack 0)
	add(true, old)
	add(true, 0)
	a := free()
	add(true, a)
	random()
	add(true, a) // duplicate receive
	if shape == "remove-oldpack" || rng.Intn(2) == 0 {
		add(true, w.big2) // forces a roll-over in the packed store
	}
	for i, n := 0, 1+rng.Intn(4); i < n; i++ {
		random()
	}
	b := somePresent(func(i int) bool { return i != old })
	if b < 0 {
		b = free()
		add(true, b)
	}
	add(false, b)
	random()
	add(true, b) // re-receive after remove
	switch shape {
	case "recv-small":
		add(true, w.small)
	case "recv-large":
		add(true, w.large)
	case "recv-rollover":
		add(true, w.roll)
	case "remove-body":
		x := somePresent(func(i int) bool { return len(w.Uni[i].Data) >= 40 && len(w.Uni[i].Data) <= 300 && i != 4 })
		if x < 0 {
			x = 5
			add(true, x)
		}
		add(false, x)
	case "remove-big":
		if !present[w.big2] {
			add(true, w.big2)
		}
		add(false, w.big2)
	case "remove-oldpack":
		if !present[old] {
			add(true, old)
			add(true, w.big2)
		}
		add(false, old)
	case "rerecv-after-remove":
		x := somePresent(func(i int) bool { return len(w.Uni[i].Data) > 0 })
		if x < 0 {
			x = 5
			add(true, x)
		}
		add(false, x)
		if rng.Intn(2) == 0 {
			random()
			if present[x] { // random() may have re-received it
				add(false, x)
			}
		}
		add(true, x)
	case "remove-empty":
		if !present[0] {
			add(true, 0)
		}
		add(false, 0)
	case "dup-recv":
		x := somePresent(nil)
		add(true, x)
	case "recv-empty":
		if present[0] {
			add(false, 0)
		}
		add(true, 0)
	case "remove-absent":
		add(false, w.absent)
	default:
		random()
	}
	return h
}

func (h history) strings(w *world) []string {
	out := make([]string, len(h.Ops))
	for i, o := range h.Ops {
		k := "remove"
		if o.Recv {
			k = "receive"
		}
		out[i] = fmt.Sprintf("%s #%d(%dB)", k, o.B, len(w.Uni[o.B].Data))
	}
	return out
}

// caseInfo is the witness written to a replay file.
type caseInfo struct {
	CaseID  string   `json:"case_id"`
	Store   string   `json:"store"`
	Shape   string   `json:"history_shape"`
	History []string `json:"history"`
	Kind    string   `json:"crash_kind"`
	Off     string   `json:"offset_class"`
	Detail  string   `json:"detail"`
	Phase   string   `json:"phase,omitempty"`
	Trace   []string `json:"trace,omitempty"`
}

// oracle carries the maybe-map of one crash case across restarts.
type oracle struct {
	r    *ev.Run
	w    *world
	info caseInfo
	hist history
	rng  *rand.Rand

	mu         sync.Mutex
	present    map[blob.Ref][]byte
	uncertain  map[blob.Ref]bool
	attempted  map[blob.Ref]bool // receives that were attempted but never acknowledged
	rmInflight map[blob.Ref]bool // removes in flight at a crash, not re-done with an ack since
	phase      string            // suffix of the state kind in signatures
	trace      []string
	violations int
	fired      map[string]string // base signature -> phase in which it fired first
	liveKind   string            // real-kill runs on a kv index: kind used for the live store's signatures
}

func newOracle(r *ev.Run, w *world, h history, info caseInfo) *oracle {
	o := &oracle{r: r, w: w, hist: h, info: info, rng: r.Rand("audit/" + info.CaseID),
		present: map[blob.Ref][]byte{}, uncertain: map[blob.Ref]bool{},
		attempted: map[blob.Ref]bool{}, rmInflight: map[blob.Ref]bool{}}
	n := len(h.Ops)
	for _, op := range h.Ops[:n-1] {
		b := w.Uni[op.B]
		if op.Recv {
			o.present[b.Ref] = b.Data
		} else {
			delete(o.present, b.Ref)
		}
	}
	o.inflight(h.Ops[n-1])
	return o
}

// inflight applies an operation that was begun but not acknowledged.
func (o *oracle) inflight(op hop) {
	b := o.w.Uni[op.B]
	_, was := o.present[b.Ref]
	if op.Recv {
		o.attempted[b.Ref] = true
		if !was {
			o.uncertain[b.Ref] = true
		}
		delete(o.rmInflight, b.Ref)
	} else if was {
		o.uncertain[b.Ref] = true
		o.rmInflight[b.Ref] = true
	}
}

// acked applies an acknowledged operation (used by the real-kill journals).
func (o *oracle) acked(op hop) {
	b := o.w.Uni[op.B]
	if op.Recv {
		o.present[b.Ref] = b.Data
	} else {
		delete(o.present, b.Ref)
	}
	delete(o.uncertain, b.Ref)
	delete(o.rmInflight, b.Ref)
}

func (o *oracle) kind() string { return o.info.Kind + o.phase }

func (o *oracle) replay() caseInfo {
	c := o.info
	c.Phase = o.phase
	c.Trace = append([]string(nil), o.trace...)
	return c
}

// sigKind coarsens a crash-state kind for signatures: how many bytes were zeroed and whether the
// receive also rolled the pack over do not make a different defect.
func sigKind(kind string) string {
	switch kind {
	case "remove-header-zero-partial", "remove-header-zeroed":
		return "remove-zeroed"
	case "pl-remove-zero-partial-only":
		return "pl-remove-zeroed-only"
	case "remove-zero-partial-only":
		return "remove-zeroed-only"
	case "full-noindex-rolled":
		return "full-noindex"
	case "full-indexed-rolled":
		return "full-indexed"
	}
	return kind
}

// violation reports sig for the current crash-state kind and phase.  A failure that was already
// reported for this case in an earlier phase is the same observation persisting and is not
// reported again under the later phase's name.  States that only a power loss can produce (the
// separately counted variant) live under the "power-loss/" signature prefix.
func (o *oracle) violation(sig, what string) {
	o.violations++
	kind := sigKind(o.info.Kind)
	if o.liveKind != "" && strings.Contains(sig, "diskpacked-kv") {
		sig, kind = "real-kill-kv/"+sig, o.liveKind
	}
	if strings.HasPrefix(kind, "pl-") {
		sig, kind = "power-loss/"+sig, strings.TrimPrefix(kind, "pl-")
	}
	base := sig + "/" + kind
	if o.fired == nil {
		o.fired = map[string]string{}
	}
	if ph, ok := o.fired[base]; ok && ph != o.phase {
		o.r.Count("violations_persisting_into_later_phase", 1)
		return
	}
	o.fired[base] = o.phase
	o.r.Violation(base+o.phase, fmt.Sprintf("[%s %s %s/%s%s] %s", o.info.Store, o.info.CaseID, o.info.Kind, o.info.Off, o.phase, what), o.replay())
}

func (o *oracle) logf(format string, a ...any) {
	if len(o.trace) < 60 {
		o.trace = append(o.trace, fmt.Sprintf(format, a...))
	}
}

// reporter maps the reference-map checker's classes to the C03 signature scheme.
func (o *oracle) reporter(label string) func(sig, what string) {
	return func(sig, what string) {
		class, rest, _ := strings.Cut(sig, "/")
		op := rest
		if i := strings.LastIndexByte(rest, '.'); i >= 0 {
			op = rest[i+1:]
		}
		reindexed := strings.HasSuffix(label, "-reindexed")
		if op == "subfetch" {
			op = "fetch" // same view: a range of the fetch
		}
		if class == "enum-paging" && strings.HasSuffix(what, " 0 times") {
			class = "enum-missing"
		}
		var out string
		switch class {
		case "present-missing", "enum-missing":
			out = "acked-lost/" + label
			if reindexed {
				out = "reindex-lost"
			}
		case "content":
			out = "torn-visible/" + label + "." + op
		case "absent-served":
			out = "extra-present/" + label + "." + op
			if reindexed {
				out = "reindex-extra"
			}
		default:
			out = class + "/" + label + "." + op
		}
		o.violation(out, what)
	}
}

var fullCaps = sto.Caps{Receive: true, Remove: true, SubFetch: true}

// checker returns a reference-map checker over s that shares the oracle's maps.
func (o *oracle) checker(s blobserver.Storage, label string) *sto.Checker {
	ck := sto.NewChecker(s, label, fullCaps, o.w.Uni, o.reporter(label))
	ck.Present = o.present
	ck.Uncertain = o.uncertain
	return ck
}

func (o *oracle) done(ck *sto.Checker) {
	o.r.Eval(ck.Evals)
	ck.Evals = 0
}

// receive / remove perform an acknowledged-or-failed operation of the continued history.
func (o *oracle) receive(ck *sto.Checker, i int) {
	b := o.w.Uni[i]
	o.logf("receive #%d(%dB)", i, len(b.Data))
	ck.Receive(b)
	if ck.LastErr() == nil {
		delete(o.rmInflight, b.Ref)
	} else {
		o.attempted[b.Ref] = true
	}
}

func (o *oracle) remove(ck *sto.Checker, i int) {
	b := o.w.Uni[i]
	o.logf("remove #%d(%dB)", i, len(b.Data))
	ck.Remove([]sto.Blob{b})
	if ck.LastErr() == nil {
		delete(o.rmInflight, b.Ref)
	}
}

// continueHistory re-does the in-flight operation, adds new blobs (enough to roll a pack over),
// removes an old and a new blob, receives duplicates and re-receives.
func (o *oracle) continueHistory(ck *sto.Checker, variant int) {
	last := o.hist.Ops[len(o.hist.Ops)-1]
	if last.Recv {
		o.phase = "-then-append"
		o.receive(ck, last.B)
	} else if variant%2 == 0 {
		o.phase = "-then-rereceive"
		o.receive(ck, last.B)
	} else {
		o.phase = "-then-reremove"
		o.remove(ck, last.B)
	}
	nh := o.w.NH
	for i := nh; i < len(o.w.Uni); i++ {
		o.receive(ck, i)
	}
	// remove one old acknowledged blob (not the in-flight one) and one new blob
	var olds []int
	for i := 0; i < nh; i++ {
		if _, ok := o.present[o.w.Uni[i].Ref]; ok && i != last.B && !o.uncertain[o.w.Uni[i].Ref] {
			olds = append(olds, i)
		}
	}
	if len(olds) > 0 {
		o.remove(ck, olds[o.rng.Intn(len(olds))])
	}
	o.remove(ck, nh+1)
	o.receive(ck, nh)   // duplicate
	o.receive(ck, nh+1) // re-receive after remove
}

// streamCheck audits blobserver.BlobStreamer: every streamed blob must be known, allowed to be
// present and byte-exact; every certain-present blob must be streamed (exactly once unless an
// unacknowledged attempt may have left a second record).
func (o *oracle) streamCheck(s blobserver.Storage, label string) {
	bs, ok := s.(blobserver.BlobStreamer)
	if !ok {
		return
	}
	ctx, cancel := context.WithCancel(context.Background())
	defer cancel()
	ch := make(chan blobserver.BlobAndToken, 16)
	errc := make(chan error, 1)
	go func() { errc <- bs.StreamBlobs(ctx, ch, "") }()
	byRef := map[blob.Ref]sto.Blob{}
	for _, b := range o.w.Uni {
		byRef[b.Ref] = b
	}
	seen := map[blob.Ref]int{}
	n := 0
	for bt := range ch {
		n++
		ref := bt.Ref()
		o.r.Eval(1)
		want, known := byRef[ref]
		if !known {
			o.violation("extra-present/"+label+".stream", fmt.Sprintf("stream delivered %v (size %d), which was never given to the store", ref, bt.Size()))
			continue
		}
		data, err := slurp(ctx, bt.Blob)
		if err != nil || string(data) != string(want.Data) || int(bt.Size()) != len(want.Data) {
			o.violation("torn-visible/"+label+".stream", fmt.Sprintf("stream delivered %v with size %d / %d bytes differing from the blob's %d bytes (err=%v)", ref, bt.Size(), len(data), len(want.Data), err))
			continue
		}
		_, present := o.present[ref]
		if !present && !o.uncertain[ref] && !o.attempted[ref] && !o.rmInflight[ref] {
			o.violation("extra-present/"+label+".stream", fmt.Sprintf("stream delivered %v, which is absent in the journal's map", ref))
			continue
		}
		if !present && o.attempted[ref] {
			o.r.Count("stream_shows_unindexed_attempted_record", 1)
		}
		seen[ref]++
	}
	err := <-errc
	if err != nil {
		o.r.Count("stream_errors", 1)
		o.r.Note("stream_error_kinds", o.kind())
	}
	for ref := range o.present {
		if o.uncertain[ref] || o.rmInflight[ref] {
			continue
		}
		o.r.Eval(1)
		switch c := seen[ref]; {
		case c == 0:
			o.violation("stream-incomplete/"+label, fmt.Sprintf("acknowledged blob %v was not streamed (stream delivered %d blobs, err=%v)", ref, n, err))
			return
		case c > 1 && !o.attempted[ref]:
			o.violation("stream-dup/"+label, fmt.Sprintf("present blob %v streamed %d times", ref, c))
			return
		case c > 1:
			o.r.Count("stream_dup_of_attempted", 1)
		}
	}
}

func slurp(ctx context.Context, b *blob.Blob) ([]byte, error) {
	rd, err := b.ReadAll(ctx)
	if err != nil {
		return nil, err
	}
	return io.ReadAll(rd)
}

func closeStorage(s blobserver.Storage) {
	if c, ok := s.(interface{ Close() error }); ok {
		c.Close()
	}
}
