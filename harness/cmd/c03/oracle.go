package main

// The journal oracle shared by both stores.
//
// A history is a list of acknowledged receive/remove operations plus one last operation that was in
// flight when the process died.  The journal defines a maybe-map: acked receives not later removed
// are certain-present, the in-flight operation makes its blob uncertain (unless the operation could
// not change the blob's presence: a duplicate receive of a present blob, a remove of an absent one),
// everything else is certain-absent.  Whatever is observed present must have exactly its bytes.

import (
	"bytes"
	"context"
	"fmt"
	"io"
	"math/rand"
	"regexp"
	"sort"
	"strings"
	"sync"

	"perkeep.org/pkg/blob"
	"perkeep.org/pkg/blobserver"

	"verif.local/harness/ev"
	"verif.local/harness/sto"
)

type hop struct {
	Recv bool `json:"recv"`
	B    int  `json:"b"` // index into world.Uni
}

type history struct {
	ID    string
	Shape string
	Ops   []hop
}

// world is the blob universe of one run: history blobs first, continuation blobs after.
type world struct {
	Uni []sto.Blob
	NH  int
	// reserved indices (never used in a history prefix)
	small, large, roll, absent int
	big2                       int // a second over-sized blob free for prefixes (forces a roll-over)
}

const packMaxFileSize = 2000

func randBytes(rng *rand.Rand, n int) []byte {
	b := make([]byte, n)
	rng.Read(b)
	return b
}

func makeWorld(rng *rand.Rand) *world {
	w := &world{}
	// refs are sha224 (perkeep's default) except where a hash name is given: sha1 and sha256 refs
	// have other header lengths in a pack and other directory trees in the file store
	addH := func(hash string, data []byte) int {
		w.Uni = append(w.Uni, sto.Blob{Ref: sto.RefOf(hash, data), Data: data})
		return len(w.Uni) - 1
	}
	add := func(data []byte) int { return addH("sha224", data) }
	add(nil)                            // 0: the empty blob
	add(randBytes(rng, 1))              // 1
	addH("sha1", randBytes(rng, 7))     // 2
	add(randBytes(rng, 40))             // 3
	add(make([]byte, 64))               // 4: zeros (a zeroed body is indistinguishable from the blob)
	addH("sha256", randBytes(rng, 150)) // 5
	add(randBytes(rng, 185))            // 6: largest record <= 256 bytes
	addH("sha1", randBytes(rng, 300))   // 7
	w.big2 = add(randBytes(rng, 2300))  // 8: larger than maxFileSize
	w.small = addH([]string{"sha224", "sha1", "sha256"}[rng.Intn(3)], randBytes(rng, 20+rng.Intn(150)))
	w.large = add(randBytes(rng, 700))
	w.roll = add(randBytes(rng, 2600))
	w.absent = add(randBytes(rng, 33))
	w.NH = len(w.Uni)
	// continuation blobs: together larger than maxFileSize, so continuing always rolls a pack over
	for i, n := range []int{10, 120, 600, 900, 1100, 50} {
		addH([]string{"sha224", "sha1", "sha224", "sha256", "sha224", "sha224"}[i], randBytes(rng, n))
	}
	for _, b := range w.Uni {
		if !b.Ref.Valid() {
			panic("c03: world blob without a valid ref")
		}
	}
	return w
}

func (w *world) reserved(i int) bool {
	return i == w.small || i == w.large || i == w.roll || i == w.absent
}

var shapes = []string{"recv-small", "remove-body", "recv-large", "recv-rollover", "remove-oldpack",
	"rerecv-after-remove", "remove-empty", "dup-recv", "recv-empty", "remove-absent", "random", "remove-big"}

// genHistory builds a history whose last operation has the given shape.  Every history contains the
// empty blob, a duplicate receive and a remove followed by a re-receive.
func genHistory(rng *rand.Rand, w *world, id, shape string) history {
	h := history{ID: id, Shape: shape}
	present := map[int]bool{}
	add := func(recv bool, b int) {
		h.Ops = append(h.Ops, hop{recv, b})
		if recv {
			present[b] = true
		} else {
			delete(present, b)
		}
	}
	free := func() int {
		for {
			if i := rng.Intn(w.NH); !w.reserved(i) && i != w.big2 {
				return i
			}
		}
	}
	somePresent := func(pred func(int) bool) int {
		var c []int
		for i := range present {
			if pred == nil || pred(i) {
				c = append(c, i)
			}
		}
		if len(c) == 0 {
			return -1
		}
		sort.Ints(c)
		return c[rng.Intn(len(c))]
	}
	random := func() {
		if rng.Intn(10) < 7 || len(present) == 0 {
			add(true, free())
		} else if rng.Intn(6) == 0 {
			add(false, free()) // possibly absent
		} else {
			add(false, somePresent(nil))
		}
	}
	old := 3 + rng.Intn(4) // a blob with a body, received first (lands in pack 0)
	add(true, old)
	add(true, 0)
	a := free()
	add(true, a)
	random()
	add(true, a) // duplicate receive
	if shape == "remove-oldpack" || rng.Intn(2) == 0 {
		add(true, w.big2) // forces a roll-over in the packed store
	}
	for i, n := 0, 1+rng.Intn(4); i < n; i++ {
		random()
	}
	b := somePresent(func(i int) bool { return i != old })
	if b < 0 {
		b = free()
		add(true, b)
	}
	add(false, b)
	random()
	add(true, b) // re-receive after remove
	switch shape {
	case "recv-small":
		add(true, w.small)
	case "recv-large":
		add(true, w.large)
	case "recv-rollover":
		add(true, w.roll)
	case "remove-body":
		x := somePresent(func(i int) bool { return len(w.Uni[i].Data) >= 40 && len(w.Uni[i].Data) <= 300 && i != 4 })
		if x < 0 {
			x = 5
			add(true, x)
		}
		add(false, x)
	case "remove-big":
		if !present[w.big2] {
			add(true, w.big2)
		}
		add(false, w.big2)
	case "remove-oldpack":
		if !present[old] {
			add(true, old)
			add(true, w.big2)
		}
		add(false, old)
	case "rerecv-after-remove":
		x := somePresent(func(i int) bool { return len(w.Uni[i].Data) > 0 })
		if x < 0 {
			x = 5
			add(true, x)
		}
		add(false, x)
		if rng.Intn(2) == 0 {
			random()
			if present[x] { // random() may have re-received it
				add(false, x)
			}
		}
		add(true, x)
	case "remove-empty":
		if !present[0] {
			add(true, 0)
		}
		add(false, 0)
	case "dup-recv":
		x := somePresent(nil)
		add(true, x)
	case "recv-empty":
		if present[0] {
			add(false, 0)
		}
		add(true, 0)
	case "remove-absent":
		add(false, w.absent)
	default:
		random()
	}
	return h
}

func (h history) strings(w *world) []string {
	out := make([]string, len(h.Ops))
	for i, o := range h.Ops {
		k := "remove"
		if o.Recv {
			k = "receive"
		}
		out[i] = fmt.Sprintf("%s #%d(%dB)", k, o.B, len(w.Uni[o.B].Data))
	}
	return out
}

// caseInfo is the witness written to a replay file.
type caseInfo struct {
	CaseID  string   `json:"case_id"`
	Store   string   `json:"store"`
	Shape   string   `json:"history_shape"`
	History []string `json:"history"`
	Kind    string   `json:"crash_kind"`
	Off     string   `json:"offset_class"`
	Detail  string   `json:"detail"`
	Phase   string   `json:"phase,omitempty"`
	Trace   []string `json:"trace,omitempty"`
}

// oracle carries the maybe-map of one crash case across restarts.
type oracle struct {
	r    *ev.Run
	w    *world
	info caseInfo
	hist history
	rng  *rand.Rand

	mu         sync.Mutex
	present    map[blob.Ref][]byte
	uncertain  map[blob.Ref]bool
	attempted  map[blob.Ref]bool // receives that were attempted but never acknowledged
	rmInflight map[blob.Ref]bool // removes in flight at a crash, not re-done with an ack since
	phase      string            // suffix of the state kind in signatures
	trace      []string
	violations int
	fired      map[string]string // base signature -> phase in which it fired first
	firedRef   map[string]blob.Ref
	liveKind   string // real-kill runs on a kv index: kind used for the live store's signatures

	// what identifies the cause of a failure (signature components, see subject / placeReindexError)
	inflightB int               // universe index of the blob of the operation in flight at the crash; -1 = none
	touched   map[blob.Ref]bool // blobs received or removed (acked or not) since the restart
	crashPack string            // diskpacked: base name of the pack the crashed operation wrote to ...
	crashOff  int64             // ... and the offset of its record ('[' of the header); -1 = unknown
	packDir   string            // diskpacked: directory whose pack files are evidence for the kv index-lag finding
}

func newOracle(r *ev.Run, w *world, h history, info caseInfo) *oracle {
	o := &oracle{r: r, w: w, hist: h, info: info, rng: r.Rand("audit/" + info.CaseID),
		present: map[blob.Ref][]byte{}, uncertain: map[blob.Ref]bool{},
		attempted: map[blob.Ref]bool{}, rmInflight: map[blob.Ref]bool{}, touched: map[blob.Ref]bool{},
		inflightB: h.Ops[len(h.Ops)-1].B, crashOff: -1}
	n := len(h.Ops)
	for _, op := range h.Ops {
		r.Note("ref_hashes", w.Uni[op.B].Ref.HashName())
	}
	r.Note("inflight_ref_hashes", w.Uni[h.Ops[n-1].B].Ref.HashName())
	for _, op := range h.Ops[:n-1] {
		b := w.Uni[op.B]
		if op.Recv {
			o.present[b.Ref] = b.Data
		} else {
			delete(o.present, b.Ref)
		}
	}
	o.inflight(h.Ops[n-1])
	return o
}

// inflight applies an operation that was begun but not acknowledged.
func (o *oracle) inflight(op hop) {
	b := o.w.Uni[op.B]
	_, was := o.present[b.Ref]
	if op.Recv {
		o.attempted[b.Ref] = true
		if !was {
			o.uncertain[b.Ref] = true
		}
		delete(o.rmInflight, b.Ref)
	} else if was {
		o.uncertain[b.Ref] = true
		o.rmInflight[b.Ref] = true
	}
}

// acked applies an acknowledged operation (used by the real-kill journals).
func (o *oracle) acked(op hop) {
	b := o.w.Uni[op.B]
	if op.Recv {
		o.present[b.Ref] = b.Data
	} else {
		delete(o.present, b.Ref)
	}
	delete(o.uncertain, b.Ref)
	delete(o.rmInflight, b.Ref)
}

func (o *oracle) kind() string { return o.info.Kind + o.phase }

func (o *oracle) replay() caseInfo {
	c := o.info
	c.Phase = o.phase
	c.Trace = append([]string(nil), o.trace...)
	return c
}

// sigKind coarsens a crash-state kind for signatures: how many bytes were zeroed and whether the
// receive also rolled the pack over do not make a different defect.
func sigKind(kind string) string {
	switch kind {
	case "remove-header-zero-partial", "remove-header-zeroed":
		return "remove-zeroed"
	case "pl-remove-zero-partial-only":
		return "pl-remove-zeroed-only"
	case "pl-remove-header-zero-partial", "pl-remove-header-zeroed":
		return "pl-remove-zeroed"
	case "remove-zero-partial-only":
		return "remove-zeroed-only"
	case "full-noindex-rolled":
		return "full-noindex"
	case "full-indexed-rolled":
		return "full-indexed"
	}
	return kind
}

// violation reports sig for the current crash-state kind and phase.  A failure that was already
// reported for this case in an earlier phase is the same observation persisting and is not
// reported again under the later phase's name.  States that only a power loss can produce (the
// separately counted variant) live under the "power-loss/" signature prefix.
func (o *oracle) violation(sig, what string) { o.violationRef(sig, what, blob.Ref{}) }

// ackedSince: an operation on ref was acknowledged after the restart.  What is observed about ref
// from now on is a new fact (the store accepted a new receive / remove of it), not an earlier
// observation persisting.
func (o *oracle) ackedSince(ref blob.Ref) {
	for base, r := range o.firedRef {
		if r == ref {
			delete(o.fired, base)
			delete(o.firedRef, base)
		}
	}
}

// violationRef is violation for a failure that concerns one blob of the universe (ref may be
// invalid: unknown).
func (o *oracle) violationRef(sig, what string, ref blob.Ref) {
	o.violations++
	kind := sigKind(o.info.Kind)
	if o.liveKind != "" && strings.Contains(sig, "diskpacked-kv") {
		// The "acknowledged index rows sit in the memory of modernc kv" finding is identified by its
		// evidence, not by the view: the PACK FILES agree with the journal about this blob and only
		// the live index disagrees.  Anything else seen on the kv-indexed store is reported plainly.
		if ev := o.kvLagEvidence(sig, ref); ev != "" {
			sig, kind = "real-kill-kv/"+ev+"/"+sig, o.liveKind
		} else {
			sig = strings.Replace(sig, "diskpacked-kv", "diskpacked", 1) // not the kv finding: same site as with any index
		}
	}
	if strings.HasPrefix(kind, "pl-") {
		sig, kind = "power-loss/"+sig, strings.TrimPrefix(kind, "pl-")
	}
	base := sig + "/" + kind
	phase := o.phase
	if strings.Contains(sig, "/junk-torn-rewrite") {
		phase = "" // the subject pins the cause to the crashed remove itself, whatever was done since
	}
	if o.fired == nil {
		o.fired, o.firedRef = map[string]string{}, map[string]blob.Ref{}
	}
	if ph, ok := o.fired[base]; ok && ph != o.phase {
		o.r.Count("violations_persisting_into_later_phase", 1)
		return
	}
	o.fired[base], o.firedRef[base] = o.phase, ref
	o.r.Note("signatures_reported", base+phase)
	o.r.Violation(base+phase, fmt.Sprintf("[%s %s %s/%s%s] %s", o.info.Store, o.info.CaseID, o.info.Kind, o.info.Off, o.phase, what), o.replay())
}

func (o *oracle) logf(format string, a ...any) {
	if len(o.trace) < 60 {
		o.trace = append(o.trace, fmt.Sprintf(format, a...))
	}
}

// ---- what a failure is about ----
//
// A signature names the view and the crash-state kind, and ALSO the blob the failure is about
// relative to the crash (its "subject") and, for wrong bytes, the form of the damage.  A listed
// perkeep defect is thereby keyed by what identifies it (e.g. "the blob whose remove was in flight
// is served with zeroed bytes"); another failure in the same view and state (a neighbouring record
// damaged, an old acknowledged blob lost) has a different signature.
//
//	inflight           the blob of the operation that was in flight at the crash
//	new                a blob received or removed after the restart (the continued history)
//	old                any other blob of the universe: its state was settled before the crash
//	junk-torn-rewrite  a ref outside the universe that is the in-flight blob's ref partly
//	                   overwritten by the deleted-record marker (xxxx-0000...)
//	junk               any other ref outside the universe
//	unplaced           the failure names no blob

func (o *oracle) universeBlob(ref blob.Ref) (sto.Blob, bool) {
	for _, b := range o.w.Uni {
		if b.Ref == ref {
			return b, true
		}
	}
	return sto.Blob{}, false
}

func (o *oracle) subject(ref blob.Ref) string {
	if !ref.Valid() {
		return "unplaced"
	}
	if _, ok := o.universeBlob(ref); !ok {
		return o.junkSubject(ref.String())
	}
	if o.inflightB >= 0 && o.inflightB < len(o.w.Uni) && o.w.Uni[o.inflightB].Ref == ref {
		return "inflight"
	}
	if o.touched[ref] {
		return "new"
	}
	return "old"
}

// junkSubject classifies a ref string that is not in the universe.
func (o *oracle) junkSubject(s string) string {
	if o.inflightB < 0 || o.inflightB >= len(o.w.Uni) {
		return "junk"
	}
	x := o.w.Uni[o.inflightB].Ref.String()
	dash := strings.IndexByte(x, '-')
	if len(s) != len(x) || s == x || dash < 0 {
		return "junk"
	}
	// deleted-record marker of the same shape
	d := []byte(x)
	for i := range d {
		if i < dash {
			d[i] = 'x'
		} else if i > dash {
			d[i] = '0'
		}
	}
	for k := 1; k < len(x); k++ {
		if s == string(d[:k])+x[k:] {
			return "junk-torn-rewrite"
		}
	}
	return "junk"
}

var (
	reAfterArg = regexp.MustCompile(`after="[^"]*"`)
	reRefLike  = regexp.MustCompile(`[a-z0-9]+-[0-9a-f]{8,}`)
)

// refIn extracts the blob a checker message is about (the text of the cursor argument is skipped).
func refIn(what string) (blob.Ref, string) {
	m := reRefLike.FindString(reAfterArg.ReplaceAllString(what, ""))
	if m == "" {
		return blob.Ref{}, ""
	}
	ref, _ := blob.Parse(m)
	return ref, m
}

// damageForm compares what a view delivered with the blob's bytes.
func damageForm(got, want []byte) string {
	switch {
	case bytes.Equal(got, want):
		return "intact"
	case len(got) < len(want) && bytes.Equal(got, want[:len(got)]):
		return "truncated"
	case len(got) == len(want):
		for i := range got {
			if got[i] != want[i] && got[i] != 0 {
				return "garbled"
			}
		}
		return "zeroed"
	}
	return "garbled"
}

// fetchForm re-fetches ref from the (quiescent) store to name the form of a content mismatch.
func (o *oracle) fetchForm(s blobserver.Storage, ref blob.Ref) string {
	b, ok := o.universeBlob(ref)
	if !ok || s == nil {
		return "unread"
	}
	rc, _, err := s.Fetch(context.Background(), ref)
	if err != nil {
		return "unreadable"
	}
	defer rc.Close()
	data, err := io.ReadAll(rc)
	if err != nil {
		return "unreadable"
	}
	if f := damageForm(data, b.Data); f != "intact" {
		return f
	}
	return "wrong-size" // the bytes are right: the size reported with them was not
}

// reporter maps the reference-map checker's classes to the C03 signature scheme.
func (o *oracle) reporter(label string, s blobserver.Storage) func(sig, what string) {
	return func(sig, what string) {
		class, rest, _ := strings.Cut(sig, "/")
		op := rest
		if i := strings.LastIndexByte(rest, '.'); i >= 0 {
			op = rest[i+1:]
		}
		reindexed := strings.HasSuffix(label, "-reindexed")
		if op == "subfetch" {
			op = "fetch" // same view: a range of the fetch
		}
		if class == "enum-paging" && strings.HasSuffix(what, " 0 times") {
			class = "enum-missing"
		}
		ref, refStr := refIn(what)
		subj := o.subject(ref)
		if !ref.Valid() && refStr != "" {
			subj = o.junkSubject(refStr)
		}
		var out string
		switch class {
		case "present-missing", "enum-missing":
			out = "acked-lost/" + label + "/" + subj
			if reindexed {
				out = "reindex-lost/" + subj
			}
		case "content":
			out = "torn-visible/" + label + "." + op + "/" + subj
			if op == "fetch" {
				out += "-" + o.fetchForm(s, ref)
			}
		case "absent-served":
			out = "extra-present/" + label + "." + op + "/" + subj
			if reindexed {
				out = "reindex-extra/" + subj
			}
		default:
			out = class + "/" + label + "." + op
		}
		o.violationRef(out, what, ref)
	}
}

var fullCaps = sto.Caps{Receive: true, Remove: true, SubFetch: true}

// checker returns a reference-map checker over s that shares the oracle's maps.
func (o *oracle) checker(s blobserver.Storage, label string) *sto.Checker {
	ck := sto.NewChecker(s, label, fullCaps, o.w.Uni, o.reporter(label, s))
	ck.Present = o.present
	ck.Uncertain = o.uncertain
	return ck
}

func (o *oracle) done(ck *sto.Checker) {
	o.r.Eval(ck.Evals)
	ck.Evals = 0
}

// receive / remove perform an acknowledged-or-failed operation of the continued history.
func (o *oracle) receive(ck *sto.Checker, i int) {
	b := o.w.Uni[i]
	o.logf("receive #%d(%dB)", i, len(b.Data))
	o.touched[b.Ref] = true
	ck.Receive(b)
	if ck.LastErr() == nil {
		delete(o.rmInflight, b.Ref)
		o.ackedSince(b.Ref)
	} else {
		o.attempted[b.Ref] = true
	}
}

func (o *oracle) remove(ck *sto.Checker, i int) {
	b := o.w.Uni[i]
	o.logf("remove #%d(%dB)", i, len(b.Data))
	o.touched[b.Ref] = true
	ck.Remove([]sto.Blob{b})
	if ck.LastErr() == nil {
		delete(o.rmInflight, b.Ref)
		o.ackedSince(b.Ref)
	}
}

// continueHistory re-does the in-flight operation, adds new blobs (enough to roll a pack over),
// removes an old and a new blob, receives duplicates and re-receives.
func (o *oracle) continueHistory(ck *sto.Checker, variant int) {
	last := o.hist.Ops[len(o.hist.Ops)-1]
	if last.Recv && variant == 2 {
		// the interrupted upload is retried and, once acknowledged, the blob is removed again: from the
		// acknowledged remove on (it ran on a store that had the blob) the blob is certainly absent,
		// also from an index rebuilt from the packs - whatever record the crashed attempt left
		o.phase = "-then-append"
		o.receive(ck, last.B)
		retried := ck.LastErr() == nil
		ck.Fetch(o.w.Uni[last.B])
		o.remove(ck, last.B)
		if retried && ck.LastErr() == nil {
			delete(o.attempted, o.w.Uni[last.B].Ref)
			o.r.Count("inflight_receive_retried_then_removed", 1)
			o.r.Note("events", "retry-then-remove")
		}
	} else if last.Recv {
		o.phase = "-then-append"
		o.receive(ck, last.B)
	} else if variant%2 == 0 {
		o.phase = "-then-rereceive"
		o.receive(ck, last.B)
	} else {
		o.phase = "-then-reremove"
		o.remove(ck, last.B)
	}
	// what the re-done operation left, seen before anything else is appended behind it
	ck.Fetch(o.w.Uni[last.B])
	ck.Stat([]sto.Blob{o.w.Uni[last.B]})
	nh := o.w.NH
	for i := nh; i < len(o.w.Uni); i++ {
		o.receive(ck, i)
	}
	// remove one old acknowledged blob (not the in-flight one) and one new blob
	var olds []int
	for i := 0; i < nh; i++ {
		if _, ok := o.present[o.w.Uni[i].Ref]; ok && i != last.B && !o.uncertain[o.w.Uni[i].Ref] {
			olds = append(olds, i)
		}
	}
	if len(olds) > 0 && o.rng.Intn(2) == 0 {
		// one RemoveBlobs call for an old and a new blob (records in different packs, one index batch)
		old := olds[o.rng.Intn(len(olds))]
		bs := []sto.Blob{o.w.Uni[old], o.w.Uni[nh+1]}
		o.logf("remove #%d(%dB) and #%d(%dB) in one call", old, len(bs[0].Data), nh+1, len(bs[1].Data))
		o.touched[bs[0].Ref], o.touched[bs[1].Ref] = true, true
		ck.Remove(bs)
		if ck.LastErr() == nil {
			for _, b := range bs {
				delete(o.rmInflight, b.Ref)
				o.ackedSince(b.Ref)
			}
		}
		o.r.Count("multi_ref_removes_while_continuing", 1)
	} else {
		if len(olds) > 0 {
			o.remove(ck, olds[o.rng.Intn(len(olds))])
		}
		o.remove(ck, nh+1)
	}
	o.receive(ck, nh)   // duplicate
	o.receive(ck, nh+1) // re-receive after remove
}

// streamed is one item of a StreamBlobs run.
type streamed struct {
	ref   blob.Ref
	size  uint32
	token string
	data  []byte
	err   error
}

// runStream collects what StreamBlobs delivers from a continuation token.
func runStream(bs blobserver.BlobStreamer, token string) ([]streamed, error) {
	ctx, cancel := context.WithCancel(context.Background())
	defer cancel()
	ch := make(chan blobserver.BlobAndToken, 16)
	errc := make(chan error, 1)
	go func() { errc <- bs.StreamBlobs(ctx, ch, token) }()
	var out []streamed
	for bt := range ch {
		data, err := slurp(ctx, bt.Blob)
		out = append(out, streamed{ref: bt.Ref(), size: bt.Size(), token: bt.Token, data: data, err: err})
	}
	return out, <-errc
}

// streamCheck audits blobserver.BlobStreamer: every streamed blob must be known, allowed to be
// present and byte-exact; every certain-present blob must be streamed (exactly once unless an
// unacknowledged attempt may have left a second record); a stream resumed from the continuation
// token of an item must deliver exactly the items from that one on.
func (o *oracle) streamCheck(s blobserver.Storage, label string) {
	bs, ok := s.(blobserver.BlobStreamer)
	if !ok {
		return
	}
	items, err := runStream(bs, "")
	seen := map[blob.Ref]int{}
	n := len(items)
	for _, it := range items {
		ref := it.ref
		o.r.Eval(1)
		want, known := o.universeBlob(ref)
		if !known {
			o.violationRef("extra-present/"+label+".stream/"+o.junkSubject(ref.String()), fmt.Sprintf("stream delivered %v (size %d), which was never given to the store", ref, it.size), ref)
			continue
		}
		if it.err != nil || !bytes.Equal(it.data, want.Data) || int(it.size) != len(want.Data) {
			form := damageForm(it.data, want.Data)
			if it.err != nil {
				form = "unreadable"
			} else if form == "intact" {
				form = "wrong-size"
			}
			o.violationRef("torn-visible/"+label+".stream/"+o.subject(ref)+"-"+form, fmt.Sprintf("stream delivered %v with size %d / %d bytes differing from the blob's %d bytes (err=%v)", ref, it.size, len(it.data), len(want.Data), it.err), ref)
			continue
		}
		_, present := o.present[ref]
		if !present && !o.uncertain[ref] && !o.attempted[ref] && !o.rmInflight[ref] {
			o.violationRef("extra-present/"+label+".stream/"+o.subject(ref), fmt.Sprintf("stream delivered %v, which is absent in the journal's map", ref), ref)
			continue
		}
		if !present && o.attempted[ref] {
			o.r.Count("stream_shows_unindexed_attempted_record", 1)
		}
		seen[ref]++
	}
	if err != nil {
		o.r.Count("stream_errors", 1)
		o.r.Note("stream_error_kinds", o.kind())
	}
	// completeness, per subject (one report per subject class, refs in universe order)
	missing := map[string][]string{}
	dups := map[string][]string{}
	for _, b := range o.w.Uni {
		ref := b.Ref
		if _, ok := o.present[ref]; !ok || o.uncertain[ref] || o.rmInflight[ref] {
			continue
		}
		o.r.Eval(1)
		switch c := seen[ref]; {
		case c == 0:
			missing[o.subject(ref)] = append(missing[o.subject(ref)], ref.String())
		case c > 1 && !o.attempted[ref]:
			dups[o.subject(ref)] = append(dups[o.subject(ref)], fmt.Sprintf("%v x%d", ref, c))
		case c > 1:
			o.r.Count("stream_dup_of_attempted", 1)
		}
	}
	for _, subj := range []string{"old", "inflight", "new"} {
		if m := missing[subj]; len(m) > 0 {
			ref, _ := blob.Parse(m[0])
			o.violationRef("stream-incomplete/"+label+"/"+subj, fmt.Sprintf("%d acknowledged blob(s) not streamed, first %v (stream delivered %d blobs, err=%v)", len(m), m[0], n, err), ref)
		}
		if d := dups[subj]; len(d) > 0 {
			o.violation("stream-dup/"+label+"/"+subj, fmt.Sprintf("present blob streamed more than once: %v", d))
		}
	}
	// resumption: from the token of every second item (long streams: four of them) and of the last one
	step := 2
	if len(items) > 10 {
		step = len(items) / 4
	}
	for i := 1; i < len(items); i += step {
		if i+step >= len(items) {
			i = len(items) - 1
		}
		again, err2 := runStream(bs, items[i].token)
		o.r.Eval(1)
		o.r.Count("stream_resumptions", 1)
		same := len(again) == len(items)-i && (err == nil) == (err2 == nil)
		for k := 0; same && k < len(again); k++ {
			a, b := again[k], items[i+k]
			same = a.ref == b.ref && a.size == b.size && a.token == b.token && bytes.Equal(a.data, b.data)
		}
		if !same {
			o.violation("stream-resume/"+label, fmt.Sprintf("StreamBlobs resumed from token %q (item %d of %d) delivered %d items (err=%v); the full stream delivered %d items from there (err=%v), or they differ", items[i].token, i, len(items), len(again), err2, len(items)-i, err))
			break
		}
	}
}

func slurp(ctx context.Context, b *blob.Blob) ([]byte, error) {
	rd, err := b.ReadAll(ctx)
	if err != nil {
		return nil, err
	}
	return io.ReadAll(rd)
}

func closeStorage(s blobserver.Storage) {
	if c, ok := s.(interface{ Close() error }); ok {
		c.Close()
	}
}

// ---- evidence from the pack files ----

var reRecHeader = regexp.MustCompile(`^\[([a-z0-9]+-[0-9a-f]+) ([0-9]+)\]`)

// packRecordsOf walks the pack files of dir the way a reader of the format does and counts the live
// records of b: intact ones (header + exactly the blob's bytes) and damaged ones.
func packRecordsOf(dir string, b sto.Blob) (intact, damaged int) {
	packs, names, err := readPacks(dir)
	if err != nil {
		return 0, 0
	}
	for _, n := range names {
		data := packs[n]
		for len(data) > 0 {
			m := reRecHeader.FindSubmatch(data)
			if m == nil {
				break // torn or foreign bytes: nothing behind them is reachable
			}
			var size int
			fmt.Sscan(string(m[2]), &size)
			body := data[len(m[0]):]
			short := len(body) < size
			if short {
				size = len(body)
			}
			if string(m[1]) == b.Ref.String() {
				if !short && bytes.Equal(body[:size], b.Data) {
					intact++
				} else {
					damaged++
				}
			}
			data = body[size:]
		}
	}
	return intact, damaged
}

// kvLagEvidence decides whether a failure seen on the live kv-indexed store after a real SIGKILL is
// the listed "acknowledged index rows are still in the memory of modernc kv" finding: the pack files
// must agree with the journal about the blob, so that only the index row can be what is wrong.
//
//	row-lost   journal: present; packs: an intact live record; the live store does not have it
//	row-stale  journal: removed with an ack; packs: no live record left; the live store still lists it
func (o *oracle) kvLagEvidence(sig string, ref blob.Ref) string {
	b, ok := o.universeBlob(ref)
	if !ok || o.packDir == "" {
		return ""
	}
	class, _, _ := strings.Cut(sig, "/")
	intact, damaged := packRecordsOf(o.packDir, b)
	_, present := o.present[ref]
	unc := o.uncertain[ref] || o.rmInflight[ref]
	switch {
	case class == "acked-lost" && present && !unc && intact > 0 && damaged == 0:
		return "row-lost"
	case (class == "extra-present" || class == "torn-visible") && !present && !unc && intact == 0 && damaged == 0:
		return "row-stale"
	}
	return ""
}

var reWalkErrAt = regexp.MustCompile(`at ([0-9]+) \(0x[0-9a-f]+\) in "([^"]+)"`)

// placeReindexError says where a Reindex failure lies relative to the record the crashed operation
// was writing: the listed "a torn tail is never repaired" finding fails AT or BEHIND that record in
// its pack; a failure before it, or in another pack, has another cause.
func (o *oracle) placeReindexError(err error) string {
	m := reWalkErrAt.FindStringSubmatch(err.Error())
	if m == nil || o.crashPack == "" || o.crashOff < 0 {
		return "unplaced"
	}
	var pos int64
	fmt.Sscan(m[1], &pos)
	name := m[2]
	if i := strings.LastIndexAny(name, "/\\"); i >= 0 {
		name = name[i+1:]
	}
	if name == o.crashPack && pos >= o.crashOff {
		return "at-crash-record"
	}
	return "elsewhere"
}
