// C03 — disk stores survive a crash at any instant without losing or tearing blobs.
package main

import (
	"fmt"
	"io"
	"log"
	"os"
	"path/filepath"
	"runtime"
	"strings"
	"sync"
	"sync/atomic"

	"perkeep.org/pkg/blob"
	"perkeep.org/pkg/blobserver/diskpacked"

	"verif.local/harness/ev"
)

type blobRef = blob.Ref
type sizedRef = blob.SizedRef

func main() {
	if os.Getenv("VERIF_CHILD") == "c03kill" {
		log.SetOutput(io.Discard)
		killChild()
		return
	}
	ev.Main("C03", "fault_enumeration",
		"seeded receive/remove histories over <=13 blobs (empty blob, duplicate receive, remove + re-receive in every history); the LAST op is crashed at every point: files = every prefix of its VFS call trace (plus cuts inside each Write) x {un-synced data kept, dropped, zeroed} on an in-memory crash-modelling VFS, plus receives whose temp-file fsync FAILS (EINVAL, ENOTSUP, ENOSYS, EIO, ENOSPC, EDQUOT, EINTR, ErrUnsupported, plain; bare and *os.PathError) followed by a crash: acknowledged or refused is observed, an acknowledged blob is owed intact; diskpacked (leveldb, kv and sqlite metaIndex, maxFileSize 2000) = crash directories materialised from a real before/after snapshot diff (every prefix of the appended record for records <=256 B, else header boundaries +-2 and 16 body cuts; index before/after; with/without next pack on roll-over; every order-consistent and, counted separately, every power-loss subset of {header rewrite (also torn), body zeroing (prefixes), index row delete}); the order of pack writes relative to the index write is OBSERVED (packs read at the index-mutation instant through a recording KV), and so is the order of header rewrite and body release inside a remove (system-call trace of a child that removes blobs of six sizes): which removal subsets a process death can leave follows the code under test, it is not assumed; every diskpacked crash state is restarted twice: on the store's own index, and (the operator's recovery path) on a FRESH index rebuilt from the pack files with diskpacked.Reindex, the history continuing on the rebuilt index; plus index-ahead-of-pack states (row present, body cut short) that are judged only after the acknowledged retry of the upload; refs are sha224 mixed with sha1 and sha256; after each restart: journal maybe-map audit (fetch, subfetch, stat, enumerate, stream incl. resumption from continuation tokens), Reindex into a fresh index + audit of a store opened on it, continued history (re-do of the in-flight op - an in-flight remove is continued both by re-receive and by re-remove, an in-flight receive by retry and by retry-then-remove -, new blobs across a roll-over, removes, duplicate and re-receive), second audit and Reindex, and last a Reindex(overwrite) attempt on the store's LIVE index (succeeding or failing) after which every acknowledged blob served before it must still be served; a slice of the diskpacked histories (removal shapes; ids h<N>np) runs on directories for which hole punching is refused (verif hook), so that every removal - prefix, crashed operation, continuation - takes the zero-fill fallback of non-Linux builds and of file systems without FALLOC_FL_PUNCH_HOLE; both tiers also replay an strace of a child (localdisk, diskpacked) against per-file dirty bits: no receive may be acknowledged with un-fsynced blob data; thorough adds real SIGKILLs of a child process on the OS filesystem (incl. multi-MiB blobs whose write(2) a kill cuts short); distinct = (store, history, crash-point kind, offset class)",
		run)
}

var (
	sampleMu   sync.Mutex
	sampleSeen = map[string]bool{}
)

// sampleFirst records the first case of each category as an evidence sample.
func sampleFirst(r *ev.Run, key string, v any) {
	sampleMu.Lock()
	seen := sampleSeen[key]
	sampleSeen[key] = true
	sampleMu.Unlock()
	if !seen {
		r.Sample(v)
	}
}

// pool runs tasks on a fixed number of goroutines.
func pool(n int, tasks []func()) {
	ch := make(chan func())
	var wg sync.WaitGroup
	for i := 0; i < n; i++ {
		wg.Add(1)
		go func() {
			defer wg.Done()
			for t := range ch {
				t()
			}
		}()
	}
	for _, t := range tasks {
		ch <- t
	}
	close(ch)
	wg.Wait()
}

func run(r *ev.Run) {
	log.SetOutput(io.Discard)
	r.Assume("journal oracle: acked receives not later removed must be present and intact after restart; the operation in flight at the crash leaves its blob uncertain (absent or present-and-intact) unless it could not change presence; nothing else may appear; any blob observed present in any view must have exactly its bytes and size")
	r.Assume("VFS crash model: Write reaches volatile content, Sync makes it durable; MkdirAll/TempFile/Rename/Remove are ordered and durable once they return (the missing directory fsync after rename is NOT modelled as a loss)")
	r.Assume("diskpacked crash states are built from a clean before/after snapshot diff of one real operation; index = before|after as a whole (a torn index file is the KV library's concern, covered only by the real SIGKILL runs)")
	r.Assume("rebuilt index may contain a blob whose receive was attempted but never acknowledged (its record may be complete in the pack); such restorations are counted, not judged - until the upload is retried with an ack and the blob is then removed with an ack: from there on the blob must be absent from a rebuilt index and from the stream too")
	r.Assume("signatures name the view, the crash-state kind and phase AND the blob the failure is about relative to the crash (inflight / new = touched after the restart / old / junk ref) plus the form of wrong bytes (truncated / zeroed / garbled); a Reindex failure is placed relative to the crashed record; the kv index-lag finding is only granted when the pack files agree with the journal about the blob")
	r.Assume("index-ahead-of-pack states (index row present, record body cut short) are not produced by a process death here (the row is observed to be written after the record is synced): what the store shows before the retry is not judged, only that an ACKNOWLEDGED retry of the upload leaves the blob intact")
	r.Assume("a removal state counts as reachable by a process death (no power-loss/ prefix) iff it is a prefix of an OBSERVED sequence of the three effects: index row vs pack content from the recording KV of that very operation, header rewrite vs body release from the strace of the diskpacked child (first occurrence of each effect; one order per run unless removes of different sizes show different orders, then either); evidence: observed_order, observed_pack_write_order, pack_write_order_source")
	r.Assume("recovery attempt on the LIVE index: at the end of every diskpacked case the store is stopped and diskpacked.Reindex(overwrite) is run on the index the store uses (pk reindex-diskpacked -overwrite), then the store is started again; judged is only that each acknowledged, non-removed blob a view (fetch, stat, enumerate) served intact before the attempt is served intact by that view after it, whether the rebuild returned nil (reindex-inplace-lost/) or an error (reindex-failed-then-lost/); what a rebuild may add is judged on the fresh index only")
	r.Assume("failing fsync (files store; case ids files-sf*): the Sync of the temp file of the last receive returns an error (EINVAL, ENOTSUP, ENOSYS, EIO, ENOSPC, EDQUOT, EINTR, errors.ErrUnsupported, a plain error; bare and as *os.PathError) and makes nothing durable; whether the store acknowledges that receive is observed: refused = the blob is in flight (absent or intact after the crash), acknowledged = the blob is owed intact after a crash in which un-synced data is kept, dropped or zeroed; crash kinds recv-syncfail-{refused,acked}-<variant>")
	r.Assume("a StreamBlobs error is judged only through its consequence (an acknowledged blob not streamed); errors at a torn tail after all present blobs were delivered are counted")
	r.Assume("file systems without hole punching (every non-Linux build; fallocate answering ENOSYS/EOPNOTSUPP): a slice of the diskpacked histories (ids h<N>np) runs in directories for which the verif hook of pkg/blobserver/diskpacked refuses the hole punch, so that every removal there - in the history prefix, as the crashed operation whose before/after diff the crash states are built from, and in the continued history after each restart - takes dele.go's zero-fill fallback; same oracles, same signatures; the order of header rewrite and zero fill is observed in the traced child too (second round of its probe removes with punching refused)")
	scratch := ev.Scratch("c03")
	defer os.RemoveAll(scratch)
	diskpacked.VerifSetNoPunchFilter(noPunchPath)

	w := makeWorld(r.Rand("world"))
	nHist := r.Pick(12, 144)
	workers := runtime.NumCPU()
	if workers > 14 {
		workers = 14
	}
	if workers < 2 {
		workers = 2
	}

	// stage 0: fsync-before-ack ordering observed with strace on the real OS
	traced, why := straceUsable()
	var stage0 sync.WaitGroup
	only := os.Getenv("VERIF_ONLY")
	if traced {
		for _, kind := range []string{"localdisk", "diskpacked-leveldb"} {
			// a replay of one diskpacked crash case still needs the observed pack write order of a
			// remove to name its state the way the full run did
			observeOnly := only != "" && !strings.HasPrefix(only, "syscall-order")
			if observeOnly && (kind == "localdisk" || !strings.HasPrefix(only, "diskpacked")) {
				if kind != "localdisk" {
					close(packOrder.ready)
				}
				continue
			}
			stage0.Add(1)
			go func() {
				defer stage0.Done()
				syscallOrder(r, kind, scratch, observeOnly)
			}()
		}
	} else {
		close(packOrder.ready)
		r.Assume("strace unusable here (" + why + "): the fsync-before-ack ordering on the real OS was not observed; a missing fsync in diskpacked cannot be seen by this run; the order in which a diskpacked remove rewrites the header and releases the body is ASSUMED (header first), a swap of the two cannot be seen by this run")
	}

	// stage 1: execute the histories, build the crash cases
	var mu sync.Mutex
	var cases []func()
	var prep []func()
	for hno := 0; hno < nHist; hno++ {
		shape := shapes[hno%len(shapes)]
		hid := fmt.Sprintf("h%d", hno)
		hf := genHistory(r.Rand("hist/files/"+hid), w, hid, shape)
		prep = append(prep, func() {
			fcs := filesCases(r, w, hf)
			r.Note("history_shapes", "files/"+hf.Shape)
			mu.Lock()
			for _, fc := range fcs {
				cases = append(cases, func() { runFilesCase(r, w, fc) })
			}
			mu.Unlock()
		})
		idxKind := []string{"leveldb", "kv"}[(hno+hno/len(shapes))%2]
		if !r.Thorough() && hno < 2 {
			// quick tier: make sure both index kinds see a receive and a remove
			idxKind = []string{"kv", "leveldb"}[hno%2]
		}
		if hno%7 == 4 {
			idxKind = "sqlite" // quick: a remove (h4) and a random history (h11); thorough: every shape in turn
		}
		hp := genHistory(r.Rand("hist/packed/"+hid), w, hid, shape)
		j := &packedJob{r: r, w: w, h: hp, idxKind: idxKind, store: "diskpacked-" + idxKind,
			dir: filepath.Join(scratch, "packed-"+hid)}
		addJob := func(j *packedJob) {
			prep = append(prep, func() {
				ok := false
				r.Guard("diskpacked-history", caseInfo{CaseID: j.store + "-" + j.h.ID + ";", History: j.h.strings(w)}, func() { ok = j.prepare() })
				if !ok {
					return
				}
				if j.noPunch {
					r.Note("history_shapes_nopunch", j.h.Shape)
				} else {
					r.Note("history_shapes", "diskpacked/"+j.h.Shape)
				}
				if j.rolled {
					r.Note("events", "roll-over-in-last-op")
				}
				mu.Lock()
				for i := range j.states {
					cases = append(cases, func() { j.runCase(i) })
				}
				mu.Unlock()
			})
		}
		addJob(j)
		// the same families on a file system without hole punching: own histories of the shapes that
		// matter for a removal (quick: one each; thorough: three each)
		if noPunchShapes[shape] && hno < 3*len(shapes) {
			npKind := []string{"leveldb", "kv"}[(hno+hno/len(shapes))%2]
			hn := genHistory(r.Rand("hist/packed-nopunch/"+hid), w, hid+"np", shape)
			addJob(&packedJob{r: r, w: w, h: hn, idxKind: npKind, store: "diskpacked-" + npKind, noPunch: true,
				dir: filepath.Join(scratch, "packed-"+hid+noPunchMark)})
		}
	}
	// the temp file's fsync fails in the last receive (syncfault.go): own histories sf0, sf1
	for i, shape := range syncFaultShapes {
		hid := fmt.Sprintf("sf%d", i)
		hs := genHistory(r.Rand("hist/files-syncfault/"+hid), w, hid, shape)
		prep = append(prep, func() {
			scs := syncFaultCases(r, w, hs, i, len(syncFaultShapes))
			mu.Lock()
			for _, sc := range scs {
				cases = append(cases, func() { runSyncFaultCase(r, w, sc) })
			}
			mu.Unlock()
		})
	}
	pool(workers, prep)
	r.Extra("histories_per_store", nHist)
	r.Extra("crash_cases", len(cases))
	fmt.Printf("PROGRESS %d crash cases from %d histories per store\n", len(cases), nHist)

	// stage 2: restart on every crash state
	pool(workers, cases)
	stage0.Wait()

	// stage 3 (thorough): real SIGKILLs on the OS filesystem
	if r.Thorough() && (only == "" || strings.HasPrefix(only, "kill-")) {
		var wg sync.WaitGroup
		for _, k := range []struct {
			kind string
			n    int
		}{{"localdisk", 200}, {"diskpacked-leveldb", 200}, {"diskpacked-kv", 40}} {
			wg.Add(1)
			go func() {
				defer wg.Done()
				killRuns(r, k.kind, scratch, k.n)
			}()
		}
		wg.Wait()
		r.Extra("real_states_covered", r.Counter("real_states_outside_materialiser_leveldb") == 0)
	}
	r.Extra("removals_refused_the_hole_punch", diskpacked.VerifNoPunchHits())
	if os.Getenv("VERIF_ONLY") != "" {
		return // a replay of one case does not claim coverage
	}
	if diskpacked.VerifNoPunchHits() > 0 {
		r.Note("events", "zero-fill-fallback-reached")
	}
	if r.Thorough() {
		r.Require("events", "real-kill-localdisk", "real-kill-diskpacked-leveldb", "real-kill-diskpacked-kv")
		r.Require("restarts", "localdisk/real-kill", "diskpacked-leveldb/real-kill", "diskpacked-kv/real-kill")
	}

	if traced {
		r.Require("events", "syscall-order-localdisk", "syscall-order-diskpacked-leveldb", "remove-pack-order-observed")
	}
	r.Require("events", "torn-header", "torn-body", "roll-over-crash", "roll-over-while-continuing", "reindex-run", "torn-header-rewrite",
		"continued-on-rebuilt-index", "index-ahead-retry", "retry-then-remove", "inplace-reindex-ok", "inplace-reindex-failed")
	r.Require("inplace_reindex_failed_in", "torn-body-then-append", "torn-header-then-append")
	r.Require("restart_modes", "rebuilt", "ahead")
	r.Require("restarts_rebuilt", "torn-header", "torn-body", "full-noindex", "full-indexed", "remove-header", "remove-header-zeroed", "remove-complete", "remove-index-only")
	r.Require("ref_hashes", "sha1", "sha224", "sha256")
	r.Require("index_kinds", "leveldb", "kv", "sqlite")
	r.Require("vfs_variants", "kept", "dropped", "zeroed")
	// the fsync of the temp file failed with each error, in both forms, and every crash variant was restarted
	r.Require("sync_fault_errors", syncFaultNames...)
	r.Require("sync_fault_forms", "patherr", "bare")
	r.Require("sync_fault_variants", "kept", "dropped", "zeroed")
	r.Require("crash_points_files",
		"recv-before-first-call", "recv-after-mkdirall", "recv-after-tempfile", "recv-after-write", "recv-mid-write", "recv-after-sync",
		"recv-after-close", "recv-after-lstat", "recv-after-rename", "remove-before-first-call", "remove-after-remove")
	// required by content (which of header / body / index row were changed), whatever order the code
	// performs them in; "pl-" only says a state is not a prefix of the OBSERVED order
	r.Require("crash_states_diskpacked",
		"none", "torn-header", "torn-body", "full-noindex", "full-indexed", "full-noindex-rolled", "full-indexed-rolled",
		"remove-none", "remove-header-torn", "remove-header", "remove-header-zero-partial", "remove-header-zeroed", "remove-complete",
		"remove-index-only", "remove-header-index", "remove-zeroed-only", "remove-zeroed-index", "ahead-torn-body")
	r.Require("state_classes", "order-consistent", "power-loss-only")
	// without hole punching: the removal shapes ran, and the crash states of a zero-filling remove as
	// well as the no-crash state of a fully acknowledged history were restarted
	r.Require("events", "zero-fill-fallback-reached")
	r.Require("history_shapes_nopunch", "recv-small", "remove-body", "remove-oldpack", "remove-absent", "remove-big")
	r.Require("crash_states_diskpacked_nopunch", "remove-none", "remove-header", "remove-header-zero-partial", "remove-header-zeroed",
		"remove-complete", "remove-nowrite", "torn-body", "full-indexed")
	r.Require("restarts_rebuilt_nopunch", "remove-header-zeroed", "remove-complete", "remove-nowrite")
	if traced {
		r.Require("events", "remove-pack-order-observed-nopunch")
	}
}

// Directories whose name ends in noPunchMark stand for a file system without hole punching: the
// verif hook of pkg/blobserver/diskpacked refuses the punch for every pack file below them.
const noPunchMark = "-nopunch"

var noPunchShapes = map[string]bool{"recv-small": true, "remove-body": true, "remove-oldpack": true, "remove-absent": true, "remove-big": true}

var noPunchSeen sync.Map // directory element carrying the mark -> *atomic.Int64: punches refused below it

func noPunchDirOf(path string) string {
	i := strings.Index(path, noPunchMark+string(filepath.Separator))
	if i < 0 {
		return ""
	}
	return filepath.Base(path[:i+len(noPunchMark)])
}

func noPunchPath(path string) bool {
	d := noPunchDirOf(path)
	if d == "" {
		return false
	}
	c, _ := noPunchSeen.LoadOrStore(d, new(atomic.Int64))
	c.(*atomic.Int64).Add(1)
	return true
}

// noPunchRefused is the number of hole punches refused so far below the marked directory dir.
func noPunchRefused(dir string) int64 {
	if c, ok := noPunchSeen.Load(filepath.Base(dir)); ok {
		return c.(*atomic.Int64).Load()
	}
	return 0
}
