package main

// diskpacked: the last operation of a history is executed for real between two snapshots of the
// store directory; crash states are materialised from the diff in fresh directories and a new
// store is opened on each with blobserver.CreateStorage.

import (
	"bytes"
	"context"
	"fmt"
	"io"
	"os"
	"path/filepath"
	"sort"
	"strings"
	"time"

	"go4.org/jsonconfig"
	"perkeep.org/pkg/blobserver"
	"perkeep.org/pkg/blobserver/diskpacked"
	"perkeep.org/pkg/sorted"

	"verif.local/harness/ev"
	"verif.local/harness/inject"
	"verif.local/harness/sto"
)

func idxConf(kind, dir string) map[string]any {
	switch kind {
	case "leveldb":
		return map[string]any{"type": "leveldb", "file": filepath.Join(dir, "index.leveldb")}
	case "kv":
		return map[string]any{"type": "kv", "file": filepath.Join(dir, "index.kv")}
	case "sqlite":
		return map[string]any{"type": "sqlite", "file": filepath.Join(dir, "index.sqlite")}
	}
	panic("index kind " + kind)
}

// openPacked opens a diskpacked store on dir whose metaIndex lives in dir/<idxDir>.
func openPacked(dir, idxKind, idxDir string, maxFileSize int) (blobserver.Storage, error) {
	if err := os.MkdirAll(filepath.Join(dir, idxDir), 0o755); err != nil {
		return nil, err
	}
	conf := jsonconfig.Obj{
		"path":        dir,
		"maxFileSize": float64(maxFileSize),
		"metaIndex":   idxConf(idxKind, filepath.Join(dir, idxDir)),
	}
	return blobserver.CreateStorage("diskpacked", sto.NewLoader(), conf)
}

func copyFile(src, dst string) error {
	in, err := os.Open(src)
	if err != nil {
		return err
	}
	defer in.Close()
	out, err := os.Create(dst)
	if err != nil {
		return err
	}
	if _, err := io.Copy(out, in); err != nil {
		out.Close()
		return err
	}
	return out.Close()
}

// copyTree copies src to dst; skip names a top-level entry to leave out.
func copyTree(src, dst, skip string) error {
	return filepath.Walk(src, func(p string, fi os.FileInfo, err error) error {
		if err != nil {
			return err
		}
		rel, _ := filepath.Rel(src, p)
		if skip != "" && (rel == skip || strings.HasPrefix(rel, skip+string(filepath.Separator))) {
			if fi.IsDir() {
				return filepath.SkipDir
			}
			return nil
		}
		t := filepath.Join(dst, rel)
		if fi.IsDir() {
			return os.MkdirAll(t, 0o755)
		}
		if !fi.Mode().IsRegular() {
			return nil
		}
		return copyFile(p, t)
	})
}

func readPacks(dir string) (map[string][]byte, []string, error) {
	ents, err := os.ReadDir(dir)
	if err != nil {
		return nil, nil, err
	}
	m := map[string][]byte{}
	var names []string
	for _, e := range ents {
		n := e.Name()
		if strings.HasPrefix(n, "pack-") && strings.HasSuffix(n, ".blobs") {
			b, err := os.ReadFile(filepath.Join(dir, n))
			if err != nil {
				return nil, nil, err
			}
			m[n] = b
			names = append(names, n)
		}
	}
	sort.Strings(names)
	return m, names, nil
}

type packedState struct {
	kind, off, detail string
	packs             map[string][]byte // pack name -> content replacing the "before" content
	extra             []string          // empty files to create
	index             string            // "before" | "after"
	variant           int               // how the in-flight op is continued: remove: 0 re-receive, 1 re-remove; receive: 0 retry, 2 retry then remove
	crashPack         string            // pack the crashed op wrote to, offset of its record in it
	crashOff          int64
	// mode: "" = restart on the store's own index; "rebuilt" = the index is rebuilt from the packs
	// first (Reindex into a fresh index) and the history continues on the rebuilt index; "ahead" =
	// the index has the row of a record whose body did not (all) reach the pack, judged only after
	// the acknowledged retry of that upload
	mode string
}

type packedJob struct {
	r       *ev.Run
	w       *world
	h       history
	idxKind string
	dir     string
	store   string
	states  []packedState
	rolled  bool
	// noPunch: the job's directory stands for a file system without hole punching (main.go
	// noPunchMark): every removal below it takes the zero-fill fallback of dele.go
	noPunch bool
}

func (j *packedJob) fail(format string, a ...any) {
	j.r.Inconclusive(fmt.Sprintf("diskpacked history %s (%s): ", j.h.ID, j.h.Shape) + fmt.Sprintf(format, a...))
}

// prepare runs the history and builds the crash states of the last operation.
func (j *packedJob) prepare() bool {
	r, w, h := j.r, j.w, j.h
	live := filepath.Join(j.dir, "live")
	if err := os.MkdirAll(live, 0o755); err != nil {
		j.fail("mkdir: %v", err)
		return false
	}
	bad := func(sig, what string) {
		r.Violation("prefix-"+sig, "while executing the history prefix without any crash: "+what, caseInfo{CaseID: j.store + "-" + h.ID + ";", Store: j.store, History: h.strings(w)})
	}
	s, err := openPacked(live, j.idxKind, "idx", packMaxFileSize)
	if err != nil {
		j.fail("open: %v", err)
		return false
	}
	ck := sto.NewChecker(s, "diskpacked", fullCaps, w.Uni, bad)
	do := func(op hop) {
		if op.Recv {
			ck.Receive(w.Uni[op.B])
		} else {
			ck.Remove([]sto.Blob{w.Uni[op.B]})
		}
	}
	n := len(h.Ops)
	// removals that have a body to release (a present, non-empty blob): each of them asks for the hole punch once
	bodyRemovals := int64(0)
	{
		here := map[int]bool{}
		for _, op := range h.Ops {
			if !op.Recv && here[op.B] && len(w.Uni[op.B].Data) > 0 {
				bodyRemovals++
			}
			here[op.B] = op.Recv
		}
	}
	for _, op := range h.Ops[:n-1] {
		do(op)
	}
	closeStorage(s)
	before := filepath.Join(j.dir, "before")
	if err := copyTree(live, before, ""); err != nil {
		j.fail("snapshot: %v", err)
		return false
	}
	// The last op runs with the real index KV wrapped by a recorder: at the instant of every index
	// mutation (before it is applied) the pack files are read as the OS sees them.  This gives the
	// OBSERVED order of pack writes relative to the index write.
	inner, err := sorted.NewKeyValue(jsonconfig.Obj(idxConf(j.idxKind, filepath.Join(live, "idx"))))
	if err != nil {
		j.fail("open index: %v", err)
		return false
	}
	var atIdx []map[string][]byte
	plan := inject.NewPlan()
	plan.Yield = func(c inject.Call) {
		if c.Write {
			m, _, _ := readPacks(live)
			atIdx = append(atIdx, m)
		}
	}
	kvName := fmt.Sprintf("c03-%s-%s-%p", j.store, h.ID, j)
	kvConf := inject.RegisterKV(kvName, inject.WrapKV("c03idx", inner, plan))
	defer inject.UnregisterKV(kvName)
	s, err = blobserver.CreateStorage("diskpacked", sto.NewLoader(), jsonconfig.Obj{
		"path": live, "maxFileSize": float64(packMaxFileSize), "metaIndex": map[string]any(kvConf)})
	if err != nil {
		inner.Close()
		j.fail("reopen: %v", err)
		return false
	}
	ck.S = s
	last := h.Ops[n-1]
	do(last)
	lastErr := ck.LastErr()
	closeStorage(s)
	inner.Close()
	r.Eval(ck.Evals)
	if lastErr != nil {
		j.fail("last op failed without a crash: %v", lastErr)
		return false
	}
	after := filepath.Join(j.dir, "after")
	if err := copyTree(live, after, ""); err != nil {
		j.fail("snapshot: %v", err)
		return false
	}
	os.RemoveAll(live)
	if j.noPunch {
		// the control point must have been effective for THIS history: every removal with a body was
		// refused the punch (and so went through the zero fill)
		if got := noPunchRefused(j.dir); got < bodyRemovals {
			j.fail("directory marked as not supporting hole punching, but only %d of %d removals were refused the punch: the zero-fill fallback was not exercised", got, bodyRemovals)
			return false
		}
		r.Count("nopunch_removals_zero_filled_in_histories", int(bodyRemovals))
	}
	if len(atIdx) > 1 {
		// the first mutation is the earliest instant at which the index can differ from "before"
		r.Count("last_ops_with_several_index_mutations", 1)
		atIdx = atIdx[:1]
	}
	r.Note("index_mutations_in_last_op", fmt.Sprint(len(atIdx)))

	pb, _, err1 := readPacks(before)
	pa, namesA, err2 := readPacks(after)
	if err1 != nil || err2 != nil {
		j.fail("read packs: %v %v", err1, err2)
		return false
	}
	pm := pa // pack contents at the index-mutation instant
	if len(atIdx) == 1 {
		pm = atIdx[0]
	}
	var changed, added []string
	for _, n := range namesA {
		if b, ok := pb[n]; !ok {
			added = append(added, n)
		} else if !bytes.Equal(b, pa[n]) {
			changed = append(changed, n)
		}
	}
	x := w.Uni[last.B]
	hdr := []byte(fmt.Sprintf("[%s %d]", x.Ref, len(x.Data)))
	H, L := len(hdr), len(hdr)+len(x.Data)
	var crashPack string
	crashOff := int64(-1)
	add := func(st packedState) {
		st.crashPack, st.crashOff = crashPack, crashOff
		if j.noPunch {
			st.detail += "; store directory WITHOUT hole punching (removals zero-fill the body)"
		}
		j.states = append(j.states, st)
	}
	// every state is restarted a second time through the operator's recovery path: a fresh index
	// rebuilt from the pack files, and the history continued on it
	defer func() {
		seen := map[string]int{}
		total := map[string]int{}
		for _, st := range j.states {
			total[st.kind+"|"+st.off+"|"+st.index]++
		}
		for _, st := range append([]packedState(nil), j.states...) {
			if st.mode != "" {
				continue
			}
			// not every byte offset again: per (kind, offset class, index) the first state (quick), or
			// six spread over the class (thorough)
			k := st.kind + "|" + st.off + "|" + st.index
			seen[k]++
			if n, stride := seen[k]-1, total[k]/6+1; !r.Thorough() && n > 0 || n%stride != 0 {
				continue
			}
			st.mode = "rebuilt"
			st.off += "/rebuilt"
			j.states = append(j.states, st)
		}
		// an in-flight receive is also continued by "retry, then remove" (one state per kind / offset class)
		seen2 := map[string]bool{}
		for _, st := range append([]packedState(nil), j.states...) {
			k := st.kind + "|" + st.off + "|" + st.index
			if !last.Recv || st.mode == "ahead" || seen2[k] {
				continue
			}
			seen2[k] = true
			st.variant = 2
			st.off += "/retry-remove"
			j.states = append(j.states, st)
		}
	}()

	if last.Recv {
		if len(changed) == 0 {
			// a duplicate receive of an indexed blob writes nothing
			if len(added) != 0 {
				j.fail("new pack without an appended record")
				return false
			}
			add(packedState{kind: "recv-nowrite", off: "-", detail: "the receive changed no pack file (duplicate)", index: "before"})
			add(packedState{kind: "recv-nowrite", off: "idx-after", detail: "the receive changed no pack file (duplicate)", index: "after"})
			return true
		}
		if len(changed) != 1 || len(added) > 1 {
			j.fail("unexpected diff: changed=%v added=%v", changed, added)
			return false
		}
		name := changed[0]
		old, cur := pb[name], pa[name]
		crashPack, crashOff = name, int64(len(old))
		if !bytes.HasPrefix(cur, old) || !bytes.Equal(cur[len(old):], append(append([]byte(nil), hdr...), x.Data...)) {
			j.fail("pack %s did not grow by exactly one record of the received blob", name)
			return false
		}
		if len(added) == 1 && len(pa[added[0]]) != 0 {
			j.fail("new pack %s is not empty", added[0])
			return false
		}
		if len(atIdx) != 1 || !bytes.HasPrefix(pm[name], old) || !bytes.HasPrefix(cur, pm[name]) {
			j.fail("cannot place the index mutation on the append timeline of %s (%d mutations)", name, len(atIdx))
			return false
		}
		// bytes of the record that were in the pack when the index row was written
		atIndex := len(pm[name]) - len(old)
		if atIndex == L {
			r.Note("observed_order", "receive: full record in the pack before the index row")
		} else {
			r.Note("observed_order", "receive: index row written with an incomplete record in the pack")
		}
		rec := cur[len(old):]
		j.rolled = len(added) == 1
		aheadCuts := map[int]bool{H: true, H + 1: true, H + (L-H)/2: true, L - 1: true}
		var cuts []int
		if L <= 256 {
			for l := 0; l < L; l++ {
				cuts = append(cuts, l)
			}
		} else {
			set := map[int]bool{0: true, 1: true, 2: true, L - 1: true, L - 2: true, atIndex: true}
			for d := -2; d <= 2; d++ {
				set[H+d] = true
			}
			for i := 1; i <= 16; i++ {
				set[H+2+(L-H-3)*i/17] = true
			}
			for l := range aheadCuts {
				set[l] = true
			}
			for l := range set {
				if l >= 0 && l < L {
					cuts = append(cuts, l)
				}
			}
			sort.Ints(cuts)
		}
		for _, l := range cuts {
			var kind, off string
			switch {
			case l == 0:
				kind, off = "none", "0"
			case l < H:
				kind = "torn-header"
				off = "mid"
				if l == 1 {
					off = "first"
				} else if l == H-1 {
					off = "last"
				} else if l <= 8 {
					off = "in-hashname"
				} else if l >= H-1-len(fmt.Sprint(len(x.Data))) {
					off = "in-size"
				}
			default:
				kind = "torn-body"
				off = "mid"
				if l == H {
					off = "body0"
				} else if l == L-1 {
					off = "last"
				}
				// A body whose missing tail looks like the start of a record header ("[sha1-…",
				// "[sha224-…") is completed byte for byte by whatever record is appended next: after
				// an append the state is physically "full-noindex", not torn.  Such a state would be
				// judged under the wrong name (false alarm at seed 51: the 77-byte blob ended in
				// '['), so it is left out and counted; the class is covered by the other cuts.
				if s := rec[l:]; bytes.HasPrefix([]byte("[sha1-"), s) || bytes.HasPrefix([]byte("[sha224-"), s) ||
					bytes.HasPrefix(s, []byte("[sha1-")) || bytes.HasPrefix(s, []byte("[sha224-")) {
					r.Count("torn_body_states_left_out_tail_completed_by_next_record", 1)
					continue
				}
			}
			content := map[string][]byte{name: append(append([]byte(nil), old...), rec[:l]...)}
			if l <= atIndex {
				add(packedState{kind: kind, off: off, index: "before", packs: content,
					detail: fmt.Sprintf("%s = before + %d of %d record bytes (header %d bytes), index as before", name, l, L, H)})
			}
			if l < atIndex && l >= H && aheadCuts[l] {
				// not a state a process death produces here (the row is written after the record):
				// the pack lost its tail while the index kept the row.  What the store shows before
				// the client's retry is not judged; the acknowledged retry must heal the blob.
				add(packedState{kind: "ahead-torn-body", off: off, index: "after", packs: content, mode: "ahead",
					detail: fmt.Sprintf("%s = before + %d of %d record bytes (header %d bytes), index HAS the row (index ahead of the pack); judged after the acknowledged retry of the upload", name, l, L, H)})
			}
			if l >= atIndex {
				// the index row was observed to be written at this point or earlier
				add(packedState{kind: "indexed-" + kind, off: off, index: "after", packs: content,
					detail: fmt.Sprintf("%s = before + %d of %d record bytes (header %d bytes), index HAS the row (observed: the row was written when %d record bytes were in the pack)", name, l, L, H, atIndex)})
			}
		}
		full := map[string][]byte{name: cur}
		if atIndex < L {
			add(packedState{kind: "full-indexed", off: "-", index: "after", packs: full, detail: name + " has the full record, index has the row (not acknowledged)"})
		} else if !j.rolled {
			add(packedState{kind: "full-noindex", off: "-", index: "before", packs: full, detail: name + " has the full record, index as before"})
			add(packedState{kind: "full-indexed", off: "-", index: "after", packs: full, detail: name + " has the full record, index has the row (not acknowledged)"})
		} else {
			next := []string{added[0], added[0] + ".lock"}
			add(packedState{kind: "full-noindex-rolled", off: "no-next-pack", index: "before", packs: full, detail: name + " full record exceeding maxFileSize, next pack not yet created, index as before"})
			add(packedState{kind: "full-noindex-rolled", off: "next-pack", index: "before", packs: full, extra: next, detail: name + " full record, next pack + lock created, index as before"})
			add(packedState{kind: "full-indexed-rolled", off: "next-pack", index: "after", packs: full, extra: next, detail: name + " full record, next pack + lock created, index has the row"})
			add(packedState{kind: "full-indexed-rolled", off: "no-next-pack", index: "after", packs: full, detail: name + " full record, index has the row, next pack missing (not order-consistent)"})
		}
		return true
	}

	// remove
	if len(added) != 0 || len(changed) > 1 {
		j.fail("unexpected remove diff: changed=%v added=%v", changed, added)
		return false
	}
	if len(changed) == 0 {
		add(packedState{kind: "remove-nowrite", off: "-", index: "before", detail: "the remove changed no pack file"})
		add(packedState{kind: "remove-nowrite", off: "idx-after", index: "after", detail: "the remove changed no pack file"})
		return true
	}
	name := changed[0]
	old, cur := pb[name], pa[name]
	hp := bytes.Index(old, hdr)
	if hp < 0 || len(old) != len(cur) || bytes.Index(old[hp+1:], hdr) >= 0 {
		j.fail("cannot locate the single record of the removed blob in %s", name)
		return false
	}
	crashPack, crashOff = name, int64(hp)
	// A completed remove that did something else to the pack than "rewrite the header, zero the body"
	// cannot be cut into crash states by the materialiser (the run is inconclusive about them); the
	// state the ACKNOWLEDGED remove left is still a state to restart on, exactly as it is on disk.
	asExecuted := func(format string, a ...any) bool {
		why := fmt.Sprintf(format, a...)
		j.fail("%s", why)
		add(packedState{kind: "remove-as-executed", off: "-", index: "after", packs: map[string][]byte{name: cur},
			detail: "pack files and index exactly as the completed remove left them (no crash state could be derived: " + why + ")"})
		return true
	}
	for i := range old {
		if old[i] != cur[i] && (i <= hp || i >= hp+L || i == hp+H-1) {
			return asExecuted("remove changed byte %d of %s outside the record's header/body (record at %d, header %d bytes, body %d bytes)", i, name, hp, H, L-H)
		}
	}
	if !bytes.Equal(cur[hp+H:hp+L], make([]byte, L-H)) {
		return asExecuted("remove did not zero the body")
	}
	if hp+L < len(old) || name != namesA[len(namesA)-1] {
		r.Note("events", "remove-in-older-position")
	}
	size := L - H
	mid := pm[name]
	if len(atIdx) != 1 || len(mid) != len(old) {
		j.fail("cannot place the index mutation on the remove timeline of %s (%d mutations)", name, len(atIdx))
		return false
	}
	// observed order of the three effects: what had been done to the pack when the index batch was committed
	hBefore := bytes.Equal(mid[hp:hp+H], cur[hp:hp+H])
	zBefore := bytes.Equal(mid[hp+H:hp+L], cur[hp+H:hp+L])
	if !hBefore && !bytes.Equal(mid[hp:hp+H], old[hp:hp+H]) || !zBefore && !bytes.Equal(mid[hp+H:hp+L], old[hp+H:hp+L]) {
		j.fail("pack %s was caught mid-rewrite at the index mutation", name)
		return false
	}
	if bytes.Equal(old[hp+H:hp+L], cur[hp+H:hp+L]) {
		zBefore = hBefore // an all-zero (or empty) body shows nothing; assume it follows the header
	}
	// The index recorder places header rewrite and body release relative to the index mutation; which
	// of the two comes first when both lie on the same side of it is OBSERVED too: the system-call
	// trace of the diskpacked child (trace.go) shows the order of the pack writes of a remove.  Only
	// without a usable trace is the order of dele.go as it was read (header first) assumed.
	packOrders, orderSource := packOrder.removeOrders(j.noPunch)
	r.Note("pack_write_order_source", orderSource)
	var seqs [][]string
	for _, po := range packOrders {
		var seq []string
		for _, before := range []bool{true, false} {
			for _, e := range po {
				switch {
				case e == 'H' && hBefore == before:
					seq = append(seq, "H")
				case e == 'Z' && zBefore == before && size > 0:
					seq = append(seq, "Z")
				}
			}
			if before {
				seq = append(seq, "I")
			}
		}
		seqs = append(seqs, seq)
		r.Note("observed_order", "remove: "+strings.Join(seq, ","))
	}
	var seqNames []string
	for _, seq := range seqs {
		seqNames = append(seqNames, strings.Join(seq, ","))
	}
	seqText := strings.Join(seqNames, " | ")
	// build(h, z): h = header bytes rewritten (0..H), z = body bytes zeroed (0..size)
	build := func(h, z int) map[string][]byte {
		c := append([]byte(nil), old...)
		copy(c[hp:hp+h], cur[hp:hp+h])
		copy(c[hp+H:hp+H+z], cur[hp+H:hp+H+z])
		return map[string][]byte{name: c}
	}
	// progress of an effect: 0 none, 1 partial, 2 done
	prog := func(done, total int) int {
		switch {
		case done == 0 && total > 0:
			return 0
		case done < total:
			return 1
		}
		return 2
	}
	st := func(kind, off string, h, z int, idx string) {
		p := map[string]int{"H": prog(h, H), "Z": prog(z, size), "I": map[string]int{"before": 0, "after": 2}[idx]}
		// a process death leaves a prefix of the sequence of effects (the last one possibly partial):
		// consistent with ANY observed sequence = reachable by killing the process
		consistent := false
		for _, seq := range seqs {
			ok, open := true, false
			for _, e := range seq {
				if open && p[e] != 0 {
					ok = false
				}
				if p[e] != 2 {
					open = true
				}
			}
			consistent = consistent || ok
		}
		if !consistent {
			kind = "pl-" + kind // only a power loss (nothing on this path is fsynced) produces this subset
		}
		add(packedState{kind: kind, off: off, index: idx, packs: build(h, z),
			detail: fmt.Sprintf("%s: %d of %d header bytes rewritten, %d of %d body bytes zeroed, index row %s (observed order of effects: %s)", name, h, H, z, size, map[string]string{"before": "kept", "after": "deleted"}[idx], seqText+"; pack write order: "+orderSource)})
	}
	st("remove-none", "-", 0, 0, "before")
	for i, h := range []int{4, H / 2, H - 3} {
		st("remove-header-torn", []string{"in-hashname", "mid", "late"}[i], h, 0, "before")
	}
	st("remove-header", "-", H, 0, "before")
	if size > 0 {
		seen := map[int]bool{}
		for i, z := range []int{1, size / 2, size - 1} {
			if z > 0 && z < size && !seen[z] {
				seen[z] = true
				st("remove-header-zero-partial", []string{"first", "mid", "last"}[i], H, z, "before")
			}
		}
		st("remove-header-zeroed", "-", H, size, "before")
	}
	st("remove-complete", "-", H, size, "after")
	st("remove-index-only", "-", 0, 0, "after")
	if size > 0 {
		st("remove-header-index", "-", H, 0, "after")
		st("remove-zeroed-only", "-", 0, size, "before")
		st("remove-zeroed-index", "-", 0, size, "after")
		if size > 2 {
			st("remove-zero-partial-only", "mid", 0, size/2, "before")
		}
	}
	if !hBefore {
		for i, h := range []int{4, H / 2, H - 3} {
			st("remove-index-header-torn", []string{"in-hashname", "mid", "late"}[i], h, 0, "after")
		}
	}
	// every remove state is continued both ways
	for _, st := range append([]packedState(nil), j.states...) {
		st.variant = 1
		st.off += "/reremove"
		add(st)
	}
	return true
}

func (j *packedJob) materialise(st packedState, dst string) error {
	if err := copyTree(filepath.Join(j.dir, "before"), dst, "idx"); err != nil {
		return err
	}
	if err := copyTree(filepath.Join(j.dir, st.index, "idx"), filepath.Join(dst, "idx"), ""); err != nil {
		return err
	}
	for n, c := range st.packs {
		if err := os.WriteFile(filepath.Join(dst, n), c, 0o644); err != nil {
			return err
		}
	}
	for _, n := range st.extra {
		if err := os.WriteFile(filepath.Join(dst, n), nil, 0o644); err != nil {
			return err
		}
	}
	// the dead process leaves the lock file of its writer pack behind
	_, names, err := readPacks(dst)
	if err != nil {
		return err
	}
	if len(names) > 0 {
		lock := filepath.Join(dst, names[len(names)-1]+".lock")
		if _, err := os.Stat(lock); err != nil {
			os.WriteFile(lock, nil, 0o644)
		}
	}
	return nil
}

func countPacks(dir string) int {
	_, names, _ := readPacks(dir)
	return len(names)
}

func (j *packedJob) runCase(i int) {
	st := j.states[i]
	r := j.r
	info := caseInfo{CaseID: fmt.Sprintf("%s-%s-s%d;", j.store, j.h.ID, i), Store: j.store, Shape: j.h.Shape,
		History: j.h.strings(j.w), Kind: st.kind, Off: st.off, Detail: st.detail}
	if !r.Only(info.CaseID) {
		return
	}
	dir := filepath.Join(j.dir, fmt.Sprintf("s%d", i))
	defer os.RemoveAll(dir)
	if err := j.materialise(st, dir); err != nil {
		j.fail("materialise state %d: %v", i, err)
		return
	}
	o := newOracle(r, j.w, j.h, info)
	o.crashPack, o.crashOff = st.crashPack, st.crashOff
	r.Guard("diskpacked-restart", info, func() {
		switch st.mode {
		case "rebuilt":
			j.runRebuilt(o, st, dir)
			return
		case "ahead":
			j.runAhead(o, st, dir)
			return
		}
		packedRestart(o, dir, j.idxKind, packMaxFileSize, "rebuilt1")
		s, err := openPacked(dir, j.idxKind, "idx", packMaxFileSize)
		if err != nil {
			o.violation("reopen-fails/diskpacked", err.Error())
			return
		}
		before := countPacks(dir)
		ck := o.checker(s, "diskpacked")
		o.continueHistory(ck, st.variant)
		ck.Audit(o.rng, true)
		o.done(ck)
		o.streamCheck(s, "diskpacked")
		closeStorage(s)
		if countPacks(dir) > before {
			r.Note("events", "roll-over-while-continuing")
		}
		o.reindexCheck(dir, j.idxKind, packMaxFileSize, "rebuilt2")
		o.inplaceReindexCheck(dir, j.idxKind, "idx", packMaxFileSize)
	})
	if st.mode != "" {
		r.Count("restarts_diskpacked_"+st.mode, 1)
		r.Note("restart_modes", st.mode)
		r.Note("restarts_"+st.mode, strings.TrimPrefix(st.kind, "pl-"))
		if j.noPunch {
			r.Count("restarts_diskpacked_nopunch_"+st.mode, 1)
			r.Note("restarts_"+st.mode+"_nopunch", strings.TrimPrefix(st.kind, "pl-"))
		}
		r.Distinct(j.store + "|" + j.h.ID + "|" + st.kind + "|" + st.off)
		if o.violations == 0 {
			r.Count("cases_held", 1)
		}
		if st.mode == "ahead" {
			r.Note("crash_states_diskpacked", st.kind)
		}
		sampleFirst(r, "diskpacked-mode-"+st.mode+"-"+strings.SplitN(st.kind, "-", 2)[0], map[string]any{"case": info, "continued_with": o.trace})
		return
	}
	if j.noPunch {
		r.Count("restarts_diskpacked_nopunch", 1)
		r.Note("crash_states_diskpacked_nopunch", strings.TrimPrefix(st.kind, "pl-"))
	}
	r.Count("restarts_diskpacked", 1)
	r.Note("restarts", "diskpacked/"+st.kind)
	r.Note("crash_points_diskpacked", st.kind)
	r.Note("crash_states_diskpacked", strings.TrimPrefix(st.kind, "pl-"))
	r.Note("index_kinds", j.idxKind)
	switch {
	case st.kind == "torn-header":
		r.Note("events", "torn-header")
	case st.kind == "torn-body":
		r.Note("events", "torn-body")
	case strings.HasSuffix(st.kind, "-rolled"):
		r.Note("events", "roll-over-crash")
	case st.kind == "remove-header-torn":
		r.Note("events", "torn-header-rewrite")
	}
	if strings.HasPrefix(st.kind, "pl-") {
		r.Count("power_loss_only_states", 1)
		r.Note("state_classes", "power-loss-only")
	} else {
		r.Count("order_consistent_states", 1)
		r.Note("state_classes", "order-consistent")
	}
	r.Distinct(j.store + "|" + j.h.ID + "|" + st.kind + "|" + st.off)
	if o.violations == 0 {
		r.Count("cases_held", 1)
	}
	if i >= 5 || i == len(j.states)-1 {
		sampleFirst(r, "diskpacked-"+strings.SplitN(st.kind, "-", 2)[0], map[string]any{"case": info, "continued_with": o.trace})
	}
}

// runRebuilt is the operator's recovery path after the crash: the index is rebuilt from the pack
// files alone into a FRESH index (diskpacked.Reindex), the store is restarted on the rebuilt index
// and the history continues there, the interrupted operation first.
func (j *packedJob) runRebuilt(o *oracle, st packedState, dir string) {
	r := j.r
	const idxDir = "idx-recovered"
	os.MkdirAll(filepath.Join(dir, idxDir), 0o755)
	var err error
	ok := ev.WithTimeout(120*time.Second, func() {
		err = diskpacked.Reindex(context.Background(), dir, true, jsonconfig.Obj(idxConf(j.idxKind, filepath.Join(dir, idxDir))))
	})
	if !ok {
		r.Inconclusive("diskpacked.Reindex did not return within 120s: " + o.info.CaseID)
		return
	}
	r.Eval(1)
	if err != nil {
		// judged (and placed) in the plain restart of this state
		r.Count("rebuilt_mode_reindex_failed", 1)
		return
	}
	s, err := openPacked(dir, j.idxKind, idxDir, packMaxFileSize)
	if err != nil {
		o.violation("reopen-fails/diskpacked-reindexed", err.Error())
		return
	}
	// a record of an unacknowledged attempt may be complete in the pack: the rebuilt index may have it
	for ref := range o.attempted {
		if _, ok := o.present[ref]; !ok {
			o.uncertain[ref] = true
		}
	}
	ck := o.checker(s, "diskpacked-reindexed")
	ck.Audit(o.rng, false) // (the stream does not depend on the index: judged in the plain restart)
	o.done(ck)
	o.continueHistory(ck, st.variant)
	ck.Audit(o.rng, true)
	o.done(ck)
	o.streamCheck(s, "diskpacked") // the stream reads the packs, whatever the index
	closeStorage(s)
	r.Note("events", "continued-on-rebuilt-index")
	o.reindexCheck(dir, j.idxKind, packMaxFileSize, "rebuilt2")
	o.inplaceReindexCheck(dir, j.idxKind, idxDir, packMaxFileSize)
}

// runAhead: the index has the row of the record, the pack does not have all of its body.  The
// client retries the interrupted upload first; once that is acknowledged the blob must be intact
// in every index-backed view.  (The torn record stays in the pack: stream and Reindex over it are
// judged in the torn-body states.)
func (j *packedJob) runAhead(o *oracle, st packedState, dir string) {
	s, err := openPacked(dir, j.idxKind, "idx", packMaxFileSize)
	if err != nil {
		o.violation("reopen-fails/diskpacked", err.Error())
		return
	}
	defer closeStorage(s)
	ck := o.checker(s, "diskpacked")
	o.phase = "-then-retry"
	last := j.h.Ops[len(j.h.Ops)-1]
	o.receive(ck, last.B)
	if ck.LastErr() != nil {
		return // reported by the checker (op-error)
	}
	ck.Audit(o.rng, false)
	o.receive(ck, j.w.NH) // a new blob behind it
	ck.Audit(o.rng, false)
	o.done(ck)
	j.r.Note("events", "index-ahead-retry")
}

// packedRestart opens the store on a crash state, audits every view and rebuilds the index.
func packedRestart(o *oracle, dir, idxKind string, mfs int, rebuilt string) bool {
	s, err := openPacked(dir, idxKind, "idx", mfs)
	if err != nil {
		o.violation("reopen-fails/diskpacked", err.Error())
		return false
	}
	ck := o.checker(s, "diskpacked")
	ck.Audit(o.rng, false)
	o.done(ck)
	o.streamCheck(s, "diskpacked")
	closeStorage(s)
	o.reindexCheck(dir, idxKind, mfs, rebuilt)
	return true
}

// reindexCheck rebuilds a FRESH index from the pack files alone and requires
// present(acked minus removed) ⊆ rebuilt ⊆ acked ∪ attempted, every indexed blob intact.
func (o *oracle) reindexCheck(dir, idxKind string, mfs int, name string) {
	idxDir := "idx-" + name
	defer os.RemoveAll(filepath.Join(dir, idxDir))
	os.MkdirAll(filepath.Join(dir, idxDir), 0o755)
	var err error
	ok := ev.WithTimeout(120*time.Second, func() {
		err = diskpacked.Reindex(context.Background(), dir, true, jsonconfig.Obj(idxConf(idxKind, filepath.Join(dir, idxDir))))
	})
	if !ok {
		o.r.Inconclusive("diskpacked.Reindex did not return within 120s: " + o.info.CaseID)
		return
	}
	o.r.Note("events", "reindex-run")
	o.r.Count("reindex_runs", 1)
	o.r.Eval(1)
	if err != nil {
		o.r.Count("reindex_failures", 1)
		o.violation("reindex-fails/"+o.placeReindexError(err), "diskpacked.Reindex(overwrite) over the pack files failed: "+err.Error())
		return
	}
	s, err := openPacked(dir, idxKind, idxDir, mfs)
	if err != nil {
		o.violation("reopen-fails/diskpacked-reindexed", err.Error())
		return
	}
	defer closeStorage(s)
	ck := sto.NewChecker(s, "diskpacked-reindexed", fullCaps, o.w.Uni, o.reporter("diskpacked-reindexed", s))
	for ref, d := range o.present {
		ck.Present[ref] = d
	}
	var maybe []string
	for ref := range o.attempted {
		if _, ok := o.present[ref]; !ok {
			ck.Uncertain[ref] = true
			maybe = append(maybe, ref.String())
		}
	}
	for ref := range o.rmInflight {
		ck.Uncertain[ref] = true
	}
	for ref := range o.uncertain {
		ck.Uncertain[ref] = true
	}
	ck.Audit(o.rng, false)
	o.done(ck)
	for _, m := range maybe {
		for ref := range ck.Present {
			if ref.String() == m {
				o.r.Count("reindex_restored_unacked_record", 1)
			}
		}
	}
}

// served is what one open store shows of the universe, per view.
type served struct {
	fetch, stat, enum map[blobRef]bool
}

// observeServed reads every blob of the universe through fetch, stat and enumerate: a blob counts as
// served in a view iff that view presents it with exactly its bytes / size.
func (o *oracle) observeServed(s blobserver.Storage) served {
	ctx := context.Background()
	v := served{fetch: map[blobRef]bool{}, stat: map[blobRef]bool{}, enum: map[blobRef]bool{}}
	for _, b := range o.w.Uni {
		if rc, size, err := s.Fetch(ctx, b.Ref); err == nil {
			data, err := io.ReadAll(rc)
			rc.Close()
			if err == nil && int(size) == len(b.Data) && bytes.Equal(data, b.Data) {
				v.fetch[b.Ref] = true
			}
		}
		s.StatBlobs(ctx, []blobRef{b.Ref}, func(sb sizedRef) error {
			if sb.Ref == b.Ref && int(sb.Size) == len(b.Data) {
				v.stat[b.Ref] = true
			}
			return nil
		})
	}
	sizes := map[blobRef]int{}
	for _, b := range o.w.Uni {
		sizes[b.Ref] = len(b.Data)
	}
	ch := make(chan sizedRef, 16)
	errc := make(chan error, 1)
	go func() { errc <- s.EnumerateBlobs(ctx, ch, "", 10000) }()
	for sb := range ch {
		if n, ok := sizes[sb.Ref]; ok && n == int(sb.Size) {
			v.enum[sb.Ref] = true
		}
	}
	<-errc
	return v
}

// inplaceReindexCheck is the operator's recovery attempt on the LIVE index: with the store stopped,
// diskpacked.Reindex(overwrite) is run on the index the store uses (what `pk reindex-diskpacked
// -overwrite` does), then the store is started again.  Whether the rebuild succeeds or gives up with
// an error (it does give up on a pack with a torn record followed by later appends - the listed
// reindex-fails finding), it must not cost the store an acknowledged blob it served until then:
// every acknowledged, non-removed blob that a view presented intact before the attempt must be
// presented intact by that view after it.  Nothing else is judged here (what a rebuild may ADD is
// judged on the fresh index in reindexCheck).
func (o *oracle) inplaceReindexCheck(dir, idxKind, idxDir string, mfs int) {
	s, err := openPacked(dir, idxKind, idxDir, mfs)
	if err != nil {
		o.r.Count("inplace_reindex_skipped_store_does_not_open", 1)
		return
	}
	before := o.observeServed(s)
	closeStorage(s)
	ok := ev.WithTimeout(120*time.Second, func() {
		err = diskpacked.Reindex(context.Background(), dir, true, jsonconfig.Obj(idxConf(idxKind, filepath.Join(dir, idxDir))))
	})
	if !ok {
		o.r.Inconclusive("diskpacked.Reindex on the live index did not return within 120s: " + o.info.CaseID)
		return
	}
	class, outcome := "reindex-inplace-lost", "the rebuild returned nil"
	if err != nil {
		class, outcome = "reindex-failed-then-lost", "the rebuild failed: "+err.Error()
		o.r.Note("events", "inplace-reindex-failed")
		o.r.Count("inplace_reindex_failed", 1)
		o.r.Note("inplace_reindex_failed_in", strings.TrimPrefix(o.info.Kind, "pl-")+o.phase)
	} else {
		o.r.Note("events", "inplace-reindex-ok")
		o.r.Count("inplace_reindex_ok", 1)
	}
	s, err2 := openPacked(dir, idxKind, idxDir, mfs)
	o.r.Eval(1)
	if err2 != nil {
		o.violation(class+"/reopen-fails", "the store opened before diskpacked.Reindex(overwrite) was run on its live index ("+outcome+") and does not open after it: "+err2.Error())
		return
	}
	defer closeStorage(s)
	after := o.observeServed(s)
	lost := map[string][]string{}
	var first = map[string]blobRef{}
	for _, b := range o.w.Uni {
		if _, acked := o.present[b.Ref]; !acked {
			continue
		}
		for _, v := range []struct {
			name       string
			was, still bool
		}{{"fetch", before.fetch[b.Ref], after.fetch[b.Ref]}, {"stat", before.stat[b.Ref], after.stat[b.Ref]}, {"enumerate", before.enum[b.Ref], after.enum[b.Ref]}} {
			if !v.was {
				continue
			}
			o.r.Eval(1)
			o.r.Count("inplace_reindex_served_before_checked", 1)
			if !v.still {
				subj := o.subject(b.Ref)
				if _, ok := first[subj]; !ok {
					first[subj] = b.Ref
				}
				lost[subj] = append(lost[subj], fmt.Sprintf("%v (%s)", b.Ref, v.name))
			}
		}
	}
	for _, subj := range []string{"old", "inflight", "new"} {
		if l := lost[subj]; len(l) > 0 {
			o.violationRef(class+"/"+subj, fmt.Sprintf("diskpacked.Reindex(overwrite) was run on the store's live index (%s); %d view(s) of acknowledged, non-removed blobs that were served intact before the attempt are not served after it: %s", outcome, len(l), strings.Join(l, ", ")), first[subj])
		}
	}
}
