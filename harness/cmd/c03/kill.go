package main

// Real crashes: a child process runs a receive/remove loop on the real OS filesystem (localdisk or
// diskpacked), appending a journal line before each operation and an ack line after it; the parent
// SIGKILLs it after the k-th journal line, reopens the directory and audits it with the same
// journal oracle, then lets the next child continue on the same directory.

import (
	"bufio"
	"bytes"
	"context"
	"fmt"
	"io"
	"math/rand"
	"os"
	"os/exec"
	"path/filepath"
	"regexp"
	"strconv"
	"strings"
	"time"

	"go4.org/jsonconfig"
	"perkeep.org/pkg/blobserver"
	"perkeep.org/pkg/blobserver/diskpacked"
	_ "perkeep.org/pkg/blobserver/localdisk"

	"verif.local/harness/ev"
	"verif.local/harness/sto"
)

const killMaxFileSize = 300000

// killWorld is the universe of the real-kill runs: it includes multi-megabyte blobs, whose single
// write(2) a SIGKILL can cut short.
func killWorld(seed int64) *world {
	rng := rand.New(rand.NewSource(seed))
	w := &world{}
	for i, n := range []int{0, 1, 50, 180, 300, 700, 2300, 64 << 10, 200 << 10, 1 << 20, 3 << 20, 4 << 20, 33, 4096} {
		data := randBytes(rng, n)
		hash := map[int]string{2: "sha1", 5: "sha256", 8: "sha1", 13: "sha256"}[i]
		if hash == "" {
			hash = "sha224"
		}
		w.Uni = append(w.Uni, sto.Blob{Ref: sto.RefOf(hash, data), Data: data})
	}
	w.NH = len(w.Uni)
	return w
}

func openKillStore(kind, dir string) (blobserver.Storage, error) {
	switch kind {
	case "localdisk":
		return blobserver.CreateStorage("filesystem", sto.NewLoader(), jsonconfig.Obj{"path": dir})
	case "diskpacked-leveldb":
		return openPacked(dir, "leveldb", "idx", killMaxFileSize)
	case "diskpacked-kv":
		return openPacked(dir, "kv", "idx", killMaxFileSize)
	}
	return nil, fmt.Errorf("unknown store kind %q", kind)
}

// killChild is the child process body (VERIF_CHILD=c03kill).
func killChild() {
	kind, dir, jpath := os.Getenv("C03_STORE"), os.Getenv("C03_DIR"), os.Getenv("C03_JOURNAL")
	wseed, _ := strconv.ParseInt(os.Getenv("C03_WSEED"), 10, 64)
	oseed, _ := strconv.ParseInt(os.Getenv("C03_OSEED"), 10, 64)
	w := killWorld(wseed)
	nUni := len(w.Uni)
	probe := os.Getenv("C03_ORDER_PROBE") != ""
	if probe {
		addProbeBlobs(w, wseed) // behind the universe the op loop draws from
	}
	rng := rand.New(rand.NewSource(oseed))
	jf, err := os.OpenFile(jpath, os.O_WRONLY|os.O_APPEND|os.O_CREATE, 0o644)
	if err != nil {
		fmt.Println("journal:", err)
		os.Exit(4)
	}
	s, err := openKillStore(kind, dir)
	if err != nil {
		fmt.Fprintf(jf, "O %v\n", strings.ReplaceAll(err.Error(), "\n", " "))
		os.Exit(5)
	}
	ctx := context.Background()
	maxOps := 400
	if n, err := strconv.Atoi(os.Getenv("C03_MAXOPS")); err == nil && n > 0 {
		maxOps = n
	}
	for i := 0; i < maxOps; i++ {
		b := rng.Intn(nUni)
		recv := rng.Intn(100) < 65
		if recv {
			fmt.Fprintf(jf, "B %d R %d\n", i, b)
			_, err = blobserver.Receive(ctx, s, w.Uni[b].Ref, bytes.NewReader(w.Uni[b].Data))
		} else {
			fmt.Fprintf(jf, "B %d D %d\n", i, b)
			err = s.RemoveBlobs(ctx, []blobRef{w.Uni[b].Ref})
		}
		if err != nil {
			fmt.Fprintf(jf, "E %d %s\n", i, strings.ReplaceAll(err.Error(), "\n", " "))
			os.Exit(6)
		}
		fmt.Fprintf(jf, "A %d\n", i)
	}
	if probe {
		// traced run only: every probe blob is received and then removed, so that the system-call
		// trace shows how a remove of a present blob changes its pack, for a spread of body sizes
		// ... and a second time with hole punching refused (journal line "N nopunch"): the zero-fill
		// fallback of a remove is other code, its order of pack writes is observed separately
		i := maxOps
		for round := 0; round < 2; round++ {
			if round == 1 {
				diskpacked.VerifSetNoPunch(true)
				fmt.Fprintf(jf, "N nopunch\n")
			}
			for b := nUni; b < len(w.Uni); b++ {
				for _, recv := range []bool{true, false} {
					if recv {
						fmt.Fprintf(jf, "B %d R %d\n", i, b)
						_, err = blobserver.Receive(ctx, s, w.Uni[b].Ref, bytes.NewReader(w.Uni[b].Data))
					} else {
						fmt.Fprintf(jf, "B %d D %d\n", i, b)
						err = s.RemoveBlobs(ctx, []blobRef{w.Uni[b].Ref})
					}
					if err != nil {
						fmt.Fprintf(jf, "E %d %s\n", i, strings.ReplaceAll(err.Error(), "\n", " "))
						os.Exit(6)
					}
					fmt.Fprintf(jf, "A %d\n", i)
					i++
				}
			}
		}
	}
	fmt.Fprintf(jf, "X done\n")
	os.Exit(0)
}

type journal struct {
	acked    []hop
	inflight *hop
	failed   string // an operation returned an error in the child
	openErr  string
	lines    int
}

func parseJournal(path string) (journal, error) {
	var j journal
	f, err := os.Open(path)
	if err != nil {
		return j, err
	}
	defer f.Close()
	sc := bufio.NewScanner(f)
	var cur *hop
	curNo := -1
	for sc.Scan() {
		f := strings.Fields(sc.Text())
		if len(f) < 2 {
			continue
		}
		j.lines++
		switch f[0] {
		case "B":
			if len(f) != 4 {
				continue // a torn last line
			}
			no, _ := strconv.Atoi(f[1])
			b, err := strconv.Atoi(f[3])
			if err != nil {
				continue
			}
			if cur != nil {
				return j, fmt.Errorf("journal: op %d begun while op %d is open", no, curNo)
			}
			cur, curNo = &hop{Recv: f[2] == "R", B: b}, no
		case "A":
			no, _ := strconv.Atoi(f[1])
			if cur == nil || no != curNo {
				return j, fmt.Errorf("journal: ack %d without begin", no)
			}
			j.acked = append(j.acked, *cur)
			cur = nil
		case "E":
			j.failed = sc.Text()
		case "O":
			j.openErr = sc.Text()
		}
	}
	j.inflight = cur
	return j, nil
}

var recHeader = regexp.MustCompile(`^\[([a-z0-9]+-[0-9a-f]+) ([0-9]+)\]`)

// classifyPackTail names the state of the pack bytes written since the round began, using the same
// vocabulary as the materialiser.
func classifyPackTail(dir string, sizesBefore map[string]int64, x sto.Blob) string {
	packs, names, err := readPacks(dir)
	if err != nil || len(names) == 0 {
		return "unreadable"
	}
	lastRef := ""
	for _, n := range names {
		data := packs[n]
		if off, ok := sizesBefore[n]; ok {
			if off > int64(len(data)) {
				return "shrunk"
			}
			data = data[off:]
		}
		for len(data) > 0 {
			m := recHeader.FindSubmatch(data)
			if m == nil {
				return "torn-header"
			}
			size, _ := strconv.Atoi(string(m[2]))
			if len(data) < len(m[0])+size {
				return "torn-body"
			}
			lastRef = string(m[1])
			data = data[len(m[0])+size:]
		}
	}
	if lastRef == x.Ref.String() {
		return "full"
	}
	return "none"
}

func packSizes(dir string) map[string]int64 {
	m := map[string]int64{}
	ents, _ := os.ReadDir(dir)
	for _, e := range ents {
		if strings.HasPrefix(e.Name(), "pack-") && strings.HasSuffix(e.Name(), ".blobs") {
			if fi, err := e.Info(); err == nil {
				m[e.Name()] = fi.Size()
			}
		}
	}
	return m
}

func countTempFiles(dir string) int {
	n := 0
	filepath.Walk(dir, func(p string, fi os.FileInfo, err error) error {
		if err == nil && !fi.IsDir() && strings.Contains(fi.Name(), ".dat.tmp") {
			n++
		}
		return nil
	})
	return n
}

var materialisedKinds = map[string]bool{"none": true, "torn-header": true, "torn-body": true, "full-noindex": true, "full-indexed": true,
	"remove-none": true, "remove-header": true, "remove-header-zeroed": true, "remove-complete": true, "idle": true,
	"recv-nowrite": true, "remove-nowrite": true}

// cleanKinds are the states after which the same directory is used for further kill rounds.
var cleanKinds = map[string]bool{"none": true, "full-noindex": true, "full-indexed": true, "recv-nowrite": true,
	"remove-none": true, "remove-complete": true, "remove-nowrite": true, "idle": true}

// killRuns performs `kills` real SIGKILLs on one store kind.
func killRuns(r *ev.Run, kind, scratch string, kills int) {
	rng := r.Rand("kill/" + kind)
	wseed := rng.Int63()
	w := killWorld(wseed)
	exe, err := os.Executable()
	if err != nil {
		r.Inconclusive("real kills: " + err.Error())
		return
	}
	packed := strings.HasPrefix(kind, "diskpacked")
	idxKind := strings.TrimPrefix(kind, "diskpacked-")
	var dir string
	var o *oracle
	dirNo := 0
	fresh := func() {
		if dir != "" {
			os.RemoveAll(dir)
		}
		dirNo++
		dir = filepath.Join(scratch, fmt.Sprintf("kill-%s-%d", kind, dirNo))
		os.MkdirAll(dir, 0o755)
		o = &oracle{r: r, w: w, rng: r.Rand(fmt.Sprintf("kill-audit/%s/%d", kind, dirNo)),
			present: map[blobRef][]byte{}, uncertain: map[blobRef]bool{}, attempted: map[blobRef]bool{}, rmInflight: map[blobRef]bool{},
			touched: map[blobRef]bool{}, inflightB: -1, crashOff: -1}
		if packed {
			o.packDir = dir
		}
		r.Count("real_kill_directories", 1)
	}
	fresh()
	defer func() { os.RemoveAll(dir) }()
	for round := 0; round < kills; round++ {
		caseID := fmt.Sprintf("kill-%s-r%d;", kind, round)
		k := 1 + rng.Intn(24) // kill after the k-th journal line
		spin := rng.Intn(4000)
		oseed := rng.Int63()
		if !r.Only(caseID) {
			continue
		}
		jpath := filepath.Join(scratch, fmt.Sprintf("journal-%s-%d", kind, round))
		sizes := packSizes(dir)
		tmpBefore := 0
		if !packed {
			tmpBefore = countTempFiles(dir)
		}
		cmd := exec.Command(exe)
		cmd.Env = append(os.Environ(), "VERIF_CHILD=c03kill", "VERIF_WORKER=", "C03_STORE="+kind, "C03_DIR="+dir, "C03_JOURNAL="+jpath,
			fmt.Sprintf("C03_WSEED=%d", wseed), fmt.Sprintf("C03_OSEED=%d", oseed))
		var childOut bytes.Buffer
		cmd.Stdout, cmd.Stderr = &childOut, &childOut
		if err := cmd.Start(); err != nil {
			r.Inconclusive("real kills: cannot start child: " + err.Error())
			return
		}
		exited := make(chan error, 1)
		go func() { exited <- cmd.Wait() }()
		deadline := time.After(60 * time.Second)
		killed := false
	poll:
		for {
			select {
			case <-exited:
				break poll
			case <-deadline:
				cmd.Process.Kill()
				<-exited
				r.Inconclusive("real kills: child made no progress for 60s (" + caseID + ")")
				os.Remove(jpath)
				return
			default:
			}
			if b, err := os.ReadFile(jpath); err == nil && bytes.Count(b, []byte{'\n'}) >= k {
				for i := 0; i < spin; i++ { // seeded extra delay: lets the kill land inside the operation
					_ = i * i
				}
				cmd.Process.Kill() // SIGKILL
				<-exited
				killed = true
				break poll
			}
			time.Sleep(20 * time.Microsecond)
		}
		j, err := parseJournal(jpath)
		os.Remove(jpath)
		if err != nil {
			r.Inconclusive("real kills: " + err.Error())
			return
		}
		if j.openErr != "" {
			o.info = caseInfo{CaseID: caseID, Store: kind, Kind: "kill-previous-round", Detail: j.openErr}
			o.violation("reopen-fails/"+kind, "the child could not open the store left by the previous kill: "+j.openErr)
			fresh()
			continue
		}
		if !killed && j.failed == "" {
			r.Count("real_kill_child_finished_before_kill", 1)
		}
		for _, op := range j.acked {
			o.acked(op)
		}
		kindName := "idle"
		if !packed {
			kindName = "kill-idle"
		}
		var x sto.Blob
		o.inflightB, o.crashPack, o.crashOff = -1, "", -1
		if j.inflight != nil {
			x = w.Uni[j.inflight.B]
			o.inflightB = j.inflight.B
			if packed && j.inflight.Recv {
				// the in-flight record starts behind everything this round's acknowledged ops appended:
				// at or behind the pack sizes of the round's start
				for n, sz := range sizes {
					if n > o.crashPack {
						o.crashPack, o.crashOff = n, sz
					}
				}
			}
			o.inflight(*j.inflight)
			if j.inflight.Recv {
				kindName = "kill-recv"
			} else {
				kindName = "kill-remove"
			}
			r.Count("real_kills_with_op_in_flight", 1)
		}
		if killed {
			r.Count("real_kills", 1)
			r.Note("events", "real-kill-"+kind)
		}
		abandon := false
		if packed && j.inflight != nil {
			if j.inflight.Recv {
				kindName = classifyPackTail(dir, sizes, x)
				if kindName == "torn-header" || kindName == "torn-body" {
					abandon = true // later rounds would append after the torn tail: a different state kind
					r.Note("events", "real-kill-"+kindName)
				}
			} else {
				kindName = "remove-?"
			}
		}
		o.info = caseInfo{CaseID: caseID, Store: kind, Shape: "real-kill", Kind: kindName,
			Off:    fmt.Sprintf("k=%d", k),
			Detail: fmt.Sprintf("child SIGKILLed after journal line %d (saw %d lines, %d ops acknowledged this round, in flight: %v, blob %v)", k, j.lines, len(j.acked), j.inflight, x)}
		if j.failed != "" {
			o.violation("op-error/"+kind+".child", "an operation failed in the child after an earlier kill: "+j.failed)
			abandon = true
		}
		r.Guard("kill-restart", o.info, func() {
			s, err := openKillStore(kind, dir)
			if err != nil {
				o.violation("reopen-fails/"+kind, err.Error())
				abandon = true
				return
			}
			label := "localdisk"
			if packed {
				label = "diskpacked"
				if idxKind == "kv" {
					label = kind // the kv index acknowledges before its rows leave process memory: its own site
				}
				// refine the state kind from what the store says about the in-flight blob
				if j.inflight != nil {
					present := false
					s.StatBlobs(context.Background(), []blobRef{x.Ref}, func(sb sizedRef) error { present = true; return nil })
					switch {
					case kindName == "full" && present:
						o.info.Kind = "full-indexed"
					case kindName == "full":
						o.info.Kind = "full-noindex"
					case kindName == "none" && present:
						o.info.Kind = "recv-nowrite" // the blob was present before (duplicate / nothing appended yet)
					case kindName == "remove-?":
						liveHeader := false
						damagedUnderLive := false // a LIVE header of the blob in front of bytes that are not the blob's
						packs, _, _ := readPacks(dir)
						hdr := []byte(fmt.Sprintf("[%s %d]", x.Ref, len(x.Data)))
						for _, c := range packs {
							for at := 0; ; {
								i := bytes.Index(c[at:], hdr)
								if i < 0 {
									break
								}
								liveHeader = true
								body := c[at+i+len(hdr):]
								if len(body) >= len(x.Data) && !bytes.Equal(body[:len(x.Data)], x.Data) {
									damagedUnderLive = true
								}
								at += i + len(hdr)
							}
						}
						intact := false
						if present {
							if rc, _, err := s.Fetch(context.Background(), x.Ref); err == nil {
								data, _ := io.ReadAll(rc)
								rc.Close()
								intact = bytes.Equal(data, x.Data)
							}
						}
						switch {
						case present && !intact && damagedUnderLive:
							o.info.Kind = "remove-zeroed-only" // body gone under a LIVE header, row still there
						case present && !intact:
							o.info.Kind = "remove-header-zeroed" // body gone, header rewritten, row still there
						case liveHeader && present:
							o.info.Kind = "remove-none"
						case present:
							o.info.Kind = "remove-header" // header rewritten (body possibly zeroed), row still there
						case liveHeader:
							o.info.Kind = "remove-index-only" // seen after a real kill: not a power-loss-only state here
						default:
							o.info.Kind = "remove-complete"
						}
						if _, was := o.present[x.Ref]; !was {
							o.info.Kind = "remove-nowrite"
						}
					}
				}
			} else if j.inflight != nil {
				if n := countTempFiles(dir); n > tmpBefore {
					o.info.Kind += "-tmp-left"
				}
			}
			r.Note("real_state_kinds", kind+"/"+o.info.Kind)
			if packed && !materialisedKinds[o.info.Kind] {
				r.Note("real_states_not_materialised", kind+"/"+o.info.Kind)
				r.Count("real_states_outside_materialiser_"+idxKind, 1)
			}
			if packed && idxKind == "kv" {
				// what the kv-indexed live store answers after a kill does not depend on the pack state
				// of the in-flight op (its index rows lag behind the acks): one site, one kind
				o.liveKind = "real-kill"
			}
			ck := o.checker(s, label)
			ck.Audit(o.rng, false)
			o.done(ck)
			if packed {
				o.streamCheck(s, label)
			}
			closeStorage(s)
			if packed {
				o.reindexCheck(dir, idxKind, killMaxFileSize, fmt.Sprintf("rebuilt-r%d", round))
			}
		})
		sampleFirst(r, "kill-"+kind, map[string]any{"case": o.info})
		r.Count("restarts_after_real_kill", 1)
		r.Note("restarts", kind+"/real-kill")
		r.Distinct("kill|" + kind + "|" + o.info.Kind + "|" + fmt.Sprint(len(j.acked) > 0))
		if packed && !cleanKinds[o.info.Kind] {
			// a half-done operation stays in the packs; what later rounds observe would be
			// attributed to their own (unrelated) in-flight state: start over
			r.Count("real_kill_dirs_left_after_half_done_op", 1)
			abandon = true
		}
		if o.violations > 0 || abandon {
			fresh()
		}
	}
}
