package main

// files / localdisk: the fsync of the temp file FAILS (round 7).
//
// The crash families of filestore.go run on a VFS whose Sync always succeeds, so "the final name
// never denotes un-synced bytes" was only ever checked for a store that got its fsync.  Here the
// last receive of a history meets a temp file whose Sync returns an error and makes nothing durable
// (what a failed fsync(2) does): EINVAL / ENOTSUP / ENOSYS ("this mount has no fsync"), EIO, ENOSPC,
// EDQUOT, EINTR, errors.ErrUnsupported and a plain error, each bare and wrapped in *os.PathError as
// os.File.Sync returns it.  Whether the store then acknowledges the receive is OBSERVED, not
// demanded: a refused receive leaves the blob in flight (absent or intact), an acknowledged one
// makes it an acknowledged blob.  Then the process dies (un-synced data kept, dropped, zeroed), a
// new files.Storage is started on the crash state and the journal oracle of every other case runs:
// an acknowledged blob must be fetched back intact, nothing partial may be presented.

import (
	"bytes"
	"context"
	"errors"
	"fmt"
	"os"
	"syscall"

	"perkeep.org/pkg/blobserver"
	"perkeep.org/pkg/blobserver/files"

	"verif.local/harness/ev"
	"verif.local/harness/sto"
)

type syncFaultKind struct {
	name string
	err  error
}

var syncFaultKinds = []syncFaultKind{
	{"EINVAL", syscall.EINVAL},
	{"ENOTSUP", syscall.ENOTSUP},
	{"ENOSYS", syscall.ENOSYS},
	{"EIO", syscall.EIO},
	{"ENOSPC", syscall.ENOSPC},
	{"EDQUOT", syscall.EDQUOT},
	{"EINTR", syscall.EINTR},
	{"ErrUnsupported", errors.ErrUnsupported},
	{"plain", errors.New("sync: operation not supported by the file system")},
}

var syncFaultNames = func() []string {
	var out []string
	for _, k := range syncFaultKinds {
		out = append(out, k.name)
	}
	return out
}()

type syncFaultCase struct {
	state   *vstate
	variant string
	acked   bool
	info    caseInfo
	hist    history
	cont    int
	fault   string
}

// syncFaultCases executes history h (its last op is the receive of a blob that is not present) with
// the temp file's Sync failing in that last receive, once per fault assigned to this history, and
// returns one crash case per fault and un-synced-data variant.
func syncFaultCases(r *ev.Run, w *world, h history, hno, nHist int) []syncFaultCase {
	var out []syncFaultCase
	hs := h.strings(w)
	n := len(h.Ops)
	last := h.Ops[n-1]
	fno := 0
	for _, k := range syncFaultKinds {
		for _, form := range []string{"patherr", "bare"} {
			fno++
			if !r.Thorough() && fno%nHist != hno {
				continue // quick: each fault on one of the histories; thorough: on every one
			}
			fault := k.name + "/" + form
			vfs := newCrashVFS(newVState(vfsRoot))
			s := files.NewStorage(vfs, vfsRoot)
			id := fmt.Sprintf("files-%s-%s-%s", h.ID, k.name, form)
			bad := func(sig, what string) {
				r.Violation("prefix-"+sig, "while executing the history prefix without any crash or fault: "+what, caseInfo{CaseID: id + ";", Store: "files", History: hs})
			}
			ck := sto.NewChecker(s, "files", fullCaps, w.Uni, bad)
			for _, op := range h.Ops[:n-1] {
				if op.Recv {
					ck.Receive(w.Uni[op.B])
				} else {
					ck.Remove([]sto.Blob{w.Uni[op.B]})
				}
			}
			r.Eval(ck.Evals)
			p0 := vfs.logLen()
			b := w.Uni[last.B]
			ferr := k.err
			vfs.mu.Lock()
			if form == "patherr" {
				ferr = &os.PathError{Op: "sync", Path: "<temp file>", Err: k.err}
			}
			vfs.syncFault = ferr
			vfs.mu.Unlock()
			sb, err := blobserver.Receive(context.Background(), s, b.Ref, bytes.NewReader(b.Data))
			vfs.mu.Lock()
			unhit := vfs.syncFault != nil
			vfs.syncFault = nil
			vfs.mu.Unlock()
			if unhit {
				r.Inconclusive("sync-fault family: the receive of " + b.Ref.String() + " never called Sync on its temp file (" + id + ")")
				continue
			}
			acked := err == nil
			outcome := "refused"
			if acked {
				outcome = "acked"
				if sb.Ref != b.Ref || int(sb.Size) != len(b.Data) {
					r.Violation("content/files.receive/recv-syncfail", fmt.Sprintf("receive of %v under a failing Sync returned %v", b, sb), caseInfo{CaseID: id + ";", Store: "files", History: hs})
				}
			}
			trace := ""
			for _, c := range vfs.logFrom(p0) {
				trace += " " + c.Op
			}
			r.Note("sync_fault_errors", k.name)
			r.Note("sync_fault_forms", form)
			r.Note("sync_fault_outcomes", outcome)
			r.Note("sync_fault_call_traces", outcome+":"+trace)
			r.Count("sync_fault_receives", 1)
			snap := vfs.snapshot()
			unsynced := snap.unsyncedBytes()
			for vi, v := range vfsVariants {
				detail := fmt.Sprintf("Sync of the temp file failed with %s (%v); the receive was %s (err=%v); calls:%s; crash after the receive returned; un-synced bytes at crash: %d (%s)",
					fault, ferr, outcome, err, trace, unsynced, v)
				out = append(out, syncFaultCase{state: snap.crash(v), variant: v, acked: acked, hist: h, fault: fault,
					cont: []int{0, 2}[(fno+vi)%2],
					info: caseInfo{CaseID: id + "-" + v + ";", Store: "files", Shape: h.Shape, History: hs,
						Kind: "recv-syncfail-" + outcome + "-" + v, Off: fault, Detail: detail}})
			}
		}
	}
	return out
}

func runSyncFaultCase(r *ev.Run, w *world, fc syncFaultCase) {
	if !r.Only(fc.info.CaseID) {
		return
	}
	o := newOracle(r, w, fc.hist, fc.info) // the last receive is in flight: absent or intact ...
	if fc.acked {
		o.acked(fc.hist.Ops[len(fc.hist.Ops)-1]) // ... unless the store acknowledged it: then it is owed
	}
	r.Guard("files-restart-syncfault", fc.info, func() {
		vfs := newCrashVFS(fc.state)
		s := files.NewStorage(vfs, vfsRoot) // the restarted process
		ck := o.checker(s, "files")
		ck.Audit(o.rng, false)
		o.done(ck)
		o.continueHistory(ck, fc.cont)
		ck.Audit(o.rng, true)
		o.done(ck)
		s2 := files.NewStorage(newCrashVFS(vfs.snapshot().crash("dropped")), vfsRoot)
		ck2 := o.checker(s2, "files")
		ck2.Audit(o.rng, false)
		o.done(ck2)
	})
	r.Count("restarts_files_syncfault", 1)
	r.Note("restarts", "files/"+fc.info.Kind)
	r.Note("sync_fault_variants", fc.variant)
	r.Distinct("files|" + fc.hist.ID + "|" + fc.info.Kind + "|" + fc.info.Off)
	if o.violations == 0 {
		r.Count("cases_held", 1)
	}
	sampleFirst(r, "files-syncfault-"+fc.variant, map[string]any{"case": fc.info, "continued_with": o.trace})
}

// shapes whose last operation receives a reserved, never-present, non-empty blob
var syncFaultShapes = []string{"recv-small", "recv-large"}
