package main

import (
	"encoding/json"
	"fmt"
	"os"
	"strings"
	"sync"
)

// The child (one server + one history) reports to the parent with JSON lines
// on stdout, each prefixed with marker; everything else in the child's output
// is perkeep noise (or a crash dump, which the parent classifies).
const marker = "@@C18 "

type event struct {
	T     string `json:"t"` // viol | note | count | eval | distinct | sample | inconcl | done
	Sig   string `json:"sig,omitempty"`
	What  string `json:"what,omitempty"`
	Set   string `json:"set,omitempty"`
	Item  string `json:"item,omitempty"`
	N     int    `json:"n,omitempty"`
	Value any    `json:"value,omitempty"`
}

var emitMu sync.Mutex

func emit(e event) {
	b, err := json.Marshal(e)
	if err != nil {
		b, _ = json.Marshal(event{T: "inconcl", What: "unmarshalable event: " + err.Error()})
	}
	emitMu.Lock()
	fmt.Fprintf(os.Stdout, "%s%s\n", marker, b)
	emitMu.Unlock()
}

func parseEvents(out string) (evs []event, rest string) {
	var other []string
	for _, l := range strings.Split(out, "\n") {
		if i := strings.Index(l, marker); i >= 0 {
			var e event
			if err := json.Unmarshal([]byte(l[i+len(marker):]), &e); err == nil {
				evs = append(evs, e)
				continue
			}
		}
		other = append(other, l)
	}
	return evs, strings.Join(other, "\n")
}
