package main

import (
	"bytes"
	"errors"
	"fmt"
	"io"
	"os"
	"sort"
	"strconv"
	"strings"
	"sync"
	"time"

	"perkeep.org/pkg/blob"
	"perkeep.org/pkg/client"

	"verif.local/harness/sto"
)

// step is one request (or one composite request such as a continuation chain) of a history.
type step struct {
	kind  string
	class string
}

// mandatory is the list of (kind, class) pairs every history contains at least once.
func mandatory() []step {
	var s []step
	add := func(kind string, classes ...string) {
		for _, c := range classes {
			s = append(s, step{kind, c})
		}
	}
	add("client-upload", "stat-first", "skip-stat")
	add("client-receive", "-")
	add("raw-put", "-")
	add("raw-multipart", "1", "2", "5", "17", "40")
	add("upload-file", "-")
	add("client-stat", "1", "7", "all")
	add("raw-stat-get", "1", "37")
	add("raw-stat-post", "1", "37", "999", "1000", "1001")
	add("raw-stat-wait", "0", "1", "1-absent", "wake")
	add("client-fetch", "present", "absent")
	add("raw-get", "present", "absent")
	add("raw-head", "present", "absent")
	add("raw-range", "first-last", "single-byte", "open-ended", "suffix", "clamp-end", "suffix-larger", "whole", "unsatisfiable")
	add("raw-head-range", "-")
	add("client-enum", "1", "2", "100", "big")
	add("client-enum-maxwait", "-")
	add("client-enum-simple", "-")
	add("raw-page", "absent", "1", "2", "100", "over-max", "mws0", "mws1", "mws1-after")
	add("raw-chain", "1", "2", "100", "over-max", "absent", "mws0", "mws1")
	add("raw-page-weird", weirdPageClasses...)
	add("raw-stat-weird", weirdStatClasses...)
	return s
}

var weights = []struct {
	kind string
	w    int
}{
	{"client-upload", 6}, {"client-receive", 2}, {"raw-put", 6}, {"raw-multipart", 8},
	{"client-stat", 5}, {"raw-stat-get", 5}, {"raw-stat-post", 8}, {"raw-stat-wait", 1},
	{"client-fetch", 6}, {"raw-get", 8}, {"raw-head", 5}, {"raw-range", 12}, {"raw-head-range", 2},
	{"client-enum", 6}, {"client-enum-maxwait", 1}, {"client-enum-simple", 1}, {"raw-page", 14}, {"raw-chain", 5},
	{"raw-page-weird", 4}, {"raw-stat-weird", 3},
}

func (h *hist) plan(nreq int) []step {
	m := mandatory()
	classesOf := map[string][]string{}
	for _, s := range m {
		classesOf[s.kind] = append(classesOf[s.kind], s.class)
	}
	total := 0
	for _, w := range weights {
		total += w.w
	}
	steps := append([]step{}, m...)
	for len(steps) < nreq {
		x := h.rng.Intn(total)
		for _, w := range weights {
			if x < w.w {
				cl := classesOf[w.kind]
				c := cl[h.rng.Intn(len(cl))]
				if c == "1-absent" {
					c = "1" // the waiting variant costs a second: mandatory occurrence only
				}
				steps = append(steps, step{w.kind, c})
				break
			}
			x -= w.w
		}
	}
	h.rng.Shuffle(len(steps), func(i, j int) { steps[i], steps[j] = steps[j], steps[i] })
	// start with a few uploads so that early reads see a populated store
	head := []step{{"raw-put", "-"}, {"raw-multipart", "5"}, {"client-upload", "stat-first"}, {"raw-multipart", "2"}}
	return append(head, steps...)
}

func (h *hist) run(nreq int) {
	for _, s := range h.plan(nreq) {
		if h.nviol > 25 {
			h.aborted = true
			break
		}
		h.step(s)
		h.checkServerLog()
	}
}

func (h *hist) step(s step) {
	switch s.kind {
	case "client-upload":
		h.clientUpload(s.class == "skip-stat")
	case "client-receive":
		h.clientReceive()
	case "raw-put":
		h.rawPut(h.pickUpload())
	case "raw-multipart":
		k, _ := strconv.Atoi(s.class)
		h.rawMultipart(s.class, h.multipartParts(k))
	case "upload-file":
		h.uploadFile()
	case "client-stat":
		h.clientStat(s.class)
	case "raw-stat-get":
		n, _ := strconv.Atoi(s.class)
		h.rawStat("GET", s.class, n, "")
	case "raw-stat-post":
		n, _ := strconv.Atoi(s.class)
		h.rawStat("POST", s.class, n, "")
	case "raw-stat-wait":
		h.rawStatWait(s.class)
	case "client-fetch":
		h.clientFetch(s.class == "present")
	case "raw-get":
		h.rawGet("GET", s.class == "present")
	case "raw-head":
		h.rawGet("HEAD", s.class == "present")
	case "raw-range":
		h.rawRange("GET", s.class)
	case "raw-head-range":
		h.rawRange("HEAD", []string{"first-last", "open-ended", "suffix"}[h.rng.Intn(3)])
	case "client-enum":
		h.clientEnum(s.class)
	case "client-enum-maxwait":
		h.clientEnumMaxWait()
	case "client-enum-simple":
		h.clientEnumSimple()
	case "raw-page":
		h.rawPage(s.class)
	case "raw-chain":
		h.rawChain(s.class)
	case "raw-page-weird":
		h.rawPageWeird(s.class)
	case "raw-stat-weird":
		h.rawStatWeird(s.class)
	default:
		panic("unknown step " + s.kind)
	}
}

// ---------------------------------------------------------------- upload

func (h *hist) clientUpload(skipStat bool) {
	b := h.pickUpload()
	ref := b.Ref.String()
	cls := "stat-first"
	if skipStat {
		cls = "skip-stat"
	}
	h.begin("upload", "pkg/client", "Upload."+cls, b.String())
	had := h.known(ref)
	ctx, cancel := ctx90()
	defer cancel()
	pr, err := h.pk.Upload(ctx, &client.UploadHandle{BlobRef: b.Ref, Contents: bytes.NewReader(b.Data), Size: uint32(len(b.Data)), SkipStat: skipStat})
	h.eval(1)
	if err != nil {
		if errors.Is(err, ctx.Err()) && ctx.Err() != nil {
			h.reqErr("upload", err)
		} else {
			h.bad("client/Upload/error", "Upload(%s): %v", b, err)
		}
		h.markMaybe(b)
		return
	}
	if pr.BlobRef != b.Ref || int(pr.Size) != len(b.Data) {
		h.bad("client/Upload/result", "Upload(%s) returned %v size %d", b, pr.BlobRef, pr.Size)
	}
	if pr.Skipped && !had && !h.maybe[ref] {
		h.bad("client/Upload/skipped-absent", "Upload(%s) was skipped as already present, but the blob was never uploaded", b)
		return
	}
	if !skipStat && had && !pr.Skipped {
		h.bad("client/Upload/present-not-skipped", "Upload(%s): the pre-upload stat did not report the blob although it was uploaded before", b)
	}
	h.markUploaded(b)
}

func (h *hist) clientReceive() {
	b := h.pickUpload()
	h.begin("upload", "pkg/client", "ReceiveBlob", b.String())
	ctx, cancel := ctx90()
	defer cancel()
	sb, err := h.pk.ReceiveBlob(ctx, b.Ref, bytes.NewReader(b.Data))
	h.eval(1)
	if err != nil {
		if ctx.Err() != nil {
			h.reqErr("upload", err)
		} else {
			h.bad("client/ReceiveBlob/error", "ReceiveBlob(%s): %v", b, err)
		}
		h.markMaybe(b)
		return
	}
	if sb.Ref != b.Ref || int(sb.Size) != len(b.Data) {
		h.bad("client/ReceiveBlob/result", "ReceiveBlob(%s) returned %v", b, sb)
	}
	h.markUploaded(b)
}

func (h *hist) rawPut(b sto.Blob) {
	h.begin("upload", "raw", "PUT", b.String())
	r, err := h.raw.put(b.Ref.String(), b.Data)
	h.eval(1)
	if err != nil {
		h.reqErr("upload", err)
		h.markMaybe(b)
		return
	}
	if r.Status < 200 || r.Status > 299 {
		h.bad("upload/put-status", "PUT %s: status %d %s", b, r.Status, clip(string(r.Body), 200))
		h.markMaybe(b)
		return
	}
	h.markUploaded(b)
}

func (h *hist) rawMultipart(class string, bs []sto.Blob) bool {
	parts := make([]part, len(bs))
	for i, b := range bs {
		parts[i] = part{b.Ref.String(), b.Data}
	}
	nNew := 0
	for _, b := range bs {
		if !h.known(b.Ref.String()) {
			nNew++
		}
	}
	h.begin("upload", "raw", "multipart."+class, fmt.Sprintf("%d parts (%d new) first=%s", len(bs), nNew, bs[0]))
	r, err := h.raw.uploadMultipart(parts)
	h.eval(1)
	fail := func() {
		for _, b := range bs {
			h.markMaybe(b)
		}
	}
	if err != nil {
		h.reqErr("upload", err)
		fail()
		return false
	}
	if r.Status != 200 && r.Status != 303 {
		h.bad("upload/multipart-status", "multipart upload of %d parts: status %d %s", len(bs), r.Status, clip(string(r.Body), 200))
		fail()
		return false
	}
	if r.Status == 303 {
		loc := r.Header.Get("Location")
		r2, err := h.raw.do("GET", loc, nil, nil)
		if err != nil || r2.Status != 200 {
			h.bad("upload/multipart-redirect", "303 to %q not retrievable: %v", loc, err)
			fail()
			return false
		}
		r = r2
	}
	u, err := parseUpload(r.Body)
	if err != nil || !u.hasReceived {
		h.bad("upload/bad-json", "upload response not the documented JSON (%v): %s", err, clip(string(r.Body), 200))
		fail()
		return false
	}
	got := map[string]int{}
	sent := map[string]sto.Blob{}
	for _, b := range bs {
		sent[b.Ref.String()] = b
	}
	ok := true
	for _, sb := range u.Received {
		got[sb.BlobRef]++
		b, isSent := sent[sb.BlobRef]
		switch {
		case !isSent:
			h.bad("upload/received-extra", "\"received\" lists %s which was not in the request", sb.BlobRef)
			ok = false
		case sb.Size == nil || *sb.Size != int64(len(b.Data)):
			h.bad("upload/received-size", "\"received\" lists %s with size %v, sent %d bytes", sb.BlobRef, fmtSize(sb.Size), len(b.Data))
			ok = false
		case got[sb.BlobRef] == 2:
			h.bad("upload/received-dup", "\"received\" lists %s twice", sb.BlobRef)
		}
	}
	h.eval(len(bs))
	for _, b := range bs {
		if got[b.Ref.String()] == 0 {
			h.bad("upload/received-missing", "multipart upload of %d valid parts: \"received\" (%d entries) lacks %s; errorText=%q",
				len(bs), len(u.Received), b, clip(u.ErrorText, 200))
			h.markMaybe(b)
			ok = false
			continue
		}
		h.markUploaded(b)
	}
	if u.ErrorText != "" && ok {
		h.note("events", "upload-errortext-although-all-received") // not a map-semantics question
	}
	if ok {
		// read-your-writes: what was acknowledged is stat-able right away
		refs := make([]string, len(bs))
		for i, b := range bs {
			refs[i] = b.Ref.String()
		}
		h.classes["stat.raw.POST.after-upload"]++
		if r, err := h.raw.statPOST(refs, ""); err != nil {
			h.reqErr("stat", err)
		} else if r.Status != 200 {
			h.bad("stat/status", "stat after upload: status %d", r.Status)
		} else if s, err := parseStat(r.Body); err != nil || !s.hasStat {
			h.bad("stat/bad-json", "stat after upload: %v", err)
		} else {
			h.checkStat("upload/acked-then-stat", refs, s.Stat)
		}
	}
	return ok
}

// multipartParts picks k parts: a third of them brand-new blobs (so that every position of
// a large request, the last ones in particular, carries a blob the server cannot have yet).
func (h *hist) multipartParts(k int) []sto.Blob {
	nFresh := k / 3
	if k >= 2 && nFresh == 0 && h.rng.Intn(2) == 0 {
		nFresh = 1
	}
	old := h.pickUploads(k - nFresh)
	var fresh []sto.Blob
	for len(fresh) < nFresh {
		fresh = append(fresh, h.freshBlob())
	}
	parts := append(old, fresh...)
	if h.rng.Intn(2) == 0 {
		h.rng.Shuffle(len(parts), func(i, j int) { parts[i], parts[j] = parts[j], parts[i] })
	}
	return parts
}

// freshBlob generates a blob that was never seen before and adds it to the universe.
func (h *hist) freshBlob() sto.Blob {
	for {
		n := h.rng.Intn(300)
		switch h.rng.Intn(12) {
		case 0:
			n = 0
		case 1:
			n = 4095 + h.rng.Intn(3)
		}
		data := make([]byte, n)
		h.rng.Read(data)
		if n > 8 && h.rng.Intn(3) == 0 {
			data = []byte(fmt.Sprintf("fresh text blob %d %d", h.rng.Int63(), n))
		}
		b := sto.Blob{Ref: sto.RefOf([]string{"sha224", "sha224", "sha224", "sha1", "sha256"}[h.rng.Intn(5)], data), Data: data}
		r := b.Ref.String()
		if _, dup := h.data[r]; dup {
			continue
		}
		h.data[r] = data
		h.universe = append(h.universe, b)
		return b
	}
}

// uploadFile uploads the chunks of a real file (several multipart requests) and then its
// file schema blob; blobpacked packs them into a zip at that point.
func (h *hist) uploadFile() {
	if len(h.file) == 0 {
		h.rawMultipart("file-chunks", h.pickUploads(3))
		return
	}
	chunks := h.file[:len(h.file)-1]
	for len(chunks) > 0 {
		k := 1 + h.rng.Intn(7)
		if k > len(chunks) {
			k = len(chunks)
		}
		h.rawMultipart("file-chunks", chunks[:k])
		chunks = chunks[k:]
	}
	fileBlob := h.file[len(h.file)-1]
	if h.rng.Intn(2) == 0 {
		h.rawPut(fileBlob)
	} else {
		h.rawMultipart("file-schema", []sto.Blob{fileBlob})
	}
	h.note("events", "file-uploaded")
}

func fmtSize(p *int64) string {
	if p == nil {
		return "<none>"
	}
	return strconv.FormatInt(*p, 10)
}

// ---------------------------------------------------------------- stat

// batch builds a stat batch of n distinct refs: as many present ones as there are (at most
// n), the never-uploaded real blobs, and fabricated absent refs; a present ref is forced
// into the first and the last slot half of the time.
func (h *hist) batch(n int, onlyPresent bool) []string {
	pres := h.presentList()
	h.rng.Shuffle(len(pres), func(i, j int) { pres[i], pres[j] = pres[j], pres[i] })
	var refs []string
	np := len(pres)
	if !onlyPresent && n <= np {
		np = n - n/3
		if n == 1 && h.rng.Intn(10) < 3 {
			np = 0
		}
	}
	if np > n {
		np = n
	}
	refs = append(refs, pres[:np]...)
	if !onlyPresent {
		for _, b := range h.never {
			if len(refs) < n {
				refs = append(refs, b.Ref.String())
			}
		}
		for len(refs) < n {
			refs = append(refs, h.absentRef())
		}
	}
	h.rng.Shuffle(len(refs), func(i, j int) { refs[i], refs[j] = refs[j], refs[i] })
	if np > 0 && h.rng.Intn(2) == 0 {
		// a present ref last, another first
		for i, r := range refs {
			if h.known(r) {
				refs[i], refs[len(refs)-1] = refs[len(refs)-1], refs[i]
				break
			}
		}
		for i := len(refs) - 2; i > 0; i-- {
			if h.known(refs[i]) {
				refs[i], refs[0] = refs[0], refs[i]
				break
			}
		}
	}
	return refs
}

// checkStat compares a stat answer with the model.
func (h *hist) checkStat(pfx string, asked []string, got []sizedRef) {
	want := map[string]bool{}
	for _, r := range asked {
		want[r] = true
	}
	seen := map[string]int{}
	dups := 0
	for _, sb := range got {
		seen[sb.BlobRef]++
		switch {
		case !want[sb.BlobRef]:
			h.bad(pfx+"/unasked", "answer lists %s which was not asked for", sb.BlobRef)
		case seen[sb.BlobRef] > 1:
			if dups++; dups == 1 {
				h.bad(pfx+"/dup", "asked for %d distinct refs: %s is reported twice (%d entries in the answer)", len(asked), sb.BlobRef, len(got))
			}
		case h.known(sb.BlobRef):
			if sb.Size == nil || *sb.Size != h.present[sb.BlobRef] {
				h.bad(pfx+"/size", "%s reported with size %s, true size %d", sb.BlobRef, fmtSize(sb.Size), h.present[sb.BlobRef])
			}
		case h.maybe[sb.BlobRef]:
		default:
			h.bad(pfx+"/absent-listed", "%s reported present but it was never uploaded", sb.BlobRef)
		}
	}
	for i, r := range asked {
		if h.known(r) && seen[r] == 0 {
			h.bad(pfx+"/missing-uploaded", "batch of %d: uploaded blob %s (slot %d of %d, size %d) is not in the answer (%d entries)",
				len(asked), r, i+1, len(asked), h.present[r], len(got))
			break
		}
	}
	h.eval(len(asked))
}

func (h *hist) rawStat(method, class string, n int, maxwait string) {
	refs := h.batch(n, false)
	np := 0
	for _, r := range refs {
		if h.known(r) {
			np++
		}
	}
	h.begin("stat", "raw", method+"."+class, fmt.Sprintf("%d refs (%d present) maxwaitsec=%q last=%s", len(refs), np, maxwait, refs[len(refs)-1]))
	var r *rawResp
	var err error
	if method == "GET" {
		r, err = h.raw.statGET(refs, maxwait)
	} else {
		r, err = h.raw.statPOST(refs, maxwait)
	}
	if err != nil {
		h.reqErr("stat", err)
		return
	}
	if n > 1000 {
		// blob-stat.md: servers may answer 400 to too many; all servers should support <= 1000
		h.eval(1)
		switch {
		case r.Status >= 400 && r.Status < 500:
			h.note("stat_1001", "rejected-4xx")
			return
		case r.Status == 200:
			h.note("stat_1001", "answered")
		default:
			h.bad("stat/too-many-status", "stat of %d refs: status %d (want 400 or a correct answer)", n, r.Status)
			return
		}
	}
	if r.Status != 200 {
		h.bad("stat/status", "%s stat of %d refs: status %d %s", method, len(refs), r.Status, clip(string(r.Body), 200))
		return
	}
	s, err := parseStat(r.Body)
	if err != nil || !s.hasStat {
		h.bad("stat/bad-json", "stat response not the documented JSON (%v): %s", err, clip(string(r.Body), 200))
		return
	}
	h.checkStat("stat", refs, s.Stat)
}

func (h *hist) rawStatWait(class string) {
	switch class {
	case "0":
		h.rawStatPresent("0")
	case "1":
		h.rawStatPresent("1")
	case "wake":
		h.rawStatWake()
	default:
		// one absent ref: the server may wait up to a second, then must report the present ones
		h.rawStat("POST", "wait1-absent", 3, "1")
	}
}

func (h *hist) rawStatPresent(maxwait string) {
	n := 1 + h.rng.Intn(6)
	refs := h.batch(n, true)
	if len(refs) == 0 {
		return
	}
	h.begin("stat", "raw", "POST.wait"+maxwait+"-present", fmt.Sprintf("%d present refs maxwaitsec=%s", len(refs), maxwait))
	r, err := h.raw.statPOST(refs, maxwait)
	if err != nil {
		h.reqErr("stat", err)
		return
	}
	if r.Status != 200 {
		h.bad("stat/status", "stat with maxwaitsec=%s: status %d", maxwait, r.Status)
		return
	}
	s, err := parseStat(r.Body)
	if err != nil || !s.hasStat {
		h.bad("stat/bad-json", "stat response not the documented JSON (%v): %s", err, clip(string(r.Body), 200))
		return
	}
	h.checkStat("stat", refs, s.Stat)
}

func (h *hist) clientStat(class string) {
	n := 1
	switch class {
	case "7":
		n = 7
	case "all":
		n = len(h.present) + len(h.never) + 3
	}
	refs := h.batch(n, false)
	brs := make([]blob.Ref, 0, len(refs))
	for _, r := range refs {
		br, ok := blob.Parse(r)
		if !ok {
			continue
		}
		brs = append(brs, br)
	}
	h.begin("stat", "pkg/client", "StatBlobs."+class, fmt.Sprintf("%d refs", len(brs)))
	var mu sync.Mutex
	var got []sizedRef
	ctx, cancel := ctx90()
	defer cancel()
	err := h.pk.StatBlobs(ctx, brs, func(sb blob.SizedRef) error {
		mu.Lock()
		sz := int64(sb.Size)
		got = append(got, sizedRef{sb.Ref.String(), &sz})
		mu.Unlock()
		return nil
	})
	if err != nil {
		if ctx.Err() != nil {
			h.reqErr("stat", err)
		} else {
			h.bad("client/StatBlobs/error", "StatBlobs of %d refs: %v", len(brs), err)
		}
		return
	}
	h.checkStat("client/StatBlobs", refs, got)
}

// ---------------------------------------------------------------- get

func (h *hist) pickAbsent() string {
	switch h.rng.Intn(3) {
	case 0:
		return h.never[h.rng.Intn(len(h.never))].Ref.String()
	case 1:
		// a neighbour of an existing ref
		if p, ok := h.pickPresent(); ok {
			b := []byte(p)
			if b[len(b)-1] == 'f' {
				b[len(b)-1] = '0'
			} else if b[len(b)-1] == '9' {
				b[len(b)-1] = 'a'
			} else {
				b[len(b)-1]++
			}
			if !h.known(string(b)) && !h.maybe[string(b)] {
				return string(b)
			}
		}
	}
	return h.absentRef()
}

func (h *hist) clientFetch(present bool) {
	var ref string
	if present {
		r, ok := h.pickPresent()
		if !ok {
			return
		}
		ref = r
	} else {
		ref = h.pickAbsent()
	}
	h.clientFetchRef(ref, present)
}

func (h *hist) clientFetchRef(ref string, present bool) {
	cls := "absent"
	if present {
		cls = "present"
	}
	if bb := h.big[ref]; present && bb != nil {
		h.bigClientFetch(bb)
		return
	}
	h.begin("get", "pkg/client", "Fetch."+cls, fmt.Sprintf("%s (%d B)", ref, h.present[ref]))
	br := blob.MustParse(ref)
	ctx, cancel := ctx90()
	defer cancel()
	rc, size, err := h.pk.Fetch(ctx, br)
	h.eval(1)
	if !present {
		if err == nil {
			rc.Close()
			h.bad("client/Fetch/absent-served", "Fetch of never-uploaded %s succeeded (size %d)", ref, size)
		} else if !errors.Is(err, os.ErrNotExist) {
			h.bad("client/Fetch/absent-error", "Fetch of never-uploaded %s: %v (want os.ErrNotExist)", ref, err)
		}
		return
	}
	if err != nil {
		if ctx.Err() != nil {
			h.reqErr("get", err)
		} else if errors.Is(err, os.ErrNotExist) {
			h.bad("client/Fetch/missing-uploaded", "Fetch(%s): not found, but it was uploaded", ref)
		} else {
			h.bad("client/Fetch/error", "Fetch(%s): %v", ref, err)
		}
		return
	}
	body, rerr := io.ReadAll(rc)
	rc.Close()
	if rerr != nil {
		h.bad("client/Fetch/error", "Fetch(%s): reading: %v", ref, rerr)
		return
	}
	if int64(size) != h.present[ref] {
		h.bad("client/Fetch/size", "Fetch(%s) reports size %d, true size %d", ref, size, h.present[ref])
	}
	if !bytes.Equal(body, h.data[ref]) {
		h.bad("client/Fetch/content", "Fetch(%s) returned %d bytes differing from the %d uploaded", ref, len(body), len(h.data[ref]))
	}
}

func (h *hist) rawGet(method string, present bool) {
	var ref string
	if present {
		r, ok := h.pickPresent()
		if !ok {
			return
		}
		ref = r
	} else {
		ref = h.pickAbsent()
	}
	h.rawGetRef(method, ref, present)
}

func (h *hist) rawGetRef(method, ref string, present bool) {
	cls := "absent"
	if present {
		cls = "present"
	}
	if bb := h.big[ref]; present && bb != nil && method == "GET" {
		h.bigRawGet(bb) // streamed comparison
		return
	}
	h.begin("get", "raw", method+"."+cls, fmt.Sprintf("%s (%d B)", ref, h.present[ref]))
	r, err := h.raw.get(method, ref, "")
	h.eval(1)
	if err != nil {
		h.reqErr("get", err)
		return
	}
	lm := strings.ToLower(method)
	if !present {
		if r.Status != 404 {
			h.bad("get/"+lm+"-absent-status", "%s of never-uploaded %s: status %d (want 404)", method, ref, r.Status)
		}
		return
	}
	if r.Status == 404 {
		h.bad("get/"+lm+"-missing-uploaded", "%s %s: 404, but it was uploaded (%d bytes)", method, ref, h.present[ref])
		return
	}
	if r.Status != 200 {
		h.bad("get/"+lm+"-status", "%s %s: status %d %s", method, ref, r.Status, clip(string(r.Body), 200))
		return
	}
	if r.Header.Get("Content-Length") == "" {
		h.bad("get/"+lm+"-no-content-length", "%s %s: no explicit Content-Length", method, ref)
	} else if r.ContentLength != h.present[ref] {
		h.bad("get/"+lm+"-content-length", "%s %s: Content-Length %d, true size %d", method, ref, r.ContentLength, h.present[ref])
	}
	if method == "HEAD" {
		if len(r.Body) != 0 {
			h.bad("get/head-body", "HEAD %s carried %d body bytes", ref, len(r.Body))
		}
		return
	}
	if !bytes.Equal(r.Body, h.data[ref]) {
		h.bad("get/content", "GET %s returned %d bytes differing from the %d uploaded", ref, len(r.Body), len(h.data[ref]))
	}
}

// rangeSpec returns the header and the RFC 7233 expectation for a blob of n > 0 bytes.
func (h *hist) rangeSpec(class string, n int64) (hdr string, first, last int64, satisfiable bool) {
	switch class {
	case "first-last":
		a := h.rng.Int63n(n)
		b := a + h.rng.Int63n(n-a)
		return fmt.Sprintf("bytes=%d-%d", a, b), a, b, true
	case "single-byte":
		a := []int64{0, n - 1, n / 2}[h.rng.Intn(3)]
		return fmt.Sprintf("bytes=%d-%d", a, a), a, a, true
	case "open-ended":
		a := h.rng.Int63n(n)
		return fmt.Sprintf("bytes=%d-", a), a, n - 1, true
	case "suffix":
		s := 1 + h.rng.Int63n(n)
		return fmt.Sprintf("bytes=-%d", s), n - s, n - 1, true
	case "suffix-larger":
		s := n + 1 + h.rng.Int63n(1000)
		return fmt.Sprintf("bytes=-%d", s), 0, n - 1, true
	case "clamp-end":
		a := h.rng.Int63n(n)
		b := n + h.rng.Int63n(1000) - 0
		if h.rng.Intn(3) == 0 {
			b = n // first byte position past the end
		}
		return fmt.Sprintf("bytes=%d-%d", a, b), a, n - 1, true
	case "whole":
		return fmt.Sprintf("bytes=0-%d", n-1), 0, n - 1, true
	default: // unsatisfiable
		a := n + h.rng.Int63n(3)
		if h.rng.Intn(2) == 0 {
			return fmt.Sprintf("bytes=%d-", a), 0, 0, false
		}
		return fmt.Sprintf("bytes=%d-%d", a, a+10), 0, 0, false
	}
}

func (h *hist) rawRange(method, class string) {
	// a non-empty present blob
	var ref string
	for tries := 0; tries < 50; tries++ {
		r, ok := h.pickPresent()
		if !ok {
			return
		}
		if h.present[r] > 0 && h.data[r] != nil {
			ref = r
			break
		}
	}
	if ref == "" {
		return
	}
	h.rawRangeRef(method, class, ref)
}

// rawRangeRef sends one Range request of the class for a present, non-empty blob.
func (h *hist) rawRangeRef(method, class, ref string) {
	n := h.present[ref]
	hdr, first, last, sat := h.rangeSpec(class, n)
	h.begin("get", "raw", method+".range."+class, fmt.Sprintf("%s (%d B) Range: %s", ref, n, hdr))
	r, err := h.raw.get(method, ref, hdr)
	h.eval(1)
	if err != nil {
		h.reqErr("get", err)
		return
	}
	data := h.data[ref]
	switch r.Status {
	case 200:
		// a server may ignore Range: then the whole representation
		h.note("range_status", "200-ignored")
		if r.ContentLength != n {
			h.bad("get/range-content-length", "%s Range %q answered 200 with Content-Length %d, true size %d", method, hdr, r.ContentLength, n)
		}
		if method == "GET" && !bytes.Equal(r.Body, data) {
			h.bad("get/range-content", "%s Range %q answered 200 with a body differing from the blob", method, hdr)
		}
	case 206:
		h.note("range_status", "206")
		if !sat {
			h.bad("get/range-status", "%s %s Range %q on %d bytes: 206, but the range is unsatisfiable", method, ref, hdr, n)
			return
		}
		wantCR := fmt.Sprintf("bytes %d-%d/%d", first, last, n)
		if cr := r.Header.Get("Content-Range"); cr != wantCR {
			h.bad("get/range-content-range", "%s %s Range %q on %d bytes: Content-Range %q, want %q", method, ref, hdr, n, cr, wantCR)
		}
		if r.ContentLength != last-first+1 {
			h.bad("get/range-content-length", "%s %s Range %q on %d bytes: Content-Length %d, want %d", method, ref, hdr, n, r.ContentLength, last-first+1)
		}
		if method == "GET" && !bytes.Equal(r.Body, data[first:last+1]) {
			h.bad("get/range-content", "GET %s Range %q on %d bytes: body of %d bytes is not bytes %d..%d of the blob", ref, hdr, n, len(r.Body), first, last)
		}
		if method == "HEAD" && len(r.Body) != 0 {
			h.bad("get/head-body", "HEAD with Range carried %d body bytes", len(r.Body))
		}
	case 416:
		h.note("range_status", "416")
		if sat {
			h.bad("get/range-status", "%s %s Range %q on %d bytes: 416, but bytes %d-%d are satisfiable", method, ref, hdr, n, first, last)
			return
		}
		if cr := r.Header.Get("Content-Range"); cr != "" && cr != fmt.Sprintf("bytes */%d", n) {
			h.bad("get/range-content-range", "416 with Content-Range %q, want \"bytes */%d\"", cr, n)
		}
	case 404:
		h.bad("get/get-missing-uploaded", "%s %s with Range: 404, but it was uploaded", method, ref)
	default:
		h.bad("get/range-status", "%s %s Range %q on %d bytes: status %d", method, ref, hdr, n, r.Status)
	}
}

// ---------------------------------------------------------------- enumerate

// classify compares an enumerated list with the expected prefix of the model.
// want is every certain-present ref after the cursor (ascending); limit <= 0 means none.
// It returns "" when got is exactly the first min(limit,len(want)) entries of want,
// modulo uncertain refs.
func (h *hist) classify(after string, got []sizedRef, want []string, limit int, complete bool) (class, what string) {
	seen := map[string]bool{}
	prev := after
	var filtered []string
	for i, sb := range got {
		r := sb.BlobRef
		if seen[r] {
			return "dup", fmt.Sprintf("%s is listed twice", r)
		}
		seen[r] = true
		if !(r > prev) {
			if i == 0 {
				return "cursor", fmt.Sprintf("first entry %s is not strictly after the cursor %q", r, after)
			}
			return "order", fmt.Sprintf("%s follows %s (not ascending by blobref text)", r, prev)
		}
		prev = r
		if h.known(r) {
			if sb.Size == nil || *sb.Size != h.present[r] {
				return "size", fmt.Sprintf("%s listed with size %s, true size %d", r, fmtSize(sb.Size), h.present[r])
			}
			filtered = append(filtered, r)
		} else if !h.maybe[r] {
			return "absent-listed", fmt.Sprintf("%s is listed but was never uploaded", r)
		}
	}
	if limit > 0 && len(got) > limit {
		return "limit", fmt.Sprintf("%d entries for limit %d", len(got), limit)
	}
	for i, r := range filtered {
		if i >= len(want) {
			return "order", fmt.Sprintf("more entries after the cursor than uploaded blobs (%d > %d)", len(filtered), len(want))
		}
		if want[i] != r {
			// r is known and > after, so it is in want: something before it was skipped
			return "missing-uploaded", fmt.Sprintf("uploaded blob %s (position %d after the cursor) was skipped; the page continues with %s", want[i], i+1, r)
		}
	}
	if complete {
		exp := len(want)
		if limit > 0 && exp > limit {
			exp = limit
		}
		if len(filtered) < exp && (limit <= 0 || len(got) < limit) {
			return "missing-uploaded", fmt.Sprintf("list ends after %d entries; uploaded blob %s (and %d more) not listed", len(got), want[len(filtered)], len(want)-len(filtered)-1)
		}
	}
	return "", ""
}

func (h *hist) clientEnum(class string) {
	limit := map[string]int{"1": 1, "2": 2, "100": 100, "big": 100000}[class]
	after := ""
	if h.rng.Intn(3) > 0 {
		after = h.cursor()
	}
	h.begin("enumerate", "pkg/client", "EnumerateBlobs."+class, fmt.Sprintf("after=%q limit=%d", after, limit))
	got, err := h.clientEnumerate(func(ch chan<- blob.SizedRef) error {
		ctx, cancel := ctx90()
		defer cancel()
		return h.pk.EnumerateBlobs(ctx, ch, after, limit)
	})
	if err != nil {
		h.bad("client/EnumerateBlobs/error", "EnumerateBlobs(after=%q, limit=%d): %v", after, limit, err)
		return
	}
	want := h.want(after)
	h.eval(1 + len(got))
	if c, what := h.classify(after, got, want, limit, true); c != "" {
		h.bad("client/EnumerateBlobs/"+c, "EnumerateBlobs(after=%q, limit=%d) with %d blobs after the cursor: %s", after, limit, len(want), what)
	}
}

func (h *hist) clientEnumerate(fn func(chan<- blob.SizedRef) error) ([]sizedRef, error) {
	ch := make(chan blob.SizedRef)
	errc := make(chan error, 1)
	go func() { errc <- fn(ch) }()
	var got []sizedRef
	for sb := range ch {
		sz := int64(sb.Size)
		got = append(got, sizedRef{sb.Ref.String(), &sz})
	}
	return got, <-errc
}

func (h *hist) clientEnumMaxWait() {
	h.begin("enumerate", "pkg/client", "EnumerateBlobsOpts.maxwait", "MaxWait=1s on a non-empty store")
	h.note("maxwaitsec", "client-1")
	got, err := h.clientEnumerate(func(ch chan<- blob.SizedRef) error {
		ctx, cancel := ctx90()
		defer cancel()
		return h.pk.EnumerateBlobsOpts(ctx, ch, client.EnumerateOpts{MaxWait: time.Second})
	})
	if err != nil {
		h.bad("client/EnumerateBlobsOpts/error", "EnumerateBlobsOpts(MaxWait=1s): %v", err)
		return
	}
	want := h.want("")
	h.eval(1 + len(got))
	if len(got) == 0 && len(want) > 0 {
		h.bad("client/EnumerateBlobsOpts/maxwait-empty", "EnumerateBlobsOpts{MaxWait: 1s} on a store holding %d blobs returned no blob at all", len(want))
		return
	}
	if c, what := h.classify("", got, want, 0, true); c != "" {
		h.bad("client/EnumerateBlobsOpts/"+c, "EnumerateBlobsOpts(MaxWait=1s) with %d blobs: %s", len(want), what)
	}
}

func (h *hist) clientEnumSimple() {
	h.begin("enumerate", "pkg/client", "SimpleEnumerateBlobs", "")
	got, err := h.clientEnumerate(func(ch chan<- blob.SizedRef) error {
		ctx, cancel := ctx90()
		defer cancel()
		return h.pk.SimpleEnumerateBlobs(ctx, ch)
	})
	if err != nil {
		h.bad("client/SimpleEnumerateBlobs/error", "%v", err)
		return
	}
	want := h.want("")
	h.eval(1 + len(got))
	if c, what := h.classify("", got, want, 0, true); c != "" {
		h.bad("client/SimpleEnumerateBlobs/"+c, "SimpleEnumerateBlobs with %d blobs: %s", len(want), what)
	}
}

const serverMaxEnumerate = 10000 // only used to pick a limit above it

// pageReq returns the request of a raw page / the first request of a chain for a class.
func (h *hist) pageReq(class string, allowAfter bool) (q enumReq, limit int) {
	switch class {
	case "absent":
	case "1", "2", "100", "1000", "10000", "10001", "20000", "100000", "4294967295":
		q.Limit = class
		limit, _ = strconv.Atoi(class)
	case "over-max":
		limit = serverMaxEnumerate + 1 + h.rng.Intn(1000000)
		q.Limit = strconv.Itoa(limit)
	case "mws0":
		q.MaxWait = "0"
		limit = []int{1, 2, 100}[h.rng.Intn(3)]
		q.Limit = strconv.Itoa(limit)
	case "mws1-1000": // (bulk histories) what pkg/client sends first for EnumerateOpts{MaxWait: 1s}
		q.MaxWait = "1"
		limit = 1000
		q.Limit = "1000"
	case "mws1", "mws1-after":
		q.MaxWait = "1"
		if h.rng.Intn(2) == 0 {
			limit = []int{1, 2, 100}[h.rng.Intn(3)]
			q.Limit = strconv.Itoa(limit)
		}
	}
	if class == "mws1" {
		if h.rng.Intn(2) == 0 {
			e := ""
			q.After = &e // present but empty: still "no after"
		}
		return
	}
	if allowAfter && (class == "mws1-after" || h.rng.Intn(4) > 0) {
		a := h.cursor()
		if class == "mws1-after" && a == "" {
			a = "sha224-"
		}
		q.After = &a
	}
	return
}

func mwsClass(q enumReq) string {
	if q.MaxWait == "" {
		return "absent"
	}
	return q.MaxWait
}

// onePage performs one enumerate request and checks the page against the model.
// It returns the parsed page (nil if unusable).
func (h *hist) onePage(q enumReq, limit int) *enumResp { return h.onePageOpt(q, limit, pageOpt{}) }

// pageOpt relaxes onePage for requests whose parameters are outside the documented domain.
type pageOpt struct {
	allow4xx  bool // the parameter value is invalid: a 4xx refusal is as good as a correct page
	zeroLimit bool // limit=0: only "whatever is listed is right and nothing is skipped" is decided
}

func (h *hist) onePageOpt(q enumReq, limit int, opt pageOpt) *enumResp {
	after := ""
	if q.After != nil {
		after = *q.After
	}
	r, err := h.raw.enumerate(q)
	h.eval(1)
	if err != nil {
		h.reqErr("enumerate", err)
		return nil
	}
	h.note("maxwaitsec", mwsClass(q))
	if q.MaxWait != "" && q.MaxWait != "0" && after != "" {
		// blob-enumerate.md: "It is an error to send this option with a non-zero value along with the 'after' option."
		if r.Status < 400 || r.Status > 499 {
			h.bad("enumerate/maxwaitsec-with-after-accepted", "%s: status %d, the documented error is expected", q, r.Status)
		}
		return nil
	}
	if opt.allow4xx && r.Status >= 400 && r.Status <= 499 {
		h.note("invalid_param_answers", "4xx")
		return nil
	}
	if r.Status != 200 {
		h.bad("enumerate/status", "%s: status %d %s", q, r.Status, clip(string(r.Body), 200))
		return nil
	}
	e, err := parseEnum(r.Body)
	if err != nil || !e.hasBlobs {
		h.bad("enumerate/bad-json", "%s: response is not the documented JSON (%v): %s", q, err, clip(string(r.Body), 300))
		return nil
	}
	want := h.want(after)
	if opt.allow4xx {
		h.note("invalid_param_answers", "page")
	}
	if opt.zeroLimit {
		h.eval(len(e.Blobs))
		if c, what := h.classify(after, e.Blobs, want, 0, false); c != "" {
			h.bad("enumerate/"+c, "%s with %d blobs after the cursor, page of %d, continueAfter=%q: %s", q, len(want), len(e.Blobs), e.ContinueAfter, what)
			return e
		}
		nk := 0
		for _, sb := range e.Blobs {
			if h.known(sb.BlobRef) {
				nk++
			}
		}
		if e.ContinueAfter != "" && nk < len(want) && e.ContinueAfter >= want[nk] {
			h.bad("enumerate/continue-skips", "%s: continueAfter=%q is not before the next uploaded blob %s: the next page skips it", q, e.ContinueAfter, want[nk])
		}
		h.note("limit_zero_answers", fmt.Sprintf("entries=%v,continueAfter=%v", len(e.Blobs) > 0, e.ContinueAfter != ""))
		return e
	}
	if q.MaxWait != "" && q.MaxWait != "0" && len(e.Blobs) == 0 && e.ContinueAfter == "" && len(want) > 0 {
		h.bad("enumerate/maxwaitsec-positive-empty", "%s on a store holding %d blobs: \"blobs\" is empty (must return the available blobs immediately); body=%s",
			q, len(want), clip(strings.Join(strings.Fields(string(r.Body)), " "), 120))
		return nil
	}
	h.eval(len(e.Blobs))
	if c, what := h.classify(after, e.Blobs, want, limit, e.ContinueAfter == ""); c != "" {
		h.bad("enumerate/"+c, "%s with %d blobs after the cursor, page of %d, continueAfter=%q: %s", q, len(want), len(e.Blobs), e.ContinueAfter, what)
		return e
	}
	// continuation token
	nk := 0 // certain entries in the page
	for _, sb := range e.Blobs {
		if h.known(sb.BlobRef) {
			nk++
		}
	}
	more := nk < len(want)
	switch {
	case e.ContinueAfter == "" && more:
		h.bad("enumerate/continue-missing", "%s: page of %d entries, %d more uploaded blobs follow, but no continueAfter", q, len(e.Blobs), len(want)-nk)
	case e.ContinueAfter != "":
		if len(e.Blobs) == 0 {
			h.bad("enumerate/continue-spurious", "%s: empty page with continueAfter=%q", q, e.ContinueAfter)
			break
		}
		lastRef := e.Blobs[len(e.Blobs)-1].BlobRef
		if e.ContinueAfter < lastRef {
			h.bad("enumerate/continue-repeats", "%s: continueAfter=%q sorts before the last entry %s of the page: the next page repeats blobs", q, e.ContinueAfter, lastRef)
		} else if more && e.ContinueAfter >= want[nk] {
			h.bad("enumerate/continue-skips", "%s: continueAfter=%q is not before the next uploaded blob %s: the next page skips it", q, e.ContinueAfter, want[nk])
		}
		if limit > 0 && len(e.Blobs) < limit && !more {
			h.bad("enumerate/continue-spurious", "%s: page of %d < limit %d with nothing after it, yet continueAfter=%q", q, len(e.Blobs), limit, e.ContinueAfter)
		}
		if limit > 0 && len(e.Blobs) < limit && more {
			h.note("events", "server-capped-page")
		}
		if q.Limit == "" && more {
			h.note("events", "default-limit-page-truncated") // the server's own page size was reached
		}
		if limit == 1000 && len(e.Blobs) == 1000 {
			h.note("events", "limit-1000-page-full") // the page size pkg/client asks for
		}
	}
	return e
}

func (h *hist) rawPage(class string) {
	q, limit := h.pageReq(class, true)
	h.begin("enumerate", "raw", "page."+class, q.String())
	h.note("enum_limit", limitClass(class, q))
	h.onePage(q, limit)
}

func limitClass(class string, q enumReq) string {
	switch {
	case q.Limit == "":
		return "absent"
	case class == "over-max":
		return "over-max"
	}
	return q.Limit
}

// rawChain follows continueAfter from the start to the end and checks that the union is
// the model, every uploaded blob exactly once.  It returns the number of pages of a chain that
// was followed to its end without a report (0 otherwise).
func (h *hist) rawChain(class string) int {
	q, limit := h.pageReq(class, false)
	q.After = nil
	h.begin("enumerate", "raw", "chain."+class, q.String())
	h.note("enum_limit", limitClass(class, q))
	visited := map[string]int{}
	pages := 0
	maxPages := len(h.present) + len(h.maybe) + 5
	for {
		before := h.nbad
		e := h.onePage(q, limit)
		if e == nil || h.nbad > before {
			return 0 // already reported: the rest of the chain would only repeat it
		}
		pages++
		for _, sb := range e.Blobs {
			visited[sb.BlobRef]++
		}
		if e.ContinueAfter == "" {
			if pages > 1 && len(e.Blobs) == 0 {
				h.note("events", "full-page-then-empty-page") // blob-enumerate.md: "possible but rare"
			}
			break
		}
		if pages > maxPages {
			h.bad("enumerate/paging-endless", "chain with limit %q did not end after %d pages over %d blobs", q.Limit, pages, len(h.present))
			return 0
		}
		a := e.ContinueAfter
		q.After = &a
		if q.MaxWait != "" && q.MaxWait != "0" {
			q.MaxWait = "" // long-poll only on the first request: it cannot be combined with after
		}
	}
	if pages > 1 {
		h.note("events", "continuation-paging")
	}
	h.eval(len(h.present))
	refs := h.presentList()
	for _, r := range refs {
		switch n := visited[r]; {
		case n == 0:
			h.bad("enumerate/missing-uploaded", "complete enumeration (limit %q, %d pages) does not list uploaded blob %s", q.Limit, pages, r)
			return 0
		case n > 1:
			h.bad("enumerate/dup", "complete enumeration (limit %q, %d pages) lists uploaded blob %s %d times", q.Limit, pages, r, n)
			return 0
		}
	}
	return pages
}

// ---------------------------------------------------------------- final audit

// audit checks every uploaded blob once more through every endpoint.
func (h *hist) audit() {
	if h.nviol > 25 {
		return
	}
	refs := h.presentList()
	// stat everything in one POST, together with the never-uploaded ones
	all := append([]string{}, refs...)
	for _, b := range h.never {
		all = append(all, b.Ref.String())
	}
	sort.Strings(all)
	h.begin("stat", "raw", "POST.audit", fmt.Sprintf("%d refs", len(all)))
	if r, err := h.raw.statPOST(all, ""); err != nil {
		h.reqErr("stat", err)
	} else if r.Status != 200 {
		h.bad("stat/status", "audit stat: status %d", r.Status)
	} else if s, err := parseStat(r.Body); err != nil || !s.hasStat {
		h.bad("stat/bad-json", "audit stat: %v", err)
	} else {
		h.checkStat("stat", all, s.Stat)
	}
	for _, r := range refs {
		h.rawGetRef("GET", r, true)
		h.rawGetRef("HEAD", r, true)
	}
	for _, b := range h.never {
		h.rawGetRef("GET", b.Ref.String(), false)
	}
	for _, c := range []string{"1", "100", "absent"} {
		h.rawChain(c)
	}
	h.clientEnumSimple()
	h.auditBoundary()
	h.checkServerLog()
	h.auditRoots([]string{"100", "absent"})
}
