package main

import (
	"bytes"
	"context"
	"crypto/sha256"
	"encoding/hex"
	"errors"
	"fmt"
	"hash/fnv"
	"io"
	"log"
	"math/rand"
	"net"
	"os"
	"path/filepath"
	"runtime/debug"
	"sort"
	"strconv"
	"strings"
	"sync"
	"time"

	"perkeep.org/pkg/auth"
	"perkeep.org/pkg/blob"
	"perkeep.org/pkg/client"

	"verif.local/harness/sto"
)

// hist is one history against one freshly started server.
type hist struct {
	cfg    config
	caseID string
	rng    *rand.Rand
	srv    *server
	raw    *rawClient
	pk     *client.Client

	universe []sto.Blob        // blobs this client may upload
	never    []sto.Blob        // universe members that are never uploaded
	file     []sto.Blob        // chunks + file schema blob (last), uploaded in order by one op
	data     map[string][]byte // content of every ref whose bytes we know
	present  map[string]int64  // certain-present: ref text -> size
	maybe    map[string]bool   // an upload of it failed: may or may not be there
	foreign  map[string]bool   // blobs the server added itself
	absentN  int

	// boundary-size blobs (boundary.go): streamed, never held in data
	big     map[string]*bigBlob // accepted or uncertain ones, by ref text
	refused []*bigBlob          // over-limit ones the server refused: must stay invisible
	bigBase []byte
	bigN    int

	ops     []string
	curReq  string
	evals   int
	nviol   int
	srvLog  *logBuf
	classes map[string]int
	notes   map[[2]string]int
	aborted bool // stopped early after many violations
	nbad    int  // every report
	sigN    map[string]int
	rootTag string // "" = the discovery blobRoot; "/bs", "/index": another root of the server (roots.go)
}

type logBuf struct {
	mu sync.Mutex
	b  bytes.Buffer
}

func (l *logBuf) Write(p []byte) (int, error) {
	l.mu.Lock()
	defer l.mu.Unlock()
	if l.b.Len() < 1<<20 {
		l.b.Write(p)
	}
	return len(p), nil
}

func (l *logBuf) take() string {
	l.mu.Lock()
	defer l.mu.Unlock()
	s := l.b.String()
	l.b.Reset()
	return s
}

func seeded(label string) *rand.Rand {
	h := fnv.New64a()
	fmt.Fprintf(h, "%s/C18/%s", os.Getenv("VERIF_SEED"), label)
	return rand.New(rand.NewSource(int64(h.Sum64())))
}

// ---- reporting

// sigs that are independent of the configuration (handler-level) carry no storage suffix.
var plainSig = map[string]bool{
	"enumerate/maxwaitsec-positive-empty":     true,
	"client/EnumerateBlobsOpts/maxwait-empty": true,
	"client/StatBlobs/dup":                    true,
}

func (h *hist) bad(sig, format string, args ...any) {
	h.nbad++
	if h.sigN == nil {
		h.sigN = map[string]int{}
	}
	// a signature weighs at most 3 towards the abort threshold, so that a defect that
	// shows on every request of one class (e.g. a listed known finding) does not end the history
	if h.rootTag != "" {
		// another blob root: its own signature family; the index root varies with the index type
		sig = rootSigPrefix(h.rootTag) + sig
	}
	if h.sigN[sig]++; h.sigN[sig] <= 3 {
		h.nviol++
	}
	switch {
	case h.rootTag == "/index":
		sig += "/" + h.cfg.Index
	case h.rootTag != "" || !plainSig[sig]:
		sig += "/" + h.cfg.Storage
	}
	ops := h.ops
	if len(ops) > 80 {
		ops = ops[len(ops)-80:]
	}
	emit(event{T: "viol", Sig: sig,
		What: fmt.Sprintf("[%s] %s: %s", h.cfg, h.curReq, fmt.Sprintf(format, args...)),
		Value: map[string]any{
			"case_id": h.caseID, "config": h.cfg.String(), "request": h.curReq,
			"ops_before": ops, "n_ops": len(h.ops), "present_blobs": len(h.present),
		}})
}

// note accumulates an observed category (flushed at the end of the history).
func (h *hist) note(set, item string) {
	if h.notes == nil {
		h.notes = map[[2]string]int{}
	}
	h.notes[[2]string{set, item}]++
}

func (h *hist) flushNotes() {
	for k, n := range h.notes {
		emit(event{T: "note", Set: k[0], Item: k[1], N: n})
	}
	h.notes = nil
}

// begin records the request about to be made (endpoint, client kind, parameter class).
func (h *hist) begin(endpoint, kind, class, detail string) {
	if h.rootTag != "" {
		class += "@" + h.rootTag
	}
	h.curReq = fmt.Sprintf("%s %s %s %s", endpoint, kind, class, detail)
	h.ops = append(h.ops, h.curReq)
	h.classes[endpoint+"."+kind+"."+class]++
}

func (h *hist) eval(n int) { h.evals += n }

// reqErr handles a transport-level failure: a timeout is a watchdog event, anything
// else (connection closed by a panicking handler, reset) is what the client observed.
func (h *hist) reqErr(endpoint string, err error) {
	var ne net.Error
	if errors.As(err, &ne) && ne.Timeout() || errors.Is(err, context.DeadlineExceeded) {
		emit(event{T: "inconcl", What: fmt.Sprintf("[%s] %s: request timed out: %v", h.cfg, h.curReq, err)})
		return
	}
	h.bad(endpoint+"/transport-error", "request failed: %v", err)
}

func (h *hist) checkServerLog() {
	s := h.srvLog.take()
	if i := strings.Index(s, "http: panic serving"); i >= 0 {
		h.bad("panic/handler", "a handler panicked: %s", clip(s[i:], 1500))
	}
}

// ---- model

func (h *hist) known(ref string) bool { _, ok := h.present[ref]; return ok }

// want returns the certain-present refs > after, ascending by text.
func (h *hist) want(after string) []string {
	var out []string
	for r := range h.present {
		if r > after {
			out = append(out, r)
		}
	}
	sort.Strings(out)
	return out
}

func (h *hist) markUploaded(b sto.Blob) {
	r := b.Ref.String()
	h.present[r] = int64(len(b.Data))
	h.data[r] = b.Data
	delete(h.maybe, r)
}

func (h *hist) markMaybe(b sto.Blob) {
	r := b.Ref.String()
	if !h.known(r) {
		h.maybe[r] = true
		h.data[r] = b.Data
	}
}

func (h *hist) absentRef() string {
	h.absentN++
	s := sha256.Sum224([]byte(fmt.Sprintf("never-uploaded-%s-%d", h.caseID, h.absentN)))
	return "sha224-" + hex.EncodeToString(s[:])
}

func (h *hist) presentList() []string { return h.want("") }

func (h *hist) pickPresent() (string, bool) {
	l := h.presentList()
	if len(l) == 0 {
		return "", false
	}
	return l[h.rng.Intn(len(l))], true
}

// pickUpload prefers blobs not uploaded yet.
func (h *hist) pickUpload() sto.Blob {
	var fresh []sto.Blob
	for _, b := range h.universe {
		if !h.known(b.Ref.String()) {
			fresh = append(fresh, b)
		}
	}
	if len(fresh) > 0 && h.rng.Intn(10) < 7 {
		return fresh[h.rng.Intn(len(fresh))]
	}
	return h.universe[h.rng.Intn(len(h.universe))]
}

func (h *hist) pickUploads(k int) []sto.Blob {
	if k > len(h.universe) {
		k = len(h.universe)
	}
	seen := map[blob.Ref]bool{}
	var out []sto.Blob
	for tries := 0; len(out) < k && tries < 50*k; tries++ {
		b := h.pickUpload()
		if !seen[b.Ref] {
			seen[b.Ref] = true
			out = append(out, b)
		}
	}
	for _, b := range h.universe {
		if len(out) >= k {
			break
		}
		if !seen[b.Ref] {
			seen[b.Ref] = true
			out = append(out, b)
		}
	}
	return out
}

func (h *hist) cursors() []string {
	all := append([]sto.Blob{}, h.universe...)
	c := &sto.Checker{Universe: all}
	cur := c.Cursors(h.rng)
	// cursors at existing server-side refs too
	for r := range h.foreign {
		cur = append(cur, r, r[:len(r)-1], r+"0")
	}
	if l := h.presentList(); len(l) > 0 {
		cur = append(cur, l[0], l[len(l)-1], l[len(l)/2])
	}
	return cur
}

func (h *hist) cursor() string {
	c := h.cursors()
	return c[h.rng.Intn(len(c))]
}

// ---- child entry point

func childMain() {
	log.SetOutput(io.Discard)
	cfg, err := parseConfig(os.Getenv("C18_CFG"))
	if err != nil {
		emit(event{T: "inconcl", What: err.Error()})
		os.Exit(0)
	}
	hn, _ := strconv.Atoi(os.Getenv("C18_HIST"))
	boundary := os.Getenv("C18_KIND") == "boundary"
	bulk := os.Getenv("C18_KIND") == "bulk"
	huge := os.Getenv("C18_KIND") == "huge"
	label := fmt.Sprintf("history/%s/%d", cfg, hn)
	if boundary {
		label = fmt.Sprintf("boundary/%s", cfg)
	}
	if bulk {
		label = fmt.Sprintf("bulk/%s", cfg)
	}
	if huge {
		label = fmt.Sprintf("huge/%s", cfg)
	}
	nreq, _ := strconv.Atoi(os.Getenv("C18_NREQ"))
	dir := os.Getenv("C18_DIR")
	caseID := os.Getenv("C18_CASE")
	h := &hist{cfg: cfg, caseID: caseID,
		rng:  seeded(label),
		data: map[string][]byte{}, present: map[string]int64{}, maybe: map[string]bool{}, foreign: map[string]bool{},
		big:    map[string]*bigBlob{},
		srvLog: &logBuf{}, classes: map[string]int{}}
	h.curReq = "server start"
	srv, err := startServer(cfg, dir)
	if err != nil {
		// the configuration is one the high-level config documents as selectable: not
		// being able to serve it at all refutes "for every storage and index type"
		h.bad("server/start-fails", "cannot start: %v", err)
		emit(event{T: "done"})
		os.Exit(0)
	}
	srv.srv.ErrorLog = log.New(h.srvLog, "", 0)
	h.srv = srv
	h.raw = newRawClient(srv.base)
	if err := h.raw.discover(); err != nil {
		h.bad("discovery/failed", "%v", err)
		emit(event{T: "done"})
		os.Exit(0)
	}
	pk, err := client.New(client.OptionServer(srv.base),
		client.OptionAuthMode(auth.NewBasicAuth(authUser, authPass)),
		client.OptionNoExternalConfig())
	if err != nil {
		emit(event{T: "inconcl", What: "client.New: " + err.Error()})
		os.Exit(0)
	}
	pk.Logger = log.New(io.Discard, "", 0)
	h.pk = pk

	h.makeUniverse(hn)
	if !h.learnInitial() {
		emit(event{T: "done"})
		os.Exit(0)
	}
	if boundary {
		// the store of a memory configuration holds ~150 MiB of boundary blobs: keep the heap near its live size
		debug.SetGCPercent(25)
		h.runBoundary()
		h.audit()
	} else if bulk {
		h.runBulk()
		h.auditBulk()
	} else if huge {
		h.runHuge()
		h.auditHuge()
	} else {
		h.run(nreq)
		h.runRepeatFiles(hn)
		h.audit()
	}
	h.observeDisk()

	h.flushNotes()
	for c, n := range h.classes {
		emit(event{T: "class", Item: c, N: n})
	}
	emit(event{T: "eval", N: h.evals})
	emit(event{T: "count", Item: "http_requests_raw", N: h.raw.nreq})
	emit(event{T: "count", Item: "blobs_at_end", N: len(h.present)})
	if boundary {
		emit(event{T: "peak", N: peakRSSMiB()})
	}
	sum := fnv.New64a()
	for _, o := range h.ops {
		io.WriteString(sum, o)
	}
	emit(event{T: "distinct", Item: fmt.Sprintf("%s/%x", cfg, sum.Sum64())})
	smp := h.ops
	if len(smp) > 10 {
		smp = smp[:10]
	}
	emit(event{T: "sample", Value: map[string]any{"case_id": caseID, "config": cfg.String(), "first_ops": smp, "ops": len(h.ops), "blobs": len(h.present)}})
	if h.aborted {
		emit(event{T: "aborted", N: h.nbad})
	}
	emit(event{T: "done", N: h.nbad})
	os.Exit(0)
}

func (h *hist) makeUniverse(hn int) {
	u := sto.Universe(h.rng, sto.GenOpts{N: 34, Hashes: true})
	// one (thorough histories: sometimes two) 1 MiB blob
	big := make([]byte, 1<<20)
	h.rng.Read(big)
	u = append(u, sto.FromBytes(big))
	h.never = u[len(u)-5 : len(u)-1] // four real blobs that are never uploaded
	h.universe = append(append([]sto.Blob{}, u[:len(u)-5]...), u[len(u)-1])
	// a real file (chunks + file schema): packed into a zip by blobpacked
	if h.cfg.Storage == "blobpacked" || hn%2 == 0 {
		content := make([]byte, 560<<10+h.rng.Intn(100<<10))
		h.rng.Read(content)
		_, fb, err := sto.FileBlobs(fmt.Sprintf("c18-%d.bin", h.rng.Int63()), content)
		if err == nil {
			h.file = fb
		} else {
			emit(event{T: "inconcl", What: "FileBlobs: " + err.Error()})
		}
	}
	for _, b := range h.universe {
		h.data[b.Ref.String()] = b.Data
	}
	for _, b := range h.never {
		h.data[b.Ref.String()] = b.Data // reserved: freshBlob must not re-create them
	}
	for _, b := range h.file {
		h.data[b.Ref.String()] = b.Data
	}
}

// learnInitial enumerates what the server put into the store itself (its public key).
func (h *hist) learnInitial() bool {
	h.begin("enumerate", "raw", "initial", "")
	after := ""
	for page := 0; page < 100; page++ {
		a := after
		q := enumReq{Limit: "50"}
		if page > 0 {
			q.After = &a
		}
		r, err := h.raw.enumerate(q)
		if err != nil {
			h.reqErr("enumerate", err)
			return false
		}
		if r.Status != 200 {
			h.bad("enumerate/status", "initial enumeration: status %d %s", r.Status, clip(string(r.Body), 200))
			return false
		}
		e, err := parseEnum(r.Body)
		if err != nil {
			h.bad("enumerate/bad-json", "initial enumeration: %v in %s", err, clip(string(r.Body), 200))
			return false
		}
		for _, sb := range e.Blobs {
			if sb.Size == nil {
				h.bad("enumerate/no-size", "entry %s without size", sb.BlobRef)
				return false
			}
			h.present[sb.BlobRef] = *sb.Size
			h.foreign[sb.BlobRef] = true
		}
		if e.ContinueAfter == "" {
			break
		}
		after = e.ContinueAfter
	}
	// learn (and verify, by hashing) their bytes
	for ref := range h.foreign {
		r, err := h.raw.get("GET", ref, "")
		if err != nil {
			h.reqErr("get", err)
			return false
		}
		br, ok := blob.Parse(ref)
		if r.Status != 200 || !ok {
			h.bad("get/enumerated-not-served", "server-added blob %s listed by enumerate: GET status %d", ref, r.Status)
			return false
		}
		hh := br.Hash()
		hh.Write(r.Body)
		if !br.HashMatches(hh) {
			h.bad("get/content", "server-added blob %s: body of %d bytes does not hash to its ref", ref, len(r.Body))
			return false
		}
		h.data[ref] = r.Body
		h.eval(1)
	}
	h.note("server_added_blobs", strconv.Itoa(len(h.foreign)))
	return true
}

// observeDisk notes structural facts (zip packing happened).
func (h *hist) observeDisk() {
	if h.cfg.Storage != "blobpacked" {
		return
	}
	n := 0
	filepath.Walk(filepath.Join(h.srv.blobPath, "packed"), func(p string, fi os.FileInfo, err error) error {
		if err == nil && !fi.IsDir() && strings.HasSuffix(p, ".dat") {
			n++
		}
		return nil
	})
	if n > 0 {
		h.note("events", "zip-packed")
	}
}

func ctx90() (context.Context, context.CancelFunc) {
	return context.WithTimeout(context.Background(), 90*time.Second)
}

// peakRSSMiB is the child's peak resident set (VmHWM), for the evidence only.
func peakRSSMiB() int {
	b, _ := os.ReadFile("/proc/self/status")
	for _, l := range strings.Split(string(b), "\n") {
		if strings.HasPrefix(l, "VmHWM:") {
			f := strings.Fields(l)
			if len(f) >= 2 {
				kb, _ := strconv.Atoi(f[1])
				return kb >> 10
			}
		}
	}
	return 0
}
