package main

import (
	"context"
	"encoding/json"
	"fmt"
	"net"
	"net/http"
	"os"
	"path/filepath"
	"strings"
	"time"

	"perkeep.org/pkg/jsonsign"
	"perkeep.org/pkg/serverinit"

	"verif.local/harness/ev"

	// what perkeepd links in: storage, sorted, handlers, importers
	_ "perkeep.org/pkg/blobserver/blobpacked"
	_ "perkeep.org/pkg/blobserver/cond"
	_ "perkeep.org/pkg/blobserver/diskpacked"
	_ "perkeep.org/pkg/blobserver/encrypt"
	_ "perkeep.org/pkg/blobserver/localdisk"
	_ "perkeep.org/pkg/blobserver/memory"
	_ "perkeep.org/pkg/blobserver/overlay"
	_ "perkeep.org/pkg/blobserver/proxycache"
	_ "perkeep.org/pkg/blobserver/remote"
	_ "perkeep.org/pkg/blobserver/replica"
	_ "perkeep.org/pkg/blobserver/shard"
	_ "perkeep.org/pkg/blobserver/union"
	_ "perkeep.org/pkg/importer/allimporters"
	_ "perkeep.org/pkg/search"
	_ "perkeep.org/pkg/server"
	_ "perkeep.org/pkg/sorted/kvfile"
	_ "perkeep.org/pkg/sorted/leveldb"
	_ "perkeep.org/pkg/sorted/sqlite"
)

const (
	authUser = "alice"
	authPass = "secret"
)

// config is one offline-constructible high-level configuration.
type config struct {
	Storage string // memory | localdisk | diskpacked | blobpacked
	Index   string // memory | leveldb | kv | sqlite
}

func (c config) String() string { return c.Storage + "+" + c.Index }

func parseConfig(s string) (config, error) {
	st, ix, ok := strings.Cut(s, "+")
	if !ok {
		return config{}, fmt.Errorf("bad config %q", s)
	}
	return config{st, ix}, nil
}

var (
	storages = []string{"memory", "localdisk", "diskpacked", "blobpacked"}
	indexes  = []string{"memory", "leveldb", "kv", "sqlite"}
)

// highLevel returns the high-level (user facing) server configuration for c rooted at dir.
func highLevel(c config, dir, addr string) (map[string]any, error) {
	ring := filepath.Join(ev.RepoRoot(), "pkg", "jsonsign", "testdata", "test-secring.gpg")
	keyID, err := jsonsign.KeyIdFromRing(ring)
	if err != nil {
		return nil, fmt.Errorf("key ring: %w", err)
	}
	m := map[string]any{
		"auth":               "userpass:" + authUser + ":" + authPass,
		"listen":             addr,
		"baseURL":            "http://" + addr,
		"https":              false,
		"identity":           keyID,
		"identitySecretRing": ring,
		"runIndex":           true,
	}
	blobPath := filepath.Join(dir, "blobs")
	switch c.Storage {
	case "memory":
		m["memoryStorage"] = true
	case "localdisk":
		m["blobPath"] = blobPath
	case "diskpacked":
		m["blobPath"] = blobPath
		m["packBlobs"] = true
	case "blobpacked":
		m["blobPath"] = blobPath
		m["packRelated"] = true
	default:
		return nil, fmt.Errorf("unknown storage %q", c.Storage)
	}
	if c.Storage != "memory" {
		// perkeepd's own setup creates these (genconfig creates blobPath/cache only)
		for _, d := range []string{blobPath, filepath.Join(blobPath, "packed"), filepath.Join(blobPath, "cache")} {
			if err := os.MkdirAll(d, 0o700); err != nil {
				return nil, err
			}
		}
	}
	idxDir := filepath.Join(dir, "index")
	if err := os.MkdirAll(idxDir, 0o700); err != nil {
		return nil, err
	}
	switch c.Index {
	case "memory":
		m["memoryIndex"] = true
	case "leveldb":
		m["levelDB"] = filepath.Join(idxDir, "index.leveldb")
	case "kv":
		m["kvIndexFile"] = filepath.Join(idxDir, "index.kv")
	case "sqlite":
		m["sqlite"] = filepath.Join(idxDir, "index.sqlite")
	default:
		return nil, fmt.Errorf("unknown index %q", c.Index)
	}
	return m, nil
}

type server struct {
	base     string // http://127.0.0.1:port
	blobPath string
	srv      *http.Server
}

// startServer builds the handlers of configuration c exactly as perkeepd does
// (serverinit.Load of the high-level JSON + InstallHandlers) and serves them.
func startServer(c config, dir string) (*server, error) {
	os.Setenv("CAMLI_CONFIG_DIR", filepath.Join(dir, "camli-config"))
	os.Setenv("HOME", filepath.Join(dir, "home"))
	os.MkdirAll(filepath.Join(dir, "camli-config"), 0o700)
	os.MkdirAll(filepath.Join(dir, "home"), 0o700)
	ln, err := net.Listen("tcp", "127.0.0.1:0")
	if err != nil {
		return nil, err
	}
	addr := ln.Addr().String()
	hl, err := highLevel(c, dir, addr)
	if err != nil {
		ln.Close()
		return nil, err
	}
	js, _ := json.Marshal(hl)
	conf, err := serverinit.Load(js)
	if err != nil {
		ln.Close()
		return nil, fmt.Errorf("serverinit.Load: %w", err)
	}
	mux := http.NewServeMux()
	base := "http://" + addr
	if _, err := conf.InstallHandlers(mux, base); err != nil {
		ln.Close()
		return nil, fmt.Errorf("InstallHandlers: %w", err)
	}
	s := &server{base: base, srv: &http.Server{Handler: mux}, blobPath: filepath.Join(dir, "blobs")}
	go s.srv.Serve(ln)
	ctx, cancel := context.WithTimeout(context.Background(), 60*time.Second)
	defer cancel()
	if err := conf.UploadPublicKey(ctx); err != nil {
		return nil, fmt.Errorf("UploadPublicKey: %w", err)
	}
	return s, nil
}
