package main

// Files with repeated chunks (blobpacked configurations).
//
// A "file" schema blob may name the same chunk blob in several parts: perkeep's own writer
// does so whenever two chunks of a file have equal content (runs of zeros, copied regions).
// blobpacked packs a file of >= 512 KiB into one zip when its schema blob arrives and from
// then on serves every chunk out of the zip, at the offset it recorded while packing.  The
// ordinary histories upload one file of random content (all chunks distinct).  Here every
// ordinary history of a blobpacked configuration ends with two more files:
//   - a hand-written schema over seeded chunks: A A B, A B A C, Z Z Z .. D Z E (Z short, zeros or
//     random), A B A B C; padded with further chunks to the pack threshold;
//   - a file cut by the real chunker (schema.WriteFileFromReader) from random bytes with long
//     runs of zeros in between: every full-size chunk of zeros is the same blob, and real chunks
//     follow the repeats.
// Chunks first (multipart), each fetched while still loose; then the schema blob; the harness
// observes that a new zip appeared under <blobPath>/packed; then EVERY blob of the file is fetched
// byte for byte through GET, HEAD, Range requests and pkg/client.Fetch.  The final audit of the
// history reads them all once more.
//
// Oracle: the reference map, as for any other blob (rawGetRef / rawRangeRef / clientFetchRef).
// The steps run after the seeded plan of the history and draw from their own PRNG stream, so the
// older part of every history is what it was.

import (
	"encoding/json"
	"fmt"
	"math/rand"
	"os"
	"path/filepath"
	"strings"

	"verif.local/harness/sto"
)

var repeatVariants = []string{"AAB", "ABAC", "run", "ABABC"}

// repeatEvents are the observations the repeat-file steps make on an unchanged server.
var repeatEvents = []string{"repeat-file-packed", "repeat-file-chunks-verified-after-pack", "zero-run-file-packed"}

type repeatFile struct {
	variant string
	blobs   []sto.Blob // chunks and inner schema blobs, then the file schema blob (last)
	seq     []string   // the file's chunk refs in file order
}

func fileSchemaJSON(name string, nonce int64, parts []sto.Blob) []byte {
	var sb strings.Builder
	q, _ := json.Marshal(name)
	fmt.Fprintf(&sb, "{\"camliVersion\": 1,\n  \"camliType\": \"file\",\n  \"fileName\": %s,\n  \"parts\": [", q)
	for i, p := range parts {
		if i > 0 {
			sb.WriteString(",")
		}
		fmt.Fprintf(&sb, "\n    {\"blobRef\": %q, \"size\": %d}", p.Ref.String(), len(p.Data))
	}
	fmt.Fprintf(&sb, "\n  ],\n  \"verifNonce\": %d\n}", nonce)
	return []byte(sb.String())
}

// craftedRepeat builds a hand-written file whose parts repeat a chunk with other chunks after it.
func craftedRepeat(rng *rand.Rand, variant string) repeatFile {
	hashes := []string{"sha224", "sha224", "sha224", "sha1", "sha256"}
	mk := func(n int, zeros bool) sto.Blob {
		d := make([]byte, n)
		if !zeros {
			rng.Read(d)
		}
		return sto.Blob{Ref: sto.RefOf(hashes[rng.Intn(len(hashes))], d), Data: d}
	}
	small := func() sto.Blob { return mk(48<<10+rng.Intn(96<<10), false) }
	var parts []sto.Blob
	switch variant {
	case "AAB":
		// equal sizes: a chunk served from the offset of its neighbour has the right length
		n := 128<<10 + rng.Intn(128<<10)
		a, b := mk(n, false), mk(n, false)
		parts = []sto.Blob{a, a, b}
	case "ABAC":
		a, b, c := small(), small(), small()
		parts = []sto.Blob{a, b, a, c}
	case "run":
		z := mk(4<<10+rng.Intn(28<<10), rng.Intn(2) == 0)
		for i, n := 0, 2+rng.Intn(5); i < n; i++ {
			parts = append(parts, z)
		}
		parts = append(parts, small(), z, small())
	default: // ABABC
		a, b, c := small(), small(), small()
		parts = []sto.Blob{a, b, a, b, c}
	}
	sum := func() (n int) {
		for _, p := range parts {
			n += len(p.Data)
		}
		return
	}
	for sum() < sto.PackThreshold+(16<<10) {
		parts = append(parts, mk(100<<10+rng.Intn(150<<10), false))
	}
	rf := repeatFile{variant: variant}
	seen := map[string]bool{}
	for _, p := range parts {
		r := p.Ref.String()
		rf.seq = append(rf.seq, r)
		if !seen[r] {
			seen[r] = true
			rf.blobs = append(rf.blobs, p)
		}
	}
	rf.blobs = append(rf.blobs, sto.FromBytes(fileSchemaJSON(fmt.Sprintf("c18-repeat-%s-%d.bin", variant, rng.Int63()), rng.Int63(), parts)))
	return rf
}

// zeroRunFile lets perkeep's own file writer cut random bytes with long runs of zeros.
func zeroRunFile(rng *rand.Rand) (repeatFile, error) {
	var content []byte
	rnd := func(n int) {
		d := make([]byte, n)
		rng.Read(d)
		content = append(content, d...)
	}
	// (the writer's first chunk is 256 KiB: it takes the random head and the start of the zeros, so
	// that at least two full-size chunks of nothing but zeros follow it)
	rnd(60<<10 + rng.Intn(140<<10))
	content = append(content, make([]byte, 2300<<10+rng.Intn(1<<20))...)
	rnd(100<<10 + rng.Intn(200<<10))
	content = append(content, make([]byte, 1100<<10+rng.Intn(1<<20))...)
	rnd(60<<10 + rng.Intn(100<<10))
	_, fb, err := sto.FileBlobs(fmt.Sprintf("c18-zero-run-%d.bin", rng.Int63()), content)
	if err != nil {
		return repeatFile{}, err
	}
	rf := repeatFile{variant: "zero-run", blobs: fb}
	byRef := map[string][]byte{}
	for _, b := range fb {
		byRef[b.Ref.String()] = b.Data
	}
	rf.seq = flattenParts(byRef, fb[len(fb)-1].Data, 0)
	return rf, nil
}

// flattenParts lists the data chunk refs of a file / bytes schema blob in file order.
func flattenParts(byRef map[string][]byte, schemaBlob []byte, depth int) []string {
	var s struct {
		Parts []struct {
			BlobRef  string `json:"blobRef"`
			BytesRef string `json:"bytesRef"`
		} `json:"parts"`
	}
	if depth > 8 || json.Unmarshal(schemaBlob, &s) != nil {
		return nil
	}
	var out []string
	for _, p := range s.Parts {
		switch {
		case p.BlobRef != "":
			out = append(out, p.BlobRef)
		case p.BytesRef != "":
			out = append(out, flattenParts(byRef, byRef[p.BytesRef], depth+1)...)
		}
	}
	return out
}

// afterRepeat returns the refs that occur, in file order, after the second occurrence of some
// chunk and differ from it (the chunks a store has to find behind a repeated one).
func afterRepeat(seq []string) []string {
	seen := map[string]bool{}
	rep := ""
	var out []string
	done := map[string]bool{}
	for _, r := range seq {
		if rep == "" {
			if seen[r] {
				rep = r
			}
			seen[r] = true
			continue
		}
		if r != rep && !done[r] {
			done[r] = true
			out = append(out, r)
		}
	}
	return out
}

func (h *hist) countZips() int {
	n := 0
	filepath.Walk(filepath.Join(h.srv.blobPath, "packed"), func(p string, fi os.FileInfo, err error) error {
		if err == nil && !fi.IsDir() && strings.HasSuffix(p, ".dat") {
			n++
		}
		return nil
	})
	return n
}

// runRepeatFiles: see the top of this file.
func (h *hist) runRepeatFiles(hn int) {
	if h.cfg.Storage != "blobpacked" || h.nviol > 25 {
		return
	}
	saved := h.rng
	h.rng = seeded(fmt.Sprintf("repeat/%s/%d", h.cfg, hn))
	defer func() { h.rng = saved }()
	files := []repeatFile{craftedRepeat(h.rng, repeatVariants[hn%len(repeatVariants)])}
	if zf, err := zeroRunFile(h.rng); err == nil {
		files = append(files, zf)
	} else {
		emit(event{T: "inconcl", What: "zero-run file: " + err.Error()})
	}
	for _, rf := range files {
		if h.nviol > 25 {
			return
		}
		h.uploadRepeatFile(rf)
		h.checkServerLog()
	}
}

func (h *hist) uploadRepeatFile(rf repeatFile) {
	displaced := afterRepeat(rf.seq)
	if len(displaced) == 0 {
		h.note("repeat_files", rf.variant+": no chunk after a repeated one (not used)")
		return
	}
	for _, b := range rf.blobs {
		r := b.Ref.String()
		if _, dup := h.data[r]; dup {
			h.note("repeat_files", rf.variant+": shares a blob with the history (not used)")
			return
		}
	}
	for _, b := range rf.blobs {
		h.data[b.Ref.String()] = b.Data
		h.universe = append(h.universe, b)
	}
	zipsBefore := h.countZips()
	chunks := rf.blobs[:len(rf.blobs)-1]
	for rest := chunks; len(rest) > 0; {
		k := 1 + h.rng.Intn(7)
		if k > len(rest) {
			k = len(rest)
		}
		if !h.rawMultipart("repeat-chunks", rest[:k]) {
			h.note("repeat_files", rf.variant+": chunk upload failed")
			return
		}
		rest = rest[k:]
	}
	for _, b := range chunks {
		h.rawGetRef("GET", b.Ref.String(), true) // still loose
	}
	fileBlob := rf.blobs[len(rf.blobs)-1]
	if h.rng.Intn(2) == 0 {
		h.rawPut(fileBlob)
	} else {
		h.rawMultipart("repeat-file-schema", []sto.Blob{fileBlob})
	}
	if !h.known(fileBlob.Ref.String()) {
		return
	}
	packed := h.countZips() > zipsBefore
	if packed {
		h.note("repeat_files", rf.variant+": packed")
		if rf.variant == "zero-run" {
			h.note("events", "zero-run-file-packed")
		} else {
			h.note("events", "repeat-file-packed")
		}
	} else {
		h.note("repeat_files", rf.variant+": not packed")
	}
	before := h.nbad
	classes := []string{"first-last", "single-byte", "open-ended", "suffix", "whole"}
	isDisplaced := map[string]bool{}
	for _, r := range displaced {
		isDisplaced[r] = true
	}
	for i, b := range rf.blobs {
		r := b.Ref.String()
		h.rawGetRef("GET", r, true)
		h.rawGetRef("HEAD", r, true)
		h.clientFetchRef(r, true)
		if len(b.Data) > 0 {
			h.rawRangeRef("GET", classes[i%len(classes)], r)
			if isDisplaced[r] {
				h.rawRangeRef("GET", classes[(i+1)%len(classes)], r)
				h.rawRangeRef("GET", "single-byte", r)
			}
		}
		if h.nviol > 25 {
			return
		}
	}
	h.classes["get.raw.GET.repeat-file-chunks"] += len(rf.blobs)
	if packed && h.nbad == before {
		h.note("events", "repeat-file-chunks-verified-after-pack")
		h.note("repeat_chunks_after_repeat", fmt.Sprint(len(displaced)))
	}
}
