package main

import (
	"bytes"
	"encoding/json"
	"fmt"
	"io"
	"mime/multipart"
	"net/http"
	"net/textproto"
	"net/url"
	"strings"
	"time"
)

// rawClient speaks the documented protocol with nothing but net/http.
type rawClient struct {
	base     string // server base URL
	blobRoot string // base + blobRoot of the discovery document, no trailing slash
	hc       *http.Client
	nreq     int
}

func newRawClient(base string) *rawClient {
	return &rawClient{
		base: base,
		hc: &http.Client{
			Timeout: 90 * time.Second, // watchdog only
			Transport: &http.Transport{
				DisableCompression:  true, // we want to see the real Content-Length
				MaxIdleConnsPerHost: 4,
			},
			CheckRedirect: func(*http.Request, []*http.Request) error { return http.ErrUseLastResponse },
		},
	}
}

type rawResp struct {
	Status int
	Header http.Header
	Body   []byte
	// ContentLength as announced (-1 when absent)
	ContentLength int64
}

func (c *rawClient) do(method, u string, hdr map[string]string, body []byte) (*rawResp, error) {
	var rd io.Reader
	if body != nil {
		rd = bytes.NewReader(body)
	}
	req, err := http.NewRequest(method, u, rd)
	if err != nil {
		return nil, err
	}
	req.SetBasicAuth(authUser, authPass)
	for k, v := range hdr {
		req.Header.Set(k, v)
	}
	c.nreq++
	res, err := c.hc.Do(req)
	if err != nil {
		return nil, err
	}
	defer res.Body.Close()
	b, err := io.ReadAll(res.Body)
	if err != nil {
		return nil, fmt.Errorf("reading body: %w", err)
	}
	return &rawResp{Status: res.StatusCode, Header: res.Header, Body: b, ContentLength: res.ContentLength}, nil
}

// discover reads blobRoot from the discovery document.
func (c *rawClient) discover() error {
	r, err := c.do("GET", c.base+"/", map[string]string{"Accept": "text/x-camli-configuration"}, nil)
	if err != nil {
		return err
	}
	if r.Status != 200 {
		return fmt.Errorf("discovery: status %d: %s", r.Status, clip(string(r.Body), 200))
	}
	var d struct {
		BlobRoot string `json:"blobRoot"`
	}
	if err := json.Unmarshal(r.Body, &d); err != nil {
		return fmt.Errorf("discovery: %v in %s", err, clip(string(r.Body), 200))
	}
	if d.BlobRoot == "" {
		return fmt.Errorf("discovery: no blobRoot in %s", clip(string(r.Body), 300))
	}
	bu, err := url.Parse(c.base + "/")
	if err != nil {
		return err
	}
	ru, err := bu.Parse(d.BlobRoot)
	if err != nil {
		return err
	}
	c.blobRoot = strings.TrimRight(ru.String(), "/")
	return nil
}

type sizedRef struct {
	BlobRef string `json:"blobRef"`
	Size    *int64 `json:"size"`
}

type enumResp struct {
	Blobs         []sizedRef `json:"blobs"`
	ContinueAfter string     `json:"continueAfter"`
	CanLongPoll   bool       `json:"canLongPoll"`
	hasBlobs      bool
}

type enumReq struct {
	After   *string // nil: parameter absent
	Limit   string  // "": absent
	MaxWait string  // "": absent
}

func (q enumReq) String() string {
	a := "<absent>"
	if q.After != nil {
		a = fmt.Sprintf("%q", *q.After)
	}
	return fmt.Sprintf("after=%s limit=%q maxwaitsec=%q", a, q.Limit, q.MaxWait)
}

func (c *rawClient) enumerate(q enumReq) (*rawResp, error) {
	v := url.Values{}
	if q.After != nil {
		v.Set("after", *q.After)
	}
	if q.Limit != "" {
		v.Set("limit", q.Limit)
	}
	if q.MaxWait != "" {
		v.Set("maxwaitsec", q.MaxWait)
	}
	u := c.blobRoot + "/camli/enumerate-blobs"
	if len(v) > 0 {
		u += "?" + v.Encode()
	}
	return c.do("GET", u, nil, nil)
}

func parseEnum(body []byte) (*enumResp, error) {
	var raw map[string]json.RawMessage
	if err := json.Unmarshal(body, &raw); err != nil {
		return nil, err
	}
	var e enumResp
	if err := json.Unmarshal(body, &e); err != nil {
		return nil, err
	}
	_, e.hasBlobs = raw["blobs"]
	return &e, nil
}

type statResp struct {
	Stat        []sizedRef `json:"stat"`
	CanLongPoll bool       `json:"canLongPoll"`
	hasStat     bool
}

func statForm(refs []string, maxwait string) url.Values {
	v := url.Values{}
	v.Set("camliversion", "1")
	for i, r := range refs {
		v.Set(fmt.Sprintf("blob%d", i+1), r)
	}
	if maxwait != "" {
		v.Set("maxwaitsec", maxwait)
	}
	return v
}

func (c *rawClient) statGET(refs []string, maxwait string) (*rawResp, error) {
	return c.do("GET", c.blobRoot+"/camli/stat?"+statForm(refs, maxwait).Encode(), nil, nil)
}

func (c *rawClient) statPOST(refs []string, maxwait string) (*rawResp, error) {
	return c.do("POST", c.blobRoot+"/camli/stat",
		map[string]string{"Content-Type": "application/x-www-form-urlencoded"},
		[]byte(statForm(refs, maxwait).Encode()))
}

func parseStat(body []byte) (*statResp, error) {
	var raw map[string]json.RawMessage
	if err := json.Unmarshal(body, &raw); err != nil {
		return nil, err
	}
	var s statResp
	if err := json.Unmarshal(body, &s); err != nil {
		return nil, err
	}
	_, s.hasStat = raw["stat"]
	return &s, nil
}

type uploadResp struct {
	Received    []sizedRef `json:"received"`
	ErrorText   string     `json:"errorText"`
	hasReceived bool
}

type part struct {
	ref  string
	data []byte
}

// uploadMultipart posts the parts exactly as blob-upload.md prescribes: form-data
// parts named by blobref, a unique filename and a Content-Type each.
func (c *rawClient) uploadMultipart(parts []part) (*rawResp, error) {
	var buf bytes.Buffer
	w := multipart.NewWriter(&buf)
	for i, p := range parts {
		h := textproto.MIMEHeader{}
		h.Set("Content-Disposition", fmt.Sprintf(`form-data; name="%s"; filename="blob%d"`, p.ref, i+1))
		h.Set("Content-Type", "application/octet-stream")
		pw, err := w.CreatePart(h)
		if err != nil {
			return nil, err
		}
		pw.Write(p.data)
	}
	w.Close()
	return c.do("POST", c.blobRoot+"/camli/upload", map[string]string{"Content-Type": w.FormDataContentType()}, buf.Bytes())
}

func parseUpload(body []byte) (*uploadResp, error) {
	var raw map[string]json.RawMessage
	if err := json.Unmarshal(body, &raw); err != nil {
		return nil, err
	}
	var s uploadResp
	if err := json.Unmarshal(body, &s); err != nil {
		return nil, err
	}
	_, s.hasReceived = raw["received"]
	return &s, nil
}

func (c *rawClient) put(ref string, data []byte) (*rawResp, error) {
	if data == nil {
		data = []byte{}
	}
	return c.do("PUT", c.blobRoot+"/camli/"+ref, map[string]string{"Content-Type": "application/octet-stream"}, data)
}

func (c *rawClient) get(method, ref, rangeHdr string) (*rawResp, error) {
	var h map[string]string
	if rangeHdr != "" {
		h = map[string]string{"Range": rangeHdr}
	}
	return c.do(method, c.blobRoot+"/camli/"+ref, h, nil)
}

func clip(s string, n int) string {
	if len(s) <= n {
		return s
	}
	return s[:n] + "…"
}
