package main

// Parameter classes outside the plain documented domain: limit=0, negative / non-numeric /
// oversized limits, odd maxwaitsec values; stat batches with a repeated ref, a numbering gap,
// no camliversion, a malformed ref among valid ones, no ref at all.
//
// Oracle: the request is either refused with a 4xx (where the documents call the value
// invalid or are silent about it) or answered like the reference map says — never a 5xx, a
// body that is not the documented JSON, a panic in the handler, a page that skips an uploaded
// blob, or a stat entry for something that is not there / with the wrong size.

import (
	"fmt"
	"net/url"
	"strconv"
	"time"
)

var weirdPageClasses = []string{
	"limit-0", "limit-neg", "limit-abc", "limit-float", "limit-huge",
	"mws-neg", "mws-31", "mws-x", "mws-nonzero-after",
}

var weirdStatClasses = []string{
	"dup-refs", "gap", "no-camliversion", "malformed-ref", "zero-refs", "mws-neg", "mws-31", "mws-x",
}

func (h *hist) rawPageWeird(class string) {
	var q enumReq
	opt := pageOpt{allow4xx: true}
	limit := 0
	switch class {
	case "limit-0":
		q.Limit = "0"
		opt.zeroLimit = true
	case "limit-neg":
		q.Limit = []string{"-1", "-100", "-2147483649"}[h.rng.Intn(3)]
	case "limit-abc":
		q.Limit = []string{"abc", "1e2", "0x10", " 5", "١٢"}[h.rng.Intn(5)]
	case "limit-float":
		q.Limit = []string{"1.5", "2.0", ".5"}[h.rng.Intn(3)]
	case "limit-huge":
		q.Limit = []string{"4294967296", "4294967297", "18446744073709551616", "99999999999999999999999"}[h.rng.Intn(4)]
	case "mws-neg":
		q.MaxWait = []string{"-1", "-30"}[h.rng.Intn(2)]
	case "mws-31":
		// a value above the server's cap is legal ("the server may cap 'maxwaitsec'"): a correct page, at once (the store is not empty)
		q.MaxWait = []string{"31", "3600", "30"}[h.rng.Intn(3)]
		opt.allow4xx = false
	case "mws-x":
		q.MaxWait = []string{"x", "1.5", "1s"}[h.rng.Intn(3)]
	case "mws-nonzero-after":
		// "It is an error to send this option with a non-zero value along with the 'after' option."
		q.MaxWait = []string{"31", "-1", "2", "30"}[h.rng.Intn(4)]
		a := h.cursor()
		if a == "" {
			a = "sha224-"
		}
		q.After = &a
		opt.allow4xx = false // onePage demands the documented error itself
	}
	if q.After == nil && h.rng.Intn(3) > 0 && q.MaxWait == "" {
		a := h.cursor()
		q.After = &a
	}
	if q.Limit == "" && h.rng.Intn(2) == 0 {
		limit = []int{1, 2, 100}[h.rng.Intn(3)]
		q.Limit = strconv.Itoa(limit)
	}
	h.begin("enumerate", "raw", "weird."+class, q.String())
	h.note("enum_param_classes", class)
	h.onePageOpt(q, limit, opt)
}

func (h *hist) rawStatWeird(class string) {
	pres := h.presentList()
	h.rng.Shuffle(len(pres), func(i, j int) { pres[i], pres[j] = pres[j], pres[i] })
	if len(pres) > 6 {
		pres = pres[:2+h.rng.Intn(5)]
	}
	if len(pres) == 0 {
		return
	}
	absent := h.absentRef()
	never := h.never[h.rng.Intn(len(h.never))].Ref.String()
	form := url.Values{}
	form.Set("camliversion", "1")
	// allowed: how often a ref may be listed at most; must: present refs a 200 answer has to list
	allowed := map[string]int{}
	var must []string
	n := 0
	add := func(ref string, decided bool) {
		n++
		form.Set(fmt.Sprintf("blob%d", n), ref)
		allowed[ref]++
		if decided && h.known(ref) {
			must = append(must, ref)
		}
	}
	allow4xx := false
	switch class {
	case "dup-refs":
		// a ref asked for twice (blob-stat.md does not forbid it): listed once or twice, never more
		add(pres[0], true)
		add(absent, true)
		for _, r := range pres[1:] {
			add(r, true)
		}
		add(pres[0], true)
		add(absent, true)
		if h.rng.Intn(2) == 0 {
			add(pres[len(pres)-1], true)
		}
	case "gap":
		// "Must start at 1 and go up, no gaps allowed": the refs before the gap are decided, the ones after it are not
		for _, r := range pres {
			add(r, true)
		}
		n++ // the gap
		add(never, false)
		if len(pres) > 1 {
			// a present ref after the gap: may or may not be looked at
			extra := h.presentList()[0]
			n++
			form.Set(fmt.Sprintf("blob%d", n), extra)
			allowed[extra]++
		}
		allow4xx = true
	case "no-camliversion":
		form.Del("camliversion")
		for _, r := range pres {
			add(r, true)
		}
		allow4xx = true // "camliversion required"
	case "malformed-ref":
		bad := []string{"sha224-xyz", "sha1-", "foo", "sha224-" + pres[0][len(pres[0])-10:], "md5", "sha224-ABCDEF"}[h.rng.Intn(6)]
		pos := h.rng.Intn(len(pres) + 1)
		for i, r := range pres {
			if i == pos {
				n++
				form.Set(fmt.Sprintf("blob%d", n), bad)
			}
			add(r, i < pos) // the refs after the malformed one are undecided
		}
		if pos == len(pres) {
			n++
			form.Set(fmt.Sprintf("blob%d", n), bad)
		}
		allow4xx = true
	case "zero-refs":
		allow4xx = true
	case "mws-neg", "mws-31", "mws-x":
		// every ref present: the answer is immediate whatever the server makes of the value
		for _, r := range pres {
			add(r, true)
		}
		switch class {
		case "mws-neg":
			form.Set("maxwaitsec", "-1")
			allow4xx = true
		case "mws-31":
			form.Set("maxwaitsec", []string{"31", "3600"}[h.rng.Intn(2)]) // "the server may cap 'maxwaitsec'"
		default:
			form.Set("maxwaitsec", []string{"x", "1.5"}[h.rng.Intn(2)])
			allow4xx = true
		}
	}
	method := "POST"
	if h.rng.Intn(3) == 0 {
		method = "GET"
	}
	h.begin("stat", "raw", "weird."+class, fmt.Sprintf("%s, %d blobN keys, %d decided present refs", method, len(allowed), len(must)))
	h.note("stat_param_classes", class)
	var r *rawResp
	var err error
	if method == "GET" {
		r, err = h.raw.do("GET", h.raw.blobRoot+"/camli/stat?"+form.Encode(), nil, nil)
	} else {
		r, err = h.raw.do("POST", h.raw.blobRoot+"/camli/stat", map[string]string{"Content-Type": "application/x-www-form-urlencoded"}, []byte(form.Encode()))
	}
	h.eval(1)
	if err != nil {
		h.reqErr("stat", err)
		return
	}
	switch {
	case r.Status >= 400 && r.Status <= 499 && allow4xx:
		h.note("invalid_param_answers", "4xx")
		return
	case r.Status != 200:
		h.bad("stat/status", "stat (%s): status %d %s", class, r.Status, clip(string(r.Body), 200))
		return
	}
	s, err := parseStat(r.Body)
	if err != nil || (!s.hasStat && len(must) > 0) {
		h.bad("stat/bad-json", "stat (%s) response not the documented JSON (%v): %s", class, err, clip(string(r.Body), 200))
		return
	}
	seen := map[string]int{}
	for _, sb := range s.Stat {
		seen[sb.BlobRef]++
		switch {
		case allowed[sb.BlobRef] == 0:
			h.bad("stat/unasked", "answer lists %s which was not asked for", sb.BlobRef)
		case seen[sb.BlobRef] > allowed[sb.BlobRef]:
			if seen[sb.BlobRef] == allowed[sb.BlobRef]+1 {
				h.bad("stat/dup", "%s asked for %d time(s) is reported %d times", sb.BlobRef, allowed[sb.BlobRef], seen[sb.BlobRef])
			}
		case h.known(sb.BlobRef):
			if sb.Size == nil || *sb.Size != h.present[sb.BlobRef] {
				h.bad("stat/size", "%s reported with size %s, true size %d", sb.BlobRef, fmtSize(sb.Size), h.present[sb.BlobRef])
			}
		case h.maybe[sb.BlobRef]:
		default:
			h.bad("stat/absent-listed", "%s reported present but it was never uploaded", sb.BlobRef)
		}
	}
	for _, ref := range must {
		if seen[ref] == 0 {
			h.bad("stat/missing-uploaded", "stat (%s): uploaded blob %s is not in the answer (%d entries)", class, ref, len(s.Stat))
			break
		}
	}
	h.eval(len(allowed))
}

// rawStatWake: a long-poll stat is in flight for a blob that is uploaded meanwhile.
//
// The stat overlaps the upload, so the reference map allows both answers (with the new blob
// or — the server's wait ended first — without it); what it lists must be right: asked-for
// refs only, each once, with the true size.  Whether the waiting request was woken by the
// upload is recorded as evidence only.  The plain stat that follows the acknowledged upload
// must report the blob (read-your-writes).
func (h *hist) rawStatWake() {
	p, ok := h.pickPresent()
	if !ok {
		return
	}
	x := h.freshBlob()
	xr := x.Ref.String()
	refs := []string{p, xr}
	if h.rng.Intn(2) == 0 {
		refs[0], refs[1] = refs[1], refs[0]
	}
	h.begin("stat", "raw", "POST.wake", fmt.Sprintf("maxwaitsec=4 for present %s and %s, which is uploaded while the request waits", p, x))
	type res struct {
		r   *rawResp
		err error
	}
	done := make(chan res, 1)
	side := newRawClient(h.raw.base) // the raw client's request counter is not shared between goroutines
	side.blobRoot = h.raw.blobRoot
	go func() {
		r, err := side.statPOST(refs, "4")
		done <- res{r, err}
	}()
	time.Sleep(50 * time.Millisecond) // lets the request reach its wait; no verdict depends on it
	waiting := h.curReq
	h.rawPut(x)
	acked := h.known(xr)
	a := <-done
	h.raw.nreq += side.nreq
	h.curReq = waiting
	h.eval(1)
	if a.err != nil {
		h.reqErr("stat", a.err)
		return
	}
	if a.r.Status != 200 {
		h.bad("stat/status", "long-poll stat overlapping an upload: status %d %s", a.r.Status, clip(string(a.r.Body), 200))
		return
	}
	s, err := parseStat(a.r.Body)
	if err != nil || !s.hasStat {
		h.bad("stat/bad-json", "stat response not the documented JSON (%v): %s", err, clip(string(a.r.Body), 200))
		return
	}
	listed := false
	for _, sb := range s.Stat {
		listed = listed || sb.BlobRef == xr
	}
	if listed {
		h.note("longpoll_wake", "listed")
		h.checkStat("stat", refs, s.Stat)
	} else {
		h.note("longpoll_wake", "not-listed")
		h.checkStat("stat", []string{p}, s.Stat)
	}
	if !acked {
		return
	}
	h.begin("stat", "raw", "POST.after-wake", fmt.Sprintf("%d refs", len(refs)))
	if r, err := h.raw.statPOST(refs, ""); err != nil {
		h.reqErr("stat", err)
	} else if r.Status != 200 {
		h.bad("stat/status", "stat after upload: status %d", r.Status)
	} else if s, err := parseStat(r.Body); err != nil || !s.hasStat {
		h.bad("stat/bad-json", "stat after upload: %v", err)
	} else {
		h.checkStat("upload/acked-then-stat", refs, s.Stat)
	}
}
