package main

// Huge histories: a store that holds more blobs than the largest page the SERVER is willing to
// send (handlers.defaultMaxEnumerate = 10000, or the storage's own MaxEnumerate()).
//
// blob-enumerate.md lets a client ask for any limit; the server may answer with a shorter page
// as long as continueAfter says that more follows.  In the ordinary and the bulk histories a
// request with a limit above the server's maximum never meets a store that large, so the page
// it gets is complete and "the server cut the page, did it say so?" is never observed.  A huge
// history loads the store through 40-part multiparts to exactly 10000 tiny blobs (listed with the
// limits 1000 and 10000: a full page, then an empty one) and then to a seeded size in
// 10001..10400, where it is listed completely through raw continuation chains whose limit is
// 1000, exactly the maximum, one more, twice as much, 100000, the largest 32-bit value and a
// seeded value above the maximum, through pkg/client (limits 10001 and 100000,
// SimpleEnumerateBlobs) and at the /bs/ and /index/ roots.
//
// Oracle: the reference map (onePage / rawChain / classify).  The number 10000 only decides at
// which store sizes the workload stops to look: no verdict depends on it.

import (
	"fmt"
	"strconv"

	"perkeep.org/pkg/client"
)

const hugeStop = serverMaxEnumerate

var hugeChainLimits = []string{"1000", "10000", "10001", "20000", "100000", "4294967295", "over-max"}

// hugeClasses are the request classes a complete huge history shows.
func hugeClasses() []string {
	out := []string{
		"upload.raw.multipart.40", "enumerate.raw.chain.absent", "enumerate.raw.page.over-max-after",
		"enumerate.pkg/client.EnumerateBlobs.huge-100000", "enumerate.pkg/client.EnumerateBlobs.huge-10001",
		"enumerate.pkg/client.EnumerateBlobsOpts.huge-limit", "enumerate.pkg/client.SimpleEnumerateBlobs",
		"stat.raw.POST.audit", "get.raw.GET.present", "get.raw.HEAD.present", "get.raw.GET.absent",
	}
	for _, c := range hugeChainLimits {
		out = append(out, "enumerate.raw.chain."+c)
	}
	return out
}

// hugeEvents are the observations a complete huge history makes on an unchanged server.
var hugeEvents = []string{
	"store-of-exactly-10000", "store-over-server-max", "server-capped-page",
	"over-max-limit-chain-multi-page", "max-page-then-empty-page",
}

func (h *hist) runHuge() {
	for _, s := range []step{{"raw-put", "-"}, {"raw-multipart", "5"}, {"client-upload", "stat-first"}} {
		h.step(s)
	}
	h.checkServerLog()

	// ---- exactly as many blobs as the server's largest page: a full page, then an empty one
	if h.bulkLoadTo(hugeStop) {
		h.note("events", "store-of-exactly-10000")
	}
	// (limits up to the maximum only: with a larger one the doc lets the server cut the page at its
	// own limit and set continueAfter although nothing follows, "if numBlobs % limit == 0", and the
	// client cannot tell that limit from outside; limits above the maximum meet the larger store below)
	for _, c := range []string{"10000", "1000"} {
		h.hugeChain(c)
	}
	if h.nviol > 25 {
		h.aborted = true
		return
	}

	// ---- more blobs than the server's largest page: the page is cut by the server, not by the limit
	h.bulkLoadTo(hugeStop + 1 + h.rng.Intn(400))
	if len(h.present) > hugeStop {
		h.note("events", "store-over-server-max")
	}
	for _, c := range hugeChainLimits {
		h.hugeChain(c)
	}
	h.hugeChain("absent")
	if h.nviol > 25 {
		h.aborted = true
		return
	}
	// one page with a limit above the maximum from a low cursor: more than the maximum follows it
	low := h.lowCursor()
	q := enumReq{After: &low, Limit: strconv.Itoa(hugeStop + 1 + h.rng.Intn(hugeStop))}
	lim, _ := strconv.Atoi(q.Limit)
	h.begin("enumerate", "raw", "page.over-max-after", q.String())
	h.onePage(q, lim)
	h.checkServerLog()

	// ---- pkg/client (its own page size is 1000: 11 requests per listing)
	h.bulkClientEnum("huge-100000", "", 100000)
	h.bulkClientEnum("huge-10001", "", hugeStop+1)
	h.bulkClientOpts("huge-limit", client.EnumerateOpts{Limit: 2 * hugeStop})
	h.clientEnumSimple()
	h.checkServerLog()
}

// hugeChain is rawChain plus the evidence of what the chain met.
func (h *hist) hugeChain(class string) {
	n := len(h.present)
	before := h.nbad
	pages := h.rawChain(class)
	h.checkServerLog()
	if h.nbad > before {
		return
	}
	lim := 0
	switch class {
	case "absent":
	case "over-max":
		lim = hugeStop + 1
	default:
		lim, _ = strconv.Atoi(class)
	}
	if lim > hugeStop && n > hugeStop && pages > 1 {
		h.note("events", "over-max-limit-chain-multi-page")
		h.note("huge_over_max_limits", class)
	}
	if lim >= hugeStop && n == hugeStop && pages == 2 {
		h.note("events", "max-page-then-empty-page")
	}
	h.note("huge_chain", fmt.Sprintf("limit=%s pages=%d", class, pages))
}

// auditHuge is audit() for a store of more than 10000 blobs.
func (h *hist) auditHuge() {
	if h.nviol > 25 {
		return
	}
	refs := h.presentList()
	h.statAllAudit()
	for i, r := range refs {
		if i%8 != 0 && h.present[r] <= 24 {
			continue // every eighth tiny blob; every other blob
		}
		h.rawGetRef("GET", r, true)
		if i%64 == 0 {
			h.rawGetRef("HEAD", r, true)
		}
		if h.nviol > 25 {
			h.aborted = true
			return
		}
	}
	for _, b := range h.never {
		h.rawGetRef("GET", b.Ref.String(), false)
	}
	h.checkServerLog()
	h.auditRoots([]string{"20000", "1000"})
}
