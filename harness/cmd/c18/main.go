// C18 — the HTTP blob protocol gives clients the same map semantics end to end.
//
// For every offline-constructible high-level configuration (storage × index) a child
// process builds the handlers exactly as perkeepd does (serverinit.Load of the high-level
// JSON + InstallHandlers), serves them on a loopback listener and runs one seeded history
// of protocol requests through pkg/client and through raw net/http.  Every answer is
// compared with a reference map over what this client uploaded plus what the server put
// into the store itself.  One child per (configuration, history): pkg/auth's mode is
// process-global, and a crash inside perkeep must end one case, not the monitor.
package main

import (
	"fmt"
	"io"
	"log"
	"os"
	"path/filepath"
	"sort"
	"strings"
	"sync"
	"time"

	"verif.local/harness/ev"
)

func main() {
	if os.Getenv("VERIF_CHILD") == "c18" {
		childMain()
		return
	}
	ev.Main("C18", "exploration",
		"one in-process perkeepd (serverinit.Load of a high-level config + InstallHandlers, real TCP listener) per configuration {memory,localdisk,diskpacked,blobpacked}x{memory,leveldb,kv,sqlite} and history; a history = every (request kind, parameter class) pair once plus seeded random picks up to the tier's request count, over <=45 blobs (0 B .. 64 KiB, one 1 MiB, a real chunked file; sha224/sha1/sha256 refs; blobpacked configurations: every history ends with two files whose parts name the same chunk more than once with other chunks after the repeat - a hand-written schema A A B / A B A C / Z..Z D Z E / A B A B C and a file cut by the real chunker from random bytes with long zero runs -, chunks first, then the schema blob, a new zip observed on disk, then every blob of the file fetched byte for byte by GET, HEAD, Range and client.Fetch), issued through pkg/client (Upload, ReceiveBlob, StatBlobs, Fetch, EnumerateBlobs[Opts]) and raw net/http (PUT, multipart 1..40 parts, stat GET/POST with 1..1001 refs, GET/HEAD with single Range forms, enumerate with limit/after/maxwaitsec, continuation chains), each answer compared with a reference map, then a full audit; plus one boundary-size history per configuration: blobs of MaxBlobSize-1, MaxBlobSize and MaxBlobSize+1 bytes (16 MiB, streamed) through PUT with Content-Length, chunked PUT, multipart with small parts before and after the big one, client.Upload and client.ReceiveBlob, legal sizes acknowledged/stat-able/fetched byte for byte/enumerated once, the over-limit size refused and invisible afterwards; plus one huge history (quick: memory storage; thorough: every storage, each under another index): the store is loaded to exactly 10000 (the server's largest page) and then to 10001..10400 tiny blobs and listed completely through raw chains with limit 1000, 10000, 10001, 20000, 100000, 4294967295, a seeded limit above the maximum and no limit, one page from a low cursor with a limit above the maximum, pkg/client with limits 10001/20000/100000, and at the /bs/ and /index/ roots; plus one bulk history per configuration: the store is loaded through 40-part multiparts to exactly 100, exactly 1000 and then >= 1100 tiny blobs and at each size listed completely through raw chains (no limit, 100, 1000, over-max, maxwaitsec=1 first), client.EnumerateBlobs (limits 1000, 1001.., 100000, After set), client.EnumerateBlobsOpts (MaxWait 1s/2.5s/with Limit, After, After+Limit, After+MaxWait), client.SimpleEnumerateBlobs, stat batches of 1000 present refs; every history also sends the out-of-domain parameter classes (limit 0/negative/non-numeric/huge, odd maxwaitsec, stat with repeated refs, a numbering gap, no camliversion, a malformed ref, no ref), one long-poll stat overlapping the upload it waits for, and repeats the complete enumerations and the stat of everything at the /bs/ root and (once a stat there reports every blob) at the /index/ root; distinct = (configuration, hash of the request log); a history counts only if it issued every mandatory class",
		run)
}

func tierConfigs(r *ev.Run) []config {
	var out []config
	if r.Thorough() {
		for _, s := range storages {
			for _, i := range indexes {
				out = append(out, config{s, i})
			}
		}
		return out
	}
	// quick: every storage and every index kind once; the pairing rotates with the seed
	rot := int(r.Seed%4+4) % 4
	for k, s := range storages {
		out = append(out, config{s, indexes[(k+rot)%4]})
	}
	return out
}

type job struct {
	cfg      config
	hn       int
	id       string
	nreq     int
	boundary bool // the boundary-size history of the configuration (boundary.go)
	bulk     bool // the >= 1100-blob history of the configuration (bulk.go)
	huge     bool // the > 10000-blob history of the configuration (huge.go)
}

// hugeConfigs: the configurations that get a huge history.  Quick: the memory storage (under the
// index the seed's rotation pairs it with); thorough: every storage, each under another index.
func hugeConfigs(r *ev.Run) []config {
	rot := int(r.Seed%4+4) % 4
	var out []config
	for k, s := range storages {
		if k > 0 && !r.Thorough() {
			break
		}
		out = append(out, config{s, indexes[(k+rot)%4]})
	}
	return out
}

func run(r *ev.Run) {
	log.SetOutput(io.Discard)
	r.Assume("reference model = Go map from blobref text to bytes over the blobs this client uploaded plus the blobs found by a credentialed enumeration right after server start (the server's public key), written from the property statement and doc/protocol/blob-{upload,stat,get,enumerate}.md")
	r.Assume("Range semantics are those of RFC 7233 for a single byte range (blob-get.md is silent about Range); a 200 answer with the whole blob is accepted as 'Range ignored'")
	r.Assume("a stat batch of 1001 refs may be rejected with 4xx (blob-stat.md: 'servers may return a 400 ... all servers should support <= 1000') or answered correctly")
	r.Assume("maxwaitsec>0 together with a non-empty 'after' is a documented client error: only a 4xx is expected, nothing else is decided")
	r.Assume("an upload that failed leaves its blob uncertain (may or may not be stored) for the rest of the history")
	r.Assume("no wall clock in verdicts: long-poll requests are only issued where the documented behaviour is an immediate answer (non-empty store / all refs present), plus one stat with an absent ref that may wait its 1 s")
	r.Assume("histories are sequential (one client, one request at a time); concurrency is C14's subject")

	root := ev.Scratch("c18")
	defer os.RemoveAll(root)

	cfgs := tierConfigs(r)
	nh := r.Pick(6, 24)
	nreq := r.Pick(180, 330)
	r.Assume("blob-upload.md: 'A single blob can be at most 16 MB' = constants.MaxBlobSize (16 MiB), the limit blobserver.Receive applies to direct storage access: a blob of exactly that size is legal on every upload path, one byte more is refused (any non-2xx answer, a closed connection, or an error of the client library) and must leave no trace; of a multipart request with an over-limit part only the parts before it are decided")
	var jobs []job
	// the huge and the boundary-size histories first: they are the longest
	r.Assume("the server's largest enumerate page (10000 blobs) only decides at which store sizes a huge history stops to enumerate; no verdict depends on it: whatever the limit, a page may be shorter than asked for as long as continueAfter says that more follows")
	hugeCfgs := hugeConfigs(r)
	for _, c := range hugeCfgs {
		id := fmt.Sprintf("%s#huge;", c)
		if r.Only(id) {
			jobs = append(jobs, job{cfg: c, id: id, huge: true})
		}
	}
	for _, c := range cfgs {
		id := fmt.Sprintf("%s#boundary;", c)
		if r.Only(id) {
			jobs = append(jobs, job{cfg: c, id: id, boundary: true})
		}
	}
	r.Assume("the page sizes 100 (server, request without limit) and 1000 (pkg/client) only decide at which store sizes a bulk history stops to enumerate; no verdict depends on them: a page may be shorter than the limit as long as continueAfter says so (blob-enumerate.md)")
	for _, c := range cfgs {
		id := fmt.Sprintf("%s#bulk;", c)
		if r.Only(id) {
			jobs = append(jobs, job{cfg: c, id: id, bulk: true})
		}
	}
	for _, c := range cfgs {
		for hn := 0; hn < nh; hn++ {
			id := fmt.Sprintf("%s#h%d;", c, hn)
			if !r.Only(id) {
				continue
			}
			jobs = append(jobs, job{cfg: c, hn: hn, id: id, nreq: nreq})
		}
	}
	sem := make(chan struct{}, 14)
	bigSem := make(chan struct{}, 3)
	var wg sync.WaitGroup
	for _, j := range jobs {
		wg.Add(1)
		sem <- struct{}{}
		go func(j job) {
			defer wg.Done()
			defer func() { <-sem }()
			if j.boundary {
				// each holds ~10 blobs of 16 MiB in its store (in RAM for memory storage)
				bigSem <- struct{}{}
				defer func() { <-bigSem }()
			}
			runJob(r, root, j)
		}(j)
	}
	wg.Wait()

	var names []string
	for _, c := range cfgs {
		names = append(names, c.String())
	}
	if os.Getenv("VERIF_ONLY") == "" {
		r.Require("configs", names...)
		r.Require("complete_configs", names...)
		r.Require("storage_kinds", storages...)
		r.Require("index_kinds", indexes...)
		r.Require("events", "continuation-paging", "file-uploaded", "zip-packed",
			"part-after-max-part-received", "part-after-max-1-part-received")
		r.Require("boundary_configs", names...)
		r.Require("boundary_cases", boundaryCases()...)
		var forms []string
		for _, c := range boundaryCases() {
			if p, s, _ := strings.Cut(c, "/"); p != "Upload" && p != "ReceiveBlob" {
				forms = append(forms, p+"."+s)
			}
		}
		r.Require("upload_forms", forms...)
		r.Require("bulk_configs", names...)
		r.Require("events", bulkEvents...)
		var hugeNames []string
		for _, c := range hugeCfgs {
			hugeNames = append(hugeNames, c.String())
		}
		r.Require("huge_configs", hugeNames...)
		r.Require("events", hugeEvents...)
		r.Require("huge_over_max_limits", "10001", "20000", "100000", "4294967295", "over-max")
		r.Require("events", repeatEvents...)
		r.Require("repeat_files", "zero-run: packed", "AAB: packed", "ABAC: packed", "run: packed", "ABABC: packed")
		r.Require("events", "bs-root-audited", "index-root-audited")
		r.Require("index_root_kinds", indexes...)
	}
	if only := os.Getenv("VERIF_ONLY"); !strings.Contains(only, "#boundary;") && !strings.Contains(only, "#bulk;") && !strings.Contains(only, "#huge;") { // (a replay of one boundary history issues its own classes only)
		r.Require("endpoints", "upload", "stat", "get", "enumerate")
		r.Require("client_kinds", "pkg/client", "raw")
		r.Require("client_funcs", "Upload", "ReceiveBlob", "StatBlobs", "Fetch", "EnumerateBlobs", "EnumerateBlobsOpts", "SimpleEnumerateBlobs")
		r.Require("upload_forms", "PUT", "multipart.1", "multipart.2", "multipart.5", "multipart.17", "multipart.40")
		r.Require("range_classes", "first-last", "single-byte", "open-ended", "suffix", "suffix-larger", "clamp-end", "whole", "unsatisfiable", "HEAD")
		r.Require("stat_batch", "GET.1", "GET.37", "POST.1", "POST.37", "POST.999", "POST.1000", "POST.1001")
		r.Require("enum_limit", "absent", "1", "2", "100", "over-max")
		r.Require("maxwaitsec", "absent", "0", "1", "client-1")
		r.Require("longpoll_wake", "listed")
		r.Require("enum_param_classes", weirdPageClasses...)
		r.Require("stat_param_classes", weirdStatClasses...)
	}
	r.Extra("configurations", names)
	r.Extra("histories_per_configuration", nh)
	r.Extra("planned_requests_per_history", nreq)
}

func runJob(r *ev.Run, root string, j job) {
	dir, err := os.MkdirTemp(root, "case")
	if err != nil {
		r.Inconclusive("mkdir: " + err.Error())
		return
	}
	defer os.RemoveAll(dir)
	env := []string{
		"VERIF_CHILD=c18",
		"C18_CFG=" + j.cfg.String(),
		fmt.Sprintf("C18_HIST=%d", j.hn),
		fmt.Sprintf("C18_NREQ=%d", j.nreq),
		"C18_KIND=" + jobKind(j),
		"C18_DIR=" + dir,
		"C18_CASE=" + j.id,
		fmt.Sprintf("VERIF_SEED=%d", r.Seed),
		"TMPDIR=" + filepath.Join(dir, "tmp"),
	}
	os.MkdirAll(filepath.Join(dir, "tmp"), 0o700)
	start := time.Now()
	out, code, timedOut := ev.Child(env, 8*time.Minute)
	evs, rest := parseEvents(out)
	done, aborted, violated := false, false, false
	distinctKey := ""
	classes := map[string]int{}
	for _, e := range evs {
		switch e.T {
		case "viol":
			violated = true
			r.Violation(e.Sig, e.What, e.Value)
		case "note":
			n := e.N
			if n < 1 {
				n = 1
			}
			for i := 0; i < n && i < 3; i++ {
				r.Note(e.Set, e.Item)
			}
		case "class":
			classes[e.Item] += e.N
		case "count":
			r.Count(e.Item, e.N)
		case "eval":
			r.Eval(e.N)
		case "distinct":
			distinctKey = e.Item
		case "sample":
			if j.hn == 0 {
				r.Sample(e.Value)
			}
		case "peak":
			r.Extra("boundary_child_peak_rss_mib."+j.cfg.Storage, e.N)
		case "inconcl":
			r.Inconclusive(e.What)
		case "aborted":
			aborted = true
		case "done":
			done = true
		}
	}
	witness := map[string]any{"case_id": j.id, "config": j.cfg.String(), "history": j.hn}
	switch {
	case timedOut:
		r.Inconclusive(fmt.Sprintf("%s: child did not finish within the watchdog; perkeep frames: %s", j.id, ev.PerkeepFrames(rest)))
		return
	case !done || code != 0:
		frames := ev.PerkeepFrames(rest)
		if frames != "" && (strings.Contains(rest, "panic:") || strings.Contains(rest, "fatal error:") || strings.Contains(rest, "[signal ")) {
			witness["dump"] = tail(rest, 60)
			r.Violation("process-died/"+j.cfg.Storage, fmt.Sprintf("[%s] the server process died (exit %d) inside perkeep:\n%s", j.cfg, code, frames), witness)
		} else {
			r.Inconclusive(fmt.Sprintf("%s: child ended with code %d without finishing: %s", j.id, code, tail(rest, 12)))
		}
		return
	}
	// coverage of this history
	total := 0
	seen := map[string]bool{}
	for c, n := range classes {
		total += n
		r.Count("req."+c, n)
		f := strings.SplitN(c, ".", 3)
		if len(f) < 3 {
			continue
		}
		endpoint, kind, rest := f[0], f[1], f[2]
		r.Count("cfg."+j.cfg.String()+"."+endpoint, n)
		r.Note("endpoints", endpoint)
		r.Note("client_kinds", kind)
		if kind == "pkg/client" {
			r.Note("client_funcs", strings.SplitN(rest, ".", 2)[0])
		}
		switch {
		case endpoint == "upload" && kind == "raw":
			r.Note("upload_forms", rest)
		case strings.HasPrefix(rest, "GET.range."):
			r.Note("range_classes", strings.TrimPrefix(rest, "GET.range."))
		case strings.HasPrefix(rest, "HEAD.range."):
			r.Note("range_classes", "HEAD")
		case endpoint == "stat" && kind == "raw":
			r.Note("stat_batch", rest)
		}
		seen[c] = true
	}
	r.Count("requests", total)
	if j.boundary {
		r.Count("boundary_histories", 1)
		var missing []string
		for _, c := range boundaryClasses() {
			if !seen[c] {
				missing = append(missing, c)
			}
		}
		if len(missing) == 0 {
			r.Note("boundary_configs", j.cfg.String())
			if distinctKey != "" {
				r.Distinct(distinctKey)
			}
		} else if !aborted && !violated {
			// a refused legal blob (reported) makes the reads of it impossible: not a coverage gap then
			r.Inconclusive(fmt.Sprintf("%s: boundary history did not issue %v", j.id, missing))
		}
		r.Extra("slowest_boundary_history_s", maxb(time.Since(start).Seconds()))
		return
	}
	if j.huge {
		r.Count("huge_histories", 1)
		var missing []string
		for _, c := range hugeClasses() {
			if !seen[c] {
				missing = append(missing, c)
			}
		}
		if len(missing) == 0 {
			r.Note("huge_configs", j.cfg.String())
			if distinctKey != "" {
				r.Distinct(distinctKey)
			}
		} else if !aborted && !violated {
			r.Inconclusive(fmt.Sprintf("%s: huge history did not issue %v", j.id, missing))
		}
		r.Extra("slowest_huge_history_s", maxh(time.Since(start).Seconds()))
		return
	}
	if j.bulk {
		r.Count("bulk_histories", 1)
		var missing []string
		for _, c := range bulkClasses() {
			if !seen[c] {
				missing = append(missing, c)
			}
		}
		if len(missing) == 0 {
			r.Note("bulk_configs", j.cfg.String())
			if distinctKey != "" {
				r.Distinct(distinctKey)
			}
		} else if !aborted {
			r.Inconclusive(fmt.Sprintf("%s: bulk history did not issue %v", j.id, missing))
		}
		r.Extra("slowest_bulk_history_s", maxk(time.Since(start).Seconds()))
		return
	}
	r.Count("histories", 1)
	r.Note("configs", j.cfg.String())
	r.Note("storage_kinds", j.cfg.Storage)
	r.Note("index_kinds", j.cfg.Index)
	if missing := missingClasses(seen); len(missing) == 0 {
		r.Note("complete_configs", j.cfg.String())
		if distinctKey != "" {
			r.Distinct(distinctKey)
		}
	} else if !aborted { // an aborted history has reported > 25 violations already
		r.Inconclusive(fmt.Sprintf("%s: history did not issue %v", j.id, missing))
	}
	r.Extra("slowest_history_s", maxf(r, time.Since(start).Seconds()))
}

var (
	slowMu  sync.Mutex
	slowest float64
)

var slowestB float64

func maxb(v float64) float64 {
	slowMu.Lock()
	defer slowMu.Unlock()
	if v > slowestB {
		slowestB = v
	}
	return float64(int(slowestB*10)) / 10
}

var slowestH float64

func maxh(v float64) float64 {
	slowMu.Lock()
	defer slowMu.Unlock()
	if v > slowestH {
		slowestH = v
	}
	return float64(int(slowestH*10)) / 10
}

var slowestK float64

func maxk(v float64) float64 {
	slowMu.Lock()
	defer slowMu.Unlock()
	if v > slowestK {
		slowestK = v
	}
	return float64(int(slowestK*10)) / 10
}

func jobKind(j job) string {
	switch {
	case j.boundary:
		return "boundary"
	case j.bulk:
		return "bulk"
	case j.huge:
		return "huge"
	}
	return "history"
}

func maxf(_ *ev.Run, v float64) float64 {
	slowMu.Lock()
	defer slowMu.Unlock()
	if v > slowest {
		slowest = v
	}
	return float64(int(slowest*10)) / 10
}

// requiredClasses are the request classes (as logged by hist.begin) every complete history shows.
var requiredClasses = []string{
	"upload.pkg/client.Upload.stat-first", "upload.pkg/client.Upload.skip-stat", "upload.pkg/client.ReceiveBlob",
	"upload.raw.PUT", "upload.raw.multipart.1", "upload.raw.multipart.2", "upload.raw.multipart.5", "upload.raw.multipart.17", "upload.raw.multipart.40",
	"stat.pkg/client.StatBlobs.1", "stat.pkg/client.StatBlobs.7", "stat.pkg/client.StatBlobs.all",
	"stat.raw.GET.1", "stat.raw.GET.37", "stat.raw.POST.1", "stat.raw.POST.37", "stat.raw.POST.999", "stat.raw.POST.1000", "stat.raw.POST.1001",
	"stat.raw.POST.wait0-present", "stat.raw.POST.wait1-present", "stat.raw.POST.wait1-absent", "stat.raw.POST.wake",
	"get.pkg/client.Fetch.present", "get.pkg/client.Fetch.absent",
	"get.raw.GET.present", "get.raw.GET.absent", "get.raw.HEAD.present", "get.raw.HEAD.absent",
	"get.raw.GET.range.first-last", "get.raw.GET.range.single-byte", "get.raw.GET.range.open-ended", "get.raw.GET.range.suffix",
	"get.raw.GET.range.clamp-end", "get.raw.GET.range.suffix-larger", "get.raw.GET.range.whole", "get.raw.GET.range.unsatisfiable",
	"enumerate.pkg/client.EnumerateBlobs.1", "enumerate.pkg/client.EnumerateBlobs.2", "enumerate.pkg/client.EnumerateBlobs.100", "enumerate.pkg/client.EnumerateBlobs.big",
	"enumerate.pkg/client.EnumerateBlobsOpts.maxwait", "enumerate.pkg/client.SimpleEnumerateBlobs",
	"enumerate.raw.page.absent", "enumerate.raw.page.1", "enumerate.raw.page.2", "enumerate.raw.page.100", "enumerate.raw.page.over-max",
	"enumerate.raw.page.mws0", "enumerate.raw.page.mws1", "enumerate.raw.page.mws1-after",
	"enumerate.raw.chain.1", "enumerate.raw.chain.2", "enumerate.raw.chain.100", "enumerate.raw.chain.over-max", "enumerate.raw.chain.absent",
	"enumerate.raw.chain.mws0", "enumerate.raw.chain.mws1",
}

func allRequiredClasses() []string {
	out := append([]string{}, requiredClasses...)
	for _, c := range weirdPageClasses {
		out = append(out, "enumerate.raw.weird."+c)
	}
	for _, c := range weirdStatClasses {
		out = append(out, "stat.raw.weird."+c)
	}
	return out
}

func missingClasses(seen map[string]bool) []string {
	var m []string
	for _, c := range allRequiredClasses() {
		if !seen[c] {
			m = append(m, c)
		}
	}
	sort.Strings(m)
	return m
}

func tail(s string, n int) string {
	ls := strings.Split(strings.TrimRight(s, "\n"), "\n")
	// prefer the head of a crash report
	for i, l := range ls {
		if strings.HasPrefix(l, "panic:") || strings.HasPrefix(l, "fatal error:") {
			end := i + n
			if end > len(ls) {
				end = len(ls)
			}
			return strings.Join(ls[i:end], "\n")
		}
	}
	if len(ls) > n {
		ls = ls[len(ls)-n:]
	}
	return strings.Join(ls, "\n")
}
