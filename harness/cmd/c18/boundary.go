package main

// Boundary-size histories: blobs of MaxBlobSize-1, exactly MaxBlobSize and MaxBlobSize+1
// bytes through every upload path of the protocol.
//
// blob-upload.md: "A single blob can be at most 16 MB" (constants.MaxBlobSize = 16 MiB,
// the limit blobserver.Receive applies to direct storage access).  The reference map
// therefore says: a blob of exactly MaxBlobSize bytes is a legal value (acknowledged,
// stat-able, fetchable byte for byte, enumerated once) on whatever path it arrives; a blob
// of MaxBlobSize+1 bytes is refused and leaves no trace; the parts that follow an accepted
// part of a multipart request are processed like any other.
//
// Memory: one shared pseudo-random base buffer; every big blob is tag(16 B) ++ base[:n-16]
// and is streamed (requests) and compared chunk-wise (answers), so the client side holds
// one 16 MiB buffer however many big blobs exist.  One such history per configuration, in
// its own child; the parent runs at most a few of them at a time.

import (
	"bytes"
	"errors"
	"fmt"
	"io"
	"net/http"
	"os"
	"strings"

	"perkeep.org/pkg/blob"
	"perkeep.org/pkg/client"
	"perkeep.org/pkg/constants"

	"verif.local/harness/sto"
)

const maxBlob = int64(constants.MaxBlobSize)

// sizeClasses in the order {legal, legal, illegal}.
var sizeClasses = []struct {
	name string
	n    int64
}{{"max-1", maxBlob - 1}, {"max", maxBlob}, {"max+1", maxBlob + 1}}

// boundaryPaths are the upload paths a boundary history drives.
var boundaryPaths = []string{"PUT", "PUT-chunked", "multipart", "Upload", "ReceiveBlob"}

// boundaryCases lists every (path, size class) the family contains.
func boundaryCases() []string {
	var out []string
	for _, p := range boundaryPaths {
		for _, s := range sizeClasses {
			if p == "PUT-chunked" && s.name == "max-1" {
				continue // one below-the-limit PUT is enough; saves 16 MiB of server store
			}
			out = append(out, p+"/"+s.name)
		}
	}
	return out
}

// boundaryClasses are the request classes (as logged by hist.begin) a complete boundary history shows.
func boundaryClasses() []string {
	var out []string
	for _, c := range boundaryCases() {
		p, s, _ := strings.Cut(c, "/")
		kind := "raw"
		if p == "Upload" || p == "ReceiveBlob" {
			kind = "pkg/client"
		}
		out = append(out, "upload."+kind+"."+p+"."+s)
	}
	return append(out,
		"upload.pkg/client.Upload.max-again",
		"get.raw.GET.max-size", "get.pkg/client.Fetch.max-size", "get.raw.GET.range.max-size-last-byte",
		"stat.raw.POST.over-limit-absent", "get.raw.GET.absent", "get.pkg/client.Fetch.over-limit-absent",
		"enumerate.raw.chain.100", "enumerate.raw.chain.absent", "enumerate.pkg/client.SimpleEnumerateBlobs",
		"stat.pkg/client.StatBlobs.all")
}

// bigBlob is tag ++ base[:n-len(tag)].
type bigBlob struct {
	ref   blob.Ref
	tag   []byte
	n     int64
	class string // size class
	path  string // upload path it was (or is to be) sent on
}

func (bb *bigBlob) String() string { return fmt.Sprintf("%s(%dB=%s)", bb.ref, bb.n, bb.class) }

func (h *hist) bigReader(bb *bigBlob) io.Reader {
	return io.MultiReader(bytes.NewReader(bb.tag), bytes.NewReader(h.bigBase[:bb.n-int64(len(bb.tag))]))
}

// bigBytes materialises the blob (a transient 16 MiB; used where the path under test needs a sized reader).
func (h *hist) bigBytes(bb *bigBlob) []byte {
	b := make([]byte, 0, bb.n)
	b = append(b, bb.tag...)
	return append(b, h.bigBase[:bb.n-int64(len(bb.tag))]...)
}

func (h *hist) newBig(path, class string, n int64) *bigBlob {
	if h.bigBase == nil {
		h.bigBase = make([]byte, maxBlob+1)
		h.rng.Read(h.bigBase)
	}
	h.bigN++
	bb := &bigBlob{tag: []byte(fmt.Sprintf("c18-big-%08d", h.bigN)), n: n, class: class, path: path}
	hh := blob.NewHash()
	io.Copy(hh, h.bigReader(bb))
	bb.ref = blob.RefFromHash(hh)
	return bb
}

// bigCompare reads r to its end and tells how many bytes it carried and whether they are the blob.
func (h *hist) bigCompare(bb *bigBlob, r io.Reader) (n int64, same bool, err error) {
	want := h.bigReader(bb)
	same = true
	buf := make([]byte, 256<<10)
	wb := make([]byte, 256<<10)
	for {
		k, e := io.ReadFull(r, buf)
		if k > 0 {
			if same {
				m, _ := io.ReadFull(want, wb[:k])
				if m != k || !bytes.Equal(buf[:k], wb[:m]) {
					same = false
				}
			}
			n += int64(k)
		}
		if e == io.EOF || e == io.ErrUnexpectedEOF {
			break
		}
		if e != nil {
			return n, false, e
		}
	}
	if n != bb.n {
		same = false
	}
	return n, same, nil
}

// doStream is do with a streamed request body (clen < 0: unknown length, i.e. chunked)
// and, when sink is non-nil, a streamed answer.
func (c *rawClient) doStream(method, u string, hdr map[string]string, body io.Reader, clen int64, sink func(io.Reader) error) (*rawResp, error) {
	req, err := http.NewRequest(method, u, body)
	if err != nil {
		return nil, err
	}
	if body != nil {
		if clen >= 0 {
			req.ContentLength = clen
		} else {
			req.ContentLength = 0 // with a non-nil Body: unknown => Transfer-Encoding: chunked
		}
	}
	req.SetBasicAuth(authUser, authPass)
	for k, v := range hdr {
		req.Header.Set(k, v)
	}
	c.nreq++
	res, err := c.hc.Do(req)
	if err != nil {
		return nil, err
	}
	defer res.Body.Close()
	rr := &rawResp{Status: res.StatusCode, Header: res.Header, ContentLength: res.ContentLength}
	if sink != nil && res.StatusCode/100 == 2 {
		if err := sink(res.Body); err != nil {
			return nil, fmt.Errorf("reading body: %w", err)
		}
		return rr, nil
	}
	b, err := io.ReadAll(io.LimitReader(res.Body, 1<<20))
	if err != nil {
		return nil, fmt.Errorf("reading body: %w", err)
	}
	rr.Body = b
	return rr, nil
}

// ---------------------------------------------------------------- model

func (h *hist) bigAccepted(bb *bigBlob) {
	r := bb.ref.String()
	h.present[r] = bb.n
	h.big[r] = bb
	delete(h.maybe, r)
	h.note("boundary_outcomes", bb.path+"/"+bb.class+"/accepted")
}

func (h *hist) bigMaybe(bb *bigBlob) {
	r := bb.ref.String()
	if !h.known(r) {
		h.maybe[r] = true
		h.big[r] = bb
	}
}

func (h *hist) bigRefused(bb *bigBlob, how string) {
	h.refused = append(h.refused, bb)
	h.note("boundary_outcomes", bb.path+"/"+bb.class+"/refused-"+how)
}

func (h *hist) judged(bb *bigBlob) { h.note("boundary_cases", bb.path+"/"+bb.class) }

// ---------------------------------------------------------------- the history

// runBoundary is the history of a boundary child: a few ordinary uploads, the boundary
// family in seeded order with ordinary requests in between, then reads over the whole map.
func (h *hist) runBoundary() {
	for _, s := range []step{{"raw-put", "-"}, {"raw-multipart", "5"}, {"client-upload", "stat-first"}, {"raw-multipart", "2"}} {
		h.step(s)
	}
	cases := boundaryCases()
	h.rng.Shuffle(len(cases), func(i, j int) { cases[i], cases[j] = cases[j], cases[i] })
	between := []step{
		{"raw-stat-post", "37"}, {"raw-page", "2"}, {"client-fetch", "present"}, {"raw-get", "present"},
		{"raw-head", "present"}, {"client-enum", "2"}, {"raw-put", "-"}, {"raw-multipart", "5"}, {"client-stat", "7"},
	}
	var legalMax *bigBlob
	for i, c := range cases {
		if h.nviol > 25 {
			h.aborted = true
			return
		}
		p, s, _ := strings.Cut(c, "/")
		var n int64
		for _, sc := range sizeClasses {
			if sc.name == s {
				n = sc.n
			}
		}
		bb := h.newBig(p, s, n)
		switch p {
		case "PUT":
			h.bigPut(bb, false)
		case "PUT-chunked":
			h.bigPut(bb, true)
		case "multipart":
			h.bigMultipart(bb)
		case "Upload":
			h.bigClientUpload(bb)
		case "ReceiveBlob":
			h.bigClientReceive(bb)
		}
		if h.known(bb.ref.String()) && bb.n == maxBlob && p != "Upload" {
			legalMax = bb
		}
		h.checkServerLog()
		h.step(between[i%len(between)])
		h.checkServerLog()
	}
	if legalMax != nil {
		h.bigUploadAgain(legalMax)
	}
	for _, s := range []step{{"client-stat", "all"}, {"raw-chain", "100"}, {"raw-chain", "absent"}, {"client-enum", "big"}, {"raw-page", "100"}} {
		h.step(s)
		h.checkServerLog()
	}
}

// afterAccepted: read-your-writes for an acknowledged boundary blob (stat with the true size, HEAD with the true length).
func (h *hist) afterAccepted(bb *bigBlob) {
	ref := bb.ref.String()
	refs := []string{h.absentRef(), ref}
	if p, ok := h.pickPresent(); ok && p != ref {
		refs = append(refs, p)
	}
	h.begin("stat", "raw", "POST.after-max-upload", fmt.Sprintf("%d refs incl. %s", len(refs), bb))
	if r, err := h.raw.statPOST(refs, ""); err != nil {
		h.reqErr("stat", err)
	} else if r.Status != 200 {
		h.bad("stat/status", "stat after upload of %s: status %d", bb, r.Status)
	} else if s, err := parseStat(r.Body); err != nil || !s.hasStat {
		h.bad("stat/bad-json", "stat after upload: %v", err)
	} else {
		h.checkStat("upload/acked-then-stat", refs, s.Stat)
	}
	h.rawGetRef("HEAD", ref, true)
}

// afterRefused: a refused over-limit blob must not be visible.
func (h *hist) afterRefused(bb *bigBlob) {
	ref := bb.ref.String()
	refs := []string{ref}
	if p, ok := h.pickPresent(); ok {
		refs = append(refs, p)
	}
	h.begin("stat", "raw", "POST.over-limit-absent", fmt.Sprintf("%d refs incl. refused %s", len(refs), bb))
	if r, err := h.raw.statPOST(refs, ""); err != nil {
		h.reqErr("stat", err)
	} else if r.Status != 200 {
		h.bad("stat/status", "stat after refused upload of %s: status %d", bb, r.Status)
	} else if s, err := parseStat(r.Body); err != nil || !s.hasStat {
		h.bad("stat/bad-json", "stat after refused upload: %v", err)
	} else {
		h.checkStat("upload/over-limit-then-stat", refs, s.Stat)
	}
	h.rawGetRef("HEAD", ref, false)
}

func (h *hist) bigPut(bb *bigBlob, chunked bool) {
	form := "PUT"
	clen := bb.n
	if chunked {
		form, clen = "PUT-chunked", -1
	}
	h.begin("upload", "raw", form+"."+bb.class, bb.String())
	r, err := h.raw.doStream("PUT", h.raw.blobRoot+"/camli/"+bb.ref.String(),
		map[string]string{"Content-Type": "application/octet-stream"}, h.bigReader(bb), clen, nil)
	h.eval(1)
	legal := bb.n <= maxBlob
	if err != nil {
		if legal {
			h.reqErr("upload", err)
			h.bigMaybe(bb)
			return
		}
		// an over-limit body may be cut off by the server instead of being answered: a refusal
		var to interface{ Timeout() bool }
		if errors.As(err, &to) && to.Timeout() {
			h.reqErr("upload", err)
			h.bigMaybe(bb)
			return
		}
		h.judged(bb)
		h.bigRefused(bb, "connection")
		h.afterRefused(bb)
		return
	}
	h.judged(bb)
	ok := r.Status >= 200 && r.Status <= 299
	switch {
	case legal && !ok:
		h.bad("upload/legal-size-refused/"+strings.ToLower(form), "%s of a legal blob of %d bytes (MaxBlobSize=%d): status %d %s",
			form, bb.n, maxBlob, r.Status, clip(string(r.Body), 200))
		h.bigMaybe(bb)
	case legal:
		h.bigAccepted(bb)
		h.afterAccepted(bb)
	case ok:
		h.bad("upload/over-limit-accepted/"+strings.ToLower(form), "%s of %d bytes (MaxBlobSize=%d): status %d, the blob is over the documented limit",
			form, bb.n, maxBlob, r.Status)
		h.bigMaybe(bb)
	default:
		h.bigRefused(bb, fmt.Sprintf("%dxx", r.Status/100))
		h.afterRefused(bb)
	}
}

type mpItem struct {
	ref   string
	small *sto.Blob
	big   *bigBlob
}

// mpBody assembles a multipart/form-data body as blob-upload.md prescribes, streamed.
func (h *hist) mpBody(items []mpItem) (body io.Reader, clen int64, ctype string) {
	boundary := fmt.Sprintf("c18boundary%016x%016x", h.rng.Uint64(), h.rng.Uint64())
	var rs []io.Reader
	add := func(r io.Reader, n int64) { rs = append(rs, r); clen += n }
	for i, it := range items {
		hd := fmt.Sprintf("--%s\r\nContent-Disposition: form-data; name=\"%s\"; filename=\"blob%d\"\r\nContent-Type: application/octet-stream\r\n\r\n", boundary, it.ref, i+1)
		if i > 0 {
			hd = "\r\n" + hd
		}
		add(strings.NewReader(hd), int64(len(hd)))
		if it.big != nil {
			add(h.bigReader(it.big), it.big.n)
		} else {
			add(bytes.NewReader(it.small.Data), int64(len(it.small.Data)))
		}
	}
	tail := "\r\n--" + boundary + "--\r\n"
	add(strings.NewReader(tail), int64(len(tail)))
	return io.MultiReader(rs...), clen, "multipart/form-data; boundary=" + boundary
}

// bigMultipart sends one multipart request of 3..5 parts with the boundary blob at a
// seeded position that is never the last one: small brand-new blobs precede and follow it.
func (h *hist) bigMultipart(bb *bigBlob) {
	nparts := 3 + h.rng.Intn(3)
	pos := h.rng.Intn(nparts - 1)
	var items []mpItem
	for i := 0; i < nparts; i++ {
		if i == pos {
			items = append(items, mpItem{ref: bb.ref.String(), big: bb})
			continue
		}
		var b sto.Blob
		if i == nparts-1 || h.rng.Intn(3) > 0 {
			b = h.freshBlob()
		} else {
			b = h.pickUpload()
			dup := false
			for _, it := range items {
				dup = dup || it.ref == b.Ref.String()
			}
			if dup {
				b = h.freshBlob()
			}
		}
		items = append(items, mpItem{ref: b.Ref.String(), small: &b})
	}
	legal := bb.n <= maxBlob
	h.begin("upload", "raw", "multipart."+bb.class, fmt.Sprintf("%d parts, part %d = %s", nparts, pos+1, bb))
	body, clen, ctype := h.mpBody(items)
	r, err := h.raw.doStream("POST", h.raw.blobRoot+"/camli/upload", map[string]string{"Content-Type": ctype}, body, clen, nil)
	h.eval(1)
	allMaybe := func() {
		for _, it := range items {
			if it.small != nil {
				h.markMaybe(*it.small)
			}
		}
	}
	if err != nil {
		var to interface{ Timeout() bool }
		if legal || errors.As(err, &to) && to.Timeout() {
			h.reqErr("upload", err)
			h.bigMaybe(bb)
			allMaybe()
			return
		}
		h.judged(bb)
		allMaybe()
		h.bigRefused(bb, "connection")
		h.afterRefused(bb)
		return
	}
	h.judged(bb)
	if r.Status == 303 {
		loc := r.Header.Get("Location")
		r2, err := h.raw.do("GET", loc, nil, nil)
		if err != nil || r2.Status != 200 {
			h.bad("upload/multipart-redirect", "303 to %q not retrievable: %v", loc, err)
			h.bigMaybe(bb)
			allMaybe()
			return
		}
		r = r2
	}
	if r.Status != 200 {
		allMaybe()
		if legal {
			h.bad("upload/multipart-status", "multipart upload of %d valid parts (one of %d bytes): status %d %s", nparts, bb.n, r.Status, clip(string(r.Body), 200))
			h.bigMaybe(bb)
			return
		}
		// the whole request refused because of the over-limit part
		h.bigRefused(bb, fmt.Sprintf("%dxx", r.Status/100))
		h.afterRefused(bb)
		return
	}
	u, err := parseUpload(r.Body)
	if err != nil || !u.hasReceived {
		h.bad("upload/bad-json", "upload response not the documented JSON (%v): %s", err, clip(string(r.Body), 200))
		h.bigMaybe(bb)
		allMaybe()
		return
	}
	size := func(it mpItem) int64 {
		if it.big != nil {
			return it.big.n
		}
		return int64(len(it.small.Data))
	}
	sent := map[string]mpItem{}
	for _, it := range items {
		sent[it.ref] = it
	}
	got := map[string]int{}
	for _, sb := range u.Received {
		got[sb.BlobRef]++
		it, isSent := sent[sb.BlobRef]
		switch {
		case !isSent:
			h.bad("upload/received-extra", "\"received\" lists %s which was not in the request", sb.BlobRef)
		case sb.Size == nil || *sb.Size != size(it):
			h.bad("upload/received-size", "\"received\" lists %s with size %v, sent %d bytes", sb.BlobRef, fmtSize(sb.Size), size(it))
		case got[sb.BlobRef] == 2:
			h.bad("upload/received-dup", "\"received\" lists %s twice", sb.BlobRef)
		}
	}
	h.eval(len(items))
	bigAcked := got[bb.ref.String()] > 0
	switch {
	case legal && !bigAcked:
		h.bad("upload/legal-size-refused/multipart", "multipart upload, part %d of %d is a legal blob of %d bytes (MaxBlobSize=%d): not in \"received\" (%d entries); errorText=%q",
			pos+1, nparts, bb.n, maxBlob, len(u.Received), clip(u.ErrorText, 200))
		h.bigMaybe(bb)
	case legal:
		h.bigAccepted(bb)
	case bigAcked:
		h.bad("upload/over-limit-accepted/multipart", "multipart upload, part %d of %d has %d bytes (MaxBlobSize=%d) and is acknowledged in \"received\"", pos+1, nparts, bb.n, maxBlob)
		h.bigMaybe(bb)
	default:
		h.bigRefused(bb, "not-received")
	}
	for i, it := range items {
		if it.small == nil {
			continue
		}
		if got[it.ref] > 0 {
			h.markUploaded(*it.small)
			if i > pos {
				h.note("events", "part-after-"+bb.class+"-part-received")
			}
			continue
		}
		h.markMaybe(*it.small)
		switch {
		case i < pos:
			// it preceded every problem the request can have had
			h.bad("upload/received-missing", "multipart upload of %d parts: valid part %d (%s, before the %d-byte part) is not in \"received\" (%d entries); errorText=%q",
				nparts, i+1, it.ref, bb.n, len(u.Received), clip(u.ErrorText, 200))
		case legal && bigAcked:
			h.bad("upload/part-after-accepted-dropped", "multipart upload of %d valid parts: part %d (%s) follows the accepted %d-byte part %d but is not in \"received\" (%d entries); errorText=%q",
				nparts, i+1, it.ref, bb.n, pos+1, len(u.Received), clip(u.ErrorText, 200))
		case !legal:
			h.note("events", "part-after-over-limit-part-not-received") // the server stops at the refused part: undecided
		}
	}
	if legal && bigAcked {
		h.afterAccepted(bb)
	}
	if !legal && !bigAcked {
		h.afterRefused(bb)
	}
	// whatever was acknowledged is stat-able right away
	var acked []string
	for _, it := range items {
		if it.small != nil && got[it.ref] > 0 {
			acked = append(acked, it.ref)
		}
	}
	if len(acked) > 0 {
		h.begin("stat", "raw", "POST.after-upload", fmt.Sprintf("%d acknowledged small parts", len(acked)))
		if r, err := h.raw.statPOST(acked, ""); err != nil {
			h.reqErr("stat", err)
		} else if r.Status != 200 {
			h.bad("stat/status", "stat after upload: status %d", r.Status)
		} else if s, err := parseStat(r.Body); err != nil || !s.hasStat {
			h.bad("stat/bad-json", "stat after upload: %v", err)
		} else {
			h.checkStat("upload/acked-then-stat", acked, s.Stat)
		}
	}
}

func (h *hist) bigClientUpload(bb *bigBlob) {
	skipStat := h.rng.Intn(2) == 0
	h.begin("upload", "pkg/client", "Upload."+bb.class, fmt.Sprintf("%s SkipStat=%v, unsized streaming reader", bb, skipStat))
	ctx, cancel := ctx90()
	defer cancel()
	pr, err := h.pk.Upload(ctx, &client.UploadHandle{BlobRef: bb.ref, Contents: h.bigReader(bb), Size: uint32(bb.n), SkipStat: skipStat})
	h.eval(1)
	h.clientOutcome(bb, "Upload", err, ctx.Err() != nil, func() {
		if pr.BlobRef != bb.ref || int64(pr.Size) != bb.n {
			h.bad("client/Upload/result", "Upload(%s) returned %v size %d", bb, pr.BlobRef, pr.Size)
		}
		if pr.Skipped {
			h.bad("client/Upload/skipped-absent", "Upload(%s) was skipped as already present, but the blob was never uploaded", bb)
		}
	})
}

func (h *hist) bigClientReceive(bb *bigBlob) {
	// below the limit: a reader of unknown size (the client slurps it to find the length);
	// at and over the limit: a sized in-memory reader, what pk-put hands over
	var src io.Reader
	how := "unsized reader"
	if bb.n < maxBlob {
		src = h.bigReader(bb)
	} else {
		src = bytes.NewReader(h.bigBytes(bb))
		how = "bytes.Reader"
	}
	h.begin("upload", "pkg/client", "ReceiveBlob."+bb.class, fmt.Sprintf("%s %s", bb, how))
	ctx, cancel := ctx90()
	defer cancel()
	sb, err := h.pk.ReceiveBlob(ctx, bb.ref, src)
	h.eval(1)
	h.clientOutcome(bb, "ReceiveBlob", err, ctx.Err() != nil, func() {
		if sb.Ref != bb.ref || int64(sb.Size) != bb.n {
			h.bad("client/ReceiveBlob/result", "ReceiveBlob(%s) returned %v", bb, sb)
		}
	})
}

// clientOutcome judges the error of a pkg/client upload of a boundary blob.
func (h *hist) clientOutcome(bb *bigBlob, fn string, err error, timedOut bool, checkResult func()) {
	legal := bb.n <= maxBlob
	if err != nil && timedOut {
		h.reqErr("upload", err)
		h.bigMaybe(bb)
		return
	}
	h.judged(bb)
	switch {
	case legal && err != nil:
		h.bad("client/"+fn+"/legal-size-refused", "%s of a legal blob of %d bytes (MaxBlobSize=%d): %v", fn, bb.n, maxBlob, err)
		h.bigMaybe(bb)
	case legal:
		checkResult()
		h.bigAccepted(bb)
		h.afterAccepted(bb)
	case err == nil:
		h.bad("client/"+fn+"/over-limit-accepted", "%s of %d bytes (MaxBlobSize=%d) reported success", fn, bb.n, maxBlob)
		h.bigMaybe(bb)
	default:
		h.bigRefused(bb, "client-error")
		h.afterRefused(bb)
	}
}

// bigUploadAgain: an Upload with a pre-upload stat of a present MaxBlobSize blob is skipped.
func (h *hist) bigUploadAgain(bb *bigBlob) {
	h.begin("upload", "pkg/client", "Upload.max-again", fmt.Sprintf("%s (present, uploaded by %s)", bb, bb.path))
	ctx, cancel := ctx90()
	defer cancel()
	pr, err := h.pk.Upload(ctx, &client.UploadHandle{BlobRef: bb.ref, Contents: h.bigReader(bb), Size: uint32(bb.n)})
	h.eval(1)
	if err != nil {
		if ctx.Err() != nil {
			h.reqErr("upload", err)
		} else {
			h.bad("client/Upload/error", "Upload(%s), already present: %v", bb, err)
		}
		return
	}
	if pr.BlobRef != bb.ref || int64(pr.Size) != bb.n {
		h.bad("client/Upload/result", "Upload(%s) returned %v size %d", bb, pr.BlobRef, pr.Size)
	}
	if !pr.Skipped {
		h.bad("client/Upload/present-not-skipped", "Upload(%s): the pre-upload stat did not report the blob although it was uploaded before", bb)
	}
}

// ---------------------------------------------------------------- reads of big blobs

func (h *hist) bigRawGet(bb *bigBlob) {
	ref := bb.ref.String()
	h.begin("get", "raw", "GET.max-size", bb.String())
	var n int64
	var same bool
	r, err := h.raw.doStream("GET", h.raw.blobRoot+"/camli/"+ref, nil, nil, 0, func(body io.Reader) error {
		var err error
		n, same, err = h.bigCompare(bb, body)
		return err
	})
	h.eval(1)
	if err != nil {
		h.reqErr("get", err)
		return
	}
	switch {
	case r.Status == 404:
		h.bad("get/get-missing-uploaded", "GET %s: 404, but it was uploaded (%d bytes)", ref, bb.n)
	case r.Status != 200:
		h.bad("get/get-status", "GET %s: status %d %s", ref, r.Status, clip(string(r.Body), 200))
	default:
		if r.Header.Get("Content-Length") == "" {
			h.bad("get/get-no-content-length", "GET %s: no explicit Content-Length", ref)
		} else if r.ContentLength != bb.n {
			h.bad("get/get-content-length", "GET %s: Content-Length %d, true size %d", ref, r.ContentLength, bb.n)
		}
		if !same {
			h.bad("get/content", "GET %s returned %d bytes differing from the %d uploaded", ref, n, bb.n)
		}
	}
}

func (h *hist) bigClientFetch(bb *bigBlob) {
	ref := bb.ref.String()
	h.begin("get", "pkg/client", "Fetch.max-size", bb.String())
	ctx, cancel := ctx90()
	defer cancel()
	rc, size, err := h.pk.Fetch(ctx, bb.ref)
	h.eval(1)
	if err != nil {
		if ctx.Err() != nil {
			h.reqErr("get", err)
		} else if errors.Is(err, os.ErrNotExist) {
			h.bad("client/Fetch/missing-uploaded", "Fetch(%s): not found, but it was uploaded", ref)
		} else {
			h.bad("client/Fetch/error", "Fetch(%s): %v", ref, err)
		}
		return
	}
	n, same, rerr := h.bigCompare(bb, rc)
	rc.Close()
	if rerr != nil {
		h.bad("client/Fetch/error", "Fetch(%s): reading: %v", ref, rerr)
		return
	}
	if int64(size) != bb.n {
		h.bad("client/Fetch/size", "Fetch(%s) reports size %d, true size %d", ref, size, bb.n)
	}
	if !same {
		h.bad("client/Fetch/content", "Fetch(%s) returned %d bytes differing from the %d uploaded", ref, n, bb.n)
	}
}

// bigRange asks for the last byte of the blob (offset n-1: the last legal offset of all).
func (h *hist) bigRange(bb *bigBlob) {
	ref := bb.ref.String()
	hdr := fmt.Sprintf("bytes=%d-", bb.n-1)
	h.begin("get", "raw", "GET.range.max-size-last-byte", fmt.Sprintf("%s Range: %s", bb, hdr))
	r, err := h.raw.get("GET", ref, hdr)
	h.eval(1)
	if err != nil {
		h.reqErr("get", err)
		return
	}
	last := h.bigBase[bb.n-int64(len(bb.tag))-1]
	switch r.Status {
	case 206:
		wantCR := fmt.Sprintf("bytes %d-%d/%d", bb.n-1, bb.n-1, bb.n)
		if cr := r.Header.Get("Content-Range"); cr != wantCR {
			h.bad("get/range-content-range", "GET %s Range %q on %d bytes: Content-Range %q, want %q", ref, hdr, bb.n, cr, wantCR)
		}
		if len(r.Body) != 1 || r.Body[0] != last {
			h.bad("get/range-content", "GET %s Range %q on %d bytes: body of %d bytes is not the last byte of the blob", ref, hdr, bb.n, len(r.Body))
		}
	case 200:
		// Range ignored: the whole blob (not compared again here; GET.max-size does)
		h.note("range_status", "200-ignored")
		if int64(len(r.Body)) != bb.n {
			h.bad("get/range-content-length", "GET Range %q answered 200 with %d bytes, true size %d", hdr, len(r.Body), bb.n)
		}
	case 404:
		h.bad("get/get-missing-uploaded", "GET %s with Range: 404, but it was uploaded", ref)
	default:
		h.bad("get/range-status", "GET %s Range %q on %d bytes: status %d", ref, hdr, bb.n, r.Status)
	}
}

// auditBoundary: every accepted boundary blob is fetched through pkg/client and by range;
// every refused one is looked for once more (stat, GET, Fetch).  The complete enumerations
// of audit() judge both kinds already (listed exactly once / not listed).
func (h *hist) auditBoundary() {
	for _, ref := range h.presentList() {
		bb := h.big[ref]
		if bb == nil {
			continue
		}
		h.bigClientFetch(bb)
		h.bigRange(bb)
	}
	for _, bb := range h.refused {
		ref := bb.ref.String()
		if h.known(ref) || h.maybe[ref] {
			continue
		}
		h.afterRefused(bb)
		h.rawGetRef("GET", ref, false)
		h.begin("get", "pkg/client", "Fetch.over-limit-absent", bb.String())
		ctx, cancel := ctx90()
		rc, size, err := h.pk.Fetch(ctx, bb.ref)
		h.eval(1)
		if err == nil {
			rc.Close()
			h.bad("client/Fetch/absent-served", "Fetch of the refused %s succeeded (size %d)", bb, size)
		} else if !errors.Is(err, os.ErrNotExist) && ctx.Err() == nil {
			h.bad("client/Fetch/absent-error", "Fetch of the refused %s: %v (want os.ErrNotExist)", bb, err)
		}
		cancel()
	}
}
