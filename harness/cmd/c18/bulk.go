package main

// Bulk histories: a store that holds more blobs than any page size of the protocol.
//
// The ordinary histories keep 45..120 blobs in the store, so a page is full only when the
// request carries a small explicit limit.  The server's own page size for a request
// without limit, the page size pkg/client asks for (1000) and the documented stat batch
// limit (1000) are therefore never reached there: "a complete sorted enumeration" through
// pkg/client is a single request, and the continuation logic of the client (which
// parameters it repeats on the 2nd, 3rd ... request, where it resumes, when it stops) is
// never exercised.  A bulk history pre-loads the store with >= 1100 tiny blobs through
// 40-part multipart uploads and enumerates / stats it through every interface, stopping
// at the two interesting exact sizes on the way (a store of exactly 100 and of exactly
// 1000 blobs: the last page is full and the page that follows it is empty).
//
// Oracle: the same reference map as everywhere else (classify / onePage / rawChain /
// checkStat).  The numbers 100 and 1000 only decide where the workload stops to look;
// no verdict depends on the server's default page size.

import (
	"context"
	"fmt"
	"strconv"
	"time"

	"perkeep.org/pkg/blob"
	"perkeep.org/pkg/client"

	"verif.local/harness/sto"
)

const (
	bulkSmallStop = 100  // handlers' page size for a request without limit (workload only)
	bulkPageStop  = 1000 // pkg/client's page size; blob-stat.md's batch limit (workload only)
	bulkMin       = 1100
)

// bulkClasses are the request classes (as logged by hist.begin) a complete bulk history shows.
func bulkClasses() []string {
	return []string{
		"upload.raw.multipart.40",
		"enumerate.raw.chain.absent", "enumerate.raw.chain.100", "enumerate.raw.chain.1000", "enumerate.raw.chain.over-max",
		"enumerate.raw.chain.mws1-1000", "enumerate.raw.page.mws1-after-continue",
		"enumerate.pkg/client.EnumerateBlobs.bulk-big", "enumerate.pkg/client.EnumerateBlobs.bulk-1000",
		"enumerate.pkg/client.EnumerateBlobs.bulk-1001", "enumerate.pkg/client.EnumerateBlobs.bulk-after",
		"enumerate.pkg/client.EnumerateBlobsOpts.bulk-maxwait-1s", "enumerate.pkg/client.EnumerateBlobsOpts.bulk-maxwait-2.5s",
		"enumerate.pkg/client.EnumerateBlobsOpts.bulk-maxwait-limit", "enumerate.pkg/client.EnumerateBlobsOpts.bulk-after",
		"enumerate.pkg/client.EnumerateBlobsOpts.bulk-after-limit", "enumerate.pkg/client.EnumerateBlobsOpts.bulk-after-maxwait",
		"enumerate.pkg/client.EnumerateBlobsOpts.bulk-zero",
		"enumerate.pkg/client.SimpleEnumerateBlobs",
		"stat.raw.POST.1000-present", "stat.raw.POST.1000", "stat.raw.POST.1001", "stat.pkg/client.StatBlobs.all",
		"stat.raw.POST.audit", "get.raw.GET.present", "get.raw.HEAD.present", "get.raw.GET.absent",
	}
}

// bulkEvents are the observations a complete bulk history makes on an unchanged server.
var bulkEvents = []string{
	"store-of-exactly-100", "store-of-exactly-1000",
	"default-limit-page-truncated", "limit-1000-page-full", "full-page-then-empty-page",
	"client-enum-multi-page", "client-maxwait-multi-page", "client-after-multi-page",
}

// tinyBlob generates a never-seen blob of 1..24 bytes (every tenth a sha1 or sha256 ref,
// so that the sorted listing crosses digest-type boundaries inside pages).
func (h *hist) tinyBlob() sto.Blob {
	for {
		n := 1 + h.rng.Intn(24)
		data := make([]byte, n)
		h.rng.Read(data)
		hn := "sha224"
		switch h.rng.Intn(20) {
		case 0:
			hn = "sha1"
		case 1:
			hn = "sha256"
		}
		b := sto.Blob{Ref: sto.RefOf(hn, data), Data: data}
		r := b.Ref.String()
		if _, dup := h.data[r]; dup {
			continue
		}
		h.data[r] = data
		h.universe = append(h.universe, b)
		return b
	}
}

// bulkLoadTo uploads tiny blobs in multipart requests of 40 parts (the last one smaller)
// until the store holds target blobs.  It tells whether the store holds exactly that many.
func (h *hist) bulkLoadTo(target int) bool {
	failures := 0
	for len(h.present) < target && h.nviol <= 25 && failures < 3 {
		k := target - len(h.present)
		class := "bulk-rest"
		if k >= 40 {
			k, class = 40, "40"
		}
		parts := make([]sto.Blob, k)
		for i := range parts {
			parts[i] = h.tinyBlob()
		}
		if !h.rawMultipart(class, parts) {
			failures++
		}
		h.checkServerLog()
	}
	return len(h.present) == target && len(h.maybe) == 0
}

func (h *hist) runBulk() {
	// a few ordinary blobs first (sizes other than tiny; an empty blob is among the universe)
	for _, s := range []step{{"raw-put", "-"}, {"raw-multipart", "5"}, {"client-upload", "stat-first"}, {"client-receive", "-"}} {
		h.step(s)
	}
	h.checkServerLog()

	// ---- a store of exactly 100 blobs: a request without limit gets all of them in one page
	if h.bulkLoadTo(bulkSmallStop) {
		h.note("events", "store-of-exactly-100")
	}
	for _, c := range []string{"absent", "100"} {
		h.rawChain(c)
	}
	h.clientEnumSimple()
	h.checkServerLog()

	// ---- a store of exactly 1000 blobs: one full page of pkg/client, then an empty one
	if h.bulkLoadTo(bulkPageStop) {
		h.note("events", "store-of-exactly-1000")
	}
	h.bulkEnumerations()
	if h.nviol > 25 {
		h.aborted = true
		return
	}

	// ---- >= 1100 blobs: every page size of the protocol is exceeded
	h.bulkLoadTo(bulkMin + h.rng.Intn(120))
	h.bulkEnumerations()
	if h.nviol > 25 {
		h.aborted = true
		return
	}

	// ---- stat batches at the documented limit, all refs present
	h.bulkStatPresent()
	h.rawStat("POST", "1000", 1000, "")
	h.rawStat("POST", "1001", 1001, "")
	h.clientStat("all")
	h.checkServerLog()
}

// bulkEnumerations lists the whole store through every interface.
func (h *hist) bulkEnumerations() {
	for _, c := range []string{"absent", "100", "1000", "over-max", "mws1-1000"} {
		h.rawChain(c)
		h.checkServerLog()
	}
	h.bulkLongPollContinuation()

	n := len(h.present)
	low := h.lowCursor()
	h.bulkClientEnum("bulk-big", "", 100000)
	h.bulkClientEnum("bulk-1000", "", bulkPageStop)
	h.bulkClientEnum("bulk-1001", "", bulkPageStop+1)
	if n > bulkPageStop+2 {
		h.bulkClientEnum("bulk-1001", "", bulkPageStop+1+h.rng.Intn(n-bulkPageStop-1))
	}
	h.bulkClientEnum("bulk-after", low, 100000)
	h.bulkClientEnum("bulk-after", h.cursor(), n)
	h.checkServerLog()

	h.bulkClientOpts("bulk-zero", client.EnumerateOpts{})
	h.bulkClientOpts("bulk-maxwait-1s", client.EnumerateOpts{MaxWait: time.Second})
	h.bulkClientOpts("bulk-maxwait-2.5s", client.EnumerateOpts{MaxWait: 2500 * time.Millisecond})
	h.bulkClientOpts("bulk-maxwait-limit", client.EnumerateOpts{MaxWait: 300 * time.Millisecond, Limit: bulkPageStop + 1 + h.rng.Intn(60)})
	h.bulkClientOpts("bulk-after", client.EnumerateOpts{After: low})
	h.bulkClientOpts("bulk-after", client.EnumerateOpts{After: h.cursor()})
	h.bulkClientOpts("bulk-after-limit", client.EnumerateOpts{After: low, Limit: bulkPageStop + 1 + h.rng.Intn(30)})
	h.bulkClientOpts("bulk-after-maxwait", client.EnumerateOpts{After: low, MaxWait: time.Second})
	h.clientEnumSimple()
	h.clientEnumMaxWait()
	h.checkServerLog()
}

// lowCursor is a cursor with almost the whole store after it: one of the first few refs.
func (h *hist) lowCursor() string {
	l := h.presentList()
	if len(l) == 0 {
		return "sha1-"
	}
	k := h.rng.Intn(20)
	if k >= len(l) {
		k = len(l) - 1
	}
	return l[k]
}

// bulkLongPollContinuation: the request a client must NOT send — the continuation of a
// long-poll enumeration that repeats maxwaitsec together with the server's continueAfter
// — gets the documented error; the same continuation without maxwaitsec gets the page.
func (h *hist) bulkLongPollContinuation() {
	q := enumReq{Limit: strconv.Itoa(bulkPageStop), MaxWait: "1"}
	h.begin("enumerate", "raw", "page.mws1-after-continue", q.String())
	e := h.onePage(q, bulkPageStop)
	if e == nil || e.ContinueAfter == "" {
		return
	}
	a := e.ContinueAfter
	q.After = &a
	h.begin("enumerate", "raw", "page.mws1-after-continue", q.String())
	h.onePage(q, bulkPageStop) // 4xx expected (judged there)
	q.MaxWait = ""
	h.begin("enumerate", "raw", "page.after-continue", q.String())
	h.onePage(q, bulkPageStop)
}

// clientEnumCtx runs a pkg/client enumeration and tells whether its context expired.
func (h *hist) clientEnumCtx(fn func(context.Context, chan<- blob.SizedRef) error) (got []sizedRef, err error, timedOut bool) {
	ctx, cancel := ctx90()
	defer cancel()
	got, err = h.clientEnumerate(func(ch chan<- blob.SizedRef) error { return fn(ctx, ch) })
	return got, err, err != nil && ctx.Err() != nil
}

func (h *hist) bulkClientEnum(class, after string, limit int) {
	want := h.want(after)
	h.begin("enumerate", "pkg/client", "EnumerateBlobs."+class, fmt.Sprintf("after=%q limit=%d, %d blobs after the cursor", after, limit, len(want)))
	got, err, timedOut := h.clientEnumCtx(func(ctx context.Context, ch chan<- blob.SizedRef) error {
		return h.pk.EnumerateBlobs(ctx, ch, after, limit)
	})
	h.eval(1 + len(got))
	if err != nil {
		if timedOut {
			h.reqErr("enumerate", err)
			return
		}
		h.bad("client/EnumerateBlobs/error", "EnumerateBlobs(after=%q, limit=%d) with %d blobs after the cursor failed after delivering %d: %v", after, limit, len(want), len(got), err)
		return
	}
	if c, what := h.classify(after, got, want, limit, true); c != "" {
		h.bad("client/EnumerateBlobs/"+c, "EnumerateBlobs(after=%q, limit=%d) with %d blobs after the cursor delivered %d: %s", after, limit, len(want), len(got), what)
		return
	}
	if len(got) > bulkPageStop {
		if after == "" {
			h.note("events", "client-enum-multi-page")
		} else {
			h.note("events", "client-after-multi-page")
		}
	}
}

func (h *hist) bulkClientOpts(class string, opts client.EnumerateOpts) {
	want := h.want(opts.After)
	h.begin("enumerate", "pkg/client", "EnumerateBlobsOpts."+class,
		fmt.Sprintf("After=%q MaxWait=%v Limit=%d, %d blobs after the cursor", opts.After, opts.MaxWait, opts.Limit, len(want)))
	if opts.MaxWait > 0 {
		h.note("maxwaitsec", "client-bulk")
	}
	got, err, timedOut := h.clientEnumCtx(func(ctx context.Context, ch chan<- blob.SizedRef) error {
		return h.pk.EnumerateBlobsOpts(ctx, ch, opts)
	})
	h.eval(1 + len(got))
	if opts.After != "" && opts.MaxWait != 0 {
		// the combination the protocol forbids: pkg/client documents a client error; nothing but
		// "whatever it delivers is right" is decided
		if err != nil {
			h.note("client_after_with_maxwait", "refused")
			if len(got) == 0 {
				return
			}
		}
		if c, what := h.classify(opts.After, got, want, opts.Limit, err == nil); c != "" {
			h.bad("client/EnumerateBlobsOpts/"+c, "EnumerateBlobsOpts(After=%q, MaxWait=%v) delivered %d: %s", opts.After, opts.MaxWait, len(got), what)
		}
		return
	}
	if err != nil {
		if timedOut {
			h.reqErr("enumerate", err)
			return
		}
		h.bad("client/EnumerateBlobsOpts/error", "EnumerateBlobsOpts(After=%q, MaxWait=%v, Limit=%d) with %d blobs after the cursor failed after delivering %d: %v",
			opts.After, opts.MaxWait, opts.Limit, len(want), len(got), err)
		return
	}
	if len(got) == 0 && len(want) > 0 && opts.MaxWait > 0 {
		h.bad("client/EnumerateBlobsOpts/maxwait-empty", "EnumerateBlobsOpts{MaxWait: %v} on a store holding %d blobs returned no blob at all", opts.MaxWait, len(want))
		return
	}
	if c, what := h.classify(opts.After, got, want, opts.Limit, true); c != "" {
		h.bad("client/EnumerateBlobsOpts/"+c, "EnumerateBlobsOpts(After=%q, MaxWait=%v, Limit=%d) with %d blobs after the cursor delivered %d: %s",
			opts.After, opts.MaxWait, opts.Limit, len(want), len(got), what)
		return
	}
	if len(got) > bulkPageStop {
		switch {
		case opts.MaxWait > 0:
			h.note("events", "client-maxwait-multi-page")
		case opts.After != "":
			h.note("events", "client-after-multi-page")
		default:
			h.note("events", "client-enum-multi-page")
		}
	}
}

// bulkStatPresent stats 1000 present refs in one POST (the documented limit, every slot answered).
func (h *hist) bulkStatPresent() {
	refs := h.batch(bulkPageStop, true)
	if len(refs) == 0 {
		return
	}
	h.begin("stat", "raw", "POST.1000-present", fmt.Sprintf("%d present refs", len(refs)))
	r, err := h.raw.statPOST(refs, "")
	if err != nil {
		h.reqErr("stat", err)
		return
	}
	if r.Status != 200 {
		h.bad("stat/status", "POST stat of %d present refs: status %d %s", len(refs), r.Status, clip(string(r.Body), 200))
		return
	}
	s, err := parseStat(r.Body)
	if err != nil || !s.hasStat {
		h.bad("stat/bad-json", "stat response not the documented JSON (%v): %s", err, clip(string(r.Body), 200))
		return
	}
	h.checkStat("stat", refs, s.Stat)
	if len(refs) == bulkPageStop {
		h.note("stat_batch_present", "1000")
	}
}

// auditBulk is audit() for a store larger than one stat batch.
func (h *hist) auditBulk() {
	if h.nviol > 25 {
		return
	}
	refs := h.presentList()
	h.statAllAudit()
	for i, r := range refs {
		h.rawGetRef("GET", r, true)
		if i%16 == 0 {
			h.rawGetRef("HEAD", r, true)
		}
		if h.nviol > 25 {
			h.aborted = true
			return
		}
	}
	for _, b := range h.never {
		h.rawGetRef("GET", b.Ref.String(), false)
	}
	for _, c := range []string{"100", "absent", "1000"} {
		h.rawChain(c)
	}
	h.clientEnumSimple()
	h.checkServerLog()
	h.auditRoots([]string{"100", "absent", "1000"})
}
