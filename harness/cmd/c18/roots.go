package main

// The other blob roots of a high-level configuration.
//
// Every request of a history goes to the blobRoot of the discovery document
// (/bs-and-maybe-also-index/, a cond over /bs-and-index/ and /bs/).  The configuration also
// serves the storage itself at /bs/ and — the only place where the selected *index type*
// speaks the blob protocol — the index at /index/ (stat and enumerate over its "have:" rows;
// schema blobs get there with the upload, everything else through the sync handler).
//
// /bs/ holds exactly what the blobRoot holds: the same reference map applies at once.
// /index/ is judged once a stat through /index/ has reported every uploaded blob (the sync
// queue has drained; reached by polling, never a verdict): from then on it holds exactly
// the same map, and its complete sorted enumeration must show every blob once.

import (
	"fmt"
	"sort"
	"strings"
	"time"
)

// withRoot runs fn with the raw client pointed at another blob root of the same server.
func (h *hist) withRoot(tag string, fn func()) {
	old := h.raw.blobRoot
	h.raw.blobRoot = h.srv.base + tag
	h.rootTag = tag
	defer func() { h.raw.blobRoot, h.rootTag = old, "" }()
	fn()
}

// statAllAudit stats every present ref plus the never-uploaded ones in batches of <= 1000.
func (h *hist) statAllAudit() {
	all := h.presentList()
	for _, b := range h.never {
		all = append(all, b.Ref.String())
	}
	sort.Strings(all)
	for i := 0; i < len(all); i += bulkPageStop {
		j := i + bulkPageStop
		if j > len(all) {
			j = len(all)
		}
		part := all[i:j]
		h.begin("stat", "raw", "POST.audit", fmt.Sprintf("%d refs (%d..%d of %d)", len(part), i, j, len(all)))
		if r, err := h.raw.statPOST(part, ""); err != nil {
			h.reqErr("stat", err)
		} else if r.Status != 200 {
			h.bad("stat/status", "audit stat of %d refs: status %d", len(part), r.Status)
		} else if s, err := parseStat(r.Body); err != nil || !s.hasStat {
			h.bad("stat/bad-json", "audit stat: %v", err)
		} else {
			h.checkStat("stat", part, s.Stat)
		}
	}
}

// indexDrained polls a stat of every present ref at the current root until all are reported.
func (h *hist) indexDrained() bool {
	refs := h.presentList()
	h.begin("stat", "raw", "POST.drain-poll", fmt.Sprintf("%d refs", len(refs)))
	deadline := time.Now().Add(40 * time.Second) // ends the polling only; not drained => not judged
	pause := 20 * time.Millisecond
	for {
		listed := 0
		for i := 0; i < len(refs); i += bulkPageStop {
			j := i + bulkPageStop
			if j > len(refs) {
				j = len(refs)
			}
			r, err := h.raw.statPOST(refs[i:j], "")
			if err != nil {
				h.reqErr("stat", err)
				return false
			}
			if r.Status != 200 {
				h.bad("stat/status", "stat of %d refs: status %d %s", j-i, r.Status, clip(string(r.Body), 200))
				return false
			}
			s, err := parseStat(r.Body)
			if err != nil {
				h.bad("stat/bad-json", "stat: %v", err)
				return false
			}
			seen := map[string]bool{}
			for _, sb := range s.Stat {
				if h.known(sb.BlobRef) && !seen[sb.BlobRef] {
					seen[sb.BlobRef] = true
					listed++
				}
			}
		}
		if listed == len(refs) {
			return true
		}
		if time.Now().After(deadline) {
			h.note("index_root_not_drained", fmt.Sprintf("%s:%d-of-%d", h.cfg.Index, listed, len(refs)))
			return false
		}
		time.Sleep(pause)
		if pause < 500*time.Millisecond {
			pause *= 2
		}
	}
}

// auditRoots repeats the complete enumerations and the stat of everything at /bs/ and /index/.
func (h *hist) auditRoots(chains []string) {
	if h.nviol > 25 {
		return
	}
	h.withRoot("/bs", func() {
		h.statAllAudit()
		for _, c := range chains {
			h.rawChain(c)
		}
		for i := 0; i < 6; i++ {
			if ref, ok := h.pickPresent(); ok && h.big[ref] == nil {
				h.rawGetRef("GET", ref, true)
			}
		}
		h.rawGetRef("GET", h.absentRef(), false)
		h.note("events", "bs-root-audited")
	})
	h.checkServerLog()
	h.withRoot("/index", func() {
		if !h.indexDrained() {
			h.note("events", "index-root-not-drained")
			return
		}
		h.statAllAudit()
		for _, c := range chains {
			h.rawChain(c)
		}
		h.rawPage("2")
		h.rawPage("100")
		h.note("events", "index-root-audited")
		h.note("index_root_kinds", h.cfg.Index)
	})
	h.checkServerLog()
}

func rootSigPrefix(tag string) string {
	if tag == "" {
		return ""
	}
	return "root" + strings.ReplaceAll(tag, "/", "-") + "/"
}
