// C09 — paging through search results neither skips nor repeats anything (see package sw).
package main

import "verif.local/harness/sw"

func main() { sw.MainC09() }
