package main

import (
	"bytes"
	"context"
	"fmt"
	"io"
	"math/rand"
	"runtime"
	"strings"
	"sync"
	"time"

	"perkeep.org/pkg/blob"
	"perkeep.org/pkg/blobserver"

	"verif.local/harness/ev"
	"verif.local/harness/inject"
	"verif.local/harness/sto"
)

// Per-replica behaviour for one receive.
const (
	mOK = iota
	mErr
	mMis
	mEAE
	mSlow
	nModes // the five modes above are the ones the w/ family enumerates exhaustively
	// mCtx (wx/ family, cancel.go): a slow replica that honours its context: it is held by the
	// turnstile until the harness opens it or the caller's context ends; in the latter case it
	// stores nothing and returns the context's error.
	mCtx = nModes
)

var modeNames = [...]string{"ok", "error", "misreport", "error-after-effect", "gate", "ctx-slow"}
var injModes = [...]inject.Mode{inject.Pass, inject.Error, inject.Misreport, inject.ErrorAfterEffect, inject.Gate, inject.Pass}

const (
	// pickWait bounds the wait for "did the call return yet?".  It only selects the next harness
	// action (which barrier to open while the call is still running / after it returned); it is never
	// part of a verdict.
	pickWait = 5 * time.Millisecond
	// watchdog ends a case whose lower calls / whose ReceiveBlob never come back.
	watchdog = 30 * time.Second
)

// ctl is the harness side of one replica's part in one receive.
type ctl struct {
	open    chan struct{} // closed = the replica may proceed into the injector / memory store
	arrived chan struct{} // closed when the replica store called this replica
	done    chan struct{} // closed when this replica's ReceiveBlob returned
	sb      blob.SizedRef // what the replica returned to the replica store
	err     error
	doneSeq int64
	handed  []byte // the bytes the replica read from the reader the replica store gave it
	// kind selects WHICH error a failing replica returns / HOW a misreporting replica misreports
	// (errkinds.go); 0 = what the injector does by itself.  ctxAware: see mCtx.
	kind     int
	mode     int
	trueSize uint32
	ctxAware bool
}

func newCtl(held bool) *ctl {
	c := &ctl{open: make(chan struct{}), arrived: make(chan struct{}), done: make(chan struct{})}
	if !held {
		close(c.open)
	}
	return c
}

// turnstile sits above the inject wrapper of one replica.  It records what the replica returned to
// the replica store and lets the harness hold a non-gated replica back, so that completion orders
// are enumerated instead of left to the scheduler.  (Gated = "slow" replicas are held by the
// injector's own Gate mode, not here.)
type turnstile struct {
	blobserver.Storage
	mu  sync.Mutex
	ctl map[string]*ctl
}

func (t *turnstile) set(br blob.Ref, c *ctl) {
	t.mu.Lock()
	if c == nil {
		delete(t.ctl, br.String())
	} else {
		t.ctl[br.String()] = c
	}
	t.mu.Unlock()
}

func (t *turnstile) ReceiveBlob(ctx context.Context, br blob.Ref, src io.Reader) (blob.SizedRef, error) {
	t.mu.Lock()
	c := t.ctl[br.String()]
	t.mu.Unlock()
	if c == nil {
		return t.Storage.ReceiveBlob(ctx, br, src)
	}
	close(c.arrived)
	// record what the replica reads, when it reads it (a slow replica reads late)
	var rec bytes.Buffer
	if c.ctxAware {
		select {
		case <-c.open:
		case <-ctx.Done():
			// an upload that is aborted because its context ended: the data was read, nothing is stored
			io.Copy(&rec, src)
			c.sb, c.err, c.handed = blob.SizedRef{}, ctxAbortErr(c.kind, br, ctx), rec.Bytes()
			c.doneSeq = inject.Seq()
			close(c.done)
			return c.sb, c.err
		}
	} else {
		<-c.open
	}
	sb, err := t.Storage.ReceiveBlob(ctx, br, io.TeeReader(src, &rec))
	sb, err = applyKind(c, br, sb, err)
	c.sb, c.err, c.handed = sb, err, rec.Bytes()
	c.doneSeq = inject.Seq()
	close(c.done)
	return sb, err
}

type wcase struct {
	ID       string `json:"case_id"`
	N        int    `json:"n"`
	M        int    `json:"minWritesForSuccess"`
	Distinct bool   `json:"distinct_read_backends"`
	Modes    []int  `json:"-"`
	Sched    string `json:"schedule"` // free | free-early | free-late | free-late-overlap | perm
	Order    []int  `json:"completion_order,omitempty"`
	// Kinds (errkinds.go): per replica, which error / which wrong answer a failing replica gives.
	Kinds []int `json:"-"`
	// Ctx (cancel.go): how the caller's context ends during the call ("" = it does not).
	Ctx string `json:"caller_context,omitempty"`
	// lenientErr is set at run time when the caller's context ended before the call was seen to have
	// returned: an error is then an acceptable answer whatever the replicas could have done.
	lenientErr bool
}

func (c *wcase) schedDesc() string {
	if c.Ctx != "" {
		return c.Sched + ", caller context: " + c.Ctx
	}
	return c.Sched
}

func (c *wcase) kind(i int) int {
	if i < len(c.Kinds) {
		return c.Kinds[i]
	}
	return 0
}

func (c *wcase) modeStrings() []string {
	out := make([]string, len(c.Modes))
	for i, m := range c.Modes {
		out[i] = modeNames[m]
	}
	return out
}

func (c *wcase) hasSlow() bool {
	for _, m := range c.Modes {
		if m == mSlow {
			return true
		}
	}
	return false
}

// canSucceed = replicas that will (eventually) acknowledge the blob with the right size.
func (c *wcase) canSucceed() int {
	k := 0
	for _, m := range c.Modes {
		if m == mOK || m == mSlow {
			k++
		}
	}
	return k
}

func (c *wcase) class() string {
	fast := 0
	allOK := true
	for _, m := range c.Modes {
		if m == mOK {
			fast++
		} else {
			allOK = false
		}
	}
	switch {
	case allOK:
		return "all-ok"
	case c.canSucceed() < c.M:
		return "quorum-impossible"
	case fast < c.M:
		return "quorum-needs-slow-replica"
	}
	return "quorum-reachable-despite-faults"
}

func mkID(n, m int, distinct bool, modes []int, sched string, order []int) string {
	d := "same"
	if distinct {
		d = "distinct"
	}
	ms := make([]string, len(modes))
	for i, x := range modes {
		ms[i] = modeNames[x]
	}
	s := sched
	if sched == "perm" {
		os := make([]string, len(order))
		for i, o := range order {
			os[i] = fmt.Sprint(o)
		}
		s = "perm-" + strings.Join(os, "")
	}
	return fmt.Sprintf("w/n%dm%d-%s/%s/%s;", n, m, d, strings.Join(ms, ","), s)
}

func perms(n int) [][]int {
	var out [][]int
	var rec func(cur []int, used int)
	rec = func(cur []int, used int) {
		if len(cur) == n {
			out = append(out, append([]int(nil), cur...))
			return
		}
		for i := 0; i < n; i++ {
			if used&(1<<i) == 0 {
				rec(append(cur, i), used|1<<i)
			}
		}
	}
	rec(nil, 0)
	return out
}

// casesFor enumerates the receives of one configuration.
func casesFor(r *ev.Run, n, m int, distinct bool) []wcase {
	rng := r.Rand(fmt.Sprintf("wcases/n%d/m%d/%v", n, m, distinct))
	all := perms(n)
	var out []wcase
	add := func(modes []int, sched string, order []int) {
		out = append(out, wcase{ID: mkID(n, m, distinct, modes, sched, order), N: n, M: m, Distinct: distinct,
			Modes: append([]int(nil), modes...), Sched: sched, Order: append([]int(nil), order...)})
	}
	withScheds := func(modes []int) {
		c := wcase{Modes: modes}
		if c.hasSlow() {
			add(modes, "free-early", nil)
			add(modes, "free-late", nil)
			add(modes, "free-late-overlap", nil)
		} else {
			add(modes, "free", nil)
		}
		np := len(all)
		if !r.Thorough() && np > 6 {
			np = 4 // quick: every order for n <= 3, four seeded orders for n = 4
		}
		if np == len(all) {
			for _, p := range all {
				add(modes, "perm", p)
			}
		} else {
			first := rng.Intn(len(all))
			step := 1 + rng.Intn(len(all)-1)
			for i := 0; i < np; i++ {
				add(modes, "perm", all[(first+i*step)%len(all)])
			}
		}
	}
	if n <= 3 {
		total := 1
		for i := 0; i < n; i++ {
			total *= nModes
		}
		for a := 0; a < total; a++ {
			modes := make([]int, n)
			x := a
			for i := range modes {
				modes[i] = x % nModes
				x /= nModes
			}
			withScheds(modes)
		}
		return out
	}
	// n = 4: every ok/error assignment, plus seeded mixed assignments
	for a := 0; a < 1<<n; a++ {
		modes := make([]int, n)
		for i := range modes {
			if a&(1<<i) != 0 {
				modes[i] = mErr
			}
		}
		withScheds(modes)
	}
	seen := map[string]bool{}
	for i := 0; i < r.Pick(150, 2500); i++ {
		modes := make([]int, n)
		special := false
		for j := range modes {
			modes[j] = rng.Intn(nModes)
			if modes[j] >= mMis {
				special = true
			}
		}
		if !special {
			modes[rng.Intn(n)] = mMis + rng.Intn(3)
		}
		c := wcase{Modes: modes}
		sched, order := "perm", all[rng.Intn(len(all))]
		switch k := rng.Intn(4); {
		case k == 0 && c.hasSlow():
			sched, order = "free-early", nil
		case k == 1 && c.hasSlow():
			sched, order = "free-late", nil
		case k == 0:
			sched, order = "free", nil
		}
		id := mkID(n, m, distinct, modes, sched, order)
		if seen[id] {
			continue
		}
		seen[id] = true
		add(modes, sched, order)
	}
	return out
}

const shardSize = 250

func writeJobs(r *ev.Run) []job {
	var jobs []job
	total := 0
	for n := 1; n <= 4; n++ {
		for m := 1; m <= n; m++ {
			for _, distinct := range []bool{false, true} {
				cases := casesFor(r, n, m, distinct)
				var sel []wcase
				for _, c := range cases {
					if r.Only(c.ID) {
						sel = append(sel, c)
					}
				}
				total += len(sel)
				for i := 0; i < len(sel); i += shardSize {
					j := min(i+shardSize, len(sel))
					shard := sel[i:j]
					n, m, distinct, si := n, m, distinct, i/shardSize
					jobs = append(jobs, func() { runWriteShard(r, n, m, distinct, si, shard) })
				}
			}
		}
	}
	r.Extra("receive_cases_planned", total)
	return jobs
}

func caseBlob(seed int64, id string, j int, empty bool) sto.Blob {
	if empty {
		return sto.FromBytes(nil) // the empty blob (removed from the replicas' memory stores after its case, so that it is fresh again)
	}
	pad := []int{0, 1, 7, 100, 1000, 3}[j%6]
	if j%50 == 49 {
		pad = 5000
	}
	return sto.FromBytes([]byte(fmt.Sprintf("C12|%d|%s|%s", seed, id, strings.Repeat("x", pad))))
}

func runWriteShard(r *ev.Run, n, m int, distinct bool, shard int, cases []wcase) {
	cl, err := newCluster(n, m, distinct, "ReceiveBlob")
	if err != nil {
		r.Inconclusive(err.Error())
		return
	}
	runShardOn(r, cl, shard, cases)
}

// runShardOn runs the receives of one shard, one after another, on cluster cl.
func runShardOn(r *ev.Run, cl *cluster, shard int, cases []wcase) {
	n, m, distinct := cl.n, cl.m, cl.distinct
	r.Note("n", fmt.Sprintf("n%d", n))
	if m < n {
		r.Note("quorum", "m<n")
	} else {
		r.Note("quorum", "m==n")
	}
	r.Note("min_writes_config", cl.minCfg)
	if distinct {
		r.Note("read_backends", "distinct")
	} else {
		r.Note("read_backends", "same")
	}
	var used []sto.Blob
	usedEmpty := false
	fam := cl.family
	if fam == "" {
		fam = "w"
	}
	erng := r.Rand(fmt.Sprintf("%sempty/%s/%d", fam, cl.cfg(), shard))
	for j := range cases {
		// the empty blob meets the first case of the shard and a seeded ~1/12 of all others, whatever
		// their fault assignment and schedule
		empty := j == 0 || erng.Intn(12) == 0
		b := caseBlob(r.Seed, cases[j].ID, j, empty)
		if !empty || !usedEmpty {
			used = append(used, b)
		}
		usedEmpty = usedEmpty || empty
		var filler *sto.Blob
		if cases[j].Sched == "free-late-overlap" {
			fb := sto.FromBytes([]byte(fmt.Sprintf("C12-overlap|%d|%s|%s", r.Seed, cases[j].ID, strings.Repeat("y", len(b.Data)))))
			filler = &fb
			used = append(used, fb)
		}
		ok := runWriteCase(r, cl, &cases[j], b, filler)
		if empty {
			r.Note("empty_blob_class", cases[j].class())
			for _, nd := range cl.w {
				nd.mem.RemoveBlobs(context.Background(), []blob.Ref{b.Ref})
			}
		}
		if !ok {
			return // the store is no longer usable (a call never came back)
		}
	}
	// Finally: the whole store against the union of the read replicas (stat / enumerate over the
	// natural overlap left behind by the faulted receives).
	rec := map[string]any{"case_id": fmt.Sprintf("%s/%s/shard%d/final-audit;", fam, cl.cfg(), shard), "config": cl.cfg(), "receives": len(cases)}
	auditReads(r, cl, used, r.Rand(fmt.Sprintf("%saudit/%s/%d", fam, cl.cfg(), shard)), false, "after-writes", rec)
}

type repObs struct {
	Replica      string `json:"replica"`
	Mode         string `json:"mode"`
	StoredSeq    int64  `json:"stored_seq,omitempty"`
	StoredSize   uint32 `json:"stored_size"`
	Returned     string `json:"returned"`
	DoneSeq      int64  `json:"done_seq"`
	OpenedBefore string `json:"barrier_opened,omitempty"`
}

type writeWitness struct {
	wcase
	Config   string   `json:"config"`
	ModeList []string `json:"modes"`
	KindList []string `json:"answer_kinds,omitempty"`
	Blob     string   `json:"blob"`
	TrueSize int      `json:"true_size"`
	Result   string   `json:"result"`
	AckSeq   int64    `json:"ack_seq"`
	Replicas []repObs `json:"replicas"`
}

func closed(ch chan struct{}) bool {
	select {
	case <-ch:
		return true
	default:
		return false
	}
}

func waitFor(ch chan struct{}, d time.Duration) bool {
	if closed(ch) {
		return true
	}
	t := time.NewTimer(d)
	defer t.Stop()
	select {
	case <-ch:
		return true
	case <-t.C:
		return false
	}
}

// runWriteCase performs one receive under the case's fault assignment and schedule, then judges it
// from the recorded event order.  It returns false when the cluster cannot be used any more.
//
// filler (schedule free-late-overlap): a second blob that is received through the same replica store
// while the gated stragglers of this receive are still pending, if the receive returned without them.
func runWriteCase(r *ev.Run, cl *cluster, wc *wcase, b sto.Blob, filler *sto.Blob) bool {
	n := cl.n
	ctls := make([]*ctl, n)
	idx := make([]int64, n)
	for i, nd := range cl.w {
		nd.evBase = len(nd.wrap.StoredEvents()) // earlier events (the empty blob is re-used) belong to earlier cases
		idx[i] = nd.plan.Calls()                // this receive is the idx-th ReceiveBlob on replica i
		if wc.Modes[i] != mOK {
			nd.plan.FaultAt(idx[i], injModes[wc.Modes[i]])
		}
		held := (wc.Sched == "perm" && wc.Modes[i] != mSlow) || wc.Modes[i] == mCtx
		ctls[i] = newCtl(held)
		ctls[i].ctxAware = wc.Modes[i] == mCtx
		ctls[i].kind, ctls[i].mode, ctls[i].trueSize = wc.kind(i), wc.Modes[i], uint32(len(b.Data))
		if k := wc.kind(i); k != 0 || wc.Modes[i] == mCtx {
			r.Note("replica_answer_kinds", kindName(wc.Modes[i], k))
		}
		nd.ts.set(b.Ref, ctls[i])
		r.Note("modes_assigned", modeNames[wc.Modes[i]])
	}
	defer func() {
		for _, nd := range cl.w {
			nd.ts.set(b.Ref, nil)
		}
	}()
	wit := &writeWitness{wcase: *wc, Config: cl.cfg(), ModeList: strings.Split(modeKindStrings(wc.Modes, wc.Kinds), ","), KindList: wc.kindStrings(), Blob: b.Ref.String(), TrueSize: len(b.Data)}
	opened := make([]string, n)

	var (
		sb       blob.SizedRef
		rerr     error
		ackSeq   int64
		panicked any
		ret      = make(chan struct{})
	)
	// The caller's context (cancel.go).  endCaller ends it (once); whether the call had been SEEN to
	// have returned before decides if an error is an acceptable answer regardless of the replicas.
	ctx, endCtx := callerCtx(wc.Ctx)
	ctxEnded := false
	wc.lenientErr = false
	endCaller := func() {
		if ctxEnded || wc.Ctx == "" {
			return
		}
		ctxEnded = true
		when := "after-return"
		if !closed(ret) {
			when = "before-return"
			wc.lenientErr = true
		}
		for i := range cl.w {
			if wc.Modes[i] == mCtx {
				opened[i] = when
			}
		}
		r.Note("caller_context_end", wc.Ctx+"/"+when)
		endCtx()
	}
	defer endCtx()
	if strings.HasPrefix(wc.Ctx, "pre-") {
		endCaller() // the context is over before the call starts
	}
	go func() {
		defer close(ret)
		defer func() {
			if p := recover(); p != nil {
				panicked = p
			}
		}()
		sb, rerr = blobserver.Receive(ctx, cl.s, b.Ref, bytes.NewReader(b.Data))
		ackSeq = inject.Seq() // the ack, ordered against the replicas' stored events
	}()

	stuck := func(what string) bool {
		// Not the property's subject (a lower call that never happened / never came back): no verdict.
		r.Inconclusive(fmt.Sprintf("%s: %s did not happen within %v", wc.ID, what, watchdog))
		for i, nd := range cl.w {
			nd.plan.Release(idx[i])
			if !closed(ctls[i].open) {
				close(ctls[i].open)
			}
		}
		return false
	}
	// openBarrier lets replica i proceed: the turnstile for a held replica, the injector's gate for a slow one.
	openBarrier := func(i int, blockedObserved bool) {
		when := "after-return"
		if !closed(ret) {
			when = "before-return"
		}
		opened[i] = when
		if wc.Modes[i] == mSlow {
			r.Note("gate_release", when)
			if when == "before-return" && blockedObserved {
				r.Note("gate_release", "while-call-blocked")
			}
			cl.w[i].plan.Release(idx[i])
		} else if !closed(ctls[i].open) {
			close(ctls[i].open)
		}
	}

	switch wc.Sched {
	case "free", "free-early":
		// nothing is held by the harness; gated replicas are released as soon as they were called,
		// i.e. before the ack can depend on them — they race with the others.
		for i := range cl.w {
			if wc.Modes[i] == mSlow {
				if !waitFor(ctls[i].arrived, watchdog) {
					return stuck(fmt.Sprintf("call of replica %d", i))
				}
				openBarrier(i, false)
			}
		}
	case "free-late", "free-late-overlap":
		// the non-gated replicas finish first; the gated ones are released only after ReceiveBlob
		// returned, or once it is clear (bounded wait, action selection only) that it is blocked on them.
		for i := range cl.w {
			if wc.Modes[i] != mSlow && !waitFor(ctls[i].done, watchdog) {
				return stuck(fmt.Sprintf("return of replica %d", i))
			}
		}
		blocked := !waitFor(ret, pickWait)
		if filler != nil {
			if blocked {
				r.Note("overlap", "not-possible-call-waits-for-slow-replica")
			} else {
				// the call returned while its slow replicas still hold their copy of the upload:
				// receive another blob through the same store before they are released
				for i, nd := range cl.w {
					if wc.Modes[i] != mSlow {
						continue
					}
					// the gated call must have taken its call index before the filler's call on the same replica
					if !waitFor(ctls[i].arrived, watchdog) || !ev.WithTimeout(watchdog, func() {
						for nd.plan.Calls() <= idx[i] {
							runtime.Gosched()
						}
					}) {
						return stuck(fmt.Sprintf("call of replica %d", i))
					}
				}
				if !sideReceive(r, cl, wc, *filler) {
					return stuck("the overlapping receive")
				}
				r.Note("overlap", "second-receive-while-straggler-pending")
			}
		}
		for i := range cl.w {
			if wc.Modes[i] == mSlow {
				openBarrier(i, blocked)
			}
		}
	case "ctx-blocked":
		// everything that is not slow finishes; then, with the slow replicas (gated or ctx-aware) in the
		// middle of their upload, the caller's context ends; ctx-aware replicas abort, gated ones
		// (which ignore the context) are released afterwards and store the blob.
		for i := range cl.w {
			slow := wc.Modes[i] == mSlow || wc.Modes[i] == mCtx
			if !slow && !waitFor(ctls[i].done, watchdog) {
				return stuck(fmt.Sprintf("return of replica %d", i))
			}
			if slow && !waitFor(ctls[i].arrived, watchdog) {
				return stuck(fmt.Sprintf("call of replica %d", i))
			}
		}
		blocked := !waitFor(ret, pickWait)
		endCaller()
		for i := range cl.w {
			if wc.Modes[i] == mCtx && !waitFor(ctls[i].done, watchdog) {
				return stuck(fmt.Sprintf("return of ctx-aware replica %d", i))
			}
		}
		for i := range cl.w {
			if wc.Modes[i] == mSlow {
				openBarrier(i, blocked)
			}
		}
	case "ctx-early":
		// the context ends as soon as the ctx-aware replicas were called, racing with everything else
		for i := range cl.w {
			if wc.Modes[i] == mCtx && !waitFor(ctls[i].arrived, watchdog) {
				return stuck(fmt.Sprintf("call of replica %d", i))
			}
		}
		endCaller()
		for i := range cl.w {
			if wc.Modes[i] == mSlow {
				if !waitFor(ctls[i].arrived, watchdog) {
					return stuck(fmt.Sprintf("call of replica %d", i))
				}
				openBarrier(i, false)
			}
		}
	case "perm":
		// fully serialised: replica Order[0] completes, then (if the call has not returned) Order[1], …
		blocked := false
		for _, i := range wc.Order {
			if !waitFor(ctls[i].arrived, watchdog) {
				return stuck(fmt.Sprintf("call of replica %d", i))
			}
			if wc.Modes[i] == mCtx {
				endCaller() // a ctx-aware replica "completes" by having its context ended (all of them at once)
			} else {
				openBarrier(i, blocked)
			}
			if !waitFor(ctls[i].done, watchdog) {
				return stuck(fmt.Sprintf("return of replica %d", i))
			}
			if !closed(ret) {
				blocked = !waitFor(ret, pickWait)
			}
		}
	}
	endCaller() // (no-op unless the case has a caller context that was not ended by its schedule)
	// every barrier is open now: all replicas finish, and the call must return
	allDone := true
	for i := range cl.w {
		if !waitFor(ctls[i].done, watchdog) {
			allDone = false
			stuck(fmt.Sprintf("return of replica %d", i))
			break
		}
	}
	if !allDone {
		return false
	}
	if !waitFor(ret, watchdog) {
		// all n lower calls have returned (logical condition), yet the receive does not: the
		// statement demands an answer (success at quorum, an error otherwise).
		r.Eval(1)
		wit.Result = "no return"
		fillObs(cl, wc, b, ctls, opened, wit)
		r.Violation(fmt.Sprintf("hang/receive-n%dm%d", cl.n, cl.m),
			fmt.Sprintf("[%s] ReceiveBlob did not return within %v after all %d replicas had returned (modes %v, schedule %s)", cl.cfg(), watchdog, n, wit.ModeList, wc.schedDesc()), wit)
		return false
	}
	if panicked != nil {
		r.Violation("panic/receive", fmt.Sprintf("[%s] ReceiveBlob panicked: %v (modes %v)", cl.cfg(), panicked, wit.ModeList), wit)
		return false
	}
	wit.AckSeq = ackSeq
	if rerr == nil {
		wit.Result = fmt.Sprintf("ok %v", sb)
	} else {
		wit.Result = "error: " + rerr.Error()
	}
	fillObs(cl, wc, b, ctls, opened, wit)
	// the call returned before some replica was allowed to finish iff a barrier was opened after the return
	ackedEarly := false
	for _, o := range opened {
		if o == "after-return" {
			ackedEarly = true
		}
	}
	judgeWrite(r, cl, wc, b, ctls, sb, rerr, ackSeq, ackedEarly, wit)
	return true
}

func storedEvent(nd *node, ref blob.Ref) (inject.StoreEvent, bool) {
	evs := nd.wrap.StoredEvents()
	for i := len(evs) - 1; i >= nd.evBase && i >= 0; i-- {
		if evs[i].Ref == ref {
			return evs[i], true
		}
	}
	return inject.StoreEvent{}, false
}

func fillObs(cl *cluster, wc *wcase, b sto.Blob, ctls []*ctl, opened []string, wit *writeWitness) {
	wit.Replicas = nil
	for i, nd := range cl.w {
		o := repObs{Replica: nd.name, Mode: modeNames[wc.Modes[i]], OpenedBefore: opened[i]}
		if e, ok := storedEvent(nd, b.Ref); ok {
			o.StoredSeq, o.StoredSize = e.Seq, e.Size
		}
		if closed(ctls[i].done) {
			o.DoneSeq = ctls[i].doneSeq
			if ctls[i].err != nil {
				o.Returned = "error: " + ctls[i].err.Error()
			} else {
				o.Returned = fmt.Sprintf("ok size=%d", ctls[i].sb.Size)
			}
		} else {
			o.Returned = "(not returned)"
		}
		wit.Replicas = append(wit.Replicas, o)
	}
}

func judgeWrite(r *ev.Run, cl *cluster, wc *wcase, b sto.Blob, ctls []*ctl, sb blob.SizedRef, rerr error, ackSeq int64, ackedEarly bool, wit *writeWitness) {
	n, m := cl.n, cl.m
	trueSize := uint32(len(b.Data))
	nm := fmt.Sprintf("n%dm%d", n, m)
	class := wc.class()
	r.Count("receives", 1)
	r.Count(fmt.Sprintf("recv_%s_%s", nm, class), 1)
	r.Note("assignment_class", class)
	r.Note("schedules", wc.Sched)
	if wc.M < wc.N || class != "all-ok" {
		r.Distinct(wc.ID)
	}
	if wc.N == 3 && wc.Sched == "perm" && class == "quorum-needs-slow-replica" {
		r.Sample(wit)
	}

	// What the replica store handed to its replicas under this ref.  A replica that is given other
	// bytes cannot store the blob: a verifying backend rejects them although it is healthy, a
	// non-verifying one (most are; blobserver.Receive verifies once, above the replica store)
	// holds and serves garbage under the blob's ref.
	if !checkHanded(r, cl, b, ctls, wit) {
		return
	}

	// Harness self-check: every replica behaved as assigned (else the case says nothing).
	for i, nd := range cl.w {
		c := ctls[i]
		okRet := c.err == nil && c.sb.Size == trueSize
		misRet := c.err == nil && c.sb.Size != trueSize
		_, stored := storedEvent(nd, b.Ref)
		var good bool
		switch wc.Modes[i] {
		case mOK, mSlow:
			good = okRet && stored
		case mErr, mCtx:
			good = c.err != nil && !stored
		case mEAE:
			good = c.err != nil && stored
		case mMis:
			good = misRet && stored
		}
		if !good {
			r.Inconclusive(fmt.Sprintf("%s: replica %d did not behave as planned (%s): returned (%v, %v), stored=%v", wc.ID, i, modeNames[wc.Modes[i]], c.sb, c.err, stored))
			return
		}
	}
	for _, nd := range cl.w {
		for _, d := range nd.plan.Delivered {
			r.Note("modes_delivered", d.Mode)
		}
		nd.plan.Delivered = nil // quiescent: no call is in flight on this plan
	}

	// Quorum count at the ack.  A replica counts iff (a) its wrapper emitted `stored` for this blob
	// with the true size before the ack in the global sequence, and (b) it did not acknowledge a
	// different size.  (b) is the misreport decision: the property says "stored the blob with the
	// correct size … whatever subset … misreports"; from above a replica, the size it stored IS the
	// size it reports, so a replica reporting size+7 is one that did not store the blob with the
	// correct size — that the injector's inner memory map holds the right bytes is an artefact of
	// how the wrong report is produced.  A lost-ack replica (stored, then error) did store it.
	quorum := 0
	for i, nd := range cl.w {
		e, ok := storedEvent(nd, b.Ref)
		misreported := ctls[i].err == nil && ctls[i].sb.Size != trueSize
		if ok && e.Size == trueSize && e.Seq < ackSeq && !misreported {
			quorum++
		}
	}
	can := wc.canSucceed()
	noteRound4(r, cl, wc, class, quorum, rerr, ackedEarly)
	if rerr == nil {
		r.Note("outcomes", "ack")
		r.Count("ack_"+nm, 1)
		if ackedEarly {
			r.Note("outcomes", "ack-before-all-replicas-done")
		}
		r.Eval(3)
		if sb.Ref != b.Ref || sb.Size != trueSize {
			r.Violation("wrong-size-acked/"+nm,
				fmt.Sprintf("[%s] ReceiveBlob of %v (%d bytes) acknowledged %v (modes %v, schedule %s)", cl.cfg(), b.Ref, trueSize, sb, wit.ModeList, wc.schedDesc()), wit)
		}
		if quorum < m {
			r.Violation("ack-below-quorum/"+nm,
				fmt.Sprintf("[%s] ReceiveBlob acknowledged success when only %d replica(s) had stored the blob with the correct size (minWritesForSuccess=%d; modes %v, schedule %s)", cl.cfg(), quorum, m, wit.ModeList, wc.schedDesc()), wit)
		}
		if can < m {
			r.Violation("ack-when-quorum-impossible/"+nm,
				fmt.Sprintf("[%s] ReceiveBlob acknowledged success although only %d replica(s) ever acknowledged the blob with the right size (minWritesForSuccess=%d; modes %v)", cl.cfg(), can, m, wit.ModeList), wit)
		}
	} else {
		r.Note("outcomes", "error")
		r.Count("err_"+nm, 1)
		if !ackedEarly {
			r.Note("outcomes", "error-after-all-replicas-done")
		}
		r.Eval(1)
		if wc.lenientErr {
			r.Note("outcomes", "error-after-caller-context-ended")
		} else if can >= m {
			r.Violation("error-despite-quorum/"+nm,
				fmt.Sprintf("[%s] ReceiveBlob failed (%v) although %d replica(s) stored and acknowledged the blob (minWritesForSuccess=%d; modes %v, schedule %s)", cl.cfg(), rerr, can, m, wit.ModeList, wc.schedDesc()), wit)
		}
	}

	// Quiescent replica contents: a replica that holds something under this ref holds the blob's bytes
	// (a replica that stored other bytes of the right size has not stored the blob).
	checkBytes(r, cl, b, wit)

	// Quiescent read-back: the blob is fetchable / stat'able through the replica store iff some
	// READ replica holds it now (all replicas have finished this receive).
	readBack(r, cl, b, "after-write", wit)
}

func checkHanded(r *ev.Run, cl *cluster, b sto.Blob, ctls []*ctl, wit any) bool {
	ok := true
	for i, nd := range cl.w {
		c := ctls[i]
		if !closed(c.done) {
			continue
		}
		r.Eval(1)
		r.Count("replica_input_compared", 1)
		// every replica mode of this harness reads its input to the end (the injected error drains it)
		if !bytes.Equal(b.Data, c.handed) {
			ok = false
			r.Violation(fmt.Sprintf("replica-handed-wrong-bytes/n%dm%d", cl.n, cl.m),
				fmt.Sprintf("[%s] the replica store gave replica %s %d bytes under %v that are not the blob's %d bytes (first difference at offset %d); the replica answered (%v, %v)", cl.cfg(), nd.name, len(c.handed), b.Ref, len(b.Data), firstDiff(string(c.handed), string(b.Data)), c.sb, c.err), wit)
		}
	}
	return ok
}

func checkBytes(r *ev.Run, cl *cluster, b sto.Blob, wit any) {
	for _, nd := range cl.w {
		s, ok := nd.mem.BlobContents(b.Ref)
		if !ok {
			continue
		}
		r.Eval(1)
		r.Count("replica_bytes_compared", 1)
		if s != string(b.Data) {
			r.Violation("replica-stored-wrong-bytes/after-write",
				fmt.Sprintf("[%s] replica %s holds %d bytes under %v that are not the blob's %d bytes (first difference at offset %d)", cl.cfg(), nd.name, len(s), b.Ref, len(b.Data), firstDiff(s, string(b.Data))), wit)
		}
	}
}

func firstDiff(a, b string) int {
	for i := 0; i < len(a) && i < len(b); i++ {
		if a[i] != b[i] {
			return i
		}
	}
	return min(len(a), len(b))
}

// sideReceive receives fb through the replica store with every replica healthy (no fault is planned
// at these call indices) and waits until every replica has finished it.  It returns false when
// something never came back.
func sideReceive(r *ev.Run, cl *cluster, wc *wcase, fb sto.Blob) bool {
	ctls := make([]*ctl, cl.n)
	for i, nd := range cl.w {
		ctls[i] = newCtl(false)
		nd.ts.set(fb.Ref, ctls[i])
	}
	defer func() {
		for _, nd := range cl.w {
			nd.ts.set(fb.Ref, nil)
		}
	}()
	var sb blob.SizedRef
	var err error
	if !ev.WithTimeout(watchdog, func() {
		sb, err = blobserver.Receive(context.Background(), cl.s, fb.Ref, bytes.NewReader(fb.Data))
	}) {
		return false
	}
	for i := range cl.w {
		if !waitFor(ctls[i].done, watchdog) {
			return false
		}
	}
	nm := fmt.Sprintf("n%dm%d", cl.n, cl.m)
	wit := map[string]any{"case_id": wc.ID, "case": wc, "overlapping_blob": fb.Ref.String()}
	r.Eval(1)
	r.Count("overlapping_receives", 1)
	switch {
	case err != nil:
		r.Violation("error-despite-quorum/"+nm, fmt.Sprintf("[%s] a receive of %v with all %d replicas healthy, issued while stragglers of an earlier receive were pending, failed: %v", cl.cfg(), fb.Ref, cl.n, err), wit)
	case sb.Ref != fb.Ref || int(sb.Size) != len(fb.Data):
		r.Violation("wrong-size-acked/"+nm, fmt.Sprintf("[%s] receive of %v (%d bytes) acknowledged %v", cl.cfg(), fb.Ref, len(fb.Data), sb), wit)
	}
	checkHanded(r, cl, fb, ctls, wit)
	checkBytes(r, cl, fb, wit)
	return true
}

// readBack compares fetch and single stat of b through the replica store with the contents of the
// read replicas.
func readBack(r *ev.Run, cl *cluster, b sto.Blob, site string, wit any) {
	holders := 0
	for _, nd := range cl.read {
		if nd.holds(b) {
			holders++
		}
	}
	ctx := context.Background()
	rc, size, err := cl.s.Fetch(ctx, b.Ref)
	var data []byte
	if err == nil {
		data, err = io.ReadAll(rc)
		rc.Close()
	}
	r.Eval(2)
	switch {
	case holders > 0 && err != nil:
		r.Violation(fmt.Sprintf("fetch-missed-replica/%s-n%d", site, cl.n),
			fmt.Sprintf("[%s] fetch of %v failed (%v) although %d read replica(s) hold it", cl.cfg(), b.Ref, err, holders), wit)
	case holders > 0 && (!bytes.Equal(data, b.Data) || int(size) != len(b.Data)):
		r.Violation("fetch-content/"+site, fmt.Sprintf("[%s] fetch of %v returned %d bytes, size %d; want %d", cl.cfg(), b.Ref, len(data), size, len(b.Data)), wit)
	case holders == 0 && err == nil:
		r.Violation("fetch-absent-served/"+site, fmt.Sprintf("[%s] fetch of %v succeeded although no read replica holds it", cl.cfg(), b.Ref), wit)
	}
	var got []blob.SizedRef
	var mu sync.Mutex
	err = cl.s.StatBlobs(ctx, []blob.Ref{b.Ref}, func(s blob.SizedRef) error {
		mu.Lock()
		got = append(got, s)
		mu.Unlock()
		return nil
	})
	switch {
	case err != nil:
		r.Violation("op-error/"+site+".stat", fmt.Sprintf("[%s] stat of %v: %v", cl.cfg(), b.Ref, err), wit)
	case len(got) > 1:
		r.Violation("stat-dup", fmt.Sprintf("[%s] stat of %v reported it %d times (%d read replicas hold it)", cl.cfg(), b.Ref, len(got), holders), wit)
	case holders > 0 && len(got) == 0:
		r.Violation("stat-missing/"+site, fmt.Sprintf("[%s] stat did not report %v although %d read replica(s) hold it", cl.cfg(), b.Ref, holders), wit)
	case holders == 0 && len(got) > 0:
		r.Violation("stat-absent-served/"+site, fmt.Sprintf("[%s] stat reported %v although no read replica holds it", cl.cfg(), b.Ref), wit)
	case len(got) == 1 && (got[0].Ref != b.Ref || int(got[0].Size) != len(b.Data)):
		r.Violation("stat-wrong-size/"+site, fmt.Sprintf("[%s] stat of %v (%d bytes) reported %v", cl.cfg(), b.Ref, len(b.Data), got[0]), wit)
	}
}

// auditReads drives a read-only sto.Checker whose reference map is the union of the read replicas.
func auditReads(r *ev.Run, cl *cluster, universe []sto.Blob, rng *rand.Rand, full bool, site string, wit any) {
	reports := 0
	report := func(sig, what string) {
		reports++
		if reports > 5 {
			return
		}
		r.Violation(mapSig(sig, site, cl.n), fmt.Sprintf("[%s] %s", cl.cfg(), what), wit)
	}
	c := sto.NewChecker(cl.s, "replica", sto.Caps{Receive: false, Remove: false}, universe, report)
	for _, b := range universe {
		for _, nd := range cl.read {
			if nd.holds(b) {
				c.Present[b.Ref] = b.Data
				break
			}
		}
	}
	c.Audit(rng, full)
	r.Eval(c.Evals)
	for op, k := range c.Ops {
		r.Count("audit_"+op, k)
	}
}

// mapSig turns the checker's class/label.op signature into this check's signatures.
func mapSig(sig, site string, n int) string {
	class, rest, _ := strings.Cut(sig, "/")
	op := rest
	if i := strings.LastIndexByte(rest, '.'); i >= 0 {
		op = rest[i+1:]
	}
	switch {
	case class == "present-missing" && op == "fetch":
		return fmt.Sprintf("fetch-missed-replica/%s-n%d", site, n)
	case class == "stat-dup":
		return "stat-dup"
	case class == "enum-dup":
		return "enum-dup"
	}
	return fmt.Sprintf("%s/%s.%s", class, site, op)
}

// noteRound4 records which of the round-4 situations a judged receive was (evidence only).
func noteRound4(r *ev.Run, cl *cluster, wc *wcase, class string, quorum int, rerr error, ackedEarly bool) {
	// below quorum with every non-acknowledging replica failing in the same way
	if class == "quorum-impossible" {
		how, uniform := "", true
		for i, m := range wc.Modes {
			var h string
			switch m {
			case mOK, mSlow:
				continue
			case mErr:
				h = kindName(m, wc.kind(i))
			case mEAE:
				h = "lost-ack:" + kindName(m, wc.kind(i))
			case mMis:
				h = kindName(m, wc.kind(i))
			case mCtx:
				h = "ctx-slow-aborted"
			}
			if how != "" && h != how {
				uniform = false
			}
			how = h
		}
		if uniform && how != "" {
			r.Note("below_quorum_every_failure_is", how)
		}
	}
	// config family: receives that a quorum taken from len(readBackends) would decide differently
	if cl.family == "wc" && cl.minCfg == "default" && cl.distinct {
		nr, can := len(cl.read), wc.canSucceed()
		if nr < cl.n && can >= nr && can < cl.n {
			r.Note("cfg_below_default_quorum", "read-shorter/stored-by-at-least-len(readBackends)")
		}
		if nr > cl.n && can == cl.n {
			r.Note("cfg_below_default_quorum", "read-longer/all-write-replicas-ok")
		}
	}
	if wc.Ctx != "" {
		for i, m := range wc.Modes {
			if m == mCtx {
				r.Note("caller_context_outcomes", "ctx-aware-replica-aborted")
			}
			if m == mSlow && wc.lenientErr {
				_ = i
				r.Note("caller_context_outcomes", "gated-replica-stored-after-context-ended")
			}
		}
		switch {
		case wc.lenientErr && rerr != nil && wc.Sched == "ctx-blocked":
			r.Note("caller_context_outcomes", "ended-while-call-blocked/error")
		case wc.lenientErr && rerr != nil:
			r.Note("caller_context_outcomes", "ended-before-return/error")
		case wc.lenientErr && quorum >= cl.m:
			r.Note("caller_context_outcomes", "ended-before-return/ack-with-quorum")
		case !wc.lenientErr && rerr == nil:
			r.Note("caller_context_outcomes", "ended-after-return/ack")
		case !wc.lenientErr:
			r.Note("caller_context_outcomes", "ended-after-return/error")
		}
	}
}
