package main

// WHICH error a failing replica returns, and HOW a misreporting replica misreports (round 4).
//
// The quantifier says "whatever subset of replicas fails, is slow or misreports"; it does not say
// "fails with an error the replica store has never heard of".  Real backends fail with sentinel
// errors that code above them likes to special-case: a remote backend whose request was aborted
// returns (something wrapping) context.Canceled or context.DeadlineExceeded, a truncated upload
// gives io.ErrUnexpectedEOF, a vanished directory os.ErrNotExist, …  Whatever the error is, a
// replica that returned one has not acknowledged the blob, and a receive that ends below quorum has
// to report an error.  The we/ family therefore repeats the ok/fail subsets of the w/ family with
// every failing replica returning the same sentinel ("uniform": the result cannot be rescued by
// some OTHER replica's ordinary error), for every sentinel below, plus seeded mixtures.
//
// The injector (inject.Storage) always fails with inject.ErrInjected and always misreports
// size+7; the substitution happens in this check's own layer above it (turnstile.ReceiveBlob ->
// applyKind), so the injector's stored events / call counting stay what they are.

import (
	"context"
	"errors"
	"fmt"
	"io"
	"net/url"
	"os"
	"strings"
	"syscall"

	"perkeep.org/pkg/blob"
	"perkeep.org/pkg/blobserver"

	"verif.local/harness/ev"
	"verif.local/harness/inject"
)

type errKind struct {
	name string
	mk   func(br blob.Ref) error
	// keepSB: the replica returns the blob's correct SizedRef TOGETHER with the error (an error
	// answer is a failure whatever else is returned with it)
	keepSB bool
}

// errKinds[0] is the injector's own error.  Append only (the index is not part of a case id, the
// name is).
var errKinds = []errKind{
	{name: "injected", mk: nil},
	{name: "ctx-canceled", mk: func(blob.Ref) error { return context.Canceled }},
	{name: "wrapped-ctx-canceled", mk: func(br blob.Ref) error { return fmt.Errorf("PUT %v: %w", br, context.Canceled) }},
	{name: "url-error-ctx-canceled", mk: func(br blob.Ref) error {
		return &url.Error{Op: "Put", URL: "https://replica.example/" + br.String(), Err: context.Canceled}
	}},
	{name: "ctx-deadline", mk: func(blob.Ref) error { return context.DeadlineExceeded }},
	{name: "wrapped-ctx-deadline", mk: func(br blob.Ref) error { return fmt.Errorf("PUT %v: %w", br, context.DeadlineExceeded) }},
	{name: "io-eof", mk: func(blob.Ref) error { return io.EOF }},
	{name: "unexpected-eof", mk: func(blob.Ref) error { return io.ErrUnexpectedEOF }},
	{name: "os-not-exist", mk: func(blob.Ref) error { return os.ErrNotExist }},
	{name: "path-error-enoent", mk: func(br blob.Ref) error {
		return &os.PathError{Op: "open", Path: "/replica/" + br.String() + ".dat", Err: syscall.ENOENT}
	}},
	{name: "corrupt-blob", mk: func(blob.Ref) error { return blobserver.ErrCorruptBlob }},
	{name: "os-deadline", mk: func(blob.Ref) error { return os.ErrDeadlineExceeded }},
	{name: "closed-pipe", mk: func(blob.Ref) error { return io.ErrClosedPipe }},
	{name: "joined-canceled-and-injected", mk: func(blob.Ref) error { return errors.Join(context.Canceled, inject.ErrInjected) }},
	{name: "injected-with-correct-sizedref", mk: func(blob.Ref) error { return inject.ErrInjected }, keepSB: true},
	{name: "ctx-canceled-with-correct-sizedref", mk: func(blob.Ref) error { return context.Canceled }, keepSB: true},
}

// misKinds: how a misreporting replica (no error, wrong answer) is wrong.  0 = the injector's size+7.
var misKinds = []string{"plus7", "zero-sizedref", "zero-size", "minus-one"}

// ctxKinds: how a ctx-aware slow replica (mCtx) reports that its context ended.
var ctxKinds = []string{"ctx-err", "wrapped-ctx-err", "url-error-ctx-err"}

func kindName(mode, k int) string {
	switch mode {
	case mErr, mEAE:
		if k >= 0 && k < len(errKinds) {
			return errKinds[k].name
		}
	case mMis:
		if k >= 0 && k < len(misKinds) {
			return misKinds[k]
		}
	case mCtx:
		if k >= 0 && k < len(ctxKinds) {
			return ctxKinds[k]
		}
	}
	return ""
}

func (c *wcase) kindStrings() []string {
	if len(c.Kinds) == 0 {
		return nil
	}
	out := make([]string, len(c.Modes))
	for i := range c.Modes {
		out[i] = kindName(c.Modes[i], c.kind(i))
	}
	return out
}

// applyKind turns what the injector made the replica return into the case's variant of it.
func applyKind(c *ctl, br blob.Ref, sb blob.SizedRef, err error) (blob.SizedRef, error) {
	if c.kind == 0 {
		return sb, err
	}
	switch c.mode {
	case mErr, mEAE:
		if err != nil && c.kind < len(errKinds) {
			k := errKinds[c.kind]
			if k.keepSB {
				return blob.SizedRef{Ref: br, Size: c.trueSize}, k.mk(br)
			}
			return blob.SizedRef{}, k.mk(br)
		}
	case mMis:
		if err != nil || c.trueSize == 0 && c.kind != 3 {
			// for the empty blob a zero size is the RIGHT size: keep the injector's size+7
			return sb, err
		}
		switch c.kind {
		case 1:
			return blob.SizedRef{}, nil // "success" without saying what was stored
		case 2:
			return blob.SizedRef{Ref: br, Size: 0}, nil
		case 3:
			return blob.SizedRef{Ref: br, Size: c.trueSize - 1}, nil // (empty blob: 2^32-1)
		}
	}
	return sb, err
}

// ctxAbortErr is what a ctx-aware replica returns when its context ended during the upload.
func ctxAbortErr(kind int, br blob.Ref, ctx context.Context) error {
	switch kind {
	case 1:
		return fmt.Errorf("upload of %v aborted: %w", br, ctx.Err())
	case 2:
		return &url.Error{Op: "Put", URL: "https://replica.example/" + br.String(), Err: ctx.Err()}
	}
	return ctx.Err()
}

// ------------------------------------------------------------------ we/ family

func modeKindStrings(modes, kinds []int) string {
	ms := make([]string, len(modes))
	for i, x := range modes {
		ms[i] = modeNames[x]
		if i < len(kinds) && kinds[i] != 0 {
			ms[i] += ":" + kindName(x, kinds[i])
		}
	}
	return strings.Join(ms, ",")
}

func schedString(sched string, order []int) string {
	if sched != "perm" {
		return sched
	}
	os := make([]string, len(order))
	for i, o := range order {
		os[i] = fmt.Sprint(o)
	}
	return "perm-" + strings.Join(os, "")
}

// errKindCases enumerates the we/ receives of one (n, m): same read and write set, explicit m.
func errKindCases(r *ev.Run, n, m int) []wcase {
	rng := r.Rand(fmt.Sprintf("wecases/n%d/m%d", n, m))
	all := perms(n)
	var out []wcase
	seen := map[string]bool{}
	add := func(modes, kinds []int, sched string, order []int) {
		id := fmt.Sprintf("we/n%dm%d/%s/%s;", n, m, modeKindStrings(modes, kinds), schedString(sched, order))
		if seen[id] {
			return
		}
		seen[id] = true
		out = append(out, wcase{ID: id, N: n, M: m, Modes: append([]int(nil), modes...), Kinds: append([]int(nil), kinds...),
			Sched: sched, Order: append([]int(nil), order...)})
	}
	// uniform: every failing replica fails in the same way
	uniform := func(mode, kind int) {
		for mask := 1; mask < 1<<n; mask++ {
			modes, kinds := make([]int, n), make([]int, n)
			for i := 0; i < n; i++ {
				if mask&(1<<i) != 0 {
					modes[i], kinds[i] = mode, kind
				}
			}
			add(modes, kinds, "free", nil)
			add(modes, kinds, "perm", all[rng.Intn(len(all))])
		}
	}
	for k := 1; k < len(errKinds); k++ {
		uniform(mErr, k)
		uniform(mEAE, k)
	}
	for k := 1; k < len(misKinds); k++ {
		uniform(mMis, k)
	}
	// seeded mixtures: any mode per replica, any kind per failing replica
	if n >= 2 {
		for i := 0; i < r.Pick(40, 600); i++ {
			modes, kinds := make([]int, n), make([]int, n)
			failing := false
			for j := range modes {
				modes[j] = rng.Intn(nModes)
				switch modes[j] {
				case mErr, mEAE:
					kinds[j] = rng.Intn(len(errKinds))
					failing = true
				case mMis:
					kinds[j] = rng.Intn(len(misKinds))
					failing = true
				}
			}
			if !failing {
				j := rng.Intn(n)
				modes[j], kinds[j] = mErr, 1+rng.Intn(len(errKinds)-1)
			}
			c := wcase{Modes: modes}
			switch k := rng.Intn(3); {
			case k == 0 && c.hasSlow():
				add(modes, kinds, "free-late", nil)
			case k == 1 && c.hasSlow():
				add(modes, kinds, "free-early", nil)
			case k == 0:
				add(modes, kinds, "free", nil)
			default:
				add(modes, kinds, "perm", all[rng.Intn(len(all))])
			}
		}
	}
	return out
}

// familyJobs shards the cases of one (n, m) of a family that runs on plain same-read-set clusters.
func familyJobs(r *ev.Run, family string, gen func(r *ev.Run, n, m int) []wcase, planned *int) []job {
	var jobs []job
	for n := 1; n <= 4; n++ {
		for m := 1; m <= n; m++ {
			var sel []wcase
			for _, c := range gen(r, n, m) {
				if r.Only(c.ID) {
					sel = append(sel, c)
				}
			}
			*planned += len(sel)
			const shardSize = 80 // small shards: these cases mostly wait (serialised completion orders)
			for i := 0; i < len(sel); i += shardSize {
				shard := sel[i:min(i+shardSize, len(sel))]
				n, m, si := n, m, i/shardSize
				jobs = append(jobs, func() {
					cl, err := newCluster(n, m, false, "ReceiveBlob")
					if err != nil {
						r.Inconclusive(err.Error())
						return
					}
					cl.family = family
					runShardOn(r, cl, si, shard)
				})
			}
		}
	}
	return jobs
}

func errKindJobs(r *ev.Run) []job {
	planned := 0
	jobs := familyJobs(r, "we", errKindCases, &planned)
	r.Extra("error_kind_receive_cases_planned", planned)
	return jobs
}
