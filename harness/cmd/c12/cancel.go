package main

// wx/ family (round 4): the CALLER's context ends while replicas are uploading.
//
// A replica in mode ctx-slow (mCtx) honours its context: it is in the middle of its upload (held by
// the turnstile) and, when the context of the receive ends, aborts, stores nothing and returns the
// context's error — bare, wrapped, or inside a *url.Error as net/http reports it.  Gated replicas
// (mode gate) ignore the context, as the memory store does, and store the blob when released.
//
// What is judged: an acknowledgement (nil error) still needs the quorum of `stored` events before
// it and must name the blob with its size, whoever ended whichever context; and when the context
// ended only after the call had been SEEN to have returned, the ordinary rules apply in full.  When
// the context ended before that, an error is always an acceptable answer (not judged).
//
// Context kinds: cancel (context.WithCancel), deadline (a context whose Err() is
// context.DeadlineExceeded, ended by the harness — no clock involved), and pre-cancel /
// pre-deadline (already over when the call starts).

import (
	"context"
	"fmt"
	"sync"
	"time"

	"verif.local/harness/ev"
)

// manualCtx is a context that ends when the harness says so, with the error the harness chose.
type manualCtx struct {
	done chan struct{}
	once sync.Once
	mu   sync.Mutex
	err  error
	with error
}

func (c *manualCtx) Deadline() (time.Time, bool) { return time.Time{}, false }
func (c *manualCtx) Done() <-chan struct{}       { return c.done }
func (c *manualCtx) Value(any) any               { return nil }
func (c *manualCtx) Err() error {
	c.mu.Lock()
	defer c.mu.Unlock()
	return c.err
}
func (c *manualCtx) end() {
	c.once.Do(func() {
		c.mu.Lock()
		c.err = c.with
		c.mu.Unlock()
		close(c.done)
	})
}

// callerCtx returns the context a case's receive is called with and the function that ends it.
func callerCtx(kind string) (context.Context, func()) {
	switch kind {
	case "cancel", "pre-cancel":
		return context.WithCancel(context.Background())
	case "deadline", "pre-deadline":
		c := &manualCtx{done: make(chan struct{}), with: context.DeadlineExceeded}
		return c, c.end
	}
	return context.Background(), func() {}
}

func cancelCases(r *ev.Run, n, m int) []wcase {
	rng := r.Rand(fmt.Sprintf("wxcases/n%d/m%d", n, m))
	all := perms(n)
	var out []wcase
	choices := []int{mOK, mErr, mSlow, mCtx}
	total := 1
	for i := 0; i < n; i++ {
		total *= len(choices)
	}
	for a := 0; a < total; a++ {
		modes, kinds := make([]int, n), make([]int, n)
		x, hasCtx := a, false
		for i := range modes {
			modes[i] = choices[x%len(choices)]
			x /= len(choices)
			switch modes[i] {
			case mCtx:
				hasCtx = true
				kinds[i] = rng.Intn(len(ctxKinds))
			case mErr:
				kinds[i] = rng.Intn(len(errKinds))
			}
		}
		// (the PRNG is consumed for every assignment so that the kinds of a case do not depend on the tier)
		keep := rng.Intn(3) == 0
		if !hasCtx {
			continue
		}
		if n == 4 && !r.Thorough() && !keep {
			continue // quick: a seeded third of the n = 4 assignments
		}
		add := func(ctx, sched string, order []int) {
			id := fmt.Sprintf("wx/n%dm%d/%s/%s/%s;", n, m, modeKindStrings(modes, kinds), ctx, schedString(sched, order))
			out = append(out, wcase{ID: id, N: n, M: m, Modes: append([]int(nil), modes...), Kinds: append([]int(nil), kinds...),
				Sched: sched, Order: append([]int(nil), order...), Ctx: ctx})
		}
		for _, ctx := range []string{"cancel", "deadline"} {
			add(ctx, "ctx-blocked", nil)
			add(ctx, "ctx-early", nil)
			add(ctx, "perm", all[rng.Intn(len(all))])
		}
		add("pre-cancel", "ctx-early", nil)
		add("pre-deadline", "ctx-early", nil)
	}
	return out
}

func cancelJobs(r *ev.Run) []job {
	planned := 0
	jobs := familyJobs(r, "wx", cancelCases, &planned)
	r.Extra("caller_context_receive_cases_planned", planned)
	return jobs
}
