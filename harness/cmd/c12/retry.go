package main

import (
	"bytes"
	"context"
	"fmt"

	"go4.org/jsonconfig"
	"perkeep.org/pkg/blob"
	"perkeep.org/pkg/blobserver"
	"perkeep.org/pkg/blobserver/memory"

	"verif.local/harness/ev"
	"verif.local/harness/inject"
	"verif.local/harness/sto"
)

// Retried and pre-existing blobs (added after a seeded change that acknowledged a write as soon
// as ANY replica already held the blob): the quorum rule must also hold for a blob that is
// already on some replica — after a failed earlier attempt, or because a read-only replica has it.
func runRetryCases(r *ev.Run) {
	ctx := context.Background()
	for n := 2; n <= 4; n++ {
		for m := 1; m <= n; m++ {
			for _, scenario := range []string{"retry-after-failed-write", "only-read-replica-has-it"} {
				for nOK := 0; nOK < n; nOK++ { // replicas 0..nOK-1 healthy, the rest fail every ReceiveBlob
					id := fmt.Sprintf("retry/n%dm%d/%s/ok%d;", n, m, scenario, nOK)
					if !r.Only(id) {
						continue
					}
					ld := sto.NewLoader()
					var inner []*memory.Storage
					var prefixes []any
					for i := 0; i < n; i++ {
						ms := &memory.Storage{}
						inner = append(inner, ms)
						p := inject.NewPlan()
						if i >= nOK {
							p.Match = func(layer, op string) bool { return op == "ReceiveBlob" }
							for k := int64(0); k < 8; k++ {
								p.FaultAt(k, inject.Error)
							}
						}
						prefix := fmt.Sprintf("/r%d/", i)
						ld.Set(prefix, inject.Wrap(fmt.Sprintf("r%d", i), ms, p))
						prefixes = append(prefixes, prefix)
					}
					conf := jsonconfig.Obj{"backends": prefixes, "minWritesForSuccess": float64(m)}
					b := sto.FromBytes([]byte("retry blob " + id))
					if scenario == "only-read-replica-has-it" {
						x := &memory.Storage{}
						sto.StoreAll(x, []sto.Blob{b})
						ld.Set("/x/", x)
						conf["readBackends"] = []any{"/x/"}
					}
					rep, err := blobserver.CreateStorage("replica", ld, conf)
					if err != nil {
						r.Inconclusive("replica: " + err.Error())
						return
					}
					holders := func() int {
						c := 0
						for _, ms := range inner {
							if s, ok := ms.BlobContents(b.Ref); ok && len(s) == len(b.Data) {
								c++
							}
						}
						return c
					}
					attempts := 1
					if scenario == "retry-after-failed-write" {
						attempts = 3
					}
					for a := 0; a < attempts; a++ {
						var sb blob.SizedRef
						var rerr error
						ok := ev.WithTimeout(watchdog, func() {
							sb, rerr = blobserver.Receive(ctx, rep, b.Ref, bytes.NewReader(b.Data))
						})
						r.Eval(1)
						r.Distinct(fmt.Sprintf("%s#%d", id, a))
						r.Note("retry_scenarios", scenario)
						wit := map[string]any{"case_id": id, "n": n, "minWrites": m, "healthy_replicas": nOK, "attempt": a, "scenario": scenario}
						if !ok {
							r.Violation("hang/receive-retry", fmt.Sprintf("%s attempt %d: ReceiveBlob did not return", id, a), wit)
							return
						}
						h := holders() // can only have grown since the ack
						if rerr == nil {
							if h < m {
								r.Violation(fmt.Sprintf("ack-below-quorum/n%dm%d", n, m),
									fmt.Sprintf("[%s] attempt %d acknowledged %v while only %d of %d write replicas hold the blob (minWritesForSuccess=%d)", id, a, sb, h, n, m), wit)
							}
							r.Note("retry_outcomes", "ack")
						} else {
							if nOK >= m {
								r.Violation(fmt.Sprintf("error-despite-quorum/n%dm%d", n, m),
									fmt.Sprintf("[%s] attempt %d failed (%v) although %d healthy replicas suffice for minWritesForSuccess=%d", id, a, rerr, nOK, m), wit)
							}
							r.Note("retry_outcomes", "error")
						}
					}
				}
			}
		}
	}
}
