// C12 — replicated writes are acknowledged only at quorum; reads survive replica loss.
//
// The store under observation is always built with
// blobserver.CreateStorage("replica", …) over memory replicas, each behind its own
// inject.Storage (own inject.Plan).  See write.go (quorum monitor), read.go (overlap
// patterns, replica loss on fetch, stat/enumerate de-duplication) and history.go (sequential
// reference-map history with all replicas synchronous).  Round 4: cfgwrite.go (wc/: the config
// constructor's minWritesForSuccess x readBackends matrix), errkinds.go (we/: which error / wrong
// answer a failing replica gives), cancel.go (wx/: the caller's context ends during the uploads).
package main

import (
	"fmt"
	"io"
	"log"
	"os"
	"sync"

	"go4.org/jsonconfig"
	"perkeep.org/pkg/blobserver"
	"perkeep.org/pkg/blobserver/memory"
	_ "perkeep.org/pkg/blobserver/replica"

	"verif.local/harness/ev"
	"verif.local/harness/inject"
	"verif.local/harness/sto"
)

func main() {
	ev.Main("C12", "fault_enumeration",
		"replica stores over n=1..4 fault-injecting memory replicas, every minWritesForSuccess m=1..n, with and without a distinct readBackends set. "+
			"WRITES: per receive every assignment of {ok,error,misreport,error-after-effect,gate} to the replicas (5^n exhaustive for n<=3; n=4: all 2^n ok/error plus seeded mixed), "+
			"each under several completion schedules (free-running with gated replicas released early / only after the call returned or blocked; fully serialised completion orders = permutations of the replicas); "+
			"verdict from the global event order (replica `stored` events vs. the ack). "+
			"READS: every placement of 3 blobs over the read replicas / none / only a non-read replica, fetch under every subset of failing read replicas, stat+enumerate through the reference-map checker; "+
			"the same placements with every non-empty set of read replicas that report WRONG SIZES in their own stat/enumerate answers (short/long/zero/per-replica-different; about all or some blobs), and replicas that are consistently wrong on receive+stat+enumerate with blobs written through the store (each ref once, ascending, within limit, complete; which size wins is not judged); "+
			"fetch with every assignment of {ok,slow,error} to the read replicas (slow = gated Fetch released only once the fetch returned or was seen waiting). "+
			"ROUND 4: (wc/) stores built by the config constructor with minWritesForSuccess omitted / 0 / 1..n x readBackends omitted / [] / spelled out / every shorter subset / only read-only replicas / longer (write list + read-only replicas), all 2^n ok/error assignments + seeded 5-mode ones, judged against the documented quorum (default = all write replicas); "+
			"(we/) every non-empty failing subset with all its replicas returning the same sentinel error (context.Canceled / DeadlineExceeded bare, wrapped, in *url.Error; io.EOF; io.ErrUnexpectedEOF; os.ErrNotExist; *PathError; ErrCorruptBlob; …) as plain error and as lost ack, or the same wrong answer (zero SizedRef, size 0, size-1), plus seeded mixtures; "+
			"(wx/) the caller's context ends (cancel / deadline; mid-call or before the call) while ctx-aware slow replicas are uploading (they abort with the context's error) next to ok / failing / gated replicas. "+
			"ROUND 6: (wt/) receives onto replicas that ALREADY hold something under the blob's ref: every assignment (n<=3; n=4 seeded, thorough all) of {fresh, good copy, wrong-sized copy that a write replaces, wrong-sized copy that the replica keeps (answering with its size), wrong-sized copy + failing writes, failing writes, down} to the write replicas, harness-made overwrite-on-write replicas that do not re-hash (as localdisk), wrong-sized = truncated / empty / trailing garbage; verdict: an ack needs m replicas holding the blob's exact bytes at the ack (global sequence numbers), and m replicas that hold or accept it make the receive succeed; "+
			"every replica's fetched stream stays bound to the context its Fetch was called with (reads fail with the context's error once it is over, as an HTTP body does) and every judged fetch reads the stream to the end after Fetch returned. "+
			"distinct = (n,m,read set,mode assignment,schedule) resp. (n,read set,placement); non-trivial = at least one faulty/slow replica or m<n, resp. at least one blob on >=2 or 0 read replicas",
		run)
}

// node is one replica: memory store <- inject wrapper (own plan) <- liar (read misbehaviour,
// misread.go) <- turnstile (harness-side ordering).
type node struct {
	name string
	mem  *memory.Storage
	plan *inject.Plan
	wrap *inject.Storage
	liar *liar // harness-side read misbehaviour (wrong sizes in stat/enumerate, gated Fetch); passive unless set up
	ts   *turnstile
	// evBase: the wrapper's store events before this index belong to earlier cases on this replica
	evBase int
}

func newNode(name, matchOp string) *node {
	nd := &node{name: name, mem: &memory.Storage{}, plan: inject.NewPlan()}
	// only calls of one op are counted, so that "call index k" on this replica is the k-th such call
	nd.plan.Match = func(layer, op string) bool { return op == matchOp }
	w := inject.Wrap(name, nd.mem, nd.plan)
	nd.wrap = inject.Base(w)
	nd.liar = &liar{Storage: w}
	nd.ts = &turnstile{Storage: nd.liar, ctl: map[string]*ctl{}}
	return nd
}

func (nd *node) holds(b sto.Blob) bool {
	_, ok := nd.mem.BlobContents(b.Ref)
	return ok
}

// cluster is one replica store and the harness-owned replicas below it.
type cluster struct {
	n, m     int
	distinct bool
	w        []*node // write replicas ("backends")
	x        *node   // extra read-only replica (distinct read set only)
	read     []*node // read replicas in read order
	nonRead  []*node // write replicas that are not read replicas
	s        blobserver.Storage
	minCfg   string  // "explicit" | "default"
	xs       []*node // all read-only replicas (config family, cfgwrite.go); x = xs[0]
	label    string  // config family: name of the configuration
	family   string  // case-id prefix of the family that runs on this cluster ("" = "w")
}

func (cl *cluster) cfg() string {
	if cl.label != "" {
		return cl.label
	}
	d := "same"
	if cl.distinct {
		d = "distinct"
	}
	return fmt.Sprintf("n%dm%d-%s", cl.n, cl.m, d)
}

// newCluster builds replica{backends: r0..r(n-1), minWritesForSuccess: m}.  With distinct, the read
// set is readBackends = [r(n-1) … r1, x]: reversed order, without r0 (a write-only replica), plus a
// read-only replica x that never receives writes.  For n = 1 that is just [x].
func newCluster(n, m int, distinct bool, matchOp string) (*cluster, error) {
	cl := &cluster{n: n, m: m, distinct: distinct}
	ld := sto.NewLoader()
	var backends []any
	for i := 0; i < n; i++ {
		nd := newNode(fmt.Sprintf("r%d", i), matchOp)
		cl.w = append(cl.w, nd)
		p := fmt.Sprintf("/r%d/", i)
		ld.Set(p, nd.ts)
		backends = append(backends, p)
	}
	conf := jsonconfig.Obj{"backends": backends}
	cl.minCfg = "explicit"
	if m == n && !distinct {
		cl.minCfg = "default" // documented default: all
	} else {
		conf["minWritesForSuccess"] = float64(m)
	}
	if distinct {
		cl.x = newNode("x", matchOp)
		ld.Set("/x/", cl.x.ts)
		var rb []any
		for i := n - 1; i >= 1; i-- {
			rb = append(rb, fmt.Sprintf("/r%d/", i))
			cl.read = append(cl.read, cl.w[i])
		}
		rb = append(rb, "/x/")
		cl.read = append(cl.read, cl.x)
		cl.nonRead = []*node{cl.w[0]}
		conf["readBackends"] = rb
	} else {
		cl.read = cl.w
	}
	s, err := blobserver.CreateStorage("replica", ld, conf)
	if err != nil {
		return nil, fmt.Errorf("CreateStorage(replica, %v): %w", conf, err)
	}
	cl.s = s
	return cl, nil
}

type job func()

func runJobs(workers int, jobs []job) {
	ch := make(chan job)
	var wg sync.WaitGroup
	for i := 0; i < workers; i++ {
		wg.Add(1)
		go func() {
			defer wg.Done()
			for j := range ch {
				j()
			}
		}()
	}
	for _, j := range jobs {
		ch <- j
	}
	close(ch)
	wg.Wait()
}

func run(r *ev.Run) {
	log.SetOutput(io.Discard)
	r.Assume("oracle for a misreporting replica: the size a replica has stored is the size it acknowledges (the only thing an observer above the replica can know); a replica that acknowledges a wrong size has not 'stored the blob with the correct size' and is not counted toward the quorum, although the injector's inner memory store happens to hold the right bytes")
	r.Assume("a replica that stored the blob and then reported an error (lost ack) counts as having stored it (ground truth from the wrapper's stored event); it does not count as a replica that 'can succeed' for the must-return-error rule")
	r.Assume("stragglers that finish after an early ack (m<n) are not judged beyond the quorum rule; each case uses a fresh blob and waits for quiescence before its read-back")
	r.Assume("a read replica that reports a wrong size for a blob in its stat/enumerate answer is inside the quantifier (failing replicas per operation: error, wrong size, slow); the replica store must still report the blob exactly once; the size it reports must be one that some holding read replica reported, which one is not judged")
	r.Assume("config constructor: minWritesForSuccess omitted means 'all' = every WRITE replica ('backends'), as the package documentation says (\"Writes wait for minWritesForSuccess (default: all)\"); an explicit 0 is the unset value of the number and is judged as the same default; readBackends (any length, any overlap with backends) never changes the quorum of a receive")
	r.Assume("a replica that returns an error has not acknowledged the blob, whatever the error is (context.Canceled, io.EOF, os.ErrNotExist, … bare or wrapped); when the caller's own context ended before the receive was seen to have returned, an error answer is accepted without further judgement, while a nil error still needs the quorum")
	r.Assume("wt/ family: a replica that holds a wrong-sized copy under the blob's ref has not 'stored the blob with the correct size', whatever it or anybody reports; a replica that held the exact bytes before the receive has; the replicas of that family are harness-made stores that, like localdisk and most perkeep backends, do not re-hash what they are given and report the size of what they hold")
	r.Assume("a replica may hand out a stream that stays bound to the context passed to its Fetch (blobserver/remote and the cloud stores do); the callers of this check never end the context they fetch with")
	r.Assume("bounded waits (a few ms) are used only to choose the next harness action (release a gate before or after the call returned); every verdict is computed from the recorded global event sequence")

	var jobs []job
	jobs = append(jobs, writeJobs(r)...)
	jobs = append(jobs, readJobs(r)...)
	jobs = append(jobs, historyJobs(r)...)
	jobs = append(jobs, misreadJobs(r)...)
	jobs = append(jobs, miswriteJobs(r)...)
	jobs = append(jobs, gatedFetchJobs(r)...)
	jobs = append(jobs, cfgJobs(r)...)
	jobs = append(jobs, errKindJobs(r)...)
	jobs = append(jobs, cancelJobs(r)...)
	jobs = append(jobs, tornJobs(r)...)
	runJobs(24, jobs)
	runRetryCases(r)
	r.Count("fetch_streams_bound_to_the_fetch_context", int(ctxBoundStreams.Load()))
	r.Count("reads_from_such_streams_after_fetch_returned", int(ctxBoundReads.Load()))
	if ctxBoundStreams.Load() > 0 && ctxBoundReads.Load() > 0 {
		r.Note("fetch_streams", "bound-to-the-fetch-context/read-after-fetch-returned")
	}

	if os.Getenv("VERIF_ONLY") != "" {
		return // replay of one case: coverage requirements do not apply
	}
	r.Require("n", "n1", "n2", "n3", "n4")
	r.Require("quorum", "m<n", "m==n")
	r.Require("min_writes_config", "explicit", "default")
	r.Require("read_backends", "same", "distinct")
	{
		r.Require("modes_delivered", "error", "error-after-effect", "misreport", "gate")
		r.Require("modes_assigned", "ok", "error", "error-after-effect", "misreport", "gate")
		r.Require("schedules", "free", "free-early", "free-late", "free-late-overlap", "perm")
		r.Require("overlap", "second-receive-while-straggler-pending")
		r.Require("empty_blob_class", "all-ok", "quorum-reachable-despite-faults", "quorum-needs-slow-replica", "quorum-impossible")
		r.Require("gate_release", "before-return", "after-return", "while-call-blocked")
		r.Require("outcomes", "ack", "error", "ack-before-all-replicas-done", "error-after-all-replicas-done")
		r.Require("assignment_class", "all-ok", "quorum-reachable-despite-faults", "quorum-needs-slow-replica", "quorum-impossible")
	}
	{
		// round 4: config-constructor matrix (cfgwrite.go), failing replicas' error kinds (errkinds.go),
		// caller context ending mid-upload (cancel.go)
		for _, min := range []string{"omitted", "zero", "explicit"} {
			r.Require("cfg_matrix", min+"/read-default", min+"/read-shorter", min+"/read-longer", min+"/read-equal-length",
				min+"/write-only-replicas", min+"/read-set-disjoint")
		}
		r.Require("cfg_below_default_quorum", "read-shorter/stored-by-at-least-len(readBackends)", "read-longer/all-write-replicas-ok")
		var ek []string
		for _, k := range errKinds[1:] {
			ek = append(ek, k.name)
		}
		r.Require("replica_answer_kinds", ek...)
		r.Require("replica_answer_kinds", misKinds[1:]...)
		r.Require("replica_answer_kinds", ctxKinds...)
		r.Require("below_quorum_every_failure_is", ek...)
		r.Require("below_quorum_every_failure_is", "lost-ack:ctx-canceled", "lost-ack:wrapped-ctx-canceled", "zero-sizedref", "ctx-slow-aborted")
		r.Require("caller_context_end", "cancel/before-return", "cancel/after-return", "deadline/before-return", "deadline/after-return",
			"pre-cancel/before-return", "pre-deadline/before-return")
		r.Require("caller_context_outcomes", "ended-while-call-blocked/error", "ended-before-return/ack-with-quorum", "ended-after-return/ack",
			"ctx-aware-replica-aborted", "gated-replica-stored-after-context-ended")
		r.Require("schedules", "ctx-blocked", "ctx-early")
	}
	{
		r.Require("placements", "on-none", "on-one-read-replica", "on-several-read-replicas", "on-all-read-replicas", "only-on-non-read-replica", "on-read-and-non-read-replica")
		r.Require("fetch_faults", "no-fault", "earlier-replica-fails-later-holds", "all-holders-fail", "some-holder-fails-other-serves")
	}
	{
		// round 6: receives onto replicas that already hold a (wrong-sized / good) copy (torn.go); fetched
		// streams that stay bound to the context of the replica's Fetch (misread.go, liar.Fetch)
		r.Require("preexisting_copy_states", tornStateNames[:]...)
		r.Require("preexisting_wrong_sized_copy", "truncated", "empty", "extended")
		r.Require("preexisting_copy_class", "quorum-only-if-wrong-sized-copies-counted", "quorum-reachable-beside-wrong-sized-copies", "quorum-needs-the-good-copies-already-held")
		r.Require("preexisting_copy_outcomes", "ack", "error", "ack/with-a-replaceable-wrong-sized-copy")
		r.Require("fetch_streams", "bound-to-the-fetch-context/read-after-fetch-returned")
	}
	{
		r.Require("history", "receive", "fetch", "stat", "enumerate", "remove", "re-receive", "audit")
		r.Require("retry_scenarios", "retry-after-failed-write", "only-read-replica-has-it")
		r.Require("retry_outcomes", "ack", "error")
	}
	{
		// read replicas that misreport sizes in their own stat / enumerate answers (misread.go)
		r.Require("wrong_size_reads_n", "n1", "n2", "n3", "n4")
		r.Require("wrong_size_ops", "both", "enumerate", "stat")
		r.Require("wrong_size_kind", "short", "long", "zero", "differ")
		r.Require("wrong_size_overlap", "liar-and-honest-holder", "liar-before-honest-in-read-order", "honest-before-liar-in-read-order",
			"all-holders-lie", "two-liars-disagree", "two-liars-agree", "only-some-blobs-lied-about", "empty-blob-lied-about")
		r.Require("wrong_size_writes", "wrong-and-right-read-replica", "every-holding-read-replica-wrong", "only-write-only-replica-wrong",
			"acked-despite-wrong-size-replicas", "refused-but-replicas-hold-it")
		r.Require("wrong_size_write_outcomes", "ack", "error")
		// slow read replicas on Fetch
		r.Require("slow_fetch_release", "late", "early")
		r.Require("slow_fetch", "released-while-fetch-waiting", "every-serving-holder-slow", "slow-holder-fast-non-holder",
			"slow-holder-failing-other", "slow-non-holder-before-holder", "no-serving-holder")
	}
}
