package main

import (
	"fmt"

	"perkeep.org/pkg/blob"

	"verif.local/harness/ev"
	"verif.local/harness/sto"
)

type histRec struct {
	ID     string   `json:"case_id"`
	Config string   `json:"config"`
	Ops    []string `json:"ops"`
}

// historyJobs: a short sequential history per n with m = n (every replica synchronous, so the
// replica store is a plain content-addressed map), with and without the distinct read set
// (n >= 2: the read set [r(n-1)..r1, x] still contains a write replica).
func historyJobs(r *ev.Run) []job {
	var jobs []job
	for n := 1; n <= 4; n++ {
		for _, distinct := range []bool{false, true} {
			if distinct && n == 1 {
				continue // read set would be the never-written replica x alone
			}
			for h := 0; h < r.Pick(2, 8); h++ {
				d := "same"
				if distinct {
					d = "distinct"
				}
				id := fmt.Sprintf("h/n%dm%d-%s/%d;", n, n, d, h)
				if !r.Only(id) {
					continue
				}
				n, distinct := n, distinct
				jobs = append(jobs, func() { runHistory(r, id, n, distinct) })
			}
		}
	}
	return jobs
}

func runHistory(r *ev.Run, id string, n int, distinct bool) {
	cl, err := newCluster(n, n, distinct, "none")
	if err != nil {
		r.Inconclusive(err.Error())
		return
	}
	rng := r.Rand("history/" + id)
	universe := sto.Universe(rng, sto.GenOpts{N: 10, MaxSize: 5000, Hashes: true})
	rec := &histRec{ID: id, Config: cl.cfg()}
	reports := 0
	report := func(sig, what string) {
		reports++
		if reports > 20 {
			return
		}
		r.Violation(mapSig(sig, "history", n), fmt.Sprintf("[%s] %s (after %d ops)", cl.cfg(), what, len(rec.Ops)), rec)
	}
	c := sto.NewChecker(cl.s, "replica", sto.Caps{Receive: true, Remove: true}, universe, report)
	removed := map[blob.Ref]bool{}
	pick := func() sto.Blob { return universe[rng.Intn(len(universe))] }
	logop := func(f string, a ...any) { rec.Ops = append(rec.Ops, fmt.Sprintf(f, a...)) }
	nops := 60 + rng.Intn(40)
	for i := 0; i < nops && !c.Dead && reports < 5; i++ {
		switch k := rng.Intn(100); {
		case k < 32:
			b := pick()
			logop("receive %v", b)
			if removed[b.Ref] {
				delete(removed, b.Ref)
				r.Note("history", "re-receive")
			}
			c.Receive(b)
			r.Note("history", "receive")
		case k < 47:
			b := pick()
			logop("fetch %v", b.Ref)
			c.Fetch(b)
			r.Note("history", "fetch")
		case k < 59:
			perm := rng.Perm(len(universe))
			k := 1 + rng.Intn(len(universe))
			bs := make([]sto.Blob, k)
			for i := range bs {
				bs[i] = universe[perm[i]]
			}
			logop("stat %d refs from %v", k, bs[0].Ref)
			c.Stat(bs)
			r.Note("history", "stat")
		case k < 74:
			cur := c.Cursors(rng)
			after := cur[rng.Intn(len(cur))]
			lim := []int{1, 2, 3, 5, len(universe), 1000}[rng.Intn(6)]
			logop("enumerate %q %d", after, lim)
			c.Enumerate(after, lim)
			r.Note("history", "enumerate")
		case k < 90:
			k := 1 + rng.Intn(2)
			var bs []sto.Blob
			seen := map[blob.Ref]bool{}
			for len(bs) < k {
				b := pick()
				if !seen[b.Ref] {
					seen[b.Ref] = true
					bs = append(bs, b)
					if _, p := c.Present[b.Ref]; p {
						removed[b.Ref] = true
					}
				}
			}
			logop("remove %d refs from %v", k, bs[0].Ref)
			c.Remove(bs)
			r.Note("history", "remove")
		default:
			logop("audit")
			c.Audit(rng, false)
			r.Note("history", "audit")
		}
	}
	if !c.Dead && reports < 5 {
		logop("audit-full")
		c.Audit(rng, true)
		r.Note("history", "audit")
	}
	// replicas agree with the reference map: every write replica holds exactly the present blobs
	for _, nd := range cl.w {
		for _, b := range universe {
			_, want := c.Present[b.Ref]
			r.Eval(1)
			if nd.holds(b) != want && !c.Uncertain[b.Ref] && !c.Dead {
				r.Violation("replica-diverged/history", fmt.Sprintf("[%s] after a fault-free history with minWritesForSuccess = n, replica %s holds %v = %v, reference map says %v", cl.cfg(), nd.name, b.Ref, nd.holds(b), want), rec)
			}
		}
	}
	r.Eval(c.Evals)
	r.Count("histories", 1)
	for op, k := range c.Ops {
		r.Count("hist_"+op, k)
	}
	r.Note("n", fmt.Sprintf("n%d", n))
	r.Distinct(id)
}

var _ = ev.Root
