package main

// wt/ family (round 6): receives onto replicas that ALREADY hold something under the blob's ref.
//
// The other write families always receive a fresh blob: no replica holds anything under its ref.  Here
// every write replica starts a receive in one of these states:
//
//	fresh           holds nothing, stores what it is given
//	good-copy       already holds the blob's bytes
//	torn            holds a WRONG-SIZED copy (left by a torn earlier write: truncated, empty, or with
//	                trailing garbage); a write replaces it (a files-like backend: temp file + rename)
//	torn-stuck      holds a wrong-sized copy and keeps it: a write changes nothing and is answered with
//	                the size of what the replica holds (a backend that never rewrites an existing name)
//	torn-readonly   holds a wrong-sized copy; writes fail with an error
//	readonly        holds nothing; writes fail with an error (reads work)
//	down            every call fails
//
// The replicas of this family are harness-made stores (tornStore) directly below the replica store:
// like most perkeep backends (localdisk, diskpacked, cloud stores) they do not re-hash what they are
// given, a stat reports the size of what is held, and every change of what is held is recorded with a
// global sequence number, so that the content of every replica AT THE ACK is known exactly.
//
// Oracle (the statement, literally): an acknowledged receive needs at least minWritesForSuccess
// replicas that hold the blob's exact bytes at the ack (a good copy that was there before counts: the
// replica has stored the blob with the correct size; a wrong-sized copy does not, whoever reports
// what); and when at least that many replicas hold or accept the blob, the receive must succeed.

import (
	"bytes"
	"context"
	"errors"
	"fmt"
	"io"
	"os"
	"sort"
	"strings"
	"sync"

	"go4.org/jsonconfig"
	"perkeep.org/pkg/blob"
	"perkeep.org/pkg/blobserver"

	"verif.local/harness/ev"
	"verif.local/harness/inject"
	"verif.local/harness/sto"
)

const (
	tsFresh = iota
	tsGood
	tsTorn
	tsTornStuck
	tsTornRO
	tsReadOnly
	tsDown
	nTornStates
)

var tornStateNames = [...]string{"fresh", "good-copy", "torn", "torn-stuck", "torn-readonly", "readonly", "down"}

var errTornReplica = errors.New("verif: replica refuses the call")

type tornWrite struct {
	seq  int64
	ref  blob.Ref
	good bool // what the replica holds under ref from this moment on
}

// tornStore is one replica of the wt/ family.
type tornStore struct {
	name string
	mu   sync.Mutex
	m    map[blob.Ref][]byte
	mode map[blob.Ref]int // state for receives of this ref (default fresh)
	log  []tornWrite
	busy int // calls in flight
	idle *sync.Cond
}

func newTornStore(name string) *tornStore {
	t := &tornStore{name: name, m: map[blob.Ref][]byte{}, mode: map[blob.Ref]int{}}
	t.idle = sync.NewCond(&t.mu)
	return t
}

func (t *tornStore) enter() { t.mu.Lock(); t.busy++; t.mu.Unlock() }
func (t *tornStore) leave() {
	t.mu.Lock()
	t.busy--
	if t.busy == 0 {
		t.idle.Broadcast()
	}
	t.mu.Unlock()
}

func (t *tornStore) Fetch(ctx context.Context, br blob.Ref) (io.ReadCloser, uint32, error) {
	t.mu.Lock()
	defer t.mu.Unlock()
	if t.mode[br] == tsDown {
		return nil, 0, errTornReplica
	}
	b, ok := t.m[br]
	if !ok {
		return nil, 0, os.ErrNotExist
	}
	return io.NopCloser(bytes.NewReader(b)), uint32(len(b)), nil
}

func (t *tornStore) StatBlobs(ctx context.Context, blobs []blob.Ref, fn func(blob.SizedRef) error) error {
	t.enter()
	defer t.leave()
	for _, br := range blobs {
		t.mu.Lock()
		b, ok := t.m[br]
		down := t.mode[br] == tsDown
		t.mu.Unlock()
		if down {
			return errTornReplica
		}
		if ok {
			if err := fn(blob.SizedRef{Ref: br, Size: uint32(len(b))}); err != nil {
				return err
			}
		}
	}
	return nil
}

func (t *tornStore) EnumerateBlobs(ctx context.Context, dest chan<- blob.SizedRef, after string, limit int) error {
	defer close(dest)
	t.mu.Lock()
	var refs []string
	sizes := map[string]blob.SizedRef{}
	for br, b := range t.m {
		if s := br.String(); s > after {
			refs = append(refs, s)
			sizes[s] = blob.SizedRef{Ref: br, Size: uint32(len(b))}
		}
	}
	t.mu.Unlock()
	sort.Strings(refs)
	for i, s := range refs {
		if i >= limit {
			break
		}
		select {
		case dest <- sizes[s]:
		case <-ctx.Done():
			return ctx.Err()
		}
	}
	return nil
}

func (t *tornStore) RemoveBlobs(ctx context.Context, blobs []blob.Ref) error {
	t.mu.Lock()
	defer t.mu.Unlock()
	for _, br := range blobs {
		delete(t.m, br)
	}
	return nil
}

func (t *tornStore) ReceiveBlob(ctx context.Context, br blob.Ref, src io.Reader) (blob.SizedRef, error) {
	t.enter()
	defer t.leave()
	all, err := io.ReadAll(src)
	if err != nil {
		return blob.SizedRef{}, err
	}
	t.mu.Lock()
	defer t.mu.Unlock()
	switch t.mode[br] {
	case tsDown, tsReadOnly, tsTornRO:
		return blob.SizedRef{}, errTornReplica
	case tsTornStuck:
		return blob.SizedRef{Ref: br, Size: uint32(len(t.m[br]))}, nil
	}
	t.m[br] = all
	h := br.Hash()
	h.Write(all)
	t.log = append(t.log, tornWrite{seq: inject.Seq(), ref: br, good: br.HashMatches(h)})
	return blob.SizedRef{Ref: br, Size: uint32(len(all))}, nil
}

// preset puts the replica into state st for receives of b (no call is in flight).
func (t *tornStore) preset(b sto.Blob, st int, torn []byte) {
	t.mu.Lock()
	defer t.mu.Unlock()
	t.mode[b.Ref] = st
	t.log = append(t.log, tornWrite{seq: inject.Seq(), ref: b.Ref, good: st == tsGood})
	switch st {
	case tsGood:
		t.m[b.Ref] = b.Data
	case tsTorn, tsTornStuck, tsTornRO:
		t.m[b.Ref] = torn
	default:
		delete(t.m, b.Ref)
	}
}

// goodAt: does the replica hold b's exact bytes at sequence number seq?
func (t *tornStore) goodAt(b sto.Blob, seq int64) bool {
	t.mu.Lock()
	defer t.mu.Unlock()
	good := false
	for _, w := range t.log {
		if w.ref == b.Ref && w.seq < seq {
			good = w.good
		}
	}
	return good
}

func (t *tornStore) waitIdle() {
	t.mu.Lock()
	for t.busy > 0 {
		t.idle.Wait()
	}
	t.mu.Unlock()
}

type tcase struct {
	ID     string   `json:"case_id"`
	N      int      `json:"n"`
	M      int      `json:"minWritesForSuccess"`
	States []string `json:"replica_states_before_the_receive"`
	st     []int
}

func tornCaseID(n, m int, st []int) string {
	s := make([]string, len(st))
	for i, x := range st {
		s[i] = tornStateNames[x]
	}
	return fmt.Sprintf("wt/n%dm%d/%s;", n, m, strings.Join(s, ","))
}

func tornCases(r *ev.Run, n, m int) []tcase {
	total := 1
	for i := 0; i < n; i++ {
		total *= nTornStates
	}
	mk := func(a int) tcase {
		st := make([]int, n)
		for i := range st {
			st[i] = a % nTornStates
			a /= nTornStates
		}
		c := tcase{ID: tornCaseID(n, m, st), N: n, M: m, st: st}
		for _, x := range st {
			c.States = append(c.States, tornStateNames[x])
		}
		return c
	}
	var out []tcase
	if limit := r.Pick(350, total); total <= limit {
		for a := 0; a < total; a++ {
			out = append(out, mk(a))
		}
	} else {
		rng := r.Rand(fmt.Sprintf("wtcases/n%d/m%d", n, m))
		seen := map[int]bool{}
		for len(out) < limit {
			a := rng.Intn(total)
			if !seen[a] {
				seen[a] = true
				out = append(out, mk(a))
			}
		}
	}
	return out
}

func tornJobs(r *ev.Run) []job {
	var jobs []job
	total := 0
	for n := 1; n <= 4; n++ {
		for m := 1; m <= n; m++ {
			var sel []tcase
			for _, c := range tornCases(r, n, m) {
				if r.Only(c.ID) {
					sel = append(sel, c)
				}
			}
			total += len(sel)
			if len(sel) == 0 {
				continue
			}
			n, m := n, m
			jobs = append(jobs, func() { runTornShard(r, n, m, sel) })
		}
	}
	r.Extra("receives_onto_preexisting_copies_planned", total)
	return jobs
}

func runTornShard(r *ev.Run, n, m int, cases []tcase) {
	ld := sto.NewLoader()
	var reps []*tornStore
	var backends []any
	for i := 0; i < n; i++ {
		t := newTornStore(fmt.Sprintf("r%d", i))
		reps = append(reps, t)
		p := fmt.Sprintf("/r%d/", i)
		ld.Set(p, t)
		backends = append(backends, p)
	}
	conf := jsonconfig.Obj{"backends": backends, "minWritesForSuccess": float64(m)}
	s, err := blobserver.CreateStorage("replica", ld, conf)
	if err != nil {
		r.Inconclusive(fmt.Sprintf("CreateStorage(replica, %v): %v", conf, err))
		return
	}
	cfg := fmt.Sprintf("n%dm%d-preexisting-copies", n, m)
	rng := r.Rand("wtblobs/" + cfg)
	for j := range cases {
		c := &cases[j]
		var data []byte
		if rng.Intn(12) != 0 {
			data = []byte(fmt.Sprintf("C12|%d|%s|%s", r.Seed, c.ID, strings.Repeat("z", []int{0, 1, 9, 200, 3000}[j%5])))
		}
		b := sto.FromBytes(data) // now and then the empty blob (removed again below)
		// the wrong-sized copy: truncated / empty / trailing garbage (the empty blob: trailing garbage only)
		var torn []byte
		kind := []string{"truncated", "empty", "extended"}[rng.Intn(3)]
		if len(data) == 0 {
			kind = "extended"
		}
		switch kind {
		case "truncated":
			torn = data[:1+rng.Intn(len(data)-1)]
		case "empty":
			torn = []byte{}
		case "extended":
			torn = append(append([]byte(nil), data...), []byte("\x00\x00garbage")[:1+rng.Intn(9)]...)
		}
		var holdOrAccept, wrongSized, holdGood int
		for i, t := range reps {
			t.preset(b, c.st[i], torn)
			r.Note("preexisting_copy_states", tornStateNames[c.st[i]])
			switch c.st[i] {
			case tsGood:
				holdGood++
				holdOrAccept++
			case tsFresh, tsTorn:
				holdOrAccept++
			}
			switch c.st[i] {
			case tsTorn, tsTornStuck, tsTornRO:
				wrongSized++
				r.Note("preexisting_wrong_sized_copy", kind)
			}
		}
		var sb blob.SizedRef
		var rerr error
		var ackSeq int64
		if !ev.WithTimeout(watchdog, func() {
			sb, rerr = blobserver.Receive(context.Background(), s, b.Ref, bytes.NewReader(b.Data))
			ackSeq = inject.Seq()
		}) {
			r.Inconclusive(fmt.Sprintf("%s: the receive did not return within %v", c.ID, watchdog))
			return
		}
		// calls that were in flight at the ack have ended after this; a replica call that starts later
		// gets a sequence number after the ack and changes nothing about the state at the ack
		for _, t := range reps {
			t.waitIdle()
		}
		quorum := 0
		var at []string
		for i, t := range reps {
			g := t.goodAt(b, ackSeq)
			if g {
				quorum++
			}
			at = append(at, fmt.Sprintf("%s(%s): holds the blob at the ack: %v", t.name, tornStateNames[c.st[i]], g))
		}
		nm := fmt.Sprintf("n%dm%d", n, m)
		wit := map[string]any{"case_id": c.ID, "case": c, "config": cfg, "blob": b.String(), "wrong_sized_copy": fmt.Sprintf("%s (%d bytes)", kind, len(torn)),
			"result": fmt.Sprintf("%v, %v", sb, rerr), "replicas": at}
		r.Eval(2)
		r.Count("receives_onto_preexisting_copies", 1)
		r.Distinct(c.ID)
		if n == 3 && wrongSized > 0 && j%40 == 0 {
			r.Sample(wit)
		}
		switch {
		case wrongSized > 0 && holdOrAccept < m && holdOrAccept+wrongSized >= m:
			r.Note("preexisting_copy_class", "quorum-only-if-wrong-sized-copies-counted")
		case wrongSized > 0 && holdOrAccept >= m:
			r.Note("preexisting_copy_class", "quorum-reachable-beside-wrong-sized-copies")
		case holdGood > 0 && holdOrAccept >= m && holdOrAccept-holdGood < m:
			r.Note("preexisting_copy_class", "quorum-needs-the-good-copies-already-held")
		}
		if rerr == nil {
			r.Note("preexisting_copy_outcomes", "ack")
			if sb.Ref != b.Ref || int(sb.Size) != len(b.Data) {
				r.Violation("wrong-size-acked/preexisting-copies/"+nm,
					fmt.Sprintf("[%s] ReceiveBlob of %v (%d bytes) acknowledged %v (replicas before the receive: %v)", cfg, b.Ref, len(b.Data), sb, c.States), wit)
			}
			if quorum < m {
				r.Violation("ack-below-quorum/preexisting-copies/"+nm,
					fmt.Sprintf("[%s] ReceiveBlob acknowledged success when only %d replica(s) held the blob's bytes (minWritesForSuccess=%d); replicas before the receive: %v, wrong-sized copy: %s, %d bytes instead of %d; at the ack: %v",
						cfg, quorum, m, c.States, kind, len(torn), len(b.Data), at), wit)
			}
			for _, x := range c.st {
				if x == tsTorn {
					r.Note("preexisting_copy_outcomes", "ack/with-a-replaceable-wrong-sized-copy")
				}
			}
		} else {
			r.Note("preexisting_copy_outcomes", "error")
			if holdOrAccept >= m {
				r.Violation("error-despite-quorum/preexisting-copies/"+nm,
					fmt.Sprintf("[%s] ReceiveBlob failed (%v) although %d replica(s) hold or accept the blob (minWritesForSuccess=%d; replicas before the receive: %v)", cfg, rerr, holdOrAccept, m, c.States), wit)
			}
		}
		// the next case starts from replicas without this blob's leftovers only when it is the empty blob (re-used)
		if len(data) == 0 {
			for _, t := range reps {
				t.RemoveBlobs(context.Background(), []blob.Ref{b.Ref})
			}
		}
	}
}
