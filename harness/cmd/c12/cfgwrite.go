package main

// wc/ family (round 4): the quorum of replica stores as the CONFIG constructor builds them.
//
// The w/ family's distinct read set [r(n-1) … r1, x] happens to have exactly as many members as the
// write set, and always comes with an explicit minWritesForSuccess.  Here the two config keys vary
// independently:
//
//   minWritesForSuccess   omitted | 0 | 1..n          (omitted: "default: all", package doc; 0 is
//                                                      what an unset number decodes to and the
//                                                      constructor maps it to the default as well)
//   readBackends          omitted | [] | the write list spelled out | a proper subset of the write
//                         replicas (every length 1..n-1, other order) | only a read-only replica
//                         (shorter than the write list for n >= 2) | the write list plus 1 or 2
//                         read-only replicas (longer) | n+1 read-only replicas (longer, disjoint)
//
// "all" means all WRITE replicas ("backends"): those are the replicas a receive stores to.  The
// read-only replicas never see a ReceiveBlob and can neither add to nor be required for the quorum.
// Everything else is the w/ family's monitor: fault assignment per replica, completion schedule,
// verdict from the global event order, read-back through the (differently shaped) read set.

import (
	"fmt"
	"strings"

	"go4.org/jsonconfig"
	"perkeep.org/pkg/blobserver"

	"verif.local/harness/ev"
	"verif.local/harness/sto"
)

type readShape struct {
	name    string
	omitted bool  // no readBackends key
	w       []int // write replicas in the read list (read order)
	extra   int   // read-only replicas appended
}

func (s readShape) length() int { return len(s.w) + s.extra }

func readShapes(n int) []readShape {
	idx := func(from, to int) []int { // from, from-1, …, to
		var out []int
		for i := from; i >= to; i-- {
			out = append(out, i)
		}
		return out
	}
	fwd := make([]int, n)
	for i := range fwd {
		fwd[i] = i
	}
	out := []readShape{
		{name: "omitted", omitted: true},
		{name: "empty-list"},
		{name: "same-spelled-out", w: fwd},
	}
	for k := 1; k < n; k++ {
		out = append(out, readShape{name: fmt.Sprintf("subset%d", k), w: idx(n-1, n-k)})
	}
	if n >= 2 {
		out = append(out, readShape{name: "only-x", extra: 1})
	}
	out = append(out,
		readShape{name: "all-plus-x", w: fwd, extra: 1},
		readShape{name: "all-reversed-plus-2x", w: idx(n-1, 0), extra: 2},
		readShape{name: fmt.Sprintf("only-%dx", n+1), extra: n + 1},
	)
	return out
}

type clusterSpec struct {
	n     int
	min   string // "omitted" | "zero" | "explicit"
	m     int    // explicit only
	shape readShape
}

func (s clusterSpec) minLabel() string {
	if s.min == "explicit" {
		return fmt.Sprintf("m%d", s.m)
	}
	return "m-" + s.min
}

func (s clusterSpec) label() string {
	return fmt.Sprintf("n%d-%s-read-%s", s.n, s.minLabel(), s.shape.name)
}

func (s clusterSpec) lenClass() string {
	switch l := s.shape.length(); {
	case l == 0:
		return "read-default"
	case l < s.n:
		return "read-shorter"
	case l > s.n:
		return "read-longer"
	}
	return "read-equal-length"
}

// newClusterSpec builds the replica store of spec through the config constructor.  cl.m is the
// quorum the DOCUMENTATION promises for that config (n when minWritesForSuccess is not given).
func newClusterSpec(spec clusterSpec, matchOp string) (*cluster, error) {
	n := spec.n
	cl := &cluster{n: n, m: n, label: spec.label(), family: "wc", minCfg: "default"}
	ld := sto.NewLoader()
	var backends []any
	for i := 0; i < n; i++ {
		nd := newNode(fmt.Sprintf("r%d", i), matchOp)
		cl.w = append(cl.w, nd)
		p := fmt.Sprintf("/r%d/", i)
		ld.Set(p, nd.ts)
		backends = append(backends, p)
	}
	conf := jsonconfig.Obj{"backends": backends}
	switch spec.min {
	case "zero":
		conf["minWritesForSuccess"] = float64(0)
	case "explicit":
		conf["minWritesForSuccess"] = float64(spec.m)
		cl.m = spec.m
		cl.minCfg = "explicit"
	}
	if spec.shape.length() == 0 {
		cl.read = cl.w
		if !spec.shape.omitted {
			conf["readBackends"] = []any{}
		}
	} else {
		cl.distinct = true
		var rb []any
		isRead := map[int]bool{}
		for _, i := range spec.shape.w {
			rb = append(rb, fmt.Sprintf("/r%d/", i))
			cl.read = append(cl.read, cl.w[i])
			isRead[i] = true
		}
		for j := 0; j < spec.shape.extra; j++ {
			x := newNode(fmt.Sprintf("x%d", j), matchOp)
			p := fmt.Sprintf("/x%d/", j)
			ld.Set(p, x.ts)
			rb = append(rb, p)
			cl.xs = append(cl.xs, x)
			cl.read = append(cl.read, x)
		}
		if len(cl.xs) > 0 {
			cl.x = cl.xs[0]
		}
		for i, nd := range cl.w {
			if !isRead[i] {
				cl.nonRead = append(cl.nonRead, nd)
			}
		}
		conf["readBackends"] = rb
	}
	s, err := blobserver.CreateStorage("replica", ld, conf)
	if err != nil {
		return nil, fmt.Errorf("CreateStorage(replica, %v): %w", conf, err)
	}
	cl.s = s
	return cl, nil
}

// cfgCases: every ok/error assignment (free-running and one seeded serialised order), plus seeded
// assignments over all five modes.  thorough: 5^n for n <= 3.
func cfgCases(r *ev.Run, spec clusterSpec, effM int) []wcase {
	n := spec.n
	rng := r.Rand("wccases/" + spec.label())
	all := perms(n)
	var out []wcase
	seen := map[string]bool{}
	add := func(modes []int, sched string, order []int) {
		id := fmt.Sprintf("wc/%s/%s/%s;", spec.label(), modeKindStrings(modes, nil), schedString(sched, order))
		if seen[id] {
			return
		}
		seen[id] = true
		out = append(out, wcase{ID: id, N: n, M: effM, Distinct: spec.shape.length() != 0, Modes: append([]int(nil), modes...),
			Sched: sched, Order: append([]int(nil), order...)})
	}
	withScheds := func(modes []int) {
		c := wcase{Modes: modes}
		if c.hasSlow() {
			add(modes, []string{"free-early", "free-late"}[rng.Intn(2)], nil)
		} else {
			add(modes, "free", nil)
		}
		add(modes, "perm", all[rng.Intn(len(all))])
	}
	for a := 0; a < 1<<n; a++ {
		modes := make([]int, n)
		for i := range modes {
			if a&(1<<i) != 0 {
				modes[i] = mErr
			}
		}
		withScheds(modes)
	}
	if r.Thorough() && n <= 3 {
		total := 1
		for i := 0; i < n; i++ {
			total *= nModes
		}
		for a := 0; a < total; a++ {
			modes := make([]int, n)
			x := a
			for i := range modes {
				modes[i] = x % nModes
				x /= nModes
			}
			withScheds(modes)
		}
		return out
	}
	for i := 0; i < r.Pick(2*n, 40); i++ {
		modes := make([]int, n)
		for j := range modes {
			modes[j] = rng.Intn(nModes)
		}
		withScheds(modes)
	}
	return out
}

func cfgJobs(r *ev.Run) []job {
	var jobs []job
	planned := 0
	for n := 1; n <= 4; n++ {
		var specs []clusterSpec
		for _, sh := range readShapes(n) {
			specs = append(specs, clusterSpec{n: n, min: "omitted", shape: sh}, clusterSpec{n: n, min: "zero", shape: sh})
			for m := 1; m <= n; m++ {
				specs = append(specs, clusterSpec{n: n, min: "explicit", m: m, shape: sh})
			}
		}
		for _, spec := range specs {
			effM := spec.n
			if spec.min == "explicit" {
				effM = spec.m
			}
			var sel []wcase
			for _, c := range cfgCases(r, spec, effM) {
				if r.Only(c.ID) {
					sel = append(sel, c)
				}
			}
			if len(sel) == 0 {
				continue
			}
			planned += len(sel)
			spec := spec
			jobs = append(jobs, func() {
				cl, err := newClusterSpec(spec, "ReceiveBlob")
				if err != nil {
					r.Inconclusive(err.Error())
					return
				}
				min := spec.min
				r.Note("cfg_min_writes", min)
				r.Note("cfg_read_backends", spec.shape.name)
				r.Note("cfg_matrix", min+"/"+spec.lenClass())
				if len(cl.nonRead) > 0 {
					r.Note("cfg_matrix", min+"/write-only-replicas")
				}
				if len(cl.xs) > 0 && len(spec.shape.w) == 0 {
					r.Note("cfg_matrix", min+"/read-set-disjoint")
				}
				runShardOn(r, cl, 0, sel)
			})
		}
	}
	r.Extra("config_receive_cases_planned", planned)
	return jobs
}

var _ = strings.Join
