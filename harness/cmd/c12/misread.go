package main

// Read-side misbehaviour of replicas (added in round 3).
//
// The property's quantifier ranges over "all 2^n subsets of failing replicas PER OPERATION (error,
// wrong size, slow)", and its statement ends with "stat and enumerate report it exactly once however
// the replicas' contents overlap".  So a read replica that reports a wrong size for a blob in its
// own stat / enumerate answer, while another read replica reports the same blob with the right size
// (or with yet another wrong size), is inside the quantifier: the replica store still has to list
// the blob once, in order, within the limit.  Likewise a slow read replica on Fetch.
//
// Everything here lives in this directory: `liar` is a thin blobserver.Storage layer between the
// inject wrapper and the turnstile of a node; it is passive unless a case arms it.
//
//   mr/…  pre-populated overlap patterns (as r/…) + a non-empty set of lying read replicas;
//   mw/…  replicas that are consistently wrong (receive ack, stat and enumerate all report the same
//         wrong size — a truncating / mis-accounting backend), blobs written THROUGH the replica store;
//   rg/…  Fetch with slow (gated) read replicas, released only after the fetch returned or was seen
//         to be waiting for them.
//
// What is judged when sizes disagree: each ref at most once, every held ref listed (exactly once),
// strictly ascending after the cursor, at most `limit` entries, nothing that no read replica holds,
// and the reported size is one that some holding read replica reported for that blob.  Which of the
// disagreeing sizes wins is NOT judged (the statement does not say).

import (
	"bytes"
	"context"
	"fmt"
	"io"
	"math/bits"
	"math/rand"
	"sort"
	"strings"
	"sync"
	"sync/atomic"
	"time"

	"perkeep.org/pkg/blob"
	"perkeep.org/pkg/blobserver"

	"verif.local/harness/ev"
	"verif.local/harness/inject"
	"verif.local/harness/sto"
)

// ------------------------------------------------------------------ liar layer

type fgate struct {
	arrived chan struct{}
	open    chan struct{}
	once    sync.Once
	openMu  sync.Once
}

func (g *fgate) release() { g.openMu.Do(func() { close(g.open) }) }

type liar struct {
	blobserver.Storage
	mu      sync.Mutex
	lieStat bool
	lieEnum bool
	lieRecv bool
	sizes   map[blob.Ref]uint32 // per-ref size reported instead of the true one
	all     func(uint32) uint32 // if set: applied to every ref this replica reports
	gates   map[blob.Ref]*fgate // Fetch of these refs waits for the harness
	notify  func()              // called when a gated Fetch arrived
}

func (l *liar) report(sb blob.SizedRef) blob.SizedRef {
	l.mu.Lock()
	defer l.mu.Unlock()
	if s, ok := l.sizes[sb.Ref]; ok {
		sb.Size = s
	} else if l.all != nil {
		sb.Size = l.all(sb.Size)
	}
	return sb
}

func (l *liar) armed(op string) bool {
	l.mu.Lock()
	defer l.mu.Unlock()
	if l.sizes == nil && l.all == nil {
		return false
	}
	switch op {
	case "stat":
		return l.lieStat
	case "enumerate":
		return l.lieEnum
	case "receive":
		return l.lieRecv
	}
	return false
}

func (l *liar) ReceiveBlob(ctx context.Context, br blob.Ref, src io.Reader) (blob.SizedRef, error) {
	sb, err := l.Storage.ReceiveBlob(ctx, br, src)
	if err == nil && l.armed("receive") {
		sb = l.report(sb)
	}
	return sb, err
}

func (l *liar) StatBlobs(ctx context.Context, blobs []blob.Ref, fn func(blob.SizedRef) error) error {
	if !l.armed("stat") {
		return l.Storage.StatBlobs(ctx, blobs, fn)
	}
	return l.Storage.StatBlobs(ctx, blobs, func(sb blob.SizedRef) error { return fn(l.report(sb)) })
}

func (l *liar) EnumerateBlobs(ctx context.Context, dest chan<- blob.SizedRef, after string, limit int) error {
	if !l.armed("enumerate") {
		return l.Storage.EnumerateBlobs(ctx, dest, after, limit)
	}
	defer close(dest)
	ch := make(chan blob.SizedRef)
	errc := make(chan error, 1)
	go func() { errc <- l.Storage.EnumerateBlobs(ctx, ch, after, limit) }()
	for sb := range ch {
		select {
		case dest <- l.report(sb):
		case <-ctx.Done():
			for range ch { // the inner enumeration sees the same ctx and closes ch
			}
			<-errc
			return ctx.Err()
		}
	}
	return <-errc
}

func (l *liar) Fetch(ctx context.Context, br blob.Ref) (io.ReadCloser, uint32, error) {
	l.mu.Lock()
	g := l.gates[br]
	nf := l.notify
	l.mu.Unlock()
	if g != nil {
		g.once.Do(func() {
			close(g.arrived)
			if nf != nil {
				nf()
			}
		})
		<-g.open
	}
	rc, size, err := l.Storage.Fetch(ctx, br)
	if err != nil {
		return rc, size, err
	}
	// Like the streams of network-backed stores (blobserver/remote, cloud stores), the stream of every
	// replica of this check stays bound to the context its Fetch was called with.
	ctxBoundStreams.Add(1)
	return &ctxBody{ReadCloser: rc, ctx: ctx}, size, nil
}

// ctxBody is a fetched stream that stays bound to the context of the Fetch that opened it, as an HTTP
// response body does: once that context is over, reads fail with the context's error.
type ctxBody struct {
	io.ReadCloser
	ctx context.Context
}

var ctxBoundStreams, ctxBoundReads atomic.Int64

func (b *ctxBody) Read(p []byte) (int, error) {
	if err := b.ctx.Err(); err != nil {
		return 0, err
	}
	ctxBoundReads.Add(1)
	return b.ReadCloser.Read(p)
}

// wrongSize is the size a lying replica j reports for a blob of true size s.
func wrongSize(kind string, j int, s uint32) uint32 {
	switch kind {
	case "short":
		if s > 0 {
			return s - 1
		}
		return 1
	case "long":
		return s + 7
	case "zero":
		if s > 0 {
			return 0
		}
		return 3
	}
	return s + 1 + uint32(j) // "differ": every liar reports its own wrong size
}

// ------------------------------------------------------------------ reference: what each read replica itself reports

type readRef struct {
	held      map[blob.Ref]bool
	enumSizes map[blob.Ref]map[uint32]bool
	statSizes map[blob.Ref]map[uint32]bool
	sorted    []string            // held refs, ascending by text
	PerRep    map[string][]string `json:"replica_enumerations"`
}

func collectEnum(s blobserver.BlobEnumerator, after string, limit int) (got []blob.SizedRef, err error, returned bool) {
	returned = ev.WithTimeout(watchdog, func() {
		ch := make(chan blob.SizedRef)
		errc := make(chan error, 1)
		go func() { errc <- s.EnumerateBlobs(context.Background(), ch, after, limit) }()
		for sb := range ch {
			got = append(got, sb)
		}
		err = <-errc
	})
	return
}

// observeReplicas asks every read replica directly (through the same layer the replica store
// talks to) what it enumerates and stats.
func observeReplicas(cl *cluster, uni []sto.Blob) (*readRef, error) {
	ref := &readRef{held: map[blob.Ref]bool{}, enumSizes: map[blob.Ref]map[uint32]bool{}, statSizes: map[blob.Ref]map[uint32]bool{}, PerRep: map[string][]string{}}
	var refs []blob.Ref
	for _, b := range uni {
		refs = append(refs, b.Ref)
	}
	add := func(m map[blob.Ref]map[uint32]bool, sb blob.SizedRef) {
		if m[sb.Ref] == nil {
			m[sb.Ref] = map[uint32]bool{}
		}
		m[sb.Ref][sb.Size] = true
	}
	for _, nd := range cl.read {
		got, err, ok := collectEnum(nd.ts, "", 100000)
		if !ok || err != nil {
			return nil, fmt.Errorf("direct enumeration of replica %s: returned=%v err=%v", nd.name, ok, err)
		}
		for _, sb := range got {
			ref.held[sb.Ref] = true
			add(ref.enumSizes, sb)
			ref.PerRep[nd.name] = append(ref.PerRep[nd.name], sb.String())
		}
		var mu sync.Mutex
		err = nd.ts.StatBlobs(context.Background(), refs, func(sb blob.SizedRef) error {
			mu.Lock()
			add(ref.statSizes, sb)
			mu.Unlock()
			return nil
		})
		if err != nil {
			return nil, fmt.Errorf("direct stat of replica %s: %v", nd.name, err)
		}
	}
	// cross-check with the memory stores below the wrappers
	for _, b := range uni {
		h := false
		for _, nd := range cl.read {
			h = h || nd.holds(b)
		}
		if h != ref.held[b.Ref] {
			return nil, fmt.Errorf("replica enumerations and memory stores disagree on %v", b.Ref)
		}
	}
	for r := range ref.held {
		ref.sorted = append(ref.sorted, r.String())
	}
	sort.Strings(ref.sorted)
	return ref, nil
}

func sizeList(m map[uint32]bool) string {
	var s []int
	for k := range m {
		s = append(s, int(k))
	}
	sort.Ints(s)
	return fmt.Sprint(s)
}

// judgeLiedReads enumerates (cursor x limit family, chained paging) and stats through the replica
// store and judges the answers against ref.  full selects the large cursor family.
func judgeLiedReads(r *ev.Run, cl *cluster, ref *readRef, uni []sto.Blob, site string, full bool, rng *rand.Rand, wit any) {
	reports := 0
	bad := func(sig, format string, a ...any) {
		reports++
		if reports > 5 {
			return
		}
		r.Violation(sig, fmt.Sprintf("[%s] ", cl.cfg())+fmt.Sprintf(format, a...), wit)
	}
	enum := func(after string, limit int) ([]blob.SizedRef, bool) {
		got, err, ok := collectEnum(cl.s, after, limit)
		if !ok {
			r.Inconclusive(fmt.Sprintf("%s: EnumerateBlobs(after=%q, limit=%d) did not return within %v", site, after, limit, watchdog))
			return nil, false
		}
		r.Eval(1)
		r.Count("lied_enumerates", 1)
		if err != nil {
			bad("op-error/"+site+".enumerate", "enumerate after=%q limit=%d failed (%v) although no replica returned an error", after, limit, err)
			return got, false
		}
		if len(got) > limit {
			bad("enum-limit/"+site, "enumerate after=%q limit=%d returned %d entries: %v", after, limit, len(got), got)
		}
		prev := after
		seen := map[blob.Ref]bool{}
		for i, sb := range got {
			s := sb.Ref.String()
			switch {
			case seen[sb.Ref]:
				bad("enum-dup/"+site, "enumerate after=%q limit=%d lists %v more than once (page %v; sizes reported by the read replicas: %s)", after, limit, sb.Ref, got, sizeList(ref.enumSizes[sb.Ref]))
			case !(s > prev) && i == 0:
				bad("enum-cursor/"+site, "enumerate after=%q returned %v, which is not after the cursor", after, s)
			case !(s > prev):
				bad("enum-order/"+site, "enumerate after=%q: %v follows %v (not ascending)", after, s, prev)
			}
			seen[sb.Ref] = true
			prev = s
			if !ref.held[sb.Ref] {
				bad("absent-served/"+site+".enumerate", "enumerate after=%q lists %v, which no read replica holds", after, sb.Ref)
				continue
			}
			if !ref.enumSizes[sb.Ref][sb.Size] {
				bad("enum-size/"+site, "enumerate lists %v with size %d; the read replicas holding it report %s", sb.Ref, sb.Size, sizeList(ref.enumSizes[sb.Ref]))
			}
		}
		// completeness: every held ref after the cursor and not beyond the last entry of a full page
		bound := "\xff"
		if len(got) >= limit && len(got) > 0 {
			bound = got[len(got)-1].Ref.String()
			for _, sb := range got { // a page with repeated / unordered entries: the largest ref bounds it
				if s := sb.Ref.String(); s > bound {
					bound = s
				}
			}
		}
		for _, w := range ref.sorted {
			if w <= after {
				continue
			}
			if w > bound {
				break
			}
			if !seen[blob.MustParse(w)] {
				bad("enum-missing/"+site, "enumerate after=%q limit=%d skipped %s, which a read replica holds (page %v)", after, limit, w, got)
				break
			}
		}
		return got, true
	}

	cursors := []string{"", "sha1-", "sha224-", "sha256-", "t"}
	for _, b := range uni {
		s := b.Ref.String()
		cursors = append(cursors, s, s[:len(s)-1])
		if full {
			lo := []byte(s)
			lo[len(lo)-1]--
			cursors = append(cursors, s+"0", string(lo))
		}
	}
	limits := []int{1, 2, 3, 1000}
	if full {
		limits = []int{1, 2, 3, 4, len(ref.sorted), len(ref.sorted) + 1, 1000}
	}
	for _, cur := range cursors {
		for _, lim := range limits {
			if lim < 1 {
				continue
			}
			if _, ok := enum(cur, lim); !ok && reports == 0 {
				return // inconclusive
			}
		}
	}
	// chained paging: every held ref exactly once
	for _, lim := range []int{1, 2, 3} {
		after := ""
		visited := map[blob.Ref]int{}
		okAll := true
		for page := 0; page <= len(ref.sorted)+3; page++ {
			got, ok := enum(after, lim)
			if !ok {
				okAll = false
				break
			}
			for _, sb := range got {
				visited[sb.Ref]++
			}
			if len(got) < lim {
				break
			}
			after = got[len(got)-1].Ref.String()
		}
		if okAll {
			r.Eval(1)
			for _, w := range ref.sorted {
				if k := visited[blob.MustParse(w)]; k != 1 {
					bad("enum-paging/"+site, "paging with limit %d visited %s %d times (want once)", lim, w, k)
					break
				}
			}
		}
	}

	// stat: the whole universe in one batch (seeded order), then every blob alone
	perm := rng.Perm(len(uni))
	batches := [][]sto.Blob{nil}
	for _, p := range perm {
		batches[0] = append(batches[0], uni[p])
	}
	for _, b := range uni {
		batches = append(batches, []sto.Blob{b})
	}
	for _, bs := range batches {
		var refs []blob.Ref
		asked := map[blob.Ref]bool{}
		for _, b := range bs {
			refs = append(refs, b.Ref)
			asked[b.Ref] = true
		}
		var mu sync.Mutex
		var got []blob.SizedRef
		var err error
		if !ev.WithTimeout(watchdog, func() {
			err = cl.s.StatBlobs(context.Background(), refs, func(sb blob.SizedRef) error {
				mu.Lock()
				got = append(got, sb)
				mu.Unlock()
				return nil
			})
		}) {
			r.Inconclusive(fmt.Sprintf("%s: StatBlobs of %d refs did not return within %v", site, len(refs), watchdog))
			return
		}
		r.Eval(1)
		r.Count("lied_stats", 1)
		if err != nil {
			bad("op-error/"+site+".stat", "stat of %d refs failed (%v) although no replica returned an error", len(refs), err)
			continue
		}
		cnt := map[blob.Ref]int{}
		for _, sb := range got {
			cnt[sb.Ref]++
			switch {
			case !asked[sb.Ref]:
				bad("stat-unasked/"+site, "stat reported %v, which was not asked for", sb.Ref)
			case !ref.held[sb.Ref]:
				bad("absent-served/"+site+".stat", "stat reported %v, which no read replica holds", sb.Ref)
			case !ref.statSizes[sb.Ref][sb.Size]:
				bad("stat-size/"+site, "stat reported %v with size %d; the read replicas holding it report %s", sb.Ref, sb.Size, sizeList(ref.statSizes[sb.Ref]))
			}
		}
		for _, b := range bs {
			switch k := cnt[b.Ref]; {
			case k > 1:
				bad("stat-dup/"+site, "stat of %d refs reported %v %d times (sizes reported by the read replicas: %s)", len(refs), b.Ref, k, sizeList(ref.statSizes[b.Ref]))
			case k == 0 && ref.held[b.Ref]:
				bad("stat-missing/"+site, "stat of %d refs did not report %v, which a read replica holds", len(refs), b.Ref)
			}
		}
	}
}

// ------------------------------------------------------------------ mr: overlap patterns with lying read replicas

type mrcase struct {
	ID        string    `json:"case_id"`
	N         int       `json:"n"`
	Distinct  bool      `json:"distinct_read_backends"`
	Place     [3]int    `json:"-"`
	Placement [3]string `json:"placement"`
	Liars     uint      `json:"liar_mask"`
	LiarNames string    `json:"liars"`
	LieBlobs  uint      `json:"lied_about_blob_mask"`
	Ops       string    `json:"lying_ops"`
	Kind      string    `json:"wrong_size_kind"`
	Hashes    string    `json:"hashes"`
	Blobs     []string  `json:"blobs"`
	Reported  *readRef  `json:"reported_by_replicas,omitempty"`
}

var lieOps = []string{"both", "enumerate", "stat"}
var lieKinds = []string{"short", "long", "zero", "differ"}

// lieTouches reports whether some liar holds a blob it lies about (else the case is an r/… case).
func (c *mrcase) lieTouches() bool {
	for k := 0; k < 3; k++ {
		if c.LieBlobs&(1<<k) != 0 && uint(c.Place[k])&c.Liars != 0 {
			return true
		}
	}
	return false
}

func misreadJobs(r *ev.Run) []job {
	var jobs []job
	total := 0
	for n := 1; n <= 4; n++ {
		for _, distinct := range []bool{false, true} {
			R := n
			P := 1 << R
			nL := P - 1
			all := P * P * P * nL
			d := "same"
			if distinct {
				d = "distinct"
			}
			rng := r.Rand(fmt.Sprintf("mrcases/n%d/%s", n, d))
			mk := func(i int, lieBlobs uint, ops, kind string) mrcase {
				c := mrcase{N: n, Distinct: distinct, LieBlobs: lieBlobs, Ops: ops, Kind: kind}
				x := i
				var ps []string
				for k := 0; k < 3; k++ {
					c.Place[k] = x % P
					x /= P
					ps = append(ps, fmt.Sprint(c.Place[k]))
				}
				c.Liars = uint(1 + x%nL)
				c.Hashes = "sha224"
				if i%2 == 1 {
					c.Hashes = "mixed"
				}
				c.ID = fmt.Sprintf("mr/n%d-%s/%s/L%d/B%d/%s/%s/%s;", n, d, strings.Join(ps, ","), c.Liars, lieBlobs, ops, kind, c.Hashes)
				return c
			}
			idx := func(p0, p1, p2 int, liars uint) int { return p0 + P*(p1+P*(p2+P*int(liars-1))) }
			var cases []mrcase
			seen := map[string]bool{}
			add := func(c mrcase) {
				if !seen[c.ID] && c.lieTouches() && r.Only(c.ID) {
					seen[c.ID] = true
					cases = append(cases, c)
				}
			}
			// directed: every blob on every read replica; each single replica lies, then all but the
			// first, then all — about all blobs, and about the middle one only
			full := P - 1
			for _, kind := range lieKinds {
				for _, ops := range lieOps {
					for j := 0; j < R; j++ {
						add(mk(idx(full, full, full, 1<<j), 7, ops, kind))
						add(mk(idx(full, full, full, 1<<j), 2, ops, kind))
					}
					add(mk(idx(full, full, full, uint(full)), 7, ops, kind))
					if R > 1 {
						add(mk(idx(full, full, full, uint(full)&^1), 7, ops, kind))
						add(mk(idx(full, 1, full, uint(full)&^1), 5, ops, kind))
					}
				}
			}
			if limit := r.Pick(120, 4000); all <= limit || (r.Thorough() && n <= 3) {
				for i := 0; i < all; i++ {
					add(mk(i, uint(1+rng.Intn(7)), lieOps[rng.Intn(3)], lieKinds[rng.Intn(4)]))
				}
			} else {
				for tries := 0; len(cases) < limit+40 && tries < 50*limit; tries++ {
					add(mk(rng.Intn(all), uint(1+rng.Intn(7)), lieOps[rng.Intn(3)], lieKinds[rng.Intn(4)]))
				}
			}
			total += len(cases)
			for i := 0; i < len(cases); i += 100 {
				shard := cases[i:min(i+100, len(cases))]
				n, distinct := n, distinct
				jobs = append(jobs, func() {
					for k := range shard {
						runMisreadCase(r, n, distinct, &shard[k])
					}
				})
			}
		}
	}
	r.Extra("wrong_size_read_patterns_planned", total)
	return jobs
}

func runMisreadCase(r *ev.Run, n int, distinct bool, c *mrcase) {
	cl, err := newCluster(n, n, distinct, "none")
	if err != nil {
		r.Inconclusive(err.Error())
		return
	}
	rc := rcase{Hashes: c.Hashes}
	uni := readUniverse(r.Seed, &rc)
	R := len(cl.read)
	for k := 0; k < 3; k++ {
		b := uni[k]
		c.Placement[k] = placeString(cl, c.Place[k], false)
		c.Blobs = append(c.Blobs, b.String())
		for j, nd := range cl.read {
			if c.Place[k]&(1<<j) != 0 {
				if err := sto.StoreAll(nd.mem, []sto.Blob{b}); err != nil {
					r.Inconclusive("preload: " + err.Error())
					return
				}
			}
		}
	}
	var names []string
	for j, nd := range cl.read {
		if c.Liars&(1<<j) == 0 {
			continue
		}
		names = append(names, nd.name)
		l := nd.liar
		l.mu.Lock()
		l.sizes = map[blob.Ref]uint32{}
		l.lieEnum = c.Ops != "stat"
		l.lieStat = c.Ops != "enumerate"
		for k := 0; k < 3; k++ {
			if c.LieBlobs&(1<<k) != 0 {
				l.sizes[uni[k].Ref] = wrongSize(c.Kind, j, uint32(len(uni[k].Data)))
			}
		}
		l.mu.Unlock()
	}
	c.LiarNames = strings.Join(names, ",")
	r.Note("wrong_size_reads_n", fmt.Sprintf("n%d", n))
	r.Note("wrong_size_ops", c.Ops)
	r.Note("wrong_size_kind", c.Kind)
	for k := 0; k < 3; k++ {
		if c.LieBlobs&(1<<k) == 0 {
			continue
		}
		H := uint(c.Place[k])
		LH := H & c.Liars
		switch {
		case LH == 0:
			continue
		case H&^LH != 0:
			r.Note("wrong_size_overlap", "liar-and-honest-holder")
			if bits.TrailingZeros(LH) < bits.TrailingZeros(H&^LH) {
				r.Note("wrong_size_overlap", "liar-before-honest-in-read-order")
			} else {
				r.Note("wrong_size_overlap", "honest-before-liar-in-read-order")
			}
		default:
			r.Note("wrong_size_overlap", "all-holders-lie")
		}
		if bits.OnesCount(LH) >= 2 {
			if c.Kind == "differ" {
				r.Note("wrong_size_overlap", "two-liars-disagree")
			} else {
				r.Note("wrong_size_overlap", "two-liars-agree")
			}
		}
		if len(uni[k].Data) == 0 {
			r.Note("wrong_size_overlap", "empty-blob-lied-about")
		}
	}
	if bits.OnesCount(c.LieBlobs) < 3 {
		r.Note("wrong_size_overlap", "only-some-blobs-lied-about")
	}
	_ = R
	ref, err := observeReplicas(cl, uni)
	if err != nil {
		r.Inconclusive(c.ID + ": " + err.Error())
		return
	}
	c.Reported = ref
	r.Count("wrong_size_read_patterns", 1)
	r.Distinct(c.ID)
	if n == 3 {
		r.Sample(c)
	}
	judgeLiedReads(r, cl, ref, uni, "wrong-size-replica", r.Thorough(), r.Rand("mraudit/"+c.ID), map[string]any{"case_id": c.ID, "pattern": c})

	// fetch is not lied about: every held blob is still served intact
	for _, b := range uni {
		data, size, err := fetchAll(cl.s, b.Ref)
		r.Eval(1)
		switch {
		case ref.held[b.Ref] && err != nil:
			r.Violation(fmt.Sprintf("fetch-missed-replica/wrong-size-replica-n%d", n), fmt.Sprintf("[%s] fetch of %v failed (%v) although a read replica holds it", cl.cfg(), b.Ref, err), map[string]any{"case_id": c.ID, "pattern": c})
		case ref.held[b.Ref] && (!bytes.Equal(data, b.Data) || int(size) != len(b.Data)):
			r.Violation("fetch-content/wrong-size-replica", fmt.Sprintf("[%s] fetch of %v returned %d bytes, size %d; want %d", cl.cfg(), b.Ref, len(data), size, len(b.Data)), map[string]any{"case_id": c.ID, "pattern": c})
		case !ref.held[b.Ref] && err == nil:
			r.Violation("fetch-absent-served/wrong-size-replica", fmt.Sprintf("[%s] fetch of %v succeeded although no read replica holds it", cl.cfg(), b.Ref), map[string]any{"case_id": c.ID, "pattern": c})
		}
	}
}

func fetchAll(s blobserver.Storage, br blob.Ref) ([]byte, uint32, error) {
	rc, size, err := s.Fetch(context.Background(), br)
	if err != nil {
		return nil, 0, err
	}
	defer rc.Close()
	data, err := io.ReadAll(rc)
	return data, size, err
}

// ------------------------------------------------------------------ mw: consistently wrong replicas, blobs written through the replica store

type mwcase struct {
	ID       string   `json:"case_id"`
	N        int      `json:"n"`
	M        int      `json:"minWritesForSuccess"`
	Distinct bool     `json:"distinct_read_backends"`
	Wrong    uint     `json:"wrong_size_replica_mask"`
	Kind     string   `json:"wrong_size_kind"`
	Results  []string `json:"receive_results"`
	Reported *readRef `json:"reported_by_replicas,omitempty"`
}

func miswriteJobs(r *ev.Run) []job {
	var cases []mwcase
	for n := 2; n <= 4; n++ {
		for m := 1; m <= n; m++ {
			for _, distinct := range []bool{false, true} {
				for w := uint(1); w < 1<<n; w++ {
					for _, kind := range []string{"short", "long"} {
						d := "same"
						if distinct {
							d = "distinct"
						}
						c := mwcase{N: n, M: m, Distinct: distinct, Wrong: w, Kind: kind}
						c.ID = fmt.Sprintf("mw/n%dm%d-%s/W%d/%s;", n, m, d, w, kind)
						if r.Only(c.ID) {
							cases = append(cases, c)
						}
					}
				}
			}
		}
	}
	r.Extra("wrong_size_write_cases_planned", len(cases))
	var jobs []job
	for i := 0; i < len(cases); i += 40 {
		shard := cases[i:min(i+40, len(cases))]
		jobs = append(jobs, func() {
			for k := range shard {
				runMiswriteCase(r, &shard[k])
			}
		})
	}
	return jobs
}

func runMiswriteCase(r *ev.Run, c *mwcase) {
	cl, err := newCluster(c.N, c.M, c.Distinct, "none")
	if err != nil {
		r.Inconclusive(err.Error())
		return
	}
	nGood := 0
	for i, nd := range cl.w {
		if c.Wrong&(1<<i) == 0 {
			nGood++
			continue
		}
		kind, i := c.Kind, i
		l := nd.liar
		l.mu.Lock()
		l.all = func(s uint32) uint32 { return wrongSize(kind, i, s) }
		l.lieRecv, l.lieStat, l.lieEnum = true, true, true
		l.mu.Unlock()
	}
	nm := fmt.Sprintf("n%dm%d", c.N, c.M)
	uni := []sto.Blob{
		sto.FromBytes(nil),
		sto.FromBytes([]byte(fmt.Sprintf("C12 mw|%d|%s", r.Seed, c.ID))),
		sto.FromBytes(bytes.Repeat([]byte(fmt.Sprintf("C12 mw big|%d|%s|", r.Seed, c.ID)), 30)),
		sto.FromBytes([]byte("C12 mw blob that is never written")),
	}
	wit := map[string]any{"case_id": c.ID, "case": c}
	for _, b := range uni[:3] {
		ctls := make([]*ctl, c.N)
		for i, nd := range cl.w {
			ctls[i] = newCtl(false)
			nd.ts.set(b.Ref, ctls[i])
		}
		var rerr error
		var sb blob.SizedRef
		returned := ev.WithTimeout(watchdog, func() {
			sb, rerr = blobserver.Receive(context.Background(), cl.s, b.Ref, bytes.NewReader(b.Data))
		})
		quiet := returned
		for i := range cl.w {
			quiet = quiet && waitFor(ctls[i].done, watchdog) // stragglers of an early ack
		}
		for _, nd := range cl.w {
			nd.ts.set(b.Ref, nil)
		}
		if !quiet {
			r.Inconclusive(fmt.Sprintf("%s: receive of %v or one of its replica uploads did not finish within %v", c.ID, b.Ref, watchdog))
			return
		}
		r.Eval(1)
		r.Count("wrong_size_write_receives", 1)
		if rerr == nil {
			c.Results = append(c.Results, fmt.Sprintf("ok %v", sb))
			r.Note("wrong_size_write_outcomes", "ack")
			if nGood < c.M {
				r.Violation("ack-when-quorum-impossible/"+nm, fmt.Sprintf("[%s] ReceiveBlob of %v acknowledged success although only %d of %d replicas acknowledge the right size (minWritesForSuccess=%d; replicas %03b report a %s size)", cl.cfg(), b.Ref, nGood, c.N, c.M, c.Wrong, c.Kind), wit)
			} else if sb.Ref != b.Ref || int(sb.Size) != len(b.Data) {
				r.Violation("wrong-size-acked/"+nm, fmt.Sprintf("[%s] ReceiveBlob of %v (%d bytes) acknowledged %v", cl.cfg(), b.Ref, len(b.Data), sb), wit)
			}
		} else {
			c.Results = append(c.Results, "error: "+rerr.Error())
			r.Note("wrong_size_write_outcomes", "error")
			if nGood >= c.M {
				r.Violation("error-despite-quorum/"+nm, fmt.Sprintf("[%s] ReceiveBlob of %v failed (%v) although %d replicas stored it and acknowledged the right size (minWritesForSuccess=%d)", cl.cfg(), b.Ref, rerr, nGood, c.M), wit)
			}
		}
	}
	ref, err := observeReplicas(cl, uni)
	if err != nil {
		r.Inconclusive(c.ID + ": " + err.Error())
		return
	}
	c.Reported = ref
	// which read replicas are wrong?
	var rw, rg int
	for _, nd := range cl.read {
		wrong := false
		for i, w := range cl.w {
			if w == nd && c.Wrong&(1<<i) != 0 {
				wrong = true
			}
		}
		if nd == cl.x {
			continue // never written
		}
		if wrong {
			rw++
		} else {
			rg++
		}
	}
	switch {
	case rw > 0 && rg > 0:
		r.Note("wrong_size_writes", "wrong-and-right-read-replica")
	case rw > 0:
		r.Note("wrong_size_writes", "every-holding-read-replica-wrong")
	default:
		r.Note("wrong_size_writes", "only-write-only-replica-wrong")
	}
	if nGood >= c.M {
		r.Note("wrong_size_writes", "acked-despite-wrong-size-replicas")
	} else {
		r.Note("wrong_size_writes", "refused-but-replicas-hold-it")
	}
	r.Count("wrong_size_write_cases", 1)
	r.Distinct(c.ID)
	if c.N == 3 && c.M == 2 {
		r.Sample(c)
	}
	judgeLiedReads(r, cl, ref, uni, "after-wrong-size-writes", false, r.Rand("mwaudit/"+c.ID), wit)
}

// ------------------------------------------------------------------ rg: Fetch with slow read replicas

const (
	fOK = iota
	fGate
	fErr
)

var fmodeNames = [...]string{"ok", "slow", "error"}

type rgcase struct {
	ID       string   `json:"case_id"`
	N        int      `json:"n"`
	Distinct bool     `json:"distinct_read_backends"`
	Holders  uint     `json:"holders_mask"`
	Modes    []int    `json:"-"`
	ModeList []string `json:"read_replica_modes"`
	Release  string   `json:"release"` // late | early
	Order    []string `json:"read_order"`
	Trace    []string `json:"trace"`
}

func gatedFetchJobs(r *ev.Run) []job {
	var jobs []job
	total := 0
	for n := 1; n <= 4; n++ {
		for _, distinct := range []bool{false, true} {
			R := n
			d := "same"
			if distinct {
				d = "distinct"
			}
			rng := r.Rand(fmt.Sprintf("rgcases/n%d/%s", n, d))
			pow := 1
			for i := 0; i < R; i++ {
				pow *= 3
			}
			var cases []rgcase
			for H := uint(1); H < 1<<R; H++ {
				for a := 0; a < pow; a++ {
					modes := make([]int, R)
					x := a
					gated := false
					for i := range modes {
						modes[i] = x % 3
						x /= 3
						gated = gated || modes[i] == fGate
					}
					if !gated {
						continue
					}
					for _, rel := range []string{"late", "early"} {
						if rel == "early" && !r.Thorough() && R >= 3 && rng.Intn(4) != 0 {
							continue
						}
						if R == 4 && !r.Thorough() && rng.Intn(5) != 0 {
							continue
						}
						c := rgcase{N: n, Distinct: distinct, Holders: H, Modes: modes, Release: rel}
						for _, m := range modes {
							c.ModeList = append(c.ModeList, fmodeNames[m])
						}
						c.ID = fmt.Sprintf("rg/n%d-%s/H%d/%s/%s;", n, d, H, strings.Join(c.ModeList, ","), rel)
						if r.Only(c.ID) {
							cases = append(cases, c)
						}
					}
				}
			}
			total += len(cases)
			for i := 0; i < len(cases); i += 25 {
				shard := cases[i:min(i+25, len(cases))]
				jobs = append(jobs, func() {
					for k := range shard {
						runGatedFetch(r, &shard[k])
					}
				})
			}
		}
	}
	r.Extra("slow_fetch_cases_planned", total)
	return jobs
}

func runGatedFetch(r *ev.Run, c *rgcase) {
	cl, err := newCluster(c.N, c.N, c.Distinct, "Fetch")
	if err != nil {
		r.Inconclusive(err.Error())
		return
	}
	b := sto.FromBytes([]byte(fmt.Sprintf("C12 slow fetch|%d|%s", r.Seed, c.ID)))
	R := len(cl.read)
	arrivedCh := make(chan struct{}, R)
	gates := make([]*fgate, R)
	var G, E uint
	for j, nd := range cl.read {
		c.Order = append(c.Order, nd.name)
		if c.Holders&(1<<j) != 0 {
			if err := sto.StoreAll(nd.mem, []sto.Blob{b}); err != nil {
				r.Inconclusive("preload: " + err.Error())
				return
			}
		}
		switch c.Modes[j] {
		case fGate:
			G |= 1 << j
			g := &fgate{arrived: make(chan struct{}), open: make(chan struct{})}
			gates[j] = g
			nd.liar.mu.Lock()
			nd.liar.gates = map[blob.Ref]*fgate{b.Ref: g}
			nd.liar.notify = func() { arrivedCh <- struct{}{} }
			nd.liar.mu.Unlock()
		case fErr:
			E |= 1 << j
			nd.plan.FaultAt(nd.plan.Calls(), inject.Error)
		}
	}
	defer func() {
		for _, g := range gates {
			if g != nil {
				g.release()
			}
		}
	}()
	trace := func(f string, a ...any) { c.Trace = append(c.Trace, fmt.Sprintf(f, a...)) }

	var (
		data []byte
		size uint32
		ferr error
		ret  = make(chan struct{})
	)
	go func() {
		defer close(ret)
		data, size, ferr = fetchAll(cl.s, b.Ref)
	}()
	pending := map[int]bool{}
	for j, g := range gates {
		if g != nil {
			pending[j] = true
		}
	}
	blockedSeen, releasedAfterReturn := false, false
	for len(pending) > 0 && !closed(ret) {
		// logical wait: the fetch returned, or a slow replica was called
		select {
		case <-ret:
			continue
		case <-arrivedCh:
		case <-time.After(watchdog):
			r.Inconclusive(fmt.Sprintf("%s: neither a return of Fetch nor a call of a slow replica within %v", c.ID, watchdog))
			return
		}
		for j := range gates {
			if !pending[j] || !closed(gates[j].arrived) {
				continue
			}
			trace("slow replica %s called", cl.read[j].name)
			if c.Release == "late" {
				// action selection only: give the fetch a moment to return without this replica
				if !waitFor(ret, pickWait) {
					blockedSeen = true
					trace("fetch still waiting")
				} else {
					releasedAfterReturn = true
					trace("fetch returned while %s was still held", cl.read[j].name)
				}
			}
			gates[j].release()
			trace("slow replica %s released", cl.read[j].name)
			delete(pending, j)
		}
	}
	for _, g := range gates {
		if g != nil {
			g.release()
		}
	}
	if !waitFor(ret, watchdog) {
		r.Inconclusive(fmt.Sprintf("%s: Fetch did not return within %v after every slow replica was released", c.ID, watchdog))
		return
	}
	serving := c.Holders &^ E
	if ferr == nil {
		trace("fetch ok: %d bytes, size %d", len(data), size)
	} else {
		trace("fetch error: %v", ferr)
	}
	r.Eval(1)
	r.Count("slow_fetches", 1)
	r.Distinct(c.ID)
	if c.N == 3 && c.Release == "late" {
		r.Sample(c)
	}
	wit := map[string]any{"case_id": c.ID, "case": c}
	switch {
	case serving != 0 && ferr != nil:
		r.Violation(fmt.Sprintf("fetch-missed-replica/slow-n%d", c.N),
			fmt.Sprintf("[%s] fetch of %v failed (%v): read replicas %s hold it and answer without error (slow: %s, failing: %s)", cl.cfg(), b.Ref, ferr, maskNames(cl, serving), maskNames(cl, G), maskNames(cl, E)), wit)
	case serving != 0 && (!bytes.Equal(data, b.Data) || int(size) != len(b.Data)):
		r.Violation("fetch-content/slow", fmt.Sprintf("[%s] fetch of %v returned %d bytes, size %d; want %d", cl.cfg(), b.Ref, len(data), size, len(b.Data)), wit)
	case serving == 0 && ferr == nil:
		r.Violation("fetch-absent-served/slow", fmt.Sprintf("[%s] fetch of %v succeeded although no healthy read replica holds it (holders %s, failing %s)", cl.cfg(), b.Ref, maskNames(cl, c.Holders), maskNames(cl, E)), wit)
	}
	r.Note("slow_fetch_release", c.Release)
	if blockedSeen {
		r.Note("slow_fetch", "released-while-fetch-waiting")
	}
	if releasedAfterReturn {
		r.Note("slow_fetch", "fetch-returned-before-release")
	}
	nonHolderFast := false
	for j := 0; j < R; j++ {
		if c.Holders&(1<<j) == 0 && c.Modes[j] != fGate {
			nonHolderFast = true
		}
	}
	if G&serving != 0 && serving&^G == 0 {
		r.Note("slow_fetch", "every-serving-holder-slow")
		if nonHolderFast {
			r.Note("slow_fetch", "slow-holder-fast-non-holder")
		}
		if E != 0 {
			r.Note("slow_fetch", "slow-holder-failing-other")
		}
	}
	if G&^c.Holders != 0 && serving != 0 && bits.TrailingZeros(G&^c.Holders) < bits.TrailingZeros(serving) {
		r.Note("slow_fetch", "slow-non-holder-before-holder")
	}
	if serving == 0 {
		r.Note("slow_fetch", "no-serving-holder")
	}
}
