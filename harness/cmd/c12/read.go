package main

import (
	"bytes"
	"context"
	"fmt"
	"io"
	"math/bits"
	"strings"

	"verif.local/harness/ev"
	"verif.local/harness/inject"
	"verif.local/harness/sto"
)

// A placement of one blob: a bit mask over the read replicas (bit j = read replica j in read
// order; 0 = on no replica), or onlyNonRead (distinct read set only): held by the write-only
// replica and by no read replica.
const onlyNonRead = -1

type rcase struct {
	ID        string    `json:"case_id"`
	N         int       `json:"n"`
	Distinct  bool      `json:"distinct_read_backends"`
	Place     [3]int    `json:"-"`
	AlsoNR    [3]bool   `json:"-"`
	Placement [3]string `json:"placement"`
	Hashes    string    `json:"hashes"`
	Blobs     []string  `json:"blobs"`
}

func placeString(cl *cluster, p int, alsoNR bool) string {
	if p == onlyNonRead {
		return "only-" + cl.nonRead[0].name
	}
	if p == 0 {
		return "none"
	}
	var s []string
	for j, nd := range cl.read {
		if p&(1<<j) != 0 {
			s = append(s, nd.name)
		}
	}
	if alsoNR {
		s = append(s, "+"+cl.nonRead[0].name)
	}
	return strings.Join(s, ",")
}

func readJobs(r *ev.Run) []job {
	var jobs []job
	total := 0
	for n := 1; n <= 4; n++ {
		for _, distinct := range []bool{false, true} {
			R := n
			var places []int
			for p := 0; p < 1<<R; p++ {
				places = append(places, p)
			}
			if distinct {
				places = append(places, onlyNonRead)
			}
			P := len(places)
			all := P * P * P
			d := "same"
			if distinct {
				d = "distinct"
			}
			rng := r.Rand(fmt.Sprintf("rcases/n%d/%s", n, d))
			var picks []int
			if limit := r.Pick(130, all); all <= limit || r.Thorough() {
				for i := 0; i < all; i++ {
					picks = append(picks, i)
				}
			} else {
				seen := map[int]bool{}
				// always include the extremes, then seeded ones
				for _, i := range []int{0, all - 1} {
					seen[i] = true
					picks = append(picks, i)
				}
				for len(picks) < limit {
					i := rng.Intn(all)
					if !seen[i] {
						seen[i] = true
						picks = append(picks, i)
					}
				}
			}
			var cases []rcase
			for _, i := range picks {
				c := rcase{N: n, Distinct: distinct}
				x := i
				var ps []string
				for k := 0; k < 3; k++ {
					c.Place[k] = places[x%P]
					x /= P
					c.AlsoNR[k] = distinct && c.Place[k] > 0 && rng.Intn(2) == 0
					ps = append(ps, fmt.Sprint(c.Place[k]))
					if c.AlsoNR[k] {
						ps[k] += "+"
					}
				}
				c.Hashes = "sha224"
				if i%2 == 1 {
					c.Hashes = "mixed"
				}
				c.ID = fmt.Sprintf("r/n%d-%s/%s/%s;", n, d, strings.Join(ps, ","), c.Hashes)
				if r.Only(c.ID) {
					cases = append(cases, c)
				}
			}
			total += len(cases)
			for i := 0; i < len(cases); i += 200 {
				shard := cases[i:min(i+200, len(cases))]
				n, distinct := n, distinct
				jobs = append(jobs, func() {
					for k := range shard {
						runReadCase(r, n, distinct, &shard[k])
					}
				})
			}
		}
	}
	r.Extra("read_patterns_planned", total)
	return jobs
}

func readUniverse(seed int64, c *rcase) []sto.Blob {
	hs := []string{"sha224", "sha224", "sha224", "sha224"}
	if c.Hashes == "mixed" {
		hs = []string{"sha1", "sha224", "sha256", "sha1"}
	}
	datas := [][]byte{
		nil, // the empty blob
		[]byte(fmt.Sprintf("C12 read blob B seed %d", seed)),
		bytes.Repeat([]byte(fmt.Sprintf("C12 read blob C seed %d / ", seed)), 40),
		[]byte("C12 blob that is on no replica"),
	}
	out := make([]sto.Blob, 4)
	for i := range out {
		out[i] = sto.Blob{Ref: sto.RefOf(hs[i], datas[i]), Data: datas[i]}
	}
	return out
}

func runReadCase(r *ev.Run, n int, distinct bool, c *rcase) {
	cl, err := newCluster(n, n, distinct, "Fetch")
	if err != nil {
		r.Inconclusive(err.Error())
		return
	}
	r.Note("n", fmt.Sprintf("n%d", n))
	if distinct {
		r.Note("read_backends", "distinct")
	} else {
		r.Note("read_backends", "same")
	}
	uni := readUniverse(r.Seed, c)
	R := len(cl.read)
	nontrivial := false
	for k := 0; k < 3; k++ {
		b := uni[k]
		p := c.Place[k]
		c.Placement[k] = placeString(cl, p, c.AlsoNR[k])
		c.Blobs = append(c.Blobs, b.String())
		var targets []*node
		switch {
		case p == onlyNonRead:
			targets = append(targets, cl.nonRead[0])
			r.Note("placements", "only-on-non-read-replica")
			nontrivial = true
		case p == 0:
			r.Note("placements", "on-none")
			nontrivial = true
		default:
			for j, nd := range cl.read {
				if p&(1<<j) != 0 {
					targets = append(targets, nd)
				}
			}
			switch cnt := bits.OnesCount(uint(p)); {
			case cnt == R && R > 1:
				r.Note("placements", "on-all-read-replicas")
				r.Note("placements", "on-several-read-replicas")
				nontrivial = true
			case cnt > 1:
				r.Note("placements", "on-several-read-replicas")
				nontrivial = true
			default:
				r.Note("placements", "on-one-read-replica")
				if R == 1 {
					r.Note("placements", "on-all-read-replicas")
				}
			}
			if c.AlsoNR[k] {
				targets = append(targets, cl.nonRead[0])
				r.Note("placements", "on-read-and-non-read-replica")
			}
		}
		for _, nd := range targets {
			// pre-populate the memory replica directly, below the injector
			if err := sto.StoreAll(nd.mem, []sto.Blob{b}); err != nil {
				r.Inconclusive("preload: " + err.Error())
				return
			}
		}
	}
	r.Count("read_patterns", 1)
	if nontrivial {
		r.Distinct(c.ID)
	}
	if n == 3 && nontrivial {
		r.Sample(c)
	}

	// Fetch under every subset E of failing read replicas (injected error on that replica's next Fetch).
	ctx := context.Background()
	for k := 0; k < 4; k++ {
		b := uni[k]
		var holders uint
		for j, nd := range cl.read {
			if nd.holds(b) {
				holders |= 1 << j
			}
		}
		for E := uint(0); E < 1<<R; E++ {
			for j, nd := range cl.read {
				if E&(1<<j) != 0 {
					nd.plan.FaultAt(nd.plan.Calls(), inject.Error)
				}
			}
			rc, size, err := cl.s.Fetch(ctx, b.Ref)
			var data []byte
			streamBroke := false
			if err == nil {
				data, err = io.ReadAll(rc)
				rc.Close()
				streamBroke = err != nil
			}
			for _, nd := range cl.read {
				nd.plan.ClearFaults() // a fault on a replica the fetch never reached must not leak into the next fetch
			}
			serving := holders &^ E
			r.Eval(1)
			r.Count("fetches", 1)
			wit := map[string]any{"case_id": c.ID, "pattern": c, "blob": b.String(), "holders_mask": holders, "failing_mask": E}
			switch {
			case serving != 0 && streamBroke:
				// Fetch reported success (size %d) but the stream it returned cannot be read to the end
				r.Violation(fmt.Sprintf("fetch-stream-unreadable/n%d", n),
					fmt.Sprintf("[%s] fetch of %v returned a stream (size %d) that fails after %d of %d bytes: %v; healthy read replicas %s hold the blob (their streams stay bound to the context their Fetch was called with; the caller's context never ended)", cl.cfg(), b.Ref, size, len(data), len(b.Data), err, maskNames(cl, serving)), wit)
			case serving != 0 && err != nil:
				r.Violation(fmt.Sprintf("fetch-missed-replica/n%d", n),
					fmt.Sprintf("[%s] fetch of %v failed (%v): read replicas %s hold it and are healthy (failing replicas: %s)", cl.cfg(), b.Ref, err, maskNames(cl, serving), maskNames(cl, E)), wit)
			case serving != 0 && (!bytes.Equal(data, b.Data) || int(size) != len(b.Data)):
				r.Violation("fetch-content/read", fmt.Sprintf("[%s] fetch of %v returned %d bytes, size %d; want %d", cl.cfg(), b.Ref, len(data), size, len(b.Data)), wit)
			case serving == 0 && err == nil:
				r.Violation("fetch-absent-served/read", fmt.Sprintf("[%s] fetch of %v succeeded although no healthy read replica holds it (holders %s, failing %s)", cl.cfg(), b.Ref, maskNames(cl, holders), maskNames(cl, E)), wit)
			}
			switch {
			case E == 0:
				r.Note("fetch_faults", "no-fault")
			case holders != 0 && serving == 0:
				r.Note("fetch_faults", "all-holders-fail")
			case serving != 0:
				first := bits.TrailingZeros(serving)
				if E&(1<<first-1) != 0 {
					r.Note("fetch_faults", "earlier-replica-fails-later-holds")
				}
				if holders&E != 0 {
					r.Note("fetch_faults", "some-holder-fails-other-serves")
				}
			}
		}
	}

	// stat + enumerate (every cursor / limit family of the storage checker): each blob exactly once, true size
	auditReads(r, cl, uni, r.Rand("raudit/"+c.ID), r.Thorough(), "read", map[string]any{"case_id": c.ID, "pattern": c})
}

func maskNames(cl *cluster, m uint) string {
	var s []string
	for j, nd := range cl.read {
		if m&(1<<j) != 0 {
			s = append(s, nd.name)
		}
	}
	if len(s) == 0 {
		return "(none)"
	}
	return strings.Join(s, ",")
}
