// C10 — every sorted key/value store is a byte-ordered map with atomic batches.
//
// Seeded operation histories (get/set/delete/batch/find/flush/reopen) are run against
// every sorted.KeyValue implementation available offline (memory, leveldb, kv file,
// sqlite, and buffer.New(memory, X, max) over each of them) and every result is compared
// with a reference model (Go map + byte-ordered key slice).  Two bounded sub-checks observe
// batch unity: a concurrent reader over keys that batches always write together
// (batch-torn), and a batch whose commit is made to fail (batch-partial).  Histories also
// commit batches that must change nothing (no mutations, only over-limit sets, only deletes
// of absent keys; noop.go), and a concurrent family runs single-writer-per-key writers next
// to Flush calls on one write buffer (conc.go); generation-stamped batches of up to 6000 sets are
// committed on the memory store and the write buffers next to Get readers (gen.go).
package main

import (
	"fmt"
	"io"
	"log"
	"os"
	"strings"
	"sync"
	"time"

	"perkeep.org/pkg/sorted"

	"verif.local/harness/ev"
)

const rule = "seeded histories of 100-600 operations (get/set/delete/batch of 1-52 mixed sets and deletes with repeated keys/" +
	"find over [start,end) incl. empty, equal and inverted bounds, stopped early/flush/close+reopen/wipe/read transaction) over a clustered key universe " +
	"(prefixes of each other, '|' ':' '%' space '~', multi-byte UTF-8, raw high bytes, lengths 1, max-1/max/max+1 and 70000) and values " +
	"(empty, short, max-1/max/max+1 bytes) on 16 implementations, every result compared with a map + sorted-slice model, about one op in 20 followed by a batch that must change nothing (no mutations / only over-limit sets / only deletes of absent keys) and a full audit; " +
	"plus per implementation histories pre-loaded with 2000-5000 index-style keys through batches (overwritten and deleted in runs of neighbours, scans stopped after 0-3000 pairs); " +
	"distinct = (implementation, hash of the executed operation sequence); non-trivial = the history contains >=1 batch that repeats a key, " +
	">=1 delete of a present key, >=3 range scans, and >=1 over-limit mutation"

func main() { ev.Main("C10", "exploration", rule, run) }

func run(r *ev.Run) {
	log.SetOutput(io.Discard)
	r.Assume("reference model = Go map + byte-ordered (bytes.Compare / Go string order) key slice, written from the property statement")
	r.Assume(fmt.Sprintf("size limits are the documented constants sorted.MaxKeySize=%d and sorted.MaxValueSize=%d; a mutation over a limit is silently skipped (Set returns nil, previous value stays), as kvtest.testInsertTooLarge and the property statement say", sorted.MaxKeySize, sorted.MaxValueSize))
	r.Assume("the KeyValue interface says nothing about empty keys and NUL bytes; keys are non-empty and keys/values NUL-free")
	r.Assume("a batch is built and committed without interleaved calls from the same goroutine; iterators are closed before the next call (sqlite holds a gate for both)")
	r.Assume("batch unity under concurrency is judged only for leveldb, sqlite and kv (documented transactional batches); memory and buffer are reported, not judged there (memdb iterators are live, and the buffer deletes from its backing store in a second step)")
	r.Assume("the memory KeyValue and the write buffer make a batch one unit for Get by their own locking (memory: CommitBatch and Get take one mutex; buffer: CommitBatch and Get under its read lock, Flush under its write lock, Get asks the memory layer first): next to a writer whose batches set all n keys to one generation, the generations a reader's successive Gets return never decrease and lie between the batches completed before and started after; range scans and batches with deletes are not judged under concurrency on these two")
	r.Assume("failed-commit atomicity is forced by committing after Close on leveldb and kv (clean error); on sqlite by a statement of the batch that the database refuses (a harness-installed trigger raises ABORT for one poisoned key, first / inside / last in the batch) and by Close between BeginBatch and CommitBatch; buffer with an injected backing error is reported, not judged; kv file has no control point for a failure in the middle of a batch (modernc kv accepts a delete of any key length; its writes reach the file only at commit)")
	r.Assume("the optional interfaces are judged by their documentation in pkg/sorted/kv.go: after Wiper.Wipe the store is the empty map and goes on as a map; reads through a ReadTransaction equal the map as it was at BeginReadTx (later writes are interleaved only on leveldb: the sqlite transaction holds the store's gate until closed)")

	r.Assume("a batch without mutations, a batch of only over-limit sets and a batch that only deletes absent keys are committed batches with zero applied mutations: CommitBatch returns nil and the map is unchanged")
	r.Assume("one buffer.KeyValue is used from several goroutines (buffer.go documents its read/write lock for exactly that, and flushes from whichever goroutine's Set crosses the limit); concurrency is judged only per key with a single writer goroutine: that writer's own Get between its writes, and everything after all goroutines have returned, equal its last write; Flush is not a map operation. Nothing is judged about reads racing with another goroutine's write, and no verdict depends on time")

	root := ev.Scratch("c10")
	defer os.RemoveAll(root)

	specs := allSpecs()
	tStart := time.Now()
	nHist := r.Pick(12, 320)
	nBulk, bulkN := r.Pick(1, 3), r.Pick(2000, 5000)

	// Flush of an empty buffer is probed first (a backing store whose BeginBatch takes a
	// resource must not be left holding it): a wedged store is reported once there, and the
	// histories over that combination are then skipped instead of each running into the watchdog.
	flushHangs := probeFlushEmpty(r, root)

	var wg sync.WaitGroup
	sem := make(chan struct{}, 16)
	for _, sp := range specs {
		sp := sp
		wg.Add(1)
		go func() {
			defer wg.Done()
			sem <- struct{}{}
			defer func() { <-sem }()
			if sp.buffered && flushHangs[sp.base] {
				r.Inconclusive(fmt.Sprintf("%s not exercised: Flush of an empty buffer over %s wedges the store (see hang/buffer-%s.flush-empty)", sp.name, sp.base, sp.base))
				return
			}
			n := nHist
			if r.Thorough() && sp.base == "sqlite" {
				n = nHist * 5 / 8 // sqlite is ~10x slower per op
			}
			for h := 0; h < n; h++ {
				id := fmt.Sprintf("%s#%d;", sp.name, h)
				if !r.Only(id) {
					continue
				}
				ok := ev.WithTimeout(time.Duration(r.Pick(240, 900))*time.Second, func() {
					runHistory(r, root, id, sp, h, 0)
				})
				if !ok {
					r.Inconclusive(fmt.Sprintf("history %s did not finish (watchdog); remaining histories of %s skipped", id, sp.name))
					return
				}
			}
			// histories over thousands of live keys (scans cross pages / blocks / long merge runs)
			for h := 0; h < nBulk; h++ {
				id := fmt.Sprintf("%s#bulk%d;", sp.name, h)
				if !r.Only(id) {
					continue
				}
				t0 := time.Now()
				ok := ev.WithTimeout(time.Duration(r.Pick(240, 900))*time.Second, func() {
					runHistory(r, root, id, sp, 1000+h, bulkN)
				})
				if os.Getenv("C10_DEBUG") != "" {
					fmt.Fprintf(os.Stderr, "TIMING %s %v (since start %v)\n", id, time.Since(t0), time.Since(tStart))
				}
				if !ok {
					r.Inconclusive(fmt.Sprintf("history %s did not finish (watchdog)", id))
					break
				}
			}
			if id := "torn/" + sp.name + ";"; r.Only(id) {
				ok := ev.WithTimeout(time.Duration(r.Pick(240, 900))*time.Second, func() { tornCheck(r, root, id, sp) })
				if !ok {
					r.Inconclusive("batch-torn sub-check of " + sp.name + " did not finish (watchdog)")
				}
			}
			if id := "failbatch/" + sp.name + ";"; r.Only(id) {
				ok := ev.WithTimeout(120*time.Second, func() { failedBatchCheck(r, root, id, sp) })
				if !ok {
					r.Inconclusive("failed-batch sub-check of " + sp.name + " did not finish (watchdog)")
				}
			}
		}()
	}
	// writers concurrent with Flush on one write buffer (conc.go)
	nConc := r.Pick(4, 24)
	for _, base := range bases {
		for round := 0; round < nConc; round++ {
			base, round := base, round
			id := fmt.Sprintf("concflush/buffer-%s#%d;", base, round)
			if !r.Only(id) || flushHangs[base] {
				continue
			}
			wg.Add(1)
			go func() {
				defer wg.Done()
				sem <- struct{}{}
				defer func() { <-sem }()
				t0 := time.Now()
				concFlushWatch(r, root, id, base, round)
				if debugTiming {
					fmt.Fprintf(os.Stderr, "TIMING %s %v\n", id, time.Since(t0))
				}
			}()
		}
	}
	// generation-stamped batches of many sets next to Get readers (gen.go)
	nGen := r.Pick(4, 12)
	for _, site := range genBatchSites() {
		for round := 0; round < nGen; round++ {
			site, round := site, round
			base, buffered := site, false
			if strings.HasPrefix(site, "buffer-") {
				base, buffered = strings.TrimPrefix(site, "buffer-"), true
			}
			id := fmt.Sprintf("genbatch/%s#%d;", site, round)
			if !r.Only(id) || (buffered && flushHangs[base]) {
				continue
			}
			wg.Add(1)
			go func() {
				defer wg.Done()
				sem <- struct{}{}
				defer func() { <-sem }()
				t0 := time.Now()
				genBatchWatch(r, root, id, site, base, buffered, round)
				if debugTiming {
					fmt.Fprintf(os.Stderr, "TIMING %s %v\n", id, time.Since(t0))
				}
			}()
		}
	}
	wg.Wait()
	if debugTiming {
		dumpTimings()
	}

	if os.Getenv("VERIF_ONLY") != "" {
		return // a replay runs one case; coverage requirements are for full runs
	}
	var names, persistent, buffers, judged []string
	for _, sp := range specs {
		names = append(names, sp.name)
		if sp.persistent {
			persistent = append(persistent, sp.name)
		}
		if sp.buffered {
			buffers = append(buffers, sp.name)
		}
		if sp.judgeTorn {
			judged = append(judged, sp.name)
		}
	}
	r.Require("implementations", names...)
	for _, op := range []string{"get", "set", "delete", "batch", "find"} {
		r.Require("op_"+op, names...)
	}
	r.Require("op_flush", buffers...)
	r.Require("op_reopen", persistent...)
	r.Require("key_classes", keyClassNames()...)
	r.Require("value_classes", valueClassNames()...)
	r.Require("size_limit_classes", sizeLimitClassNames()...)
	r.Require("find_kinds", "both-empty", "empty-start", "empty-end", "start>end", "start==end", "range", "partial-iteration", "bound-not-a-key")
	r.Require("batch_features", "repeated-key", "set-then-delete", "delete-then-set", "mixed", "oversize-inside")
	r.Require("op_noop_batch", names...)
	for _, kind := range []string{"no-mutations", "only-oversize-sets", "only-deletes-of-absent-keys"} {
		r.Require("noop_batch_kinds", kind)
		r.Require("noop_batch_after_plain_sets/"+kind, names...)
	}
	r.Require("conc_flush_ran", "buffer-memory", "buffer-leveldb", "buffer-kv", "buffer-sqlite")
	r.Require("conc_flush_shapes", "explicit-only/many-keys", "explicit-only/hot-keys", "auto-flush-4096", "auto-flush-64")
	r.Require("gen_batch_ran", genBatchSites()...)
	r.Require("gen_batch_reads_overlapping_a_commit", genBatchSites()...)
	r.Require("gen_batch_sizes", "2-5", "16-115", ">=1000", ">=4000")
	r.Require("torn_subcheck_ran", names...)
	r.Require("torn_reads_overlapping_a_commit", judged...)
	r.Require("failed_batch_forced", "leveldb", "kv", "sqlite")
	for _, v := range []string{"insert-fails", "delete-fails"} {
		for _, w := range []string{"first", "inside", "last"} {
			r.Require("failed_batch_midway", "sqlite/"+v+"/"+w)
		}
	}
	var plain []string
	for _, sp := range specs {
		if !sp.buffered {
			plain = append(plain, sp.name)
		}
	}
	r.Require("op_wipe", plain...)
	r.Require("wipe_kinds", "non-empty", ">=1000-keys")
	r.Require("op_readtx", "leveldb", "sqlite")
	r.Require("readtx_kinds", "reads", "reads-after-later-writes")
	r.Require("giant_key_ops", "get", "set", "delete", "batch-set", "batch-delete", "find-start", "find-end")
	r.Require("bulk_history_ran", names...)
}
