package main

import (
	"fmt"
	"path/filepath"

	"go4.org/jsonconfig"
	"perkeep.org/pkg/sorted"
	"perkeep.org/pkg/sorted/buffer"
	_ "perkeep.org/pkg/sorted/kvfile"
	_ "perkeep.org/pkg/sorted/leveldb"
	_ "perkeep.org/pkg/sorted/sqlite"
)

// spec is one implementation under test.
type spec struct {
	name       string // evidence name, e.g. "buffer-leveldb-64"
	site       string // signature site, e.g. "buffer-leveldb" (structural: no tuning numbers)
	base       string // memory | leveldb | kv | sqlite
	buffered   bool
	max        int64
	persistent bool // contents survive Close + reopen
	judgeTorn  bool // documents transactional batches
}

var bases = []string{"memory", "leveldb", "kv", "sqlite"}

func allSpecs() []*spec {
	var out []*spec
	for _, b := range bases {
		out = append(out, &spec{name: b, site: b, base: b, persistent: b != "memory", judgeTorn: b != "memory"})
	}
	for _, b := range bases {
		for _, max := range []int64{0, 64, 4096} {
			out = append(out, &spec{name: fmt.Sprintf("buffer-%s-%d", b, max), site: "buffer-" + b, base: b,
				buffered: true, max: max, persistent: b != "memory"})
		}
	}
	return out
}

// inst is one open incarnation of an implementation.
type inst struct {
	kv   sorted.KeyValue
	buf  *buffer.KeyValue // non-nil for buffered specs
	back sorted.KeyValue  // the store below the buffer (or kv itself)
}

func openBase(base, dir string) (sorted.KeyValue, error) {
	if base == "memory" {
		return sorted.NewMemoryKeyValue(), nil
	}
	// a fresh config object per call: jsonconfig records the keys it was asked for
	return sorted.NewKeyValue(jsonconfig.Obj{"type": base, "file": filepath.Join(dir, "db."+base)})
}

// open opens (or re-opens) the implementation over the state in dir.
func (s *spec) open(dir string) (*inst, error) {
	back, err := openBase(s.base, dir)
	if err != nil {
		return nil, err
	}
	if !s.buffered {
		return &inst{kv: back, back: back}, nil
	}
	b := buffer.New(sorted.NewMemoryKeyValue(), back, s.max)
	return &inst{kv: b, buf: b, back: back}, nil
}
