package main

import (
	"fmt"
	"math/rand"
	"sort"
	"strconv"
	"strings"
	"unicode/utf8"

	"perkeep.org/pkg/sorted"
)

const (
	maxK = sorted.MaxKeySize
	maxV = sorted.MaxValueSize
	// giantK is the length of the one key per universe that is far over the limit (larger than
	// the 64 KiB-class native limits of the libraries below: a Set must skip it, Get/Delete/Find
	// must treat it like any other absent key or bound).
	giantK = 70000
)

// ukey is one key of a history's universe.
type ukey struct {
	K       string
	Desc    string // exact, ASCII-safe description for witnesses
	Classes []string
}

func keyClassNames() []string {
	return []string{"len-1", fmt.Sprintf("len-%d", maxK-1), fmt.Sprintf("len-%d", maxK), fmt.Sprintf("len-%d", maxK+1), fmt.Sprintf("len-%d", giantK),
		"pipe", "colon", "percent", "space", "tilde", "utf8-multibyte", "raw-high-byte", "prefix-of-other"}
}

func valueClassNames() []string {
	return []string{"empty", "short", fmt.Sprintf("len-%d", maxV-1), fmt.Sprintf("len-%d", maxV), fmt.Sprintf("len-%d", maxV+1)}
}

func sizeLimitClassNames() []string {
	var out []string
	for _, ctx := range []string{"set", "batch"} {
		out = append(out, ctx+"/key=max-stored", ctx+"/key>max-skipped", ctx+"/key>>max-skipped", ctx+"/value=max-stored", ctx+"/value>max-skipped")
	}
	return out
}

func contentClasses(k string) []string {
	var out []string
	switch len(k) {
	case 1, maxK - 1, maxK, maxK + 1, giantK:
		out = append(out, fmt.Sprintf("len-%d", len(k)))
	}
	for _, c := range []struct {
		ch   string
		name string
	}{{"|", "pipe"}, {":", "colon"}, {"%", "percent"}, {" ", "space"}, {"~", "tilde"}} {
		if strings.Contains(k, c.ch) {
			out = append(out, c.name)
		}
	}
	multi, raw := false, false
	for i := 0; i < len(k); {
		r, n := utf8.DecodeRuneInString(k[i:])
		if r == utf8.RuneError && n == 1 {
			raw = true
		} else if n > 1 {
			multi = true
		}
		i += n
	}
	if multi {
		out = append(out, "utf8-multibyte")
	}
	if raw {
		out = append(out, "raw-high-byte")
	}
	return out
}

var stemPool = []string{
	"a", "ab", "abc", "ab|", "ab|c", "ab|c|d", "ab:", "ab:c", "ab%", "ab%20c", "ab c", "ab ", "ab~", "ab~z",
	"ab\xc3\xa9", "ab\xe2\x82\xac", "ab\xe2\x82\xacx", "ab\xc3", "ab\x80", "ab\xff", "ab\xff\xff", "ab\xfe",
	"claim|sha224-aa|2011", "claim|sha224-aa|2011:x", "claim|sha224-aa|", "claim|sha224-ab|2011", "meta:sha224-aa", "have:sha224-aa",
	"have:sha224-ab", "have:sha224-aa|x", "signerkeyid:x", "recpn|a b|~", "recpn|a b|", "recpn|a%20b|~",
	"|", ":", "%", " ", "~", "\xff", "\x80", "\xc3\xa9", "\xe4\xb8\x96\xe7\x95\x8c", "b", "z", "}", "{", "~~", "\xff\xff", " a", "a ",
}

var longHeads = []string{"ab", "ab|", "ab:c", "a", "claim|sha224-aa|", "ab\xc3\xa9", "ab\xff", "~", "ab c", "ab%"}
var longFills = []string{"x", "|", "~", "\xff", "\xc3\xa9", " ", ":", "%", "xy|", "\xe2\x82\xac"}
var suffixChars = []string{"|", ":", "%", " ", "~", "\xff", "\x80", "\xc3\xa9", "a", "0", "}", "\x01", "!"}

func padTo(head, fill string, n int) string {
	var b strings.Builder
	b.WriteString(head)
	for b.Len() < n {
		b.WriteString(fill)
	}
	return b.String()[:n]
}

// buildUniverse returns the clustered key universe of one history.
func buildUniverse(rng *rand.Rand) []ukey {
	seen := map[string]bool{}
	var out []ukey
	add := func(k, desc string) {
		if k == "" || seen[k] || strings.IndexByte(k, 0) >= 0 {
			return
		}
		seen[k] = true
		if desc == "" {
			desc = strconv.Quote(k)
		}
		out = append(out, ukey{K: k, Desc: desc})
	}
	perm := rng.Perm(len(stemPool))
	n := 12 + rng.Intn(7)
	for _, i := range perm[:n] {
		add(stemPool[i], "")
	}
	// at least one one-byte key
	add([]string{"a", "|", "~", "\xff", "\x80", " ", ":", "%"}[rng.Intn(8)], "")
	// keys derived from others (prefix relations)
	for i := 0; i < 3+rng.Intn(3); i++ {
		base := out[rng.Intn(len(out))].K
		add(base+suffixChars[rng.Intn(len(suffixChars))], "")
		if len(base) > 1 && rng.Intn(2) == 0 {
			add(base[:1+rng.Intn(len(base)-1)], "")
		}
	}
	// a chain of long keys that are prefixes of each other: max-1 < max < max+1
	head, fill := longHeads[rng.Intn(len(longHeads))], longFills[rng.Intn(len(longFills))]
	chain := padTo(head, fill, maxK+1)
	for _, l := range []int{maxK - 1, maxK, maxK + 1} {
		add(chain[:l], fmt.Sprintf("pad(head=%q,fill=%q)[:%d]", head, fill, l))
	}
	// one key far over the limit; the chain above is a prefix of it
	add(padTo(head, fill, giantK), fmt.Sprintf("pad(head=%q,fill=%q)[:%d]", head, fill, giantK))
	// further long keys that differ in the last byte
	head2, fill2 := longHeads[rng.Intn(len(longHeads))], longFills[rng.Intn(len(longFills))]
	for _, l := range []int{maxK - 1, maxK, maxK + 1} {
		if rng.Intn(3) == 0 {
			continue
		}
		last := suffixChars[rng.Intn(len(suffixChars))][:1]
		add(padTo(head2, fill2, l-1)+last, fmt.Sprintf("pad(head=%q,fill=%q)[:%d]+%q", head2, fill2, l-1, last))
	}
	if rng.Intn(2) == 0 {
		add(padTo(head, fill, maxK-1)+"\xff", fmt.Sprintf("pad(head=%q,fill=%q)[:%d]+%q", head, fill, maxK-1, "\xff"))
	}
	sort.Slice(out, func(i, j int) bool { return out[i].K < out[j].K })
	for i := range out {
		out[i].Classes = contentClasses(out[i].K)
		for j := range out {
			if i != j && strings.HasPrefix(out[j].K, out[i].K) {
				out[i].Classes = append(out[i].Classes, "prefix-of-other")
				break
			}
		}
	}
	return out
}

// value is a generated value with its class and an ASCII-safe description.
type value struct {
	S     string
	Class string
	Desc  string
}

const valAlphabet = "abcxyz019|:% ~-_/=."

var bigFill = "abc|:% ~\xc3\xa9\xff0123456789-\xe2\x82\xac_"

func mkValue(rng *rand.Rand, id int) value {
	k := rng.Intn(100)
	switch {
	case k < 12:
		return value{"", "empty", `""`}
	case k < 70:
		n := 1 + rng.Intn(24)
		b := make([]byte, 0, n+3)
		for len(b) < n {
			switch c := rng.Intn(20); {
			case c == 0:
				b = append(b, "\xc3\xa9"...)
			case c == 1:
				b = append(b, byte(0x80+rng.Intn(0x80)))
			default:
				b = append(b, valAlphabet[rng.Intn(len(valAlphabet))])
			}
		}
		s := fmt.Sprintf("%d.", id) + string(b)
		return value{s, "short", strconv.Quote(s)}
	}
	var n int
	switch {
	case k < 78:
		n = maxV - 1
	case k < 89:
		n = maxV
	default:
		n = maxV + 1
	}
	return bigValue(id, n)
}

func bigValue(id, n int) value {
	head := fmt.Sprintf("v%d|", id)
	rot := id % len(bigFill)
	s := padTo(head, bigFill[rot:]+bigFill[:rot], n)
	return value{s, fmt.Sprintf("len-%d", n), fmt.Sprintf("big(id=%d,len=%d)", id, n)}
}

func inLimits(k, v string) bool { return len(k) <= maxK && len(v) <= maxV }

func descStr(s string) string {
	if len(s) <= 80 {
		return strconv.Quote(s)
	}
	return fmt.Sprintf("%s...(len=%d)...%s", strconv.Quote(s[:24]), len(s), strconv.Quote(s[len(s)-8:]))
}
