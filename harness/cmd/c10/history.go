package main

import (
	"errors"
	"fmt"
	"hash/fnv"
	"math/rand"
	"os"
	"runtime/debug"
	"sort"
	"strconv"
	"strings"
	"sync"
	"time"

	"perkeep.org/pkg/sorted"

	"verif.local/harness/ev"
)

type opRec struct {
	I     int      `json:"i"`
	Op    string   `json:"op"`
	Key   string   `json:"key,omitempty"`
	Val   string   `json:"val,omitempty"`
	End   string   `json:"end,omitempty"`
	Batch []string `json:"batch,omitempty"`
	Note  string   `json:"note,omitempty"`
}

type caseRec struct {
	CaseID   string   `json:"case_id"`
	Impl     string   `json:"impl"`
	Universe []string `json:"universe"`
	Ops      []opRec  `json:"ops"`
}

type pair struct{ k, v string }

type hist struct {
	r   *ev.Run
	sp  *spec
	id  string
	dir string
	rng *rand.Rand
	// rng2 drives the no-op batches (noop.go): a stream of its own, so that inserting them
	// leaves the rest of the history (drawn from rng) as it was
	rng2 *rand.Rand
	in   *inst
	uni  []ukey
	idx  map[string]int // key -> universe index

	model map[string]string
	rec   *caseRec

	sortedKeys []string // cache of sortedModelKeys; valid while sortedOK
	sortedOK   bool

	// tx, when non-nil, is an open read transaction: checkGet and doFind read through it and
	// h.model is (temporarily) the map as it was when the transaction began.
	tx sorted.ReadTransaction

	bulk     bool // a history pre-loaded with thousands of keys
	baseN    int  // universe keys [0,baseN) are the clustered universe, the rest are bulk keys
	maxLive  int
	midStops int // range scans that stopped after >= 100 pairs with more to come
	bigScans int // range scans that returned >= 1000 pairs

	reported int
	dead     bool
	evals    int
	valID    int

	counts map[string]int
	notes  map[string]map[string]bool

	nFind, nDelPresent, nOversize, nBatchRepeat int

	plainSets int // stored plain Sets since the store was last opened / wiped
	noopID    int
}

func (h *hist) note(set, item string) {
	m := h.notes[set]
	if m == nil {
		m = map[string]bool{}
		h.notes[set] = m
	}
	m[item] = true
}

func (h *hist) log(op opRec) {
	op.I = len(h.rec.Ops)
	h.rec.Ops = append(h.rec.Ops, op)
}

func (h *hist) report(sig, what string) {
	h.reported++
	h.r.Violation(sig, fmt.Sprintf("[%s] %s (op %d of case %s)", h.sp.name, what, len(h.rec.Ops)-1, h.id), h.rec)
}

// guard runs fn; a panic is a violation panic/<where>/<site>.  A panic outside a
// range scan leaves the store in an unknown state and ends the history.
func (h *hist) guard(where string, fn func()) bool {
	p := h.r.Guard(where+"/"+h.sp.site, h.rec, func() {
		if os.Getenv("C10_DEBUG") != "" {
			defer func() {
				if e := recover(); e != nil {
					fmt.Fprintf(os.Stderr, "PANIC in %s of %s: %v\n%s\n", where, h.id, e, debug.Stack())
					panic(e)
				}
			}()
		}
		fn()
	})
	if p {
		h.counts["panics_"+where]++
		if !strings.HasPrefix(where, "find") {
			h.dead = true
		}
	}
	return p
}

func (h *hist) keyDesc(k string) string {
	if i, ok := h.idx[k]; ok && i < h.baseN {
		return "#" + strconv.Itoa(i)
	}
	return descStr(k) // bulk keys are short: described by themselves
}

func (h *hist) sortedModelKeys() []string {
	if h.sortedOK {
		return h.sortedKeys
	}
	ks := make([]string, 0, len(h.model))
	for k := range h.model {
		ks = append(ks, k)
	}
	sort.Strings(ks) // Go string order is byte order
	h.sortedKeys, h.sortedOK = ks, true
	return ks
}

// mset, mdel and mreplace are the only places where the model changes.
func (h *hist) mset(k, v string) {
	if _, ok := h.model[k]; !ok {
		h.sortedOK = false
	}
	h.model[k] = v
	if len(h.model) > h.maxLive {
		h.maxLive = len(h.model)
	}
}

func (h *hist) mdel(k string) {
	if _, ok := h.model[k]; ok {
		h.sortedOK = false
		delete(h.model, k)
	}
}

func (h *hist) mreplace(m map[string]string) {
	h.model = m
	h.sortedOK = false
}

// getFn / findFn read from the store, or from the open read transaction.
func (h *hist) getFn(k string) (string, error) {
	if h.tx != nil {
		return h.tx.Get(k)
	}
	return h.in.kv.Get(k)
}

func (h *hist) findFn(start, end string) sorted.Iterator {
	if h.tx != nil {
		return h.tx.Find(start, end)
	}
	return h.in.kv.Find(start, end)
}

func (h *hist) pickKey(preferPresent bool) ukey {
	if preferPresent && len(h.model) > 0 && h.rng.Intn(100) < 60 {
		ks := h.sortedModelKeys()
		return h.uni[h.idx[ks[h.rng.Intn(len(ks))]]]
	}
	if h.bulk && h.rng.Intn(100) < 35 {
		return h.uni[h.rng.Intn(h.baseN)] // keep the clustered universe (limit sizes etc.) in play
	}
	return h.uni[h.rng.Intn(len(h.uni))]
}

func (h *hist) noteGiant(ctx, k string) {
	if len(k) == giantK {
		h.note("giant_key_ops", ctx)
	}
}

func (h *hist) useKey(k ukey) {
	for _, c := range k.Classes {
		h.note("key_classes", c)
	}
}

func limitClass(k, v string) bool { return len(k) >= maxK-1 || len(v) >= maxV-1 }

// checkGet compares Get(k) with the model.
func (h *hist) checkGet(k, sigClass string) bool {
	want, present := h.model[k]
	var got string
	var err error
	if h.guard("get", func() { got, err = h.getFn(k) }) {
		return false
	}
	h.evals++
	site := h.sp.site
	switch {
	case present && err != nil:
		h.report(sigClass+"/"+site, fmt.Sprintf("Get(%s) = error %v, want %s", h.keyDesc(k), err, descStr(want)))
	case present && got != want:
		h.report(sigClass+"/"+site, fmt.Sprintf("Get(%s) = %s, want %s", h.keyDesc(k), descStr(got), descStr(want)))
	case !present && err == nil:
		h.report(sigClass+"/"+site, fmt.Sprintf("Get(%s) = %s, want sorted.ErrNotFound", h.keyDesc(k), descStr(got)))
	case !present && !errors.Is(err, sorted.ErrNotFound):
		h.report("get-error/"+site, fmt.Sprintf("Get(%s) of an absent key = error %v, want sorted.ErrNotFound", h.keyDesc(k), err))
	default:
		if !present && err != sorted.ErrNotFound {
			h.counts["get_notfound_wrapped"]++
		}
		return true
	}
	return false
}

func (h *hist) noteLimit(ctx, k, v string, ok bool) {
	if !ok {
		return
	}
	switch {
	case len(k) == maxK && len(v) <= maxV:
		h.note("size_limit_classes", ctx+"/key=max-stored")
	case len(k) == maxK+1:
		h.note("size_limit_classes", ctx+"/key>max-skipped")
	case len(k) == giantK:
		h.note("size_limit_classes", ctx+"/key>>max-skipped")
	}
	switch {
	case len(v) == maxV && len(k) <= maxK:
		h.note("size_limit_classes", ctx+"/value=max-stored")
	case len(v) == maxV+1:
		h.note("size_limit_classes", ctx+"/value>max-skipped")
	}
}

func (h *hist) doGet() {
	k := h.pickKey(true)
	h.useKey(k)
	h.log(opRec{Op: "get", Key: h.keyDesc(k.K)})
	h.counts["get"]++
	h.noteGiant("get", k.K)
	h.checkGet(k.K, "get")
}

func (h *hist) newValue() value {
	h.valID++
	return mkValue(h.rng, h.valID)
}

func (h *hist) doSet() {
	k := h.pickKey(false)
	v := h.newValue()
	h.useKey(k)
	h.note("value_classes", v.Class)
	h.log(opRec{Op: "set", Key: h.keyDesc(k.K), Val: v.Desc})
	h.counts["set"]++
	var err error
	if h.guard("set", func() { err = h.in.kv.Set(k.K, v.S) }) {
		return
	}
	h.evals++
	if err != nil {
		h.report("op-error/"+h.sp.site+".set", fmt.Sprintf("Set(%s, %s) = %v, want nil", h.keyDesc(k.K), v.Desc, err))
		h.dead = true
		return
	}
	h.noteGiant("set", k.K)
	if inLimits(k.K, v.S) {
		h.mset(k.K, v.S)
		h.plainSets++
	} else {
		h.nOversize++
	}
	sig := "get"
	if limitClass(k.K, v.S) {
		sig = "oversize"
	}
	ok := h.checkGet(k.K, sig)
	h.noteLimit("set", k.K, v.S, ok)
}

func (h *hist) doDelete() {
	k := h.pickKey(true)
	h.useKey(k)
	h.log(opRec{Op: "delete", Key: h.keyDesc(k.K)})
	h.counts["delete"]++
	var err error
	if h.guard("delete", func() { err = h.in.kv.Delete(k.K) }) {
		return
	}
	h.evals++
	if err != nil {
		h.report("op-error/"+h.sp.site+".delete", fmt.Sprintf("Delete(%s) = %v, want nil", h.keyDesc(k.K), err))
		h.dead = true
		return
	}
	h.noteGiant("delete", k.K)
	if _, ok := h.model[k.K]; ok {
		h.nDelPresent++
		h.mdel(k.K)
	}
	h.checkGet(k.K, "get")
}

type mut struct {
	k   ukey
	v   value
	del bool
}

func (h *hist) genBatch() []mut {
	n := 1 + h.rng.Intn(12)
	if h.rng.Intn(5) == 0 {
		n = 13 + h.rng.Intn(40) // large batches too (some implementations reorganise them)
	}
	var ms []mut
	for i := 0; i < n; i++ {
		var k ukey
		if len(ms) > 0 && h.rng.Intn(100) < 35 {
			k = ms[h.rng.Intn(len(ms))].k // the same key again inside the batch
		} else {
			k = h.pickKey(h.rng.Intn(2) == 0)
		}
		if h.rng.Intn(100) < 35 {
			ms = append(ms, mut{k: k, del: true})
		} else {
			ms = append(ms, mut{k: k, v: h.newValue()})
		}
	}
	return ms
}

func (h *hist) doBatch(ms []mut) {
	var descs []string
	for _, m := range ms {
		h.useKey(m.k)
		if m.del {
			descs = append(descs, "del "+h.keyDesc(m.k.K))
		} else {
			h.note("value_classes", m.v.Class)
			descs = append(descs, "set "+h.keyDesc(m.k.K)+" = "+m.v.Desc)
		}
	}
	h.log(opRec{Op: "batch", Batch: descs})
	h.counts["batch"]++
	h.counts["batch_mutations"] += len(ms)
	var err error
	if h.guard("batch", func() {
		b := h.in.kv.BeginBatch()
		for _, m := range ms {
			if m.del {
				b.Delete(m.k.K)
			} else {
				b.Set(m.k.K, m.v.S)
			}
		}
		err = h.in.kv.CommitBatch(b)
	}) {
		return
	}
	h.evals++
	if err != nil {
		h.report("op-error/"+h.sp.site+".commit", fmt.Sprintf("CommitBatch of %d mutations = %v, want nil", len(ms), err))
		h.dead = true
		return
	}
	// model: mutations in order, over-limit sets skipped
	type touched struct {
		limit     bool
		lastK     string
		lastV     string
		sawSet    bool
		sawDel    bool
		setThenDl bool
		dlThenSet bool
		n         int
	}
	tk := map[string]*touched{}
	var order []string
	anySet, anyDel, anyOver := false, false, false
	for _, m := range ms {
		t := tk[m.k.K]
		if t == nil {
			t = &touched{}
			tk[m.k.K] = t
			order = append(order, m.k.K)
		}
		t.n++
		if m.del {
			anyDel = true
			if t.sawSet {
				t.setThenDl = true
			}
			t.sawDel = true
			if _, ok := h.model[m.k.K]; ok {
				h.nDelPresent++
			}
			h.mdel(m.k.K)
			h.noteGiant("batch-delete", m.k.K)
			continue
		}
		anySet = true
		if t.sawDel {
			t.dlThenSet = true
		}
		t.sawSet = true
		t.lastK, t.lastV = m.k.K, m.v.S
		if limitClass(m.k.K, m.v.S) {
			t.limit = true
		}
		h.noteGiant("batch-set", m.k.K)
		if inLimits(m.k.K, m.v.S) {
			h.mset(m.k.K, m.v.S)
		} else {
			anyOver = true
			h.nOversize++
		}
	}
	if anySet && anyDel {
		h.note("batch_features", "mixed")
	}
	if anyOver {
		h.note("batch_features", "oversize-inside")
	}
	for _, k := range order {
		t := tk[k]
		if t.n > 1 {
			h.note("batch_features", "repeated-key")
			h.nBatchRepeat++
		}
		if t.setThenDl {
			h.note("batch_features", "set-then-delete")
		}
		if t.dlThenSet {
			h.note("batch_features", "delete-then-set")
		}
		sig := "batch-order"
		if t.limit {
			sig = "oversize"
		}
		ok := h.checkGet(k, sig)
		if t.sawSet && t.n == 1 {
			h.noteLimit("batch", t.lastK, t.lastV, ok)
		}
		if h.dead {
			return
		}
	}
}

var literalBounds = []string{"~", "\xff", "\xff\xff\xff\xff", "a", "ab", "ab|", "ab}", " ", "!", "\x80", "\xc3", "z", "claim|", "claim}", "have:", "have;", "b"}

func (h *hist) pickBound() (string, string) {
	c := h.rng.Intn(100)
	u := h.uni[h.rng.Intn(len(h.uni))]
	ud := h.keyDesc(u.K)
	switch {
	case c < 45:
		return u.K, ud
	case c < 60:
		s := suffixChars[h.rng.Intn(len(suffixChars))]
		return u.K + s, ud + "+" + strconv.Quote(s)
	case c < 75:
		if len(u.K) > 1 {
			n := 1 + h.rng.Intn(len(u.K)-1)
			return u.K[:n], fmt.Sprintf("%s[:%d]", ud, n)
		}
		return u.K, ud
	case c < 85:
		b := []byte(u.K)
		if b[len(b)-1] < 0xff {
			b[len(b)-1]++
			return string(b), ud + "(last byte+1)"
		}
		return u.K, ud
	}
	l := literalBounds[h.rng.Intn(len(literalBounds))]
	return l, strconv.Quote(l)
}

func (h *hist) doRandomFind() {
	var start, end, sd, ed string
	c := h.rng.Intn(100)
	switch {
	case c < 10:
	case c < 22:
		end, ed = h.pickBound()
	case c < 37:
		start, sd = h.pickBound()
	case c < 43:
		start, sd = h.pickBound()
		end, ed = start, sd
	default:
		start, sd = h.pickBound()
		end, ed = h.pickBound()
		inverted := c < 51
		if (start > end) != inverted {
			start, end, sd, ed = end, start, ed, sd
		}
	}
	limit := -1
	if h.rng.Intn(100) < 15 {
		limit = h.rng.Intn(4)
	}
	if h.bulk && h.rng.Intn(100) < 45 {
		// stop mid-way, after anything from a handful to thousands of pairs
		switch h.rng.Intn(3) {
		case 0:
			limit = h.rng.Intn(50)
		case 1:
			limit = 100 + h.rng.Intn(400)
		default:
			limit = 100 + h.rng.Intn(3000)
		}
	}
	h.doFind(start, end, sd, ed, limit, "")
}

// doFind runs one range scan and compares it with the model.  limit >= 0 stops the
// iteration early (the interface allows closing an unexhausted iterator).
func (h *hist) doFind(start, end, sd, ed string, limit int, sigOverride string) bool {
	rec := opRec{Op: "find", Key: sd, End: ed}
	if h.tx != nil {
		rec.Op = "readtx-find"
		if sigOverride == "" {
			sigOverride = "readtx" // reads through a read transaction have their own signature class
		}
	}
	if limit >= 0 {
		rec.Note = fmt.Sprintf("stop after %d", limit)
	}
	if sd == "" {
		rec.Key = `""`
	}
	if ed == "" {
		rec.End = `""`
	}
	h.log(rec)
	switch {
	case start == "" && end == "":
		h.note("find_kinds", "both-empty")
	case start == "":
		h.note("find_kinds", "empty-start")
	case end == "":
		h.note("find_kinds", "empty-end")
	case start == end:
		h.note("find_kinds", "start==end")
	case start > end:
		h.note("find_kinds", "start>end")
	default:
		h.note("find_kinds", "range")
	}
	if limit >= 0 {
		h.note("find_kinds", "partial-iteration")
	}
	if _, ok := h.idx[start]; !ok && start != "" {
		h.note("find_kinds", "bound-not-a-key")
	} else if _, ok := h.idx[end]; !ok && end != "" {
		h.note("find_kinds", "bound-not-a-key")
	}

	h.noteGiant("find-start", start)
	h.noteGiant("find-end", end)
	var want []pair
	for _, k := range h.sortedModelKeys() {
		if k >= start && (end == "" || k < end) {
			want = append(want, pair{k, h.model[k]})
		}
	}
	if limit >= 0 && len(want) > limit {
		if limit >= 100 {
			h.midStops++
		}
		want = want[:limit]
	}
	if len(want) >= 1000 {
		h.bigScans++
	}

	var got []pair
	var iterIssue string
	var closeErr, closeErr2 error
	findWhere := "find"
	if end != "" && start > end {
		findWhere = "find-inverted" // own signature class: an inverted range must be empty, not special
	}
	if h.guard(findWhere, func() {
		it := h.findFn(start, end)
		closed := false
		defer func() {
			if !closed {
				func() {
					defer func() { recover() }()
					it.Close()
				}()
			}
		}()
		for (limit < 0 || len(got) < limit) && it.Next() {
			k, v := it.Key(), it.Value()
			kb, vb := it.KeyBytes(), it.ValueBytes()
			if k != string(kb) && iterIssue == "" {
				iterIssue = fmt.Sprintf("Key()=%s but KeyBytes()=%s", descStr(k), descStr(string(kb)))
			}
			if v != string(vb) && iterIssue == "" {
				iterIssue = fmt.Sprintf("at key %s: Value()=%s but ValueBytes()=%s", h.keyDesc(k), descStr(v), descStr(string(vb)))
			}
			if k2 := it.Key(); k2 != k && iterIssue == "" {
				iterIssue = fmt.Sprintf("Key() called twice: %s then %s", descStr(k), descStr(k2))
			}
			got = append(got, pair{k, v})
		}
		closed = true
		closeErr = it.Close()
		closeErr2 = it.Close() // "It is valid to call Close multiple times."
	}) {
		return false
	}
	h.counts["find"]++
	h.counts["find_pairs"] += len(got)
	h.nFind++
	h.evals++
	site := h.sp.site
	sig := func(class string) string {
		if sigOverride != "" {
			return sigOverride + "/" + site
		}
		return class + "/" + site
	}
	where := fmt.Sprintf("Find(%s, %s)", rec.Key, rec.End)
	ok := true
	if iterIssue != "" {
		h.report(sig("iter"), where+": "+iterIssue)
		ok = false
	}
	if closeErr != nil {
		h.report(sig("iter"), fmt.Sprintf("%s: iterator Close = %v, want nil", where, closeErr))
		ok = false
	}
	_ = closeErr2 // a second Close must be callable; what it returns is not specified
	for i := range got {
		if i > 0 && got[i-1].k >= got[i].k {
			h.report(sig("find-order"), fmt.Sprintf("%s: key %s returned after %s (not strictly ascending byte order)", where, h.keyDesc(got[i].k), h.keyDesc(got[i-1].k)))
			return false
		}
	}
	for _, p := range got {
		if p.k < start || (end != "" && p.k >= end) {
			h.report(sig("find-range"), fmt.Sprintf("%s returned key %s outside [start,end)", where, h.keyDesc(p.k)))
			return false
		}
	}
	// same key sequence?
	gi, wi := 0, 0
	for gi < len(got) || wi < len(want) {
		switch {
		case wi >= len(want) || (gi < len(got) && got[gi].k < want[wi].k):
			h.report(sig("find-extra"), fmt.Sprintf("%s returned key %s (value %s) which the map does not contain (%d returned, %d expected)", where, h.keyDesc(got[gi].k), descStr(got[gi].v), len(got), len(want)))
			return false
		case gi >= len(got) || got[gi].k > want[wi].k:
			h.report(sig("find-missing"), fmt.Sprintf("%s did not return key %s (%d returned, %d expected)", where, h.keyDesc(want[wi].k), len(got), len(want)))
			return false
		}
		if got[gi].v != want[wi].v {
			h.report(sig("find-value"), fmt.Sprintf("%s: key %s has value %s, want current value %s", where, h.keyDesc(got[gi].k), descStr(got[gi].v), descStr(want[wi].v)))
			return false
		}
		gi++
		wi++
	}
	return ok
}

func (h *hist) audit(sigOverride string) bool {
	h.counts["full_audits"]++
	return h.doFind("", "", "", "", -1, sigOverride)
}

func (h *hist) doFlush() {
	h.log(opRec{Op: "flush"})
	h.counts["flush"]++
	var err error
	if h.guard("flush", func() { err = h.in.buf.Flush() }) {
		return
	}
	h.evals++
	if err != nil {
		h.report("op-error/"+h.sp.site+".flush", fmt.Sprintf("Flush = %v, want nil", err))
		h.dead = true
		return
	}
	h.note("events", "flush")
	if h.rng.Intn(100) < 40 {
		h.audit("")
	}
}

func (h *hist) doReopen() {
	h.log(opRec{Op: "reopen"})
	h.counts["reopen"]++
	var err error
	if h.guard("close", func() { err = h.in.kv.Close() }) {
		return
	}
	h.evals++
	if err != nil {
		h.report("reopen/"+h.sp.site, fmt.Sprintf("Close = %v, want nil", err))
		h.dead = true
		return
	}
	var in *inst
	if h.guard("open", func() { in, err = h.sp.open(h.dir) }) {
		return
	}
	if err != nil {
		h.report("reopen/"+h.sp.site, fmt.Sprintf("re-open after Close failed: %v", err))
		h.dead = true
		return
	}
	h.in = in
	h.plainSets = 0
	h.note("events", "reopen")
	h.audit("reopen")
}

func runHistory(r *ev.Run, root, id string, sp *spec, hno int, bulkN int) {
	rng := r.Rand("history/" + id)
	dir, err := os.MkdirTemp(root, "h")
	if err != nil {
		r.Inconclusive("mkdir: " + err.Error())
		return
	}
	defer os.RemoveAll(dir)
	h := &hist{r: r, sp: sp, id: id, dir: dir, rng: rng, rng2: r.Rand("noop-batch/" + id), model: map[string]string{}, idx: map[string]int{},
		counts: map[string]int{}, notes: map[string]map[string]bool{}}
	h.uni = buildUniverse(rng)
	h.baseN = len(h.uni)
	h.rec = &caseRec{CaseID: id, Impl: sp.name}
	for i, u := range h.uni {
		h.idx[u.K] = i
		h.rec.Universe = append(h.rec.Universe, fmt.Sprintf("#%d=%s", i, u.Desc))
	}
	var bulk []string
	if bulkN > 0 {
		h.bulk = true
		bulk = bulkKeys(rng, bulkN, h.idx)
		for _, k := range bulk {
			h.idx[k] = len(h.uni)
			h.uni = append(h.uni, ukey{K: k, Desc: strconv.Quote(k)})
		}
		h.rec.Universe = append(h.rec.Universe, bulkUniverseLine(bulkN))
	}
	in, err := sp.open(dir)
	if err != nil {
		r.Inconclusive(fmt.Sprintf("cannot open %s: %v", sp.name, err))
		return
	}
	h.in = in

	if h.bulk {
		h.bulkLoad(bulk)
	}
	_, canWipe := in.kv.(sorted.Wiper)
	_, canReadTx := in.kv.(sorted.TransactionalReader)
	nops := 100 + rng.Intn(501)
	for i := 0; i < nops && !h.dead && h.reported < 3; i++ {
		c := rng.Intn(100)
		t0, n0 := time.Now(), len(h.rec.Ops)
		switch {
		case c == 99 && canWipe && !h.bulk && rng.Intn(2) == 0: // about one op in 200
			h.doWipe()
		case c >= 97 && c <= 98 && canReadTx:
			h.doReadTx()
		case c < 17:
			h.doGet()
		case c < 39:
			h.doSet()
		case c < 49:
			h.doDelete()
		case c < 63:
			h.doBatch(h.genBatch())
		case c < 87:
			h.doRandomFind()
		case c < 92:
			if sp.buffered {
				h.doFlush()
			} else {
				h.doGet()
			}
		case c < 95:
			if sp.persistent {
				h.doReopen()
			} else {
				h.doRandomFind()
			}
		default:
			h.audit("")
		}
		if debugTiming && n0 < len(h.rec.Ops) {
			addTiming(sp.name+"/"+h.rec.Ops[n0].Op, time.Since(t0)) // diagnostics only (C10_DEBUG)
		}
		// about one op in 20 is followed by a batch that must change nothing
		if h.rng2.Intn(100) < 5 && !h.dead && h.reported < 3 {
			h.doNoopBatch()
		}
	}
	if !h.dead && h.reported < 3 {
		h.audit("")
	}
	if h.bulk && canWipe && !h.dead && h.reported < 3 {
		// Wipe of a large store, then the store must go on as a map
		h.doWipe()
		for i := 0; i < 6 && !h.dead && h.reported < 3; i++ {
			h.doBatch(h.genBatch())
		}
		if sp.persistent && !h.dead && h.reported < 3 {
			h.doReopen()
		} else if !h.dead && h.reported < 3 {
			h.audit("")
		}
	}
	if !h.dead {
		var cerr error
		h.log(opRec{Op: "close"})
		if !h.guard("close", func() { cerr = h.in.kv.Close() }) && cerr != nil {
			h.report("op-error/"+sp.site+".close", fmt.Sprintf("final Close = %v", cerr))
		}
	}

	// evidence
	r.Eval(h.evals)
	r.Count("histories", 1)
	r.Note("implementations", sp.name)
	for op, n := range h.counts {
		r.Count("ops_"+op, n)
		r.Count("ops/"+sp.name+"/"+op, n)
		switch op {
		case "get", "set", "delete", "batch", "find", "flush", "reopen", "wipe", "readtx", "noop_batch":
			r.Note("op_"+op, sp.name)
		}
	}
	for set, m := range h.notes {
		for item := range m {
			r.Note(set, item)
		}
	}
	if h.bulk {
		r.Count("bulk_histories", 1)
		r.Count("bulk_scans_stopped_midway", h.midStops)
		r.Count("bulk_scans_of_1000_or_more_pairs", h.bigScans)
		if h.maxLive >= 1000 && h.midStops > 0 && h.bigScans > 0 && !h.dead {
			r.Note("bulk_history_ran", sp.name)
		}
	}
	if h.nBatchRepeat > 0 && h.nDelPresent > 0 && h.nFind >= 3 && h.nOversize > 0 {
		f := fnv.New64a()
		for _, op := range h.rec.Ops {
			fmt.Fprintf(f, "%s|%s|%s|%s|%s|%s;", op.Op, op.Key, op.Val, op.End, strings.Join(op.Batch, ","), op.Note)
		}
		r.Distinct(fmt.Sprintf("%s/%x", sp.name, f.Sum64()))
	}
	if hno == 0 {
		s := *h.rec
		if len(s.Ops) > 14 {
			s.Ops = s.Ops[:14]
		}
		if len(s.Universe) > 10 {
			s.Universe = append(append([]string(nil), s.Universe[:10]...), fmt.Sprintf("... %d keys in all", len(h.rec.Universe)))
		}
		r.Sample(map[string]any{"case_id": s.CaseID, "impl": s.Impl, "universe": s.Universe, "first_ops": s.Ops, "ops_total": len(h.rec.Ops)})
	}
}

// ---- diagnostics (C10_DEBUG=1): where the wall time goes; never used in a verdict
var (
	debugTiming = os.Getenv("C10_DEBUG") != ""
	timingMu    sync.Mutex
	timings     = map[string]time.Duration{}
	timingN     = map[string]int{}
)

func addTiming(k string, d time.Duration) {
	timingMu.Lock()
	timings[k] += d
	timingN[k]++
	timingMu.Unlock()
}

func dumpTimings() {
	timingMu.Lock()
	defer timingMu.Unlock()
	var ks []string
	for k := range timings {
		ks = append(ks, k)
	}
	sort.Slice(ks, func(i, j int) bool { return timings[ks[i]] > timings[ks[j]] })
	for i, k := range ks {
		if i >= 400 {
			break
		}
		fmt.Fprintf(os.Stderr, "OPTIME %-40s total %-14v n=%-6d avg %v\n", k, timings[k], timingN[k], timings[k]/time.Duration(timingN[k]))
	}
}
