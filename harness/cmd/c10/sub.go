package main

import (
	"database/sql"
	"errors"
	"fmt"
	"os"
	"path/filepath"
	"reflect"
	"runtime"
	"sort"
	"strconv"
	"strings"
	"sync"
	"sync/atomic"
	"time"

	"perkeep.org/pkg/sorted"
	"perkeep.org/pkg/sorted/buffer"

	"verif.local/harness/ev"
	"verif.local/harness/inject"
)

// ------------------------------------------------------------ flush of an empty buffer

// probeFlushEmpty checks, per backing store, that Flush of an empty buffer leaves the
// store usable.  A store that is wedged afterwards (two fresh instances, both stuck on a
// millisecond operation for the whole watchdog) is reported as hang/buffer-<base>.flush-empty
// and the histories over that combination are skipped (they would each hang).
func probeFlushEmpty(r *ev.Run, root string) map[string]bool {
	hangs := map[string]bool{}
	var mu sync.Mutex
	var wg sync.WaitGroup
	for _, base := range bases {
		base := base
		id := "flushprobe/" + base + ";"
		if !r.Only(id) && os.Getenv("VERIF_ONLY") != "" && !strings.Contains(os.Getenv("VERIF_ONLY"), "buffer-"+base) {
			continue
		}
		wg.Add(1)
		go func() {
			defer wg.Done()
			const attempts = 2
			var hung, wrong int32
			var what atomic.Value
			var pw sync.WaitGroup
			for a := 0; a < attempts; a++ {
				pw.Add(1)
				go func() {
					defer pw.Done()
					dir, err := os.MkdirTemp(root, "fp")
					if err != nil {
						r.Inconclusive("mkdir: " + err.Error())
						return
					}
					back, err := openBase(base, dir)
					if err != nil {
						r.Inconclusive(fmt.Sprintf("cannot open %s: %v", base, err))
						return
					}
					b := buffer.New(sorted.NewMemoryKeyValue(), back, 4096)
					var msg string
					ok := ev.WithTimeout(8*time.Second, func() {
						if err := b.Flush(); err != nil {
							msg = fmt.Sprintf("Flush of an empty buffer = %v", err)
							return
						}
						if v, err := b.Get("probe"); !errors.Is(err, sorted.ErrNotFound) {
							msg = fmt.Sprintf("Get(absent) after Flush of an empty buffer = %q, %v", v, err)
							return
						}
						if err := b.Set("probe", "1"); err != nil {
							msg = fmt.Sprintf("Set after Flush = %v", err)
							return
						}
						if err := b.Flush(); err != nil {
							msg = fmt.Sprintf("Flush = %v", err)
							return
						}
						if err := b.Flush(); err != nil {
							msg = fmt.Sprintf("second Flush = %v", err)
							return
						}
						if v, err := b.Get("probe"); err != nil || v != "1" {
							msg = fmt.Sprintf("Get after Set, Flush, Flush = %q, %v; want \"1\"", v, err)
							return
						}
						b.Close()
					})
					r.Eval(1)
					switch {
					case !ok:
						atomic.AddInt32(&hung, 1)
					case msg != "":
						atomic.AddInt32(&wrong, 1)
						what.Store(msg)
					}
				}()
			}
			pw.Wait()
			r.Count("flush_empty_probes", attempts)
			witness := map[string]any{"case_id": id, "impl": "buffer-" + base,
				"ops": []string{"b := buffer.New(memory, " + base + ", 4096)", "b.Flush() on the empty buffer", "b.Get(\"probe\")"}}
			switch {
			case hung == attempts:
				r.Violation("hang/buffer-"+base+".flush-empty",
					fmt.Sprintf("[buffer over %s] after Flush() of an empty buffer the next call never returns (%d of %d fresh instances stuck for 8s on Flush+Get)", base, hung, attempts), witness)
				mu.Lock()
				hangs[base] = true
				mu.Unlock()
			case hung > 0:
				r.Inconclusive(fmt.Sprintf("flush-empty probe of buffer over %s: %d of %d instances hit the watchdog", base, hung, attempts))
				mu.Lock()
				hangs[base] = true
				mu.Unlock()
			case wrong > 0:
				r.Violation("get/buffer-"+base, fmt.Sprintf("[buffer over %s] %v", base, what.Load()), witness)
			}
		}()
	}
	wg.Wait()
	return hangs
}

// ------------------------------------------------------------ batch unity under concurrency

var tornKeys = []string{"pair|a", "pair|a|x", "pair|b", "pair|b\xff"} // ascending byte order

func tornIsDelete(k int64) bool { return k%3 == 0 }

func tornValue(k int64) string { return fmt.Sprintf("%07d", k) + strings.Repeat("x", int(k%50)) }

type tornRead struct {
	Key     string `json:"key"`
	Present bool   `json:"present"`
	Version int64  `json:"version,omitempty"`
}

// tornFeasible decides whether reads made in this time order can come from a store whose
// batches are atomic: the state version is the same for all four keys at any instant and
// never decreases, it was >= lo when the round began and <= hi when it ended.
func tornFeasible(reads []tornRead, lo, hi int64) (bool, string) {
	cur := lo
	for _, rd := range reads {
		if rd.Present {
			if rd.Version < cur {
				return false, fmt.Sprintf("key %q shows batch %d although the effects of batch %d were already visible before it was read", rd.Key, rd.Version, cur)
			}
			cur = rd.Version
		} else if cur%3 != 0 {
			prev := cur
			cur += 3 - cur%3 // next deleting batch
			if cur > hi {
				return false, fmt.Sprintf("key %q is absent after the effects of batch %d were visible, which needs the deleting batch %d, but only %d batches had been started", rd.Key, prev, cur, hi)
			}
		}
	}
	if cur > hi {
		return false, fmt.Sprintf("the reads need batch %d, but only %d batches had been started", cur, hi)
	}
	return true, ""
}

// tornCheck runs one writer (batches that always write all four keys with the same version,
// in a seeded order, every third batch deleting them) against three readers (alternating a range
// scan and point reads in descending key order).
func tornCheck(r *ev.Run, root, id string, sp *spec) {
	dir, err := os.MkdirTemp(root, "t")
	if err != nil {
		r.Inconclusive("mkdir: " + err.Error())
		return
	}
	defer os.RemoveAll(dir)
	in, err := sp.open(dir)
	if err != nil {
		r.Inconclusive(fmt.Sprintf("cannot open %s: %v", sp.name, err))
		return
	}
	// Fixed bounds (counts, not time): the writer commits at least n batches and goes on (up to
	// nmax) while a reader has not finished its minimum; each reader makes at least rmin rounds
	// and goes on (up to rmax) while the writer has not finished its minimum.
	const nReaders = 3
	n := int64(r.Pick(600, 4000))
	if sp.name == "kv" {
		n *= 5 // the open finding batch-torn/kv depends on the schedule: give it more chances
	}
	nmax := 20 * n
	rmin, rmax := int(n), int(20*n)
	var started, completed atomic.Int64
	var writerMin atomic.Bool
	var readersMin atomic.Int32
	wrng := r.Rand("torn-writer/" + sp.name)
	begin := make(chan struct{})
	var wg sync.WaitGroup

	wg.Add(1)
	go func() { // writer
		defer wg.Done()
		defer writerMin.Store(true)
		<-begin
		for k := int64(1); k <= nmax && (k <= n || readersMin.Load() < nReaders); k++ {
			if k == n+1 {
				writerMin.Store(true)
			}
			perm := wrng.Perm(len(tornKeys))
			started.Store(k)
			var err error
			if r.Guard("batch/"+sp.site, map[string]any{"case_id": id, "batch": k}, func() {
				b := in.kv.BeginBatch()
				for _, i := range perm {
					if tornIsDelete(k) {
						b.Delete(tornKeys[i])
					} else {
						b.Set(tornKeys[i], tornValue(k))
					}
				}
				err = in.kv.CommitBatch(b)
			}) {
				return
			}
			if err != nil {
				r.Violation("op-error/"+sp.site+".commit", fmt.Sprintf("[%s] CommitBatch #%d with a concurrent reader = %v", sp.name, k, err), map[string]any{"case_id": id, "batch": k})
				return
			}
			completed.Store(k)
			if sp.buffered && !tornIsDelete(k) && wrng.Intn(4) == 0 {
				in.buf.Flush() // the buffer holds the four keys: never an empty flush
			}
		}
	}()

	var mu sync.Mutex // guards the counters below
	var attempted, rounds, overlapping, mixed, torn, tornReported int
	parse := func(k, v string) (int64, string) {
		ver, _ := strconv.ParseInt(v[:min(7, len(v))], 10, 64)
		if ver < 1 || ver > nmax || tornIsDelete(ver) || v != tornValue(ver) {
			return ver, fmt.Sprintf("key %q has value %q that no batch wrote", k, v)
		}
		return ver, ""
	}
	reader := func(ri int) {
		defer wg.Done()
		reachedMin := false
		defer func() {
			if !reachedMin {
				readersMin.Add(1) // never leave the writer waiting
			}
		}()
		<-begin
		for j := 0; j < rmax && (j < rmin || !writerMin.Load()); j++ {
			if j == rmin {
				reachedMin = true
				readersMin.Add(1)
			}
			mu.Lock()
			attempted++
			mu.Unlock()
			lo := completed.Load()
			var reads []tornRead
			mode := "find"
			bad := ""
			if (j+ri)%2 == 0 {
				got := map[string]string{}
				var order []string
				if r.Guard("find/"+sp.site, map[string]any{"case_id": id, "round": j}, func() {
					it := in.kv.Find("pair|", "pair}")
					defer it.Close()
					for it.Next() {
						got[it.Key()] = it.Value()
						order = append(order, it.Key())
						runtime.Gosched() // schedule perturbation only
					}
				}) {
					if sp.site == "buffer-kv" {
						continue // the known double-Next panic does not end the sub-check
					}
					return
				}
				if !sort.StringsAreSorted(order) {
					bad = fmt.Sprintf("range scan with a concurrent writer returned keys out of order: %q", order)
				}
				for _, k := range tornKeys {
					v, ok := got[k]
					delete(got, k)
					rd := tornRead{Key: k, Present: ok}
					if ok {
						var b string
						if rd.Version, b = parse(k, v); b != "" {
							bad = b
						}
					}
					reads = append(reads, rd)
				}
				if len(got) > 0 {
					bad = fmt.Sprintf("range scan returned keys nobody wrote: %v", got)
				}
			} else {
				mode = "gets-descending"
				for i := len(tornKeys) - 1; i >= 0; i-- {
					k := tornKeys[i]
					var v string
					var err error
					if r.Guard("get/"+sp.site, map[string]any{"case_id": id, "round": j}, func() { v, err = in.kv.Get(k) }) {
						return
					}
					runtime.Gosched() // schedule perturbation only
					rd := tornRead{Key: k}
					switch {
					case err == nil:
						rd.Present = true
						var b string
						if rd.Version, b = parse(k, v); b != "" {
							bad = b
						}
					case !errors.Is(err, sorted.ErrNotFound):
						bad = fmt.Sprintf("Get(%q) with a concurrent writer = %v", k, err)
					}
					reads = append(reads, rd)
				}
			}
			hi := started.Load()
			vers := map[int64]bool{}
			for _, rd := range reads {
				if rd.Present {
					vers[rd.Version] = true
				}
			}
			ok, why := true, ""
			if bad == "" {
				ok, why = tornFeasible(reads, lo, hi)
			}
			mu.Lock()
			rounds++
			if hi > lo {
				overlapping++
			}
			if len(vers) > 1 {
				mixed++
			}
			reportIt := false
			if !ok {
				torn++
				if sp.judgeTorn && tornReported < 3 {
					tornReported++
					reportIt = true
				}
			}
			mu.Unlock()
			witness := map[string]any{"case_id": id, "impl": sp.name, "reader": ri, "round": j, "mode": mode, "reads_in_time_order": reads,
				"batches_completed_before": lo, "batches_started_after": hi, "writer": "batch k sets all four keys to version k (k%3==0: deletes all four)"}
			if bad != "" {
				if sp.judgeTorn {
					r.Violation("concurrent-read/"+sp.site, fmt.Sprintf("[%s] %s", sp.name, bad), witness)
				} else {
					r.Count("unjudged_concurrent_read_anomalies/"+sp.name, 1)
				}
				continue
			}
			if !ok && os.Getenv("C10_DEBUG") != "" {
				fmt.Fprintf(os.Stderr, "TORN %s mode=%s lo=%d hi=%d reads=%+v why=%s\n", sp.name, mode, lo, hi, reads, why)
			}
			if reportIt {
				r.Violation("batch-torn/"+sp.site, fmt.Sprintf("[%s] a reader saw part of a batch (%s): %s", sp.name, mode, why), witness)
			}
		}
	}
	for ri := 0; ri < nReaders; ri++ {
		wg.Add(1)
		go reader(ri)
	}
	close(begin)
	wg.Wait()
	func() {
		defer func() { recover() }()
		in.kv.Close()
	}()

	r.Eval(rounds)
	r.Count("torn_rounds/"+sp.name, rounds)
	r.Count("torn_rounds_overlapping/"+sp.name, overlapping)
	r.Count("torn_rounds_mixed_versions/"+sp.name, mixed)
	r.Count("torn_batches/"+sp.name, int(completed.Load()))
	if sp.judgeTorn {
		r.Count("torn_observed_judged/"+sp.name, torn)
	} else {
		r.Count("torn_observed_unjudged/"+sp.name, torn)
	}
	if completed.Load() >= n && attempted >= nReaders*rmin && rounds > 0 {
		r.Note("torn_subcheck_ran", sp.name)
		r.Note("events", "torn-subcheck")
	}
	if overlapping > 0 {
		r.Note("torn_reads_overlapping_a_commit", sp.name)
	}
}

// ------------------------------------------------------------ a batch whose commit fails

func dump(kv sorted.KeyValue) (map[string]string, error) {
	m := map[string]string{}
	err := sorted.Foreach(kv, func(k, v string) error { m[k] = v; return nil })
	return m, err
}

type fbMut struct {
	Del bool   `json:"delete,omitempty"`
	K   string `json:"key"`
	V   string `json:"value,omitempty"`
}

func applyMuts(base map[string]string, ms []fbMut) map[string]string {
	out := map[string]string{}
	for k, v := range base {
		out[k] = v
	}
	for _, m := range ms {
		if m.Del {
			delete(out, m.K)
		} else {
			out[m.K] = m.V
		}
	}
	return out
}

// failedBatchCheck forces a CommitBatch to fail and looks at what is left of the batch.
// leveldb, kv: commit after Close (a clean error on both), judged all-or-nothing after re-open.
// buffer: the backing store's CommitBatch is made to fail by the harness wrapper; reported only.
func failedBatchCheck(r *ev.Run, root, id string, sp *spec) {
	rng := r.Rand("failbatch/" + sp.name)
	keys := []string{"fb|a", "fb|a|x", "fb|b", "fb:c", "fb|d\xff", "fb|e"}
	genMuts := func() []fbMut {
		var ms []fbMut
		n := 2 + rng.Intn(6)
		for i := 0; i < n; i++ {
			k := keys[rng.Intn(len(keys))]
			if rng.Intn(3) == 0 {
				ms = append(ms, fbMut{Del: true, K: k})
			} else {
				ms = append(ms, fbMut{K: k, V: fmt.Sprintf("new%d.%d", i, rng.Intn(1000))})
			}
		}
		// make sure the batch changes at least two things and deletes an existing key last
		ms = append(ms, fbMut{K: "fb|new", V: "n"}, fbMut{Del: true, K: "fb|a"})
		return ms
	}
	baseline := map[string]string{"fb|a": "1", "fb|a|x": "2", "fb|b": "3", "fb:c": "4"}
	rounds := r.Pick(5, 40)

	switch {
	case sp.name == "leveldb" || sp.name == "kv":
		for i := 0; i < rounds; i++ {
			dir, err := os.MkdirTemp(root, "fb")
			if err != nil {
				r.Inconclusive("mkdir: " + err.Error())
				return
			}
			func() {
				defer os.RemoveAll(dir)
				in, err := sp.open(dir)
				if err != nil {
					r.Inconclusive(fmt.Sprintf("cannot open %s: %v", sp.name, err))
					return
				}
				b := in.kv.BeginBatch()
				for k, v := range baseline {
					b.Set(k, v)
				}
				if err := in.kv.CommitBatch(b); err != nil {
					r.Inconclusive(fmt.Sprintf("%s baseline batch: %v", sp.name, err))
					return
				}
				if err := in.kv.Close(); err != nil {
					r.Inconclusive(fmt.Sprintf("%s close: %v", sp.name, err))
					return
				}
				ms := genMuts()
				var cerr error
				panicked := false
				func() {
					defer func() {
						if e := recover(); e != nil {
							panicked = true
						}
					}()
					b := in.kv.BeginBatch()
					for _, m := range ms {
						if m.Del {
							b.Delete(m.K)
						} else {
							b.Set(m.K, m.V)
						}
					}
					cerr = in.kv.CommitBatch(b)
				}()
				if panicked {
					// use after Close is outside the documented contract: not judged
					r.Count("failed_batch_panic_after_close/"+sp.name, 1)
					return
				}
				in2, err := sp.open(dir)
				if err != nil {
					r.Violation("reopen/"+sp.site, fmt.Sprintf("[%s] re-open after a failed commit: %v", sp.name, err), map[string]any{"case_id": id, "batch": ms})
					return
				}
				defer in2.kv.Close()
				got, err := dump(in2.kv)
				if err != nil {
					r.Inconclusive(fmt.Sprintf("%s dump: %v", sp.name, err))
					return
				}
				r.Eval(1)
				all := applyMuts(baseline, ms)
				witness := map[string]any{"case_id": id, "impl": sp.name, "baseline": baseline, "batch": ms, "commit_error": fmt.Sprint(cerr), "contents_after_reopen": got}
				switch {
				case reflect.DeepEqual(got, all):
					r.Note("failed_batch_outcome/"+sp.name, "all")
				case reflect.DeepEqual(got, baseline) && cerr != nil:
					r.Note("failed_batch_outcome/"+sp.name, "none")
				case reflect.DeepEqual(got, baseline):
					r.Violation("batch-lost/"+sp.site, fmt.Sprintf("[%s] CommitBatch returned nil but none of the batch is there after re-open", sp.name), witness)
				default:
					r.Violation("batch-partial/"+sp.site, fmt.Sprintf("[%s] after a CommitBatch that returned %v the store holds part of the batch", sp.name, cerr), witness)
				}
				if cerr != nil {
					r.Note("failed_batch_forced", sp.name)
				}
			}()
		}
	case sp.name == "sqlite":
		for i := 0; i < max(rounds, 9); i++ {
			sqliteFailedBatch(r, root, id, sp, rng, i, baseline, keys)
		}
	case sp.buffered && sp.base != "sqlite":
		// (over sqlite an injected CommitBatch error would leave the harness-begun transaction
		// holding sqlite's gate: a harness artefact, so that combination is skipped)
		for i := 0; i < rounds; i++ {
			dir, err := os.MkdirTemp(root, "fb")
			if err != nil {
				r.Inconclusive("mkdir: " + err.Error())
				return
			}
			func() {
				defer os.RemoveAll(dir)
				back, err := openBase(sp.base, dir)
				if err != nil {
					r.Inconclusive(fmt.Sprintf("cannot open %s: %v", sp.base, err))
					return
				}
				defer back.Close()
				plan := inject.NewPlan()
				plan.Match = func(layer, op string) bool { return op == "CommitBatch" }
				b := buffer.New(sorted.NewMemoryKeyValue(), inject.WrapKV("back", back, plan), sp.max)
				for k, v := range baseline {
					if err := b.Set(k, v); err != nil {
						r.Inconclusive(fmt.Sprintf("%s baseline: %v", sp.name, err))
						return
					}
				}
				if err := b.Flush(); err != nil {
					r.Inconclusive(fmt.Sprintf("%s baseline flush: %v", sp.name, err))
					return
				}
				ms := genMuts()
				plan.FaultAt(plan.Calls(), inject.Error)
				bm := b.BeginBatch()
				for _, m := range ms {
					if m.Del {
						bm.Delete(m.K)
					} else {
						bm.Set(m.K, m.V)
					}
				}
				cerr := b.CommitBatch(bm)
				plan.ClearFaults()
				if cerr == nil {
					r.Count("buffer_failed_batch_not_delivered/"+sp.name, 1)
					return
				}
				got, err := dump(b)
				if err != nil {
					r.Count("buffer_failed_batch_dump_error/"+sp.name, 1)
					return
				}
				r.Eval(1)
				switch {
				case reflect.DeepEqual(got, applyMuts(baseline, ms)):
					r.Note("buffer_failed_batch_outcome_unjudged", "all")
				case reflect.DeepEqual(got, baseline):
					r.Note("buffer_failed_batch_outcome_unjudged", "none")
				default:
					r.Note("buffer_failed_batch_outcome_unjudged", "partial")
					r.Count("buffer_failed_batch_partial/"+sp.name, 1)
				}
			}()
		}
	}
}

// ------------------------------------------------------------ sqlite: a statement of the batch fails mid-way

// sqliteFailedBatch makes one mutation in the middle (or at either end) of a batch fail and
// judges what is left of the batch.  The failure is a real statement error of the database: a
// harness-installed trigger on the rows table raises ABORT for one poisoned key (insert) or
// for the delete of one poisoned row; sqlkv executes every mutation when it is added to the
// batch, remembers the first error and reports it from CommitBatch.  A second variant closes
// the store between BeginBatch and CommitBatch.
//
// Judged: in the same process and after Close + re-open the store holds all of the batch or
// none of it; a CommitBatch that returned nil must have applied the batch; and an ordinary
// batch committed afterwards is applied (the failed batch must not linger).
func sqliteFailedBatch(r *ev.Run, root, id string, sp *spec, rng interface{ Intn(int) int }, round int, baseline0 map[string]string, keys []string) {
	dir, err := os.MkdirTemp(root, "fbs")
	if err != nil {
		r.Inconclusive("mkdir: " + err.Error())
		return
	}
	defer os.RemoveAll(dir)
	const poisonSet, poisonDel = "fb|poison", "fb|poisondel"
	baseline := map[string]string{poisonDel: "p"}
	for k, v := range baseline0 {
		baseline[k] = v
	}
	in, err := sp.open(dir)
	if err != nil {
		r.Inconclusive(fmt.Sprintf("cannot open %s: %v", sp.name, err))
		return
	}
	b := in.kv.BeginBatch()
	for k, v := range baseline {
		b.Set(k, v)
	}
	if err := in.kv.CommitBatch(b); err != nil {
		r.Inconclusive(fmt.Sprintf("%s baseline batch: %v", sp.name, err))
		return
	}
	if err := in.kv.Close(); err != nil {
		r.Inconclusive(fmt.Sprintf("%s close: %v", sp.name, err))
		return
	}
	variant := []string{"insert-fails", "delete-fails", "close-before-commit"}[round%3]
	if variant != "close-before-commit" {
		db, err := sql.Open("sqlite", filepath.Join(dir, "db.sqlite"))
		if err == nil {
			_, err = db.Exec(`CREATE TRIGGER verif_poison_ins BEFORE INSERT ON rows WHEN NEW.k = '` + poisonSet + `' BEGIN SELECT RAISE(ABORT, 'verif: injected statement failure'); END`)
		}
		if err == nil {
			_, err = db.Exec(`CREATE TRIGGER verif_poison_del BEFORE DELETE ON rows WHEN OLD.k = '` + poisonDel + `' BEGIN SELECT RAISE(ABORT, 'verif: injected statement failure'); END`)
		}
		if db != nil {
			db.Close()
		}
		if err != nil {
			r.Inconclusive("cannot install the failure trigger in the sqlite file: " + err.Error())
			return
		}
	}
	in, err = sp.open(dir)
	if err != nil {
		r.Inconclusive(fmt.Sprintf("cannot re-open %s: %v", sp.name, err))
		return
	}
	closed := false
	defer func() {
		if !closed {
			in.kv.Close()
		}
	}()

	// the batch: 2-7 ordinary mutations with the failing one at the start, inside or at the end
	var ms []fbMut
	n := 2 + rng.Intn(6)
	for i := 0; i < n; i++ {
		k := keys[rng.Intn(len(keys))]
		if rng.Intn(3) == 0 {
			ms = append(ms, fbMut{Del: true, K: k})
		} else {
			ms = append(ms, fbMut{K: k, V: fmt.Sprintf("new%d.%d", i, rng.Intn(1000))})
		}
	}
	ms = append(ms, fbMut{K: "fb|new", V: "n"}, fbMut{Del: true, K: "fb|a"})
	pos, where := 0, "first"
	switch (round / 3) % 3 { // rounds 0-8 cover every (variant, position) pair
	case 1:
	case 2:
		pos, where = len(ms), "last"
	default:
		pos, where = 1+rng.Intn(len(ms)-1), "inside"
	}
	closeAt := -1
	switch variant {
	case "insert-fails":
		ms = append(ms[:pos], append([]fbMut{{K: poisonSet, V: "x"}}, ms[pos:]...)...)
	case "delete-fails":
		ms = append(ms[:pos], append([]fbMut{{Del: true, K: poisonDel}}, ms[pos:]...)...)
	default:
		closeAt = pos
	}
	witness := map[string]any{"case_id": id, "impl": sp.name, "variant": variant, "failing_mutation_position": where, "baseline": baseline, "batch": ms}

	var cerr error
	if r.Guard("batch/"+sp.site, witness, func() {
		b := in.kv.BeginBatch()
		for i, m := range ms {
			if i == closeAt {
				in.kv.Close()
				closed = true
			}
			if m.Del {
				b.Delete(m.K)
			} else {
				b.Set(m.K, m.V)
			}
		}
		if closeAt == len(ms) {
			in.kv.Close()
			closed = true
		}
		cerr = in.kv.CommitBatch(b)
	}) {
		return
	}
	witness["commit_error"] = fmt.Sprint(cerr)
	all := applyMuts(baseline, ms)
	classify := func(got map[string]string, stage string) bool {
		r.Eval(1)
		w := map[string]any{"stage": stage, "contents": got}
		for k, v := range witness {
			w[k] = v
		}
		switch {
		case reflect.DeepEqual(got, all):
			r.Note("failed_batch_outcome/"+sp.name, "all")
		case reflect.DeepEqual(got, baseline) && cerr != nil:
			r.Note("failed_batch_outcome/"+sp.name, "none")
		case reflect.DeepEqual(got, baseline):
			r.Violation("batch-lost/"+sp.site, fmt.Sprintf("[%s] CommitBatch returned nil but none of the batch is there (%s)", sp.name, stage), w)
			return false
		default:
			r.Violation("batch-partial/"+sp.site, fmt.Sprintf("[%s] after a CommitBatch that returned %v (%s, failing mutation %s) the store holds part of the batch (%s)", sp.name, cerr, variant, where, stage), w)
			return false
		}
		return true
	}
	state := baseline
	if !closed {
		var got map[string]string
		var derr error
		if r.Guard("find/"+sp.site, witness, func() { got, derr = dump(in.kv) }) {
			return
		}
		if derr != nil {
			r.Violation("iter/"+sp.site, fmt.Sprintf("[%s] range scan after a failed CommitBatch = %v", sp.name, derr), witness)
			return
		}
		if !classify(got, "same process") {
			return
		}
		state = got
		// an ordinary batch afterwards must commit and be applied
		follow := []fbMut{{K: "fb|after", V: "1"}, {Del: true, K: "fb|b"}, {K: "fb|a|x", V: "after"}}
		var ferr error
		if r.Guard("batch/"+sp.site, witness, func() {
			b := in.kv.BeginBatch()
			for _, m := range follow {
				if m.Del {
					b.Delete(m.K)
				} else {
					b.Set(m.K, m.V)
				}
			}
			ferr = in.kv.CommitBatch(b)
		}) {
			return
		}
		r.Eval(1)
		if ferr != nil {
			w := map[string]any{"follow_up_batch": follow}
			for k, v := range witness {
				w[k] = v
			}
			r.Violation("op-error/"+sp.site+".commit-after-failed-batch", fmt.Sprintf("[%s] an ordinary batch after a CommitBatch that failed with %q = %v, want nil", sp.name, fmt.Sprint(cerr), ferr), w)
			return
		}
		state = applyMuts(state, follow)
		witness["follow_up_batch"] = follow
		if r.Guard("find/"+sp.site, witness, func() { got, derr = dump(in.kv) }) {
			return
		}
		r.Eval(1)
		if derr != nil || !reflect.DeepEqual(got, state) {
			w := map[string]any{"contents": got, "want": state}
			for k, v := range witness {
				w[k] = v
			}
			r.Violation("batch-after-failed/"+sp.site, fmt.Sprintf("[%s] after a failed CommitBatch and an ordinary committed batch the contents are not (outcome of the failed batch) + (the ordinary batch) (scan error: %v)", sp.name, derr), w)
			return
		}
		closed = true
		if err := in.kv.Close(); err != nil {
			r.Violation("reopen/"+sp.site, fmt.Sprintf("[%s] Close after a failed commit: %v", sp.name, err), witness)
			return
		}
	}
	in2, err := sp.open(dir)
	if err != nil {
		r.Violation("reopen/"+sp.site, fmt.Sprintf("[%s] re-open after a failed commit: %v", sp.name, err), witness)
		return
	}
	defer in2.kv.Close()
	got, err := dump(in2.kv)
	if err != nil {
		r.Inconclusive(fmt.Sprintf("%s dump: %v", sp.name, err))
		return
	}
	if closed && closeAt >= 0 {
		if !classify(got, "after re-open") {
			return
		}
	} else {
		r.Eval(1)
		if !reflect.DeepEqual(got, state) {
			w := map[string]any{"contents_after_reopen": got, "want": state}
			for k, v := range witness {
				w[k] = v
			}
			r.Violation("reopen/"+sp.site, fmt.Sprintf("[%s] contents after Close + re-open differ from the contents before (a failed batch, then an ordinary batch)", sp.name), w)
			return
		}
	}
	if cerr != nil {
		r.Note("failed_batch_forced", sp.name)
		r.Note("failed_batch_midway", sp.name+"/"+variant+"/"+where)
	} else {
		r.Note("failed_batch_not_failed", sp.name+"/"+variant)
	}
	r.Count("failed_batch_rounds/"+sp.name, 1)
}
