package main

import (
	"fmt"
	"math/rand"
	"sort"
	"strings"

	"perkeep.org/pkg/sorted"
)

// ------------------------------------------------------------ Wipe (sorted.Wiper)

// doWipe calls the optional Wipe ("removes all key/value pairs, and resets the storage to a
// blank state"): afterwards the store must be the empty map, and stay a map.
func (h *hist) doWipe() {
	w, ok := h.in.kv.(sorted.Wiper)
	if !ok {
		return
	}
	h.log(opRec{Op: "wipe", Note: fmt.Sprintf("%d live keys", len(h.model))})
	h.counts["wipe"]++
	var err error
	if h.guard("wipe", func() { err = w.Wipe() }) {
		return
	}
	h.evals++
	if err != nil {
		h.report("op-error/"+h.sp.site+".wipe", fmt.Sprintf("Wipe = %v, want nil", err))
		h.dead = true
		return
	}
	if len(h.model) > 0 {
		h.note("wipe_kinds", "non-empty")
	} else {
		h.note("wipe_kinds", "empty")
	}
	if len(h.model) >= 1000 {
		h.note("wipe_kinds", ">=1000-keys")
	}
	h.mreplace(map[string]string{})
	h.plainSets = 0
	h.audit("wipe")
}

// ------------------------------------------------------------ BeginReadTx (sorted.TransactionalReader)

// doReadTx opens a read transaction and compares reads made through it with the map as it was
// when the transaction began ("writes that occur after the transaction is created are not
// observed").  Writes are interleaved only where the implementation allows a writer next to an
// open read transaction from one goroutine (leveldb snapshots); the sqlite transaction holds
// the store's gate until it is closed, so there the reads are made back to back.
func (h *hist) doReadTx() {
	tr, ok := h.in.kv.(sorted.TransactionalReader)
	if !ok {
		return
	}
	interleave := h.sp.base == "leveldb"
	h.log(opRec{Op: "readtx-begin"})
	h.counts["readtx"]++
	var tx sorted.ReadTransaction
	if h.guard("readtx", func() { tx = tr.BeginReadTx() }) {
		return
	}
	snap := make(map[string]string, len(h.model))
	for k, v := range h.model {
		snap[k] = v
	}
	closed := false
	defer func() {
		if !closed {
			func() {
				defer func() { recover() }()
				tx.Close()
			}()
		}
		h.tx = nil
	}()

	rounds := 1 + h.rng.Intn(3)
	writesDone := 0
	for rd := 0; rd < rounds && !h.dead && h.reported < 3; rd++ {
		if interleave && rd > 0 {
			// writes after the transaction began: they go to the live store and the live model
			for i, n := 0, 1+h.rng.Intn(4); i < n && !h.dead; i++ {
				switch c := h.rng.Intn(10); {
				case c < 5:
					h.doSet()
				case c < 7:
					h.doDelete()
				default:
					h.doBatch(h.genBatch())
				}
				writesDone++
			}
			if h.dead {
				return
			}
		}
		// reads through the transaction, judged against the snapshot
		live := h.model
		h.mreplace(snap)
		h.tx = tx
		for i, n := 0, 2+h.rng.Intn(5); i < n && !h.dead && h.reported < 3; i++ {
			if h.rng.Intn(2) == 0 {
				k := h.pickKey(true)
				h.useKey(k)
				h.log(opRec{Op: "readtx-get", Key: h.keyDesc(k.K)})
				h.counts["readtx_get"]++
				h.noteGiant("readtx-get", k.K)
				h.checkGet(k.K, "readtx")
			} else {
				h.counts["readtx_find"]++
				h.doRandomFind()
			}
		}
		if h.rng.Intn(3) == 0 && !h.dead {
			h.counts["readtx_find"]++
			h.audit("readtx")
		}
		h.tx = nil
		h.mreplace(live)
	}
	if h.dead {
		return
	}
	h.log(opRec{Op: "readtx-close"})
	var err error
	closed = true
	if h.guard("readtx", func() { err = tx.Close() }) {
		return
	}
	h.evals++
	if err != nil {
		h.report("readtx/"+h.sp.site, fmt.Sprintf("ReadTransaction.Close = %v, want nil", err))
		return
	}
	h.note("readtx_kinds", "reads")
	if writesDone > 0 {
		h.note("readtx_kinds", "reads-after-later-writes")
	}
	// the store itself is unaffected by the transaction
	if h.rng.Intn(2) == 0 {
		h.audit("")
	}
}

// ------------------------------------------------------------ histories with thousands of live keys

var bulkHeads = []string{"claim|sha224-", "have:sha224-", "meta:sha224-", "recpn|sha224-", "signerkeyid:sha224-", "ab", "ab|", "~", "\xc3\xa9|", "edgeback|sha224-", "\xff"}

const bulkAlphabet = "0123456789abcdef|"

// bulkKeys returns n distinct short keys in index style; many are prefixes of each other.
func bulkKeys(rng *rand.Rand, n int, taken map[string]int) []string {
	seen := map[string]bool{}
	var out []string
	for len(out) < n {
		head := bulkHeads[rng.Intn(len(bulkHeads))]
		l := 1 + rng.Intn(10)
		b := make([]byte, l)
		for i := range b {
			b[i] = bulkAlphabet[rng.Intn(len(bulkAlphabet))]
		}
		k := head + string(b)
		if rng.Intn(4) == 0 {
			k += fmt.Sprintf("|2011-%02d-%02dT03:04:05Z|sha224-%02x", 1+rng.Intn(12), 1+rng.Intn(28), rng.Intn(256))
		}
		if _, ok := taken[k]; ok || seen[k] {
			continue
		}
		seen[k] = true
		out = append(out, k)
	}
	return out
}

// bulkBatch commits one batch of sets (value = tag.<universe index>) or deletes over the given
// bulk keys and spot-checks a few of them; the final audit of the load phase compares everything.
func (h *hist) bulkBatch(keys []string, del bool, tag string) {
	what := "set"
	if del {
		what = "delete"
	}
	h.log(opRec{Op: "bulk-batch", Note: fmt.Sprintf("%s %d keys from %s to %s (sets: value = %q + universe index)", what, len(keys), descStr(keys[0]), descStr(keys[len(keys)-1]), tag+".")})
	h.counts["batch"]++
	h.counts["bulk_batches"]++
	h.counts["batch_mutations"] += len(keys)
	var err error
	if h.guard("batch", func() {
		b := h.in.kv.BeginBatch()
		for _, k := range keys {
			if del {
				b.Delete(k)
			} else {
				b.Set(k, fmt.Sprintf("%s.%d", tag, h.idx[k]))
			}
		}
		err = h.in.kv.CommitBatch(b)
	}) {
		return
	}
	h.evals++
	if err != nil {
		h.report("op-error/"+h.sp.site+".commit", fmt.Sprintf("CommitBatch of %d mutations = %v, want nil", len(keys), err))
		h.dead = true
		return
	}
	for _, k := range keys {
		if del {
			h.mdel(k)
		} else {
			h.mset(k, fmt.Sprintf("%s.%d", tag, h.idx[k]))
		}
	}
	for i := 0; i < 8 && !h.dead; i++ {
		h.checkGet(keys[h.rng.Intn(len(keys))], "batch-order")
	}
}

// bulkLoad fills the store with the bulk keys through batches, then overwrites and deletes
// runs of neighbouring keys (for a buffer after a Flush: long runs of keys that are in both
// the buffer and the backing store, next to runs that are only in one of them).
func (h *hist) bulkLoad(keys []string) {
	perm := h.rng.Perm(len(keys))
	for off := 0; off < len(perm) && !h.dead; {
		n := 100 + h.rng.Intn(800)
		if off+n > len(perm) {
			n = len(perm) - off
		}
		chunk := make([]string, n)
		for i := range chunk {
			chunk[i] = keys[perm[off+i]]
		}
		h.bulkBatch(chunk, false, "b1")
		off += n
		if h.sp.buffered && !h.dead && (h.rng.Intn(4) == 0 || off >= len(perm)) {
			h.doFlush()
		}
	}
	if h.dead {
		return
	}
	// runs of neighbours (in byte order) are overwritten, deleted or left alone
	sk := append([]string(nil), keys...)
	sort.Strings(sk)
	var over, del []string
	for i := 0; i < len(sk); {
		run := 1 + h.rng.Intn(400)
		if i+run > len(sk) {
			run = len(sk) - i
		}
		switch c := h.rng.Intn(10); {
		case c < 4:
			over = append(over, sk[i:i+run]...)
		case c < 5:
			del = append(del, sk[i:i+min(run, 60)]...)
		}
		i += run
	}
	for len(over) > 0 && !h.dead {
		n := min(len(over), 300+h.rng.Intn(900))
		h.bulkBatch(over[:n], false, "b2")
		over = over[n:]
	}
	if len(del) > 0 && !h.dead {
		h.bulkBatch(del, true, "")
	}
	if !h.dead {
		h.audit("")
	}
}

func bulkUniverseLine(n int) string {
	return fmt.Sprintf("... and %d bulk keys = head + 1-10 chars of %q (+ a date/ref tail for a quarter), head in %s; witnesses quote them in full",
		n, bulkAlphabet, strings.Join(quoteAll(bulkHeads), " "))
}

func quoteAll(ss []string) []string {
	out := make([]string, len(ss))
	for i, s := range ss {
		out[i] = fmt.Sprintf("%q", s)
	}
	return out
}
