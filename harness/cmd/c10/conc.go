package main

import (
	"errors"
	"fmt"
	"math/rand"
	"os"
	"sort"
	"strings"
	"sync"
	"sync/atomic"
	"time"

	"perkeep.org/pkg/sorted"
	"perkeep.org/pkg/sorted/buffer"

	"verif.local/harness/ev"
)

// ------------------------------------------------------------ writers concurrent with Flush (write buffer)
//
// The buffer documents its own locking ("This read lock should be held during
// Set/Get/Delete/BatchCommit, and the write lock should be held during Flush") and flushes by
// itself from whichever goroutine's Set crosses maxBufferBytes, so one buffer.KeyValue is used
// by several goroutines.  Flush is not a map operation: it must not change what Get returns.
//
// Oracle (narrow on purpose): every key has exactly ONE writer goroutine, so "the last value
// set" / "not-found after delete" is unambiguous for it at two moments:
//   - a writer reading its own key between its own writes (nobody else ever writes that key);
//   - after quiescence (all writers and flushers joined): Get and a full scan through the
//     buffer, the backing store after a final Flush, and the re-opened store all equal the
//     writers' last writes.
// Nothing is judged about what OTHER goroutines see while a write is in flight, about data
// races (C14) or about elapsed time.

type cfOp struct {
	kind string // set | del | batch | get
	key  int    // index into the writer's keys
	val  string
	muts []cfMut
}

type cfMut struct {
	key int
	del bool
	val string
}

type cfWriter struct {
	id    int
	keys  []string
	ops   []cfOp
	model map[string]string // after the ops executed so far (own keys only)
	last  map[string]int    // key -> index of the last op that wrote it
	unk   map[string]bool   // keys whose state is unknown (an op on them returned an error)
	done  int
	stop  bool
}

var cfKeyForms = []string{"cf|%03d|w%d", "cf|%03d\xff|w%d", "cf:%03d w%d", "cf|%03d|w%d|\xc3\xa9", "%03d~cf%d"}

func cfValue(rng *rand.Rand, w, i int) string {
	head := fmt.Sprintf("w%d.%d", w, i)
	switch c := rng.Intn(100); {
	case c < 8:
		return "" // the empty value is a value
	case c < 90:
		return head + strings.Repeat("-", rng.Intn(24))
	case c < 99:
		return head + strings.Repeat("=", 200+rng.Intn(1800))
	}
	return padTo(head, "#", maxV+1) // over the limit: silently skipped
}

func cfGenWriter(rng *rand.Rand, w, nKeys, nOps int) *cfWriter {
	cw := &cfWriter{id: w, model: map[string]string{}, last: map[string]int{}, unk: map[string]bool{}}
	for j := 0; j < nKeys; j++ {
		cw.keys = append(cw.keys, fmt.Sprintf(cfKeyForms[rng.Intn(len(cfKeyForms))], j, w))
	}
	var recent []int
	pick := func() int {
		if len(recent) > 0 && rng.Intn(100) < 40 {
			return recent[rng.Intn(len(recent))]
		}
		return rng.Intn(nKeys)
	}
	touch := func(k int) {
		recent = append(recent, k)
		if len(recent) > 8 {
			recent = recent[1:]
		}
	}
	// every key is written once first (shuffled), so the buffer holds all of them early on
	for _, j := range rng.Perm(nKeys) {
		cw.ops = append(cw.ops, cfOp{kind: "set", key: j, val: cfValue(rng, w, len(cw.ops))})
	}
	for len(cw.ops) < nOps {
		i := len(cw.ops)
		switch c := rng.Intn(100); {
		case c < 55:
			k := pick()
			touch(k)
			cw.ops = append(cw.ops, cfOp{kind: "set", key: k, val: cfValue(rng, w, i)})
		case c < 67:
			k := pick()
			touch(k)
			cw.ops = append(cw.ops, cfOp{kind: "del", key: k})
		case c < 80:
			op := cfOp{kind: "batch"}
			for m, n := 0, 1+rng.Intn(6); m < n; m++ {
				k := pick()
				if len(op.muts) > 0 && rng.Intn(3) == 0 {
					k = op.muts[rng.Intn(len(op.muts))].key
				}
				touch(k)
				if rng.Intn(100) < 30 {
					op.muts = append(op.muts, cfMut{key: k, del: true})
				} else {
					op.muts = append(op.muts, cfMut{key: k, val: cfValue(rng, w, i*8+m)})
				}
			}
			cw.ops = append(cw.ops, op)
		default:
			cw.ops = append(cw.ops, cfOp{kind: "get", key: pick()})
		}
	}
	return cw
}

func cfDescribe(cw *cfWriter, i int) string {
	op := cw.ops[i]
	switch op.kind {
	case "set":
		return fmt.Sprintf("op %d: Set(%q, %s)", i, cw.keys[op.key], descStr(op.val))
	case "del":
		return fmt.Sprintf("op %d: Delete(%q)", i, cw.keys[op.key])
	case "get":
		return fmt.Sprintf("op %d: Get(%q)", i, cw.keys[op.key])
	}
	var ms []string
	for _, m := range op.muts {
		if m.del {
			ms = append(ms, fmt.Sprintf("del %q", cw.keys[m.key]))
		} else {
			ms = append(ms, fmt.Sprintf("set %q=%s", cw.keys[m.key], descStr(m.val)))
		}
	}
	return fmt.Sprintf("op %d: batch{%s}", i, strings.Join(ms, "; "))
}

// cfHistory lists the writer's last few completed ops that touched key (oldest first).
func cfHistory(cw *cfWriter, key string, upto int) []string {
	var out []string
	for i := min(upto, len(cw.ops)-1); i >= 0 && len(out) < 4; i-- {
		op := cw.ops[i]
		hit := false
		switch op.kind {
		case "set", "del":
			hit = cw.keys[op.key] == key
		case "batch":
			for _, m := range op.muts {
				hit = hit || cw.keys[m.key] == key
			}
		}
		if hit {
			out = append([]string{cfDescribe(cw, i)}, out...)
		}
	}
	return out
}

type cfConfig struct {
	base    string
	max     int64
	writers int
	nKeys   int
	nOps    int
	every   int // one explicit Flush is requested whenever the writers have completed this many more ops
	flushrs int
}

func (c cfConfig) name() string { return fmt.Sprintf("buffer-%s-%d", c.base, c.max) }

func cfShow(v string, err error) string {
	switch {
	case err == nil:
		return descStr(v)
	case errors.Is(err, sorted.ErrNotFound):
		return "not found"
	}
	return "error " + err.Error()
}

func concFlushCheck(r *ev.Run, root, id string, base string, round int) {
	rng := r.Rand("concflush/" + id)
	cfg := cfConfig{base: base, writers: 2 + rng.Intn(4), flushrs: 1 + rng.Intn(2)}
	// shape: a big buffer flushed only explicitly (long scans), or a small one that also
	// flushes by itself from the writers' Sets
	shape := []string{"explicit-only/many-keys", "explicit-only/hot-keys", "auto-flush-4096", "auto-flush-64"}[round%4]
	slow := base == "sqlite" || base == "kv"
	switch shape {
	case "explicit-only/many-keys":
		cfg.max, cfg.nKeys, cfg.nOps = 1<<30, 150+rng.Intn(350), r.Pick(1500, 4000)
		cfg.every = 100 + rng.Intn(600)
	case "explicit-only/hot-keys":
		cfg.max, cfg.nKeys, cfg.nOps = 1<<30, 4+rng.Intn(20), r.Pick(1200, 4000)
		cfg.every = 3 + rng.Intn(40)
	case "auto-flush-4096":
		cfg.max, cfg.nKeys, cfg.nOps = 4096, 10+rng.Intn(60), r.Pick(1200, 4000)
		cfg.every = 20 + rng.Intn(200)
	default:
		cfg.max, cfg.nKeys, cfg.nOps = 64, 4+rng.Intn(20), r.Pick(500, 1500)
		cfg.every = 5 + rng.Intn(50)
	}
	if slow {
		cfg.nOps = max(cfg.nOps/3, cfg.nKeys+50)
	}
	site := "buffer-" + base

	dir, err := os.MkdirTemp(root, "cf")
	if err != nil {
		r.Inconclusive("mkdir: " + err.Error())
		return
	}
	defer os.RemoveAll(dir)
	back, err := openBase(base, dir)
	if err != nil {
		r.Inconclusive(fmt.Sprintf("cannot open %s: %v", base, err))
		return
	}
	b := buffer.New(sorted.NewMemoryKeyValue(), back, cfg.max)

	var ws []*cfWriter
	total := 0
	for w := 0; w < cfg.writers; w++ {
		cw := cfGenWriter(rng, w, cfg.nKeys, cfg.nOps)
		ws = append(ws, cw)
		total += len(cw.ops)
	}
	caseDoc := func(extra map[string]any) map[string]any {
		m := map[string]any{"case_id": id, "impl": cfg.name(), "shape": shape, "writers": cfg.writers, "keys_per_writer": cfg.nKeys,
			"ops_per_writer": cfg.nOps, "explicit_flush_every_n_ops": cfg.every, "flusher_goroutines": cfg.flushrs,
			"note": "each key is written by one goroutine only; the interleaving with Flush is decided by the scheduler, so a replay may need several runs"}
		for k, v := range extra {
			m[k] = v
		}
		return m
	}

	var reported atomic.Int32
	report := func(sig, what string, extra map[string]any) {
		if reported.Add(1) > 4 {
			return
		}
		r.Violation(sig+"/"+site, fmt.Sprintf("[%s] %s (case %s)", cfg.name(), what, id), caseDoc(extra))
	}

	var completed atomic.Int64
	flushReq := make(chan struct{}, total/cfg.every+2)
	var flushes, flushErrs, ownReads atomic.Int64
	var wg, fwg sync.WaitGroup
	begin := make(chan struct{})

	for f := 0; f < cfg.flushrs; f++ {
		fwg.Add(1)
		go func() {
			defer fwg.Done()
			for range flushReq {
				var err error
				if r.Guard("flush/"+site, caseDoc(nil), func() { err = b.Flush() }) {
					return
				}
				flushes.Add(1)
				if err != nil {
					flushErrs.Add(1)
					report("op-error/"+site+".flush", fmt.Sprintf("Flush next to concurrent writers = %v, want nil", err), nil)
				}
			}
		}()
	}
	for _, cw := range ws {
		cw := cw
		wg.Add(1)
		go func() {
			defer wg.Done()
			<-begin
			for i, op := range cw.ops {
				if cw.stop {
					return
				}
				var err error
				var got string
				panicked := r.Guard(op.kind+"/"+site, caseDoc(map[string]any{"writer": cw.id, "op": cfDescribe(cw, i)}), func() {
					switch op.kind {
					case "set":
						err = b.Set(cw.keys[op.key], op.val)
					case "del":
						err = b.Delete(cw.keys[op.key])
					case "get":
						got, err = b.Get(cw.keys[op.key])
					case "batch":
						bm := b.BeginBatch()
						for _, m := range op.muts {
							if m.del {
								bm.Delete(cw.keys[m.key])
							} else {
								bm.Set(cw.keys[m.key], m.val)
							}
						}
						err = b.CommitBatch(bm)
					}
				})
				if panicked {
					cw.stop = true
					return
				}
				switch op.kind {
				case "get":
					k := cw.keys[op.key]
					want, present := cw.model[k]
					ownReads.Add(1)
					if cw.unk[k] {
						break
					}
					ok := (present && err == nil && got == want) || (!present && errors.Is(err, sorted.ErrNotFound))
					if !ok {
						w := "not found"
						if present {
							w = descStr(want)
						}
						report("conc-flush-own-read", fmt.Sprintf("writer %d is the only goroutine that writes key %q; its Get returned %s, but its own last write left %s (Flush calls run concurrently)",
							cw.id, k, cfShow(got, err), w),
							map[string]any{"writer": cw.id, "key": k, "got": cfShow(got, err), "want": w, "read_at": cfDescribe(cw, i), "last_writes_of_the_key": cfHistory(cw, k, i)})
						cw.unk[k] = true // reported once; what follows for this key is not judged
					}
				default:
					if err != nil {
						report("op-error/"+site+".conc-"+op.kind, fmt.Sprintf("writer %d: %s = %v, want nil", cw.id, cfDescribe(cw, i), err), map[string]any{"writer": cw.id})
						cw.stop = true
						return
					}
					switch op.kind {
					case "set":
						if inLimits(cw.keys[op.key], op.val) {
							cw.model[cw.keys[op.key]] = op.val
							cw.last[cw.keys[op.key]] = i
						}
					case "del":
						delete(cw.model, cw.keys[op.key])
						cw.last[cw.keys[op.key]] = i
					case "batch":
						for _, m := range op.muts {
							k := cw.keys[m.key]
							if m.del {
								delete(cw.model, k)
							} else if inLimits(k, m.val) {
								cw.model[k] = m.val
							} else {
								continue
							}
							cw.last[k] = i
						}
					}
				}
				cw.done = i + 1
				if n := completed.Add(1); n%int64(cfg.every) == 0 {
					flushReq <- struct{}{} // never blocks: the channel holds every request of the run
				}
			}
		}()
	}
	close(begin)
	wg.Wait()
	close(flushReq)
	fwg.Wait()

	// ---- quiescence: the writers' last writes
	want := map[string]string{}
	owner := map[string]*cfWriter{}
	unknown := map[string]bool{}
	aborted := false
	var allKeys []string
	for _, cw := range ws {
		if cw.stop {
			aborted = true // a panic / op error was reported; the in-flight op's effect is unknown
		}
		for _, k := range cw.keys {
			allKeys = append(allKeys, k)
			owner[k] = cw
			if cw.unk[k] {
				unknown[k] = true
			}
		}
		for k, v := range cw.model {
			want[k] = v
		}
	}
	sort.Strings(allKeys)
	evals := 0
	keyDoc := func(k string, got string) map[string]any {
		cw := owner[k]
		w := "not found"
		if v, ok := want[k]; ok {
			w = descStr(v)
		}
		return map[string]any{"key": k, "writer": cw.id, "got": got, "want": w, "last_writes_of_the_key": cfHistory(cw, k, len(cw.ops)-1),
			"explicit_flushes": flushes.Load()}
	}
	compare := func(sig, where string, get func(string) (string, error)) bool {
		ok := true
		for _, k := range allKeys {
			if unknown[k] {
				continue
			}
			var got string
			var err error
			if r.Guard("get/"+site, caseDoc(map[string]any{"key": k}), func() { got, err = get(k) }) {
				return false
			}
			evals++
			wv, present := want[k]
			if (present && err == nil && got == wv) || (!present && errors.Is(err, sorted.ErrNotFound)) {
				continue
			}
			ok = false
			unknown[k] = true // one report per key
			doc := keyDoc(k, cfShow(got, err))
			report(sig, fmt.Sprintf("after all writers and Flush calls returned, %s Get(%q) = %s, but the last write of the key's only writer (writer %d) left %s",
				where, k, cfShow(got, err), owner[k].id, doc["want"]), doc)
		}
		return ok
	}
	scan := func(sig, where string, kv sorted.KeyValue) bool {
		var got map[string]string
		var err error
		if r.Guard("find/"+site, caseDoc(nil), func() { got, err = dump(kv) }) {
			return false
		}
		evals++
		if err != nil {
			report(sig, fmt.Sprintf("%s full scan = %v", where, err), nil)
			return false
		}
		for k, v := range got {
			if unknown[k] {
				continue
			}
			if _, mine := owner[k]; !mine {
				report(sig, fmt.Sprintf("%s full scan returned key %q which nobody wrote", where, k), nil)
				return false
			}
			if wv, present := want[k]; !present || wv != v {
				unknown[k] = true
				doc := keyDoc(k, descStr(v))
				report(sig, fmt.Sprintf("after all writers and Flush calls returned, %s full scan has %q = %s, but the last write of the key's only writer (writer %d) left %s", where, k, descStr(v), owner[k].id, doc["want"]), doc)
				return false
			}
		}
		for k := range want {
			if _, ok := got[k]; !ok && !unknown[k] {
				unknown[k] = true
				doc := keyDoc(k, "not returned")
				report(sig, fmt.Sprintf("after all writers and Flush calls returned, %s full scan lacks key %q; the last write of its only writer (writer %d) left %s", where, k, owner[k].id, doc["want"]), doc)
				return false
			}
		}
		return true
	}
	ok := !aborted
	if ok {
		ok = compare("conc-flush-get", "the buffer's", b.Get) && scan("conc-flush-scan", "the buffer's", b)
	}
	closed := false
	if ok {
		var ferr error
		if r.Guard("flush/"+site, caseDoc(nil), func() { ferr = b.Flush() }) {
			ok = false
		} else if ferr != nil {
			report("op-error/"+site+".flush", fmt.Sprintf("final Flush = %v, want nil", ferr), nil)
			ok = false
		}
	}
	if ok {
		ok = compare("conc-flush-backing", "after a final Flush the backing store's", back.Get) && scan("conc-flush-backing", "after a final Flush the backing store's", back)
	}
	if ok && base != "memory" {
		var cerr error
		closed = true
		if r.Guard("close/"+site, caseDoc(nil), func() { cerr = b.Close() }) {
			ok = false
		} else if cerr != nil {
			report("reopen/"+site, fmt.Sprintf("Close after the concurrent phase = %v, want nil", cerr), nil)
			ok = false
		}
		if ok {
			re, err := openBase(base, dir)
			if err != nil {
				report("reopen/"+site, fmt.Sprintf("re-open after the concurrent phase: %v", err), nil)
				ok = false
			} else {
				ok = scan("conc-flush-reopen", "after Close and re-open the store's", re)
				re.Close()
			}
		}
	}
	if !closed {
		func() {
			defer func() { recover() }()
			b.Close()
		}()
	}

	r.Eval(evals + int(ownReads.Load()))
	r.Count("conc_flush_cases", 1)
	r.Count("conc_flush_cases/"+site, 1)
	r.Count("conc_flush_writer_ops/"+site, int(completed.Load()))
	r.Count("conc_flush_explicit_flushes/"+site, int(flushes.Load()))
	r.Count("conc_flush_own_reads/"+site, int(ownReads.Load()))
	r.Count("conc_flush_keys_judged_after_quiescence/"+site, len(allKeys)-len(unknown))
	if !aborted && completed.Load() == int64(total) && flushes.Load() == int64(total/cfg.every) && flushes.Load() > 0 {
		r.Note("conc_flush_ran", site)
		r.Note("conc_flush_shapes", shape)
		r.Note("events", "conc-flush")
		r.Distinct(fmt.Sprintf("concflush/%s/%s/w%d/k%d/e%d/f%d", cfg.name(), shape, cfg.writers, cfg.nKeys, cfg.every, cfg.flushrs))
	}
	if round == 0 {
		r.Sample(caseDoc(map[string]any{"first_ops_of_writer_0": []string{cfDescribe(ws[0], 0), cfDescribe(ws[0], cfg.nKeys), cfDescribe(ws[0], cfg.nKeys+1)}}))
	}
}

// concFlushWatch runs one case under the watchdog.
func concFlushWatch(r *ev.Run, root, id, base string, round int) {
	if !ev.WithTimeout(time.Duration(r.Pick(90, 600))*time.Second, func() { concFlushCheck(r, root, id, base, round) }) {
		r.Inconclusive("conc-flush case " + id + " did not finish (watchdog)")
	}
}
