package main

import (
	"errors"
	"fmt"
	"os"
	"strconv"
	"sync"
	"sync/atomic"
	"time"

	"perkeep.org/pkg/sorted"
	"perkeep.org/pkg/sorted/buffer"

	"verif.local/harness/ev"
)

// ------------------------------------------------------------ generation-stamped batches next to Get readers
//
// "a committed batch applies its sets and deletes in order as one unit", observed by a second
// goroutine on the implementations whose own locking makes a batch one unit for Get: the memory
// KeyValue (CommitBatch and Get take the same mutex; it is also the buffer layer of the production
// index) and buffer.New(memory, X, max) (CommitBatch and Get run under the buffer's read lock, Flush
// under its write lock; a Get asks the memory layer first).  The batch-torn sub-check (sub.go) covers
// leveldb, sqlite and kv with four keys; here one batch writes ALL n keys (64..4000, sets only, in a
// fixed seeded order) to generation g, so the time a half-applied batch would be visible is long.
//
// Oracle (logical observations only): one writer commits generations 1,2,3,...; a reader makes
// rounds of 2-4 Gets one after the other.  With batches applied as one unit all keys hold the same
// generation at any instant and that generation never decreases, hence within a round
//   - every key is present and holds a value some batch wrote;
//   - the generations read are non-decreasing in the order the Gets were made;
//   - each lies between the last batch completed before the round and the last batch started
//     before its end.
// Range scans are not judged here (memdb iterators are live), nor are batches with deletes on the
// buffer (it deletes from the backing store in a second step), nor anything about elapsed time.

var gbKeyForms = []string{"gb|%05d", "gb|%05d\xff", "gb:%05d x", "gb|%05d|\xc3\xa9", "%05d~gb"}

func gbValue(g int64, key string) string {
	return fmt.Sprintf("%07d/%s/%s", g, key, "......................"[:g%17])
}

type gbRead struct {
	Key     string `json:"key"`
	Pos     int    `json:"position_in_batch"`
	Present bool   `json:"present"`
	Gen     int64  `json:"generation,omitempty"`
}

func genBatchCheck(r *ev.Run, root, id, site, base string, buffered bool, round int) {
	rng := r.Rand("genbatch/" + id)
	nKeys := []int{1000, 64, 4000, 2}[round%4]
	if nKeys > 64 {
		nKeys += rng.Intn(nKeys / 2)
	} else if nKeys == 64 {
		nKeys = 16 + rng.Intn(100)
	} else {
		nKeys = 2 + rng.Intn(4)
	}
	flushEvery := 0
	if buffered {
		flushEvery = 2 + rng.Intn(9) // explicit Flush by the writer after every flushEvery-th batch
	}
	const nReaders = 2
	n := int64(r.Pick(40, 160))
	if nKeys < 200 {
		n *= 10
	}
	nmax := 20 * n
	rmin, rmax := 3000, 400000

	dir, err := os.MkdirTemp(root, "gb")
	if err != nil {
		r.Inconclusive("mkdir: " + err.Error())
		return
	}
	defer os.RemoveAll(dir)
	back, err := openBase(base, dir)
	if err != nil {
		r.Inconclusive(fmt.Sprintf("cannot open %s: %v", base, err))
		return
	}
	var kv sorted.KeyValue = back
	var buf *buffer.KeyValue
	if buffered {
		buf = buffer.New(sorted.NewMemoryKeyValue(), back, 1<<30)
		kv = buf
	}
	defer func() {
		defer func() { recover() }()
		kv.Close()
	}()

	keys := make([]string, nKeys) // in the order every batch sets them
	for i, j := range rng.Perm(nKeys) {
		keys[i] = fmt.Sprintf(gbKeyForms[rng.Intn(len(gbKeyForms))], j)
	}
	caseDoc := func(extra map[string]any) map[string]any {
		m := map[string]any{"case_id": id, "impl": site, "keys_per_batch": nKeys, "writer": "batch g sets every key (fixed order) to generation g; g = 1,2,3,...",
			"explicit_flush_every_n_batches": flushEvery, "readers": nReaders,
			"note": "the interleaving is decided by the scheduler, so a replay may need several runs"}
		for k, v := range extra {
			m[k] = v
		}
		return m
	}
	commit := func(g int64) (err error, panicked bool) {
		panicked = r.Guard("batch/"+site, caseDoc(map[string]any{"batch": g}), func() {
			b := kv.BeginBatch()
			for _, k := range keys {
				b.Set(k, gbValue(g, k))
			}
			err = kv.CommitBatch(b)
		})
		return
	}
	// generation 0 is loaded before any reader runs: from then on every key is always present
	if err, p := commit(0); p || err != nil {
		if err != nil {
			r.Violation("op-error/"+site+".commit", fmt.Sprintf("[%s] CommitBatch of %d sets = %v", site, nKeys, err), caseDoc(nil))
		}
		return
	}

	var started, completed atomic.Int64
	var writerMin atomic.Bool
	var readersMin atomic.Int32
	var flushes atomic.Int64
	begin := make(chan struct{})
	var wg sync.WaitGroup
	wg.Add(1)
	go func() { // writer
		defer wg.Done()
		defer writerMin.Store(true)
		<-begin
		for g := int64(1); g <= nmax && (g <= n || readersMin.Load() < nReaders); g++ {
			if g == n+1 {
				writerMin.Store(true)
			}
			started.Store(g)
			err, p := commit(g)
			if p {
				return
			}
			if err != nil {
				r.Violation("op-error/"+site+".commit", fmt.Sprintf("[%s] CommitBatch #%d with concurrent readers = %v", site, g, err), caseDoc(map[string]any{"batch": g}))
				return
			}
			completed.Store(g)
			if buffered && g%int64(flushEvery) == 0 {
				var ferr error
				if r.Guard("flush/"+site, caseDoc(nil), func() { ferr = buf.Flush() }) {
					return
				}
				if ferr != nil {
					r.Violation("op-error/"+site+".flush", fmt.Sprintf("[%s] Flush with concurrent readers = %v", site, ferr), caseDoc(nil))
					return
				}
				flushes.Add(1)
			}
		}
	}()

	var mu sync.Mutex
	var rounds, overlapping, firstLast, reported int
	reader := func(ri int) {
		defer wg.Done()
		rrng := r.Rand(fmt.Sprintf("genbatch-reader/%s/%d", id, ri))
		reachedMin := false
		defer func() {
			if !reachedMin {
				readersMin.Add(1) // never leave the writer waiting
			}
		}()
		<-begin
		for j := 0; j < rmax && (j < rmin || !writerMin.Load()); j++ {
			if j == rmin {
				reachedMin = true
				readersMin.Add(1)
			}
			// positions (in batch order) read in this round
			var pos []int
			switch c := rrng.Intn(10); {
			case c < 5:
				pos = []int{0, nKeys - 1} // first-applied, then last-applied
			case c < 8:
				a, b := rrng.Intn(nKeys), rrng.Intn(nKeys)
				pos = []int{min(a, b), max(a, b)}
			default:
				for m, k := 0, 2+rrng.Intn(3); m < k; m++ {
					pos = append(pos, rrng.Intn(nKeys)) // any order: the rule does not depend on it
				}
			}
			lo := completed.Load()
			var reads []gbRead
			bad := ""
			for _, p := range pos {
				k := keys[p]
				var v string
				var err error
				if r.Guard("get/"+site, caseDoc(map[string]any{"key": k}), func() { v, err = kv.Get(k) }) {
					return
				}
				rd := gbRead{Key: k, Pos: p}
				switch {
				case err == nil:
					rd.Present = true
					rd.Gen, _ = strconv.ParseInt(v[:min(7, len(v))], 10, 64)
					if rd.Gen < 0 || rd.Gen > nmax || v != gbValue(rd.Gen, k) {
						bad = fmt.Sprintf("Get(%q) = %s, a value no batch wrote", k, descStr(v))
					}
				case errors.Is(err, sorted.ErrNotFound):
					bad = fmt.Sprintf("Get(%q) = not found, although every batch sets the key and none deletes it", k)
				default:
					bad = fmt.Sprintf("Get(%q) with a concurrent writer = %v", k, err)
				}
				reads = append(reads, rd)
				if bad != "" {
					break
				}
			}
			hi := started.Load()
			why := ""
			if bad == "" {
				cur := lo
				for _, rd := range reads {
					if rd.Gen < cur {
						why = fmt.Sprintf("key %q (position %d of %d in the batch) still shows generation %d although generation %d was already visible before it was read", rd.Key, rd.Pos, nKeys, rd.Gen, cur)
						break
					}
					cur = rd.Gen
				}
				if why == "" && cur > hi {
					why = fmt.Sprintf("the reads show generation %d, but only %d batches had been started", cur, hi)
				}
			}
			mu.Lock()
			rounds++
			if hi > lo {
				overlapping++
				if pos[0] == 0 && pos[len(pos)-1] == nKeys-1 {
					firstLast++
				}
			}
			rep := (bad != "" || why != "") && reported < 3
			if rep {
				reported++
			}
			mu.Unlock()
			if !rep {
				continue // nothing wrong, or reported enough
			}
			witness := caseDoc(map[string]any{"reader": ri, "round": j, "gets_in_time_order": reads, "batches_completed_before": lo, "batches_started_after": hi, "explicit_flushes_so_far": flushes.Load()})
			if bad != "" {
				r.Violation("batch-gen-read/"+site, fmt.Sprintf("[%s] %s (case %s)", site, bad, id), witness)
			} else {
				r.Violation("batch-gen-torn/"+site, fmt.Sprintf("[%s] a reader saw a half-applied batch of %d sets: %s (case %s)", site, nKeys, why, id), witness)
			}
		}
	}
	for ri := 0; ri < nReaders; ri++ {
		wg.Add(1)
		go reader(ri)
	}
	close(begin)
	wg.Wait()

	r.Eval(rounds)
	r.Count("gen_batch_cases/"+site, 1)
	r.Count("gen_batch_batches/"+site, int(completed.Load()))
	r.Count("gen_batch_read_rounds/"+site, rounds)
	r.Count("gen_batch_read_rounds_overlapping_a_commit/"+site, overlapping)
	r.Count("gen_batch_first_then_last_rounds_overlapping_a_commit/"+site, firstLast)
	if buffered {
		r.Count("gen_batch_explicit_flushes/"+site, int(flushes.Load()))
	}
	if completed.Load() >= n && rounds >= nReaders*rmin && (!buffered || flushes.Load() > 0) {
		r.Note("gen_batch_ran", site)
		r.Note("events", "gen-batch")
		if firstLast > 0 {
			r.Note("gen_batch_reads_overlapping_a_commit", site)
		}
		size := "2-5"
		switch {
		case nKeys >= 4000:
			size = ">=4000"
		case nKeys >= 1000:
			size = ">=1000"
		case nKeys >= 16:
			size = "16-115"
		}
		r.Note("gen_batch_sizes", size)
		r.Distinct(fmt.Sprintf("genbatch/%s/k%d/f%d", site, nKeys, flushEvery))
	}
	if round == 0 {
		r.Sample(caseDoc(map[string]any{"first_keys_in_batch_order": keys[:min(3, len(keys))], "batches": completed.Load(), "read_rounds": rounds}))
	}
}

// genBatchSites lists the implementations judged by the family.
func genBatchSites() (sites []string) {
	sites = append(sites, "memory")
	for _, b := range bases {
		sites = append(sites, "buffer-"+b)
	}
	return
}

func genBatchWatch(r *ev.Run, root, id, site, base string, buffered bool, round int) {
	if !ev.WithTimeout(time.Duration(r.Pick(120, 600))*time.Second, func() { genBatchCheck(r, root, id, site, base, buffered, round) }) {
		r.Inconclusive("gen-batch case " + id + " did not finish (watchdog)")
	}
}
