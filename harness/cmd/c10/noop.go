package main

import (
	"fmt"
)

// ------------------------------------------------------------ batches that must change nothing

// doNoopBatch commits a batch whose effect on a map is nothing at all: a batch without any
// mutation (BeginBatch + CommitBatch), a batch whose only mutations are over-limit sets (all
// silently skipped), or a batch that only deletes keys the map does not hold.  "A committed
// batch applies its sets and deletes ... as one unit": zero applied mutations leave every
// earlier write in place, and the store goes on as a map (the history continues with plain
// sets, deletes, scans and re-opens).  Everything here is drawn from h.rng2.
func (h *hist) doNoopBatch() {
	h.noopID++
	kind := "no-mutations"
	switch c := h.rng2.Intn(10); {
	case c < 5:
	case c < 8:
		kind = "only-oversize-sets"
	default:
		kind = "only-deletes-of-absent-keys"
	}
	var ms []mut
	switch kind {
	case "only-oversize-sets":
		var long []ukey // the universe always holds keys of max+1 and 70000 bytes
		for _, u := range h.uni[:h.baseN] {
			if len(u.K) > maxK {
				long = append(long, u)
			}
		}
		for i, n := 0, 1+h.rng2.Intn(3); i < n; i++ {
			if len(long) > 0 && h.rng2.Intn(2) == 0 {
				s := fmt.Sprintf("n%d.%d", h.noopID, i)
				ms = append(ms, mut{k: long[h.rng2.Intn(len(long))], v: value{s, "short", fmt.Sprintf("%q", s)}})
			} else {
				// a key that fits (often a present one) with a value one byte over the limit
				k := h.uni[h.rng2.Intn(len(h.uni))]
				if ks := h.sortedModelKeys(); len(ks) > 0 && h.rng2.Intn(2) == 0 {
					k = h.uni[h.idx[ks[h.rng2.Intn(len(ks))]]]
				}
				ms = append(ms, mut{k: k, v: bigValue(1000000+h.noopID*4+i, maxV+1)})
			}
		}
	case "only-deletes-of-absent-keys":
		for try, n := 0, 1+h.rng2.Intn(3); try < 12 && len(ms) < n; try++ {
			k := h.uni[h.rng2.Intn(len(h.uni))]
			if _, present := h.model[k.K]; !present {
				ms = append(ms, mut{k: k, del: true})
			}
		}
		if len(ms) == 0 {
			kind = "no-mutations"
		}
	}
	var descs []string
	for _, m := range ms {
		h.useKey(m.k)
		if m.del {
			descs = append(descs, "del "+h.keyDesc(m.k.K))
		} else {
			descs = append(descs, "set "+h.keyDesc(m.k.K)+" = "+m.v.Desc)
		}
	}
	h.log(opRec{Op: "noop-batch", Batch: descs, Note: kind})
	h.counts["noop_batch"]++
	var err error
	if h.guard("batch", func() {
		b := h.in.kv.BeginBatch()
		for _, m := range ms {
			if m.del {
				b.Delete(m.k.K)
			} else {
				b.Set(m.k.K, m.v.S)
			}
		}
		err = h.in.kv.CommitBatch(b)
	}) {
		return
	}
	h.evals++
	if err != nil {
		h.report("op-error/"+h.sp.site+".commit", fmt.Sprintf("CommitBatch of a batch that changes nothing (%s, %d mutations) = %v, want nil", kind, len(ms), err))
		h.dead = true
		return
	}
	// the model is unchanged: the touched keys, a few present keys, then everything
	for _, m := range ms {
		if !h.checkGet(m.k.K, "batch-noop") || h.dead {
			return
		}
	}
	if ks := h.sortedModelKeys(); len(ks) > 0 {
		for i := 0; i < 3; i++ {
			if !h.checkGet(ks[h.rng2.Intn(len(ks))], "batch-noop") || h.dead {
				return
			}
		}
	}
	if !h.audit("batch-noop") {
		return
	}
	h.note("noop_batch_kinds", kind)
	if len(h.model) > 0 && h.plainSets > 0 {
		// the store holds plain (non-batch) writes made since it was opened
		h.note("noop_batch_after_plain_sets/"+kind, h.sp.name)
	}
}
