package main

// Parser for the Go race detector's log files (GORACE=log_path=...).

import (
	"os"
	"path/filepath"
	"sort"
	"strings"

	"verif.local/harness/ev"
)

type rFrame struct {
	Func string
	File string // without :line
}

type rStack struct {
	Header string
	Frames []rFrame
}

type raceBlock struct {
	Text   string
	Access []rStack // the (up to) two racing accesses
}

// gorace returns the value of key in $GORACE ("" if absent).
func goraceOpt(key string) string {
	for _, f := range strings.Fields(os.Getenv("GORACE")) {
		if strings.HasPrefix(f, key+"=") {
			return strings.TrimPrefix(f, key+"=")
		}
	}
	return ""
}

// goraceWith returns $GORACE with log_path replaced.
func goraceWith(logPath string) string {
	var out []string
	for _, f := range strings.Fields(os.Getenv("GORACE")) {
		if !strings.HasPrefix(f, "log_path=") && !strings.HasPrefix(f, "exitcode=") {
			out = append(out, f)
		}
	}
	// exitcode=0: reports are judged from the log, not from the exit status
	out = append(out, "exitcode=0", "log_path="+logPath)
	return strings.Join(out, " ")
}

func parseRaceText(text string) []raceBlock {
	var blocks []raceBlock
	lines := strings.Split(text, "\n")
	for i := 0; i < len(lines); i++ {
		if !strings.HasPrefix(lines[i], "WARNING: DATA RACE") {
			continue
		}
		j := i + 1
		for j < len(lines) && !strings.HasPrefix(lines[j], "==================") && !strings.HasPrefix(lines[j], "WARNING: DATA RACE") {
			j++
		}
		blk := raceBlock{Text: strings.Join(lines[i:j], "\n")}
		// sections are separated by blank lines
		var cur *rStack
		flush := func() {
			if cur != nil && !strings.HasPrefix(cur.Header, "Goroutine ") && len(blk.Access) < 2 {
				blk.Access = append(blk.Access, *cur)
			}
			cur = nil
		}
		for k := i + 1; k < j; k++ {
			l := lines[k]
			switch {
			case strings.TrimSpace(l) == "":
				flush()
			case !strings.HasPrefix(l, " "):
				flush()
				cur = &rStack{Header: strings.TrimSpace(l)}
			case strings.HasPrefix(l, "      "):
				if cur != nil && len(cur.Frames) > 0 {
					f := strings.TrimSpace(l)
					if sp := strings.IndexByte(f, ' '); sp >= 0 {
						f = f[:sp]
					}
					if c := strings.LastIndexByte(f, ':'); c >= 0 {
						f = f[:c]
					}
					cur.Frames[len(cur.Frames)-1].File = f
				}
			default:
				if cur != nil {
					fn := strings.TrimSpace(l)
					fn = strings.TrimSuffix(fn, "()")
					cur.Frames = append(cur.Frames, rFrame{Func: fn})
				}
			}
		}
		flush()
		blocks = append(blocks, blk)
		i = j - 1
	}
	return blocks
}

func frameIsPerkeep(f rFrame) bool {
	if strings.HasPrefix(f.Func, "perkeep.org/") {
		return true
	}
	root := strings.TrimRight(ev.RepoRoot(), "/") + "/"
	return strings.HasPrefix(f.File, root) || strings.HasPrefix(f.File, "/repo/")
}

func frameIsHarness(f rFrame) bool {
	return strings.HasPrefix(f.Func, "verif.local/") || strings.HasPrefix(f.Func, "main.") ||
		strings.HasPrefix(f.File, "/verif/harness/")
}

func frameIsStdlib(f rFrame) bool {
	if frameIsHarness(f) || frameIsPerkeep(f) {
		return false
	}
	first := f.Func
	if i := strings.IndexByte(first, '/'); i >= 0 {
		first = first[:i]
		return !strings.Contains(first, ".")
	}
	// no slash: "runtime.x", "sync.(*Mutex).Lock", "bytes.x"
	return true
}

// owner is the innermost non-stdlib frame of a stack (nil if none).
func (s rStack) owner() *rFrame {
	for i := range s.Frames {
		if !frameIsStdlib(s.Frames[i]) {
			return &s.Frames[i]
		}
	}
	return nil
}

func (s rStack) innermostPerkeep() *rFrame {
	for i := range s.Frames {
		if frameIsPerkeep(s.Frames[i]) {
			return &s.Frames[i]
		}
	}
	return nil
}

func (s rStack) outermostPerkeep() *rFrame {
	for i := len(s.Frames) - 1; i >= 0; i-- {
		if frameIsPerkeep(s.Frames[i]) {
			return &s.Frames[i]
		}
	}
	return nil
}

func shortFunc(fn string) string { return strings.TrimPrefix(fn, "perkeep.org/") }

// classify returns "perkeep" (judged), "harness" or "third-party" and the site name of each access.
func (b raceBlock) classify() (class string, sites []string, outer []string) {
	anyPerkeepFrame, perkeepOwner, allHarnessOwners := false, false, len(b.Access) > 0
	// callbackRace: every access is in the client's StatBlobs callback (statSink, deliberately
	// unsynchronised: BlobStatter promises serial calls) - the store that called it is at fault
	callbackRace := len(b.Access) > 0
	for _, st := range b.Access {
		if o := st.owner(); o == nil || !strings.Contains(o.Func, "main.(*statSink).") {
			callbackRace = false
		}
	}
	for _, st := range b.Access {
		site := "?"
		if f := st.innermostPerkeep(); f != nil {
			anyPerkeepFrame = true
			site = shortFunc(f.Func)
			if callbackRace {
				site = "stat-callback<-" + site
			}
		} else if o := st.owner(); o != nil {
			site = o.Func
		} else if len(st.Frames) > 0 {
			site = st.Frames[0].Func
		}
		sites = append(sites, site)
		if o := st.owner(); o != nil {
			if frameIsPerkeep(*o) {
				perkeepOwner = true
			}
			if !frameIsHarness(*o) {
				allHarnessOwners = false
			}
		} else {
			allHarnessOwners = false
		}
		if f := st.outermostPerkeep(); f != nil {
			outer = append(outer, shortFunc(f.Func))
		} else {
			outer = append(outer, "-")
		}
	}
	sort.Strings(sites)
	sort.Strings(outer)
	switch {
	case perkeepOwner:
		class = "perkeep"
	case callbackRace && anyPerkeepFrame:
		class = "perkeep"
	case allHarnessOwners:
		class = "harness"
	case anyPerkeepFrame:
		class = "perkeep"
	default:
		class = "third-party"
		for _, st := range b.Access {
			for _, f := range st.Frames {
				if frameIsHarness(f) {
					class = "harness"
				}
			}
		}
	}
	return
}

// stackKey is the line-stripped stack pair.
func (b raceBlock) stackKey() string {
	var parts []string
	for _, st := range b.Access {
		var fs []string
		for _, f := range st.Frames {
			fs = append(fs, f.Func)
		}
		parts = append(parts, strings.Join(fs, "<"))
	}
	sort.Strings(parts)
	return strings.Join(parts, " || ")
}

// readRaceLogs reads every file prefix.* and returns the files found and their blocks.
func readRaceLogs(prefix string) (files []string, blocks []raceBlock) {
	m, _ := filepath.Glob(prefix + ".*")
	sort.Strings(m)
	for _, f := range m {
		b, err := os.ReadFile(f)
		if err != nil {
			continue
		}
		files = append(files, f)
		blocks = append(blocks, parseRaceText(string(b))...)
	}
	return
}
