package main

// Per-key register models and the porcupine driver.

import (
	"fmt"
	"hash/fnv"
	"sort"
	"strings"
	"time"

	"github.com/anishathalye/porcupine"
)

// kop is one per-key operation of a history partition.
type kop struct {
	Client int    `json:"c"`
	Kind   string `json:"op"` // receive fetch subfetch stat stat-batch enumerate remove remove-multi audit-* init deliver ...
	// W: 0 read, 1 write-present (receive), 2 write-absent (remove), 3 sequence write (value V)
	W       uint8 `json:"w"`
	Present bool  `json:"present,omitempty"`
	// Unknown: the call failed, panicked or never returned: its effect may or may not have happened
	Unknown bool  `json:"unknown,omitempty"`
	V       int   `json:"v,omitempty"`     // sequence registers: value written / read / asked
	Match   bool  `json:"match,omitempty"` // sequence registers: W==4 "is the value V?" answered Match
	Call    int64 `json:"call"`
	Ret     int64 `json:"ret"`
}

func (o kop) String() string {
	res := ""
	switch o.W {
	case 0:
		res = "absent"
		if o.Present {
			res = "present"
		}
	case 1, 2:
		res = "ok"
		if o.Unknown {
			res = "unknown-outcome"
		}
	case 3:
		res = fmt.Sprintf("write #%d", o.V)
	case 4:
		res = fmt.Sprintf("is #%d? %v", o.V, o.Match)
	case 5:
		res = fmt.Sprintf("read #%d", o.V)
	}
	return fmt.Sprintf("[%d,%d] c%d %s -> %s", o.Call, o.Ret, o.Client, o.Kind, res)
}

// presence register: the state is the set of possible values, bit0 = absent possible, bit1 = present possible.
var presenceModel = porcupine.Model{
	Init: func() interface{} { return uint8(1) },
	Step: func(state, input, output interface{}) (bool, interface{}) {
		st := state.(uint8)
		o := input.(kop)
		switch o.W {
		case 1:
			if o.Unknown {
				return true, st | 2
			}
			return true, uint8(2)
		case 2:
			if o.Unknown {
				return true, st | 1
			}
			return true, uint8(1)
		default:
			var want uint8 = 1
			if o.Present {
				want = 2
			}
			if st&want == 0 {
				return false, st
			}
			return true, want // the read resolves the uncertainty
		}
	},
	DescribeOperation: func(input, output interface{}) string { return input.(kop).String() },
}

// sequence register (single writer, values 0..n): deterministic.
var seqModel = porcupine.Model{
	Init: func() interface{} { return 0 },
	Step: func(state, input, output interface{}) (bool, interface{}) {
		st := state.(int)
		o := input.(kop)
		switch o.W {
		case 3:
			return true, o.V
		case 4:
			return (st == o.V) == o.Match, st
		case 5:
			return st == o.V, st
		}
		return false, st
	},
	DescribeOperation: func(input, output interface{}) string { return input.(kop).String() },
}

func toPorcupine(ops []kop) []porcupine.Operation {
	out := make([]porcupine.Operation, len(ops))
	for i, o := range ops {
		out[i] = porcupine.Operation{ClientId: o.Client, Input: o, Call: o.Call, Output: nil, Return: o.Ret}
	}
	return out
}

const linTimeout = 40 * time.Second

// checkPartition checks one key's history.  It returns the porcupine verdict.
func checkPartition(model porcupine.Model, ops []kop) porcupine.CheckResult {
	res, _ := porcupine.CheckOperationsVerbose(model, toPorcupine(ops), linTimeout)
	return res
}

// minimize removes reads greedily while the partition stays non-linearizable, so that the
// witness (and the signature's op kinds) names the observations that cannot be explained.
func minimize(model porcupine.Model, ops []kop) []kop {
	cur := append([]kop(nil), ops...)
	isRead := func(o kop) bool { return o.W == 0 || o.W == 4 || o.W == 5 }
	deadline := time.Now().Add(60 * time.Second)
	for i := len(cur) - 1; i >= 0; i-- {
		if !isRead(cur[i]) || time.Now().After(deadline) {
			continue
		}
		trial := append(append([]kop(nil), cur[:i]...), cur[i+1:]...)
		if r := porcupine.CheckOperationsTimeout(model, toPorcupine(trial), 5*time.Second); r == porcupine.Illegal {
			cur = trial
		}
	}
	// writes that are entirely after the last remaining read cannot matter
	var lastRead int64 = -1
	for _, o := range cur {
		if isRead(o) && o.Ret > lastRead {
			lastRead = o.Ret
		}
	}
	var out []kop
	for _, o := range cur {
		if !isRead(o) && o.Call > lastRead {
			continue
		}
		out = append(out, o)
	}
	sort.SliceStable(out, func(i, j int) bool { return out[i].Call < out[j].Call })
	return out
}

// anomalyClass names the shape of a minimised non-linearizable presence history:
// absent-after-receive (one unexplained read, absent), present-after-remove (one unexplained
// read, present), inconsistent-reads (only a set of reads is contradictory).
func anomalyClass(min []kop) string {
	var reads []kop
	for _, o := range min {
		if o.W == 0 || o.W == 4 || o.W == 5 {
			reads = append(reads, o)
		}
	}
	switch {
	case len(reads) == 1 && reads[0].W == 0 && reads[0].Present:
		return "present-after-remove"
	case len(reads) == 1 && reads[0].W == 0:
		return "absent-after-receive"
	case len(reads) == 1:
		return "stale-or-future-value"
	}
	return "inconsistent-reads"
}

// readKinds returns the sorted distinct kinds of the reads of ops, joined by "+".
func readKinds(ops []kop) string {
	set := map[string]bool{}
	for _, o := range ops {
		if o.W == 0 || o.W == 4 || o.W == 5 {
			set[o.Kind] = true
		}
	}
	var ks []string
	for k := range set {
		ks = append(ks, k)
	}
	sort.Strings(ks)
	s := ""
	for i, k := range ks {
		if i > 0 {
			s += "+"
		}
		s += k
	}
	if s == "" {
		s = "none"
	}
	return s
}

// overlapInfo reports whether any two ops of the partition overlap in time, whether a write
// overlaps another op, and a hash of the interleaving shape (order of call/return events with
// op kinds and results, clients and times abstracted away).
func overlapInfo(ops []kop) (anyOverlap, writeOverlap bool, shape uint64) {
	type evt struct {
		t   int64
		ret bool
		op  int
	}
	var evs []evt
	for i, o := range ops {
		evs = append(evs, evt{o.Call, false, i}, evt{o.Ret, true, i})
	}
	sort.SliceStable(evs, func(i, j int) bool {
		if evs[i].t != evs[j].t {
			return evs[i].t < evs[j].t
		}
		return !evs[i].ret && evs[j].ret
	})
	open := map[int]bool{}
	ord := map[int]int{}
	h := fnv.New64a()
	for _, e := range evs {
		o := ops[e.op]
		if !e.ret {
			if len(open) > 0 {
				anyOverlap = true
				if o.W == 1 || o.W == 2 || o.W == 3 {
					writeOverlap = true
				}
				for k := range open {
					if w := ops[k].W; w == 1 || w == 2 || w == 3 {
						writeOverlap = true
					}
				}
			}
			open[e.op] = true
			ord[e.op] = len(ord)
			fmt.Fprintf(h, "C%d:%d:%v:%d;", ord[e.op], o.W, o.Present, o.V)
		} else {
			delete(open, e.op)
			fmt.Fprintf(h, "R%d;", ord[e.op])
		}
	}
	return anyOverlap, writeOverlap, h.Sum64()
}

// racePair names, for the signature, which operations of a minimised non-linearizable history
// ran concurrently: writes that a later acknowledged write replaced before the first remaining
// read are ignored; then "receive||remove" (also receive||receive, remove||remove) when two of
// the remaining writes overlap, else "<write>||read" when a remaining write overlaps one of
// any read of the full history (the minimisation may have dropped the read that did the damage,
// e.g. a fetch that re-populates a cache), else "no-overlap" (a purely sequential anomaly on this
// key: an acknowledged write is not seen - or seen again - by a later call although no call on
// the same key ran beside it).
// pairClass puts the racing pair into the signature: "no-overlap" stays a class of its own, any
// overlapping pair is filed under "concurrent/<pair>", so that an open finding about unordered
// concurrent receive/remove fan-out can be keyed by "…/concurrent/*" without also covering the
// purely sequential anomalies.
func pairClass(min, full []kop) string {
	p := racePair(min, full)
	if p == "no-overlap" {
		return p
	}
	return "concurrent/" + p
}

func racePair(min, full []kop) string {
	isRead := func(o kop) bool { return o.W == 0 || o.W == 4 || o.W == 5 }
	wname := func(o kop) string {
		switch {
		case o.Kind == "init":
			return "init"
		case o.W == 2:
			return "remove"
		case o.W == 1 && (o.Kind == "receive" || o.Kind == "init"):
			return "receive"
		}
		return o.Kind // deliver, deliver-claim, deliver-delete
	}
	var writes []kop
	var firstRead int64 = 1 << 62
	for _, o := range min {
		if isRead(o) {
			if o.Call < firstRead {
				firstRead = o.Call
			}
		} else {
			writes = append(writes, o)
		}
	}
	var live []kop
	for _, w := range writes {
		shadowed := false
		for _, v := range writes {
			if !v.Unknown && v.Call > w.Ret && v.Ret < firstRead {
				shadowed = true
				break
			}
		}
		if !shadowed {
			live = append(live, w)
		}
	}
	overlap := func(a, b kop) bool { return a.Call < b.Ret && b.Call < a.Ret }
	pairs := map[string]bool{}
	for i := range live {
		for j := i + 1; j < len(live); j++ {
			if overlap(live[i], live[j]) {
				a, b := wname(live[i]), wname(live[j])
				if a > b {
					a, b = b, a
				}
				pairs[a+"||"+b] = true
			}
		}
	}
	if len(pairs) > 0 {
		if pairs["receive||remove"] {
			return "receive||remove"
		}
		var ks []string
		for k := range pairs {
			ks = append(ks, k)
		}
		sort.Strings(ks)
		return ks[0]
	}
	wr := map[string]bool{}
	for _, w := range live {
		for _, r := range full {
			if isRead(r) && overlap(w, r) {
				wr[wname(w)] = true
			}
		}
	}
	if len(wr) > 0 {
		var ks []string
		for k := range wr {
			ks = append(ks, k)
		}
		sort.Strings(ks)
		return strings.Join(ks, "+") + "||read"
	}
	return "no-overlap"
}
