package main

// (B4) the lazily sorted permanode listings (Corpus.EnumeratePermanodesCreated /
// EnumeratePermanodesLastModified, which sorted search queries enumerate) while delete claims
// arrive before their targets.
//
// The "doomed" permanodes each have one title claim and one delete claim.  Their steps run one
// after the other once the main phase is over and the index is quiet, so that between two
// listings of a step nothing but the step's own blobs is indexed (a listing's cache lives until
// the next blob is merged):
//
//	feeder:   title claim, delete claim (has to wait for its target), the permanode itself;
//	          receiving the permanode makes the index re-index the delete claim in the background
//	blob src: the Fetch of the delete claim by that background re-indexing is held
//	readers:  two goroutines list / query / ask IsDeleted all the time
//	feeder:   lists (the permanode is indexed, its deletion is not), lets the re-indexing go,
//	          polls Corpus.IsDeleted until it says true, lists again
//
// Oracle: per doomed permanode one {absent,present} register "listed/<j>": present = the sorted
// listings contain it.  The permanode's delivery writes present; the (asynchronous) merge of its
// delete claim writes absent, open-ended; a listing is a read of every doomed register;
// Corpus.IsDeleted = true is a read "absent" (the listings are built from what IsDeleted says).
// So a listing that starts after anybody saw IsDeleted = true must not contain the permanode.
// The last step skips the second listing: after quiescence the listings must not contain any
// doomed permanode and must equal those of the sequential reference delivery.
// The bounded waits only give up the directed schedule; they are never verdicts.

import (
	"context"
	"fmt"
	"math/rand"
	"strings"
	"sync"
	"sync/atomic"
	"time"

	"perkeep.org/pkg/blob"
	"perkeep.org/pkg/search"
	"perkeep.org/pkg/types/camtypes"

	"verif.local/harness/hw"
	"verif.local/harness/inject"
	"verif.local/harness/sto"
)

const nDoomed = 3

// openEnd is the return stamp of a write whose effect happens asynchronously, some time after its call.
const openEnd = int64(1) << 60

func doomedTitle(j int) string { return fmt.Sprintf("c14-doomed-title-%d", j) }

// buildDoomed adds the doomed permanodes to w (called once per world, under ixWorldMu).
func buildDoomed(w *ixWorld) {
	for j := 0; j < nDoomed; j++ {
		pn := w.signer.Permanode(fmt.Sprintf("c14-doomed-%d", j))
		w.doomed = append(w.doomed, pn)
		w.doomedClaims = append(w.doomedClaims, w.signer.Claim(hw.Set, pn.Ref, "title", doomedTitle(j), hw.T(1999, 10+j)))
		w.doomedDeletes = append(w.doomedDeletes, w.signer.Delete(pn.Ref, hw.T(2007, 20+j)))
	}
}

// reindexHold holds the first Fetch of one blob from the blob source (the background
// re-indexing of an out-of-order delete claim reads the claim from there).
type reindexHold struct {
	entered  chan struct{}
	release  chan struct{}
	once     sync.Once
	timedOut atomic.Bool
}

func newReindexHold() *reindexHold {
	return &reindexHold{entered: make(chan struct{}), release: make(chan struct{})}
}

func (h *reindexHold) enter() {
	first := false
	h.once.Do(func() { first = true; close(h.entered) })
	if first && !waitOr(h.release, depWait) {
		h.timedOut.Store(true)
	}
}

// sortedListings reads the two sorted listings of the corpus under the index read lock, as
// pkg/search does.
func sortedListings(x *hw.Idx) (created, modified []blob.Ref) {
	x.Index.RLock()
	defer x.Index.RUnlock()
	x.Corpus.EnumeratePermanodesCreated(func(m camtypes.BlobMeta) bool { created = append(created, m.Ref); return true }, true)
	x.Corpus.EnumeratePermanodesLastModified(func(m camtypes.BlobMeta) bool { modified = append(modified, m.Ref); return true })
	return
}

func refStrings(l []blob.Ref) []string {
	out := make([]string, len(l))
	for i, r := range l {
		out[i] = r.String()
	}
	return out
}

type tailRun struct {
	x      *hw.Idx
	sh     *search.Handler
	w      *ixWorld
	clk    *clock
	jit    func(inject.Call)
	report func(string, string, map[string]any)
	idx    map[blob.Ref]int // doomed permanode -> j
}

// listing performs one read of the sorted listings; kind 0/1: the corpus enumerations (a read
// of every doomed register), 2/3: a sorted search query for doomed permanode j through the handler.
func (t *tailRun) listing(client, kind, j int) []ixRec {
	ctx := context.Background()
	var name string
	var got map[int]bool
	all := true
	call := t.clk.now()
	switch kind {
	case 0, 1:
		var l []blob.Ref
		t.x.Index.RLock()
		fn := func(m camtypes.BlobMeta) bool { l = append(l, m.Ref); return true }
		if kind == 0 {
			name = "EnumeratePermanodesCreated"
			t.x.Corpus.EnumeratePermanodesCreated(fn, call%2 == 0)
		} else {
			name = "EnumeratePermanodesLastModified"
			t.x.Corpus.EnumeratePermanodesLastModified(fn)
		}
		t.x.Index.RUnlock()
		got = map[int]bool{}
		seen := map[blob.Ref]bool{}
		for _, r := range l {
			if seen[r] {
				t.report("sorted-listing-duplicate/index+corpus", fmt.Sprintf("%s lists %v twice", name, r), nil)
			}
			seen[r] = true
			if k, ok := t.idx[r]; ok {
				got[k] = true
			}
		}
	default:
		all = false
		sort := search.CreatedDesc
		name = "Query-created"
		if kind == 3 {
			sort, name = search.LastModifiedDesc, "Query-mod"
		}
		sq := &search.SearchQuery{Constraint: &search.Constraint{Permanode: &search.PermanodeConstraint{Attr: "title", Value: doomedTitle(j)}}, Sort: sort, Limit: -1}
		sr, err := t.sh.Query(ctx, sq)
		if err != nil {
			t.report("op-error/index+corpus.Query", fmt.Sprintf("search Query(permanode title=%q, sort %v) failed under concurrent load: %v", doomedTitle(j), sort, err), nil)
			return nil
		}
		got = map[int]bool{}
		for _, b := range sr.Blobs {
			if b.Blob == t.w.doomed[j].Ref {
				got[j] = true
			} else {
				t.report("query-extra/index+corpus", fmt.Sprintf("search Query(permanode title=%q, sort %v) returned %v, which never had that title", doomedTitle(j), sort, b.Blob), nil)
			}
		}
	}
	ret := t.clk.now()
	var out []ixRec
	for k := range t.w.doomed {
		if all || k == j {
			out = append(out, ixRec{fmt.Sprintf("listed/%d", k), kop{Client: client, Kind: name, W: 0, Present: got[k], Call: call, Ret: ret}})
		}
	}
	return out
}

// deleted asks the corpus whether doomed permanode j is deleted; only "yes" is a read of the
// listed register (absent).
func (t *tailRun) deleted(client, j int) (bool, []ixRec) {
	call := t.clk.now()
	t.x.Index.RLock()
	d := t.x.Corpus.IsDeleted(t.w.doomed[j].Ref)
	t.x.Index.RUnlock()
	ret := t.clk.now()
	if !d {
		return false, nil
	}
	return true, []ixRec{{fmt.Sprintf("listed/%d", j), kop{Client: client, Kind: "Corpus.IsDeleted", W: 0, Present: false, Call: call, Ret: ret}}}
}

// runIndexTail runs the doomed steps; client0 is the first of the 3 client ids it may use.
func runIndexTail(x *hw.Idx, sh *search.Handler, w *ixWorld, src *delaySrc, clk *clock, jit func(inject.Call), job jobSpec, client0 int,
	report func(string, string, map[string]any), res *histResult) []ixRec {
	t := &tailRun{x: x, sh: sh, w: w, clk: clk, jit: jit, report: report, idx: map[blob.Ref]int{}}
	for j, pn := range w.doomed {
		t.idx[pn.Ref] = j
	}
	var recs []ixRec
	deliver := func(name string, b sto.Blob) (int64, int64, bool) {
		call := clk.now()
		err := x.Deliver(b)
		ret := clk.now()
		if err != nil {
			report("deliver-error/index", fmt.Sprintf("delivering %s (%v) to the index failed under concurrent load: %v", name, b.Ref, err), map[string]any{"blob": name})
		}
		return call, ret, err == nil
	}
	held, givenUp, seenDeleted := 0, 0, 0
	for j := range w.doomed {
		last := j == len(w.doomed)-1
		hold := src.holds[w.doomedDeletes[j].Ref]
		c, r, ok := deliver(fmt.Sprintf("doomed-claim%d", j), w.doomedClaims[j])
		recs = append(recs, ixRec{fmt.Sprintf("meta/doomed-claim%d", j), kop{Client: client0, Kind: "deliver", W: 1, Unknown: !ok, Call: c, Ret: r}})
		if !ok {
			close(hold.release)
			continue
		}
		// the readers of this step
		var rwg sync.WaitGroup
		rrecs := make([][]ixRec, 2)
		for rd := 0; rd < 2; rd++ {
			rwg.Add(1)
			go func(rd int) {
				defer rwg.Done()
				rrng := rand.New(rand.NewSource(job.Seed*7331 + int64(j)*17 + int64(rd)))
				for n := 0; n < 10; n++ {
					rrecs[rd] = append(rrecs[rd], t.listing(client0+1+rd, rrng.Intn(4), j)...)
					if _, rs := t.deleted(client0+1+rd, j); rs != nil {
						rrecs[rd] = append(rrecs[rd], rs...)
					}
					jit(inject.Call{})
				}
			}(rd)
		}
		dc, _, dok := deliver(fmt.Sprintf("doomed-delete%d", j), w.doomedDeletes[j])
		pc, pr, pok := deliver(fmt.Sprintf("doomed%d", j), w.doomed[j])
		const maxT = openEnd
		recs = append(recs, ixRec{fmt.Sprintf("meta/doomed-delete%d", j), kop{Client: client0, Kind: "deliver-delete", W: 1, Unknown: true, Call: dc, Ret: maxT}})
		recs = append(recs, ixRec{fmt.Sprintf("meta/doomed%d", j), kop{Client: client0, Kind: "deliver", W: 1, Unknown: !pok, Call: pc, Ret: pr}})
		recs = append(recs, ixRec{fmt.Sprintf("listed/%d", j), kop{Client: client0, Kind: "deliver", W: 1, Unknown: !pok, Call: pc, Ret: pr}})
		// the merge of the deletion: some time after the target started to be indexed
		recs = append(recs, ixRec{fmt.Sprintf("listed/%d", j), kop{Client: -1, Kind: "deliver-delete", W: 2, Unknown: true, Call: pc, Ret: maxT}})
		if dok && pok {
			if waitOr(hold.entered, depWait) {
				held++
			} else {
				givenUp++
			}
			// the target is indexed, its deletion is (normally) still held
			for kind := 0; kind < 4; kind++ {
				recs = append(recs, t.listing(client0, kind, j)...)
			}
		}
		close(hold.release)
		if dok && pok && !last {
			saw := false
			for n, t0 := 0, time.Now(); !saw && time.Since(t0) < depWait; n++ {
				var rs []ixRec
				if saw, rs = t.deleted(client0, j); saw {
					recs = append(recs, rs...)
				} else if n%8 == 7 {
					time.Sleep(200 * time.Microsecond)
				} else {
					jit(inject.Call{})
				}
			}
			if saw {
				seenDeleted++
				for kind := 0; kind < 4; kind++ {
					recs = append(recs, t.listing(client0, kind, j)...)
				}
			} else {
				givenUp++
			}
		}
		rwg.Wait()
		for _, rs := range rrecs {
			recs = append(recs, rs...)
		}
		if hold.timedOut.Load() {
			givenUp++
		}
	}
	if held > 0 {
		res.Events = append(res.Events, "index-delete-reindex-held-while-listing")
	}
	if seenDeleted > 0 {
		res.Events = append(res.Events, "index-listing-after-deletion-became-visible")
	}
	if givenUp > 0 {
		res.Events = append(res.Events, "index-directed-schedule-given-up")
	}
	res.Ops["tail-reindex-held"] += held
	res.Ops["tail-directed-wait-given-up"] += givenUp
	return recs
}

// auditTail runs after quiescence: no doomed permanode is listed any more, and the listings
// equal those of the sequential reference delivery.
func auditTail(x *hw.Idx, sh *search.Handler, w *ixWorld, ref *ixRef, clk *clock, client int, allAcked bool,
	report func(string, string, map[string]any), res *histResult) []ixRec {
	t := &tailRun{x: x, sh: sh, w: w, clk: clk, report: report, idx: map[blob.Ref]int{}}
	for j, pn := range w.doomed {
		t.idx[pn.Ref] = j
	}
	var recs []ixRec
	for j := range w.doomed {
		d, rs := t.deleted(client, j)
		recs = append(recs, rs...)
		res.Evals++
		if !d {
			report("lost/index/Corpus.IsDeleted", fmt.Sprintf("after quiescence Corpus.IsDeleted(doomed permanode %d) = false although the permanode and its (earlier delivered) delete claim were both delivered", j), map[string]any{"doomed": j})
			continue
		}
		for kind := 0; kind < 4; kind++ {
			for _, r := range t.listing(client, kind, j) {
				r.op.Kind = "audit-" + r.op.Kind
				recs = append(recs, r)
				res.Evals++
				if r.key == fmt.Sprintf("listed/%d", j) && r.op.Present {
					report("stale-sorted-listing/index+corpus/"+strings.TrimPrefix(r.op.Kind, "audit-"),
						fmt.Sprintf("after quiescence %s still returns the doomed permanode %d (%v) although Corpus.IsDeleted says it is deleted and nothing is being indexed any more", strings.TrimPrefix(r.op.Kind, "audit-"), j, w.doomed[j].Ref),
						map[string]any{"doomed": j})
				}
			}
		}
	}
	if allAcked && ref != nil {
		created, modified := sortedListings(x)
		for _, c := range []struct {
			name      string
			got, want []string
		}{{"created", refStrings(created), ref.created}, {"modified", refStrings(modified), ref.modified}} {
			res.Evals++
			if strings.Join(c.got, ",") != strings.Join(c.want, ",") {
				report("sorted-listing-differs/index+corpus/"+c.name,
					fmt.Sprintf("after quiescence the permanodes sorted by %s time are %v; a sequential delivery of the same blobs gives %v", c.name, shortRefs(c.got), shortRefs(c.want)),
					map[string]any{"got": c.got, "want": c.want})
			}
		}
		res.Events = append(res.Events, "index-sorted-listings-compared-with-sequential-reference")
	}
	return recs
}

func shortRefs(l []string) []string {
	out := make([]string, len(l))
	for i, s := range l {
		if len(s) > 14 {
			s = s[:14]
		}
		out[i] = s
	}
	return out
}
