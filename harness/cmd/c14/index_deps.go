package main

// (B2) index + corpus: blobs with index dependencies delivered concurrently and out of order.
//
// The blobs of a file (chunks + file schema blob), of a directory (static-set + directory blob)
// and of a second signer (public key + permanodes + claims) are delivered by different
// goroutines.  The blob source either only jitters after a missed dependency lookup, or - in the
// directed groups - produces the interleaving on purpose: the dependency is delivered only once
// the dependent's lookup has missed, and the miss is handed to the indexer only after the
// dependency was stored in the blob source / was acknowledged by the index.  Nothing of this is a
// wall-clock verdict: the bounded waits only give up a directed schedule.
//
// Oracles: (1) per blob a presence register (GetBlobMeta, and GetFileInfo for files and
// directories): a delivery whose dependencies were all acknowledged before it started is a
// definite write, any other delivery an open-ended one (indexed asynchronously), reads are never
// present before the delivery started and never absent again after a present; (2) what a present
// read returns equals what a sequential reference delivery produces; (3) after quiescence every
// acknowledged blob is indexed ("have" row ends in |indexed, GetBlobMeta / GetFileInfo find it),
// the out-of-order bookkeeping maps are empty and the index rows equal those of the sequential
// reference delivery.

import (
	"context"
	"encoding/json"
	"errors"
	"fmt"
	"io"
	"math/rand"
	"os"
	"sort"
	"strings"
	"sync"
	"sync/atomic"
	"time"

	"perkeep.org/pkg/blob"
	"perkeep.org/pkg/blobserver"
	"perkeep.org/pkg/schema"

	"verif.local/harness/hw"
	"verif.local/harness/inject"
	"verif.local/harness/sto"
)

// ixItem is one blob of the dependency families.
type ixItem struct {
	name  string
	kind  string // chunk file static-set directory pubkey permanode2 claim2
	typ   string // camliType GetBlobMeta must report
	b     sto.Blob
	deps  []int // items this blob's indexing looks up in the blob source
	group int   // blobs of one file / directory / signer
	times int   // number of concurrent deliveries of this blob (a chunk shared by two files: 2)
	finfo bool  // GetFileInfo applies
}

const (
	depFiles = 4
	depDirs  = 2
	depPn2   = 2
	depCl2   = 2
)

func chunkData(tag string, n int) []byte {
	var sb strings.Builder
	for i := 0; sb.Len() < n; i++ {
		fmt.Fprintf(&sb, "c14 %s line %d of a chunk that is delivered on its own\n", tag, i)
	}
	return []byte(sb.String()[:n])
}

func fileOfChunks(name string, chunks []sto.Blob, mod time.Time) sto.Blob {
	m := schema.NewFileMap(name)
	var parts []schema.BytesPart
	total := 0
	for _, c := range chunks {
		parts = append(parts, schema.BytesPart{Size: uint64(len(c.Data)), BlobRef: c.Ref})
		total += len(c.Data)
	}
	if err := m.PopulateParts(int64(total), parts); err != nil {
		panic(err)
	}
	m.SetModTime(mod)
	j, err := m.JSON()
	if err != nil {
		panic(err)
	}
	return sto.FromBytes([]byte(j))
}

// buildDepItems adds the dependency families to w (called once per world, under ixWorldMu).
func buildDepItems(w *ixWorld) {
	add := func(it ixItem) int {
		if it.times == 0 {
			it.times = 1
		}
		w.items = append(w.items, it)
		return len(w.items) - 1
	}
	group := 0
	shared := add(ixItem{name: "chunk-shared", kind: "chunk", b: sto.FromBytes(chunkData("shared", 700)), group: -1, times: 2})
	var files []int
	for i := 0; i < depFiles; i++ {
		var cs []int
		var cb []sto.Blob
		for j := 0; j < 3; j++ {
			if j == 1 && i < 2 {
				cs = append(cs, shared) // files 0 and 1 both wait for the same chunk
				cb = append(cb, w.items[shared].b)
				continue
			}
			k := add(ixItem{name: fmt.Sprintf("chunk%d.%d", i, j), kind: "chunk", b: sto.FromBytes(chunkData(fmt.Sprintf("f%d.%d", i, j), 300+211*i+97*j)), group: group})
			cs = append(cs, k)
			cb = append(cb, w.items[k].b)
		}
		f := add(ixItem{name: fmt.Sprintf("file%d", i), kind: "file", typ: "file", b: fileOfChunks(fmt.Sprintf("c14-file-%d.txt", i), cb, hw.T(2001+i, 500+i)), deps: cs, group: group, finfo: true})
		files = append(files, f)
		group++
	}
	w.sharedGroupOf = [2]int{0, 1}
	var prevDir int = -1
	for j := 0; j < depDirs; j++ {
		var kids []blob.Ref
		for i, f := range files {
			if i%depDirs == j || j == depDirs-1 {
				kids = append(kids, w.items[f].b.Ref)
			}
		}
		if prevDir >= 0 {
			kids = append(kids, w.items[prevDir].b.Ref) // nested directory
		}
		dir, ss := hw.DirOf(fmt.Sprintf("c14-dir-%d", j), kids, hw.T(2003, 40+j))
		s := add(ixItem{name: fmt.Sprintf("static-set%d", j), kind: "static-set", typ: "static-set", b: ss, group: group})
		prevDir = add(ixItem{name: fmt.Sprintf("dir%d", j), kind: "directory", typ: "directory", b: dir, deps: []int{s}, group: group, finfo: true})
		group++
	}
	s2 := hw.NewSigner(2)
	w.signer2 = s2
	key := add(ixItem{name: "pubkey2", kind: "pubkey", b: s2.Pub, group: group})
	for k := 0; k < depPn2; k++ {
		pn := s2.Permanode(fmt.Sprintf("c14-signer2-%d", k))
		add(ixItem{name: fmt.Sprintf("pn2.%d", k), kind: "permanode2", typ: "permanode", b: pn, deps: []int{key}, group: group})
		for m := 0; m < depCl2; m++ {
			cl := s2.Claim(hw.Set, pn.Ref, "title", fmt.Sprintf("signer2-title-%d-%d", k, m), hw.T(1995+k, 30+m*7))
			add(ixItem{name: fmt.Sprintf("claim2.%d.%d", k, m), kind: "claim2", typ: "claim", b: cl, deps: []int{key}, group: group})
		}
	}
	w.nGroups = group + 1
}

// ---------------------------------------------------------------- sequential reference

type ixRef struct {
	rows []string
	// the sorted permanode listings (refs, newest first)
	created, modified []string
	finfo             map[string]string // item name -> canonical GetFileInfo answer
	err               error
}

var (
	ixRefMu sync.Mutex
	ixRefs  = map[string]*ixRef{}
)

func fileInfoString(x *hw.Idx, it *ixItem) (string, error) {
	ctx := context.Background()
	x.Index.RLock()
	defer x.Index.RUnlock()
	fi, err := x.Index.GetFileInfo(ctx, it.b.Ref)
	if err != nil {
		return "", err
	}
	jb, _ := json.Marshal(fi)
	s := string(jb)
	if it.kind == "directory" && x.Corpus != nil {
		ch, err := x.Corpus.GetDirChildren(ctx, it.b.Ref)
		if err != nil {
			return "", fmt.Errorf("GetFileInfo found the directory, GetDirChildren did not: %w", err)
		}
		var cs []string
		for c := range ch {
			cs = append(cs, c.String())
		}
		sort.Strings(cs)
		s += " children=" + strings.Join(cs, ",")
	}
	return s, nil
}

// refOrder is every blob of the history in dependency order.
func refOrder(w *ixWorld, deps, handler, tail bool) []sto.Blob {
	out := []sto.Blob{w.signer.Pub}
	out = append(out, w.pns...)
	for _, cs := range w.claims {
		out = append(out, cs...)
	}
	out = append(out, w.victims...)
	out = append(out, w.orphans...)
	out = append(out, w.deletes...)
	out = append(out, w.orphanDeletes...)
	if handler {
		out = append(out, w.parent)
		out = append(out, w.members...)
	}
	if tail {
		out = append(out, w.doomed...)
		out = append(out, w.doomedClaims...)
		out = append(out, w.doomedDeletes...)
	}
	if deps {
		// items were appended dependencies first, except the shared chunk and the key, which come
		// before their dependents too
		for _, it := range w.items {
			out = append(out, it.b)
		}
	}
	return out
}

// getIxRef delivers the whole world sequentially, in dependency order, into a fresh index
// without any perturbation and records the rows and the answers.
func getIxRef(key string, w *ixWorld, deps, handler, tail bool) *ixRef {
	ixRefMu.Lock()
	defer ixRefMu.Unlock()
	k := fmt.Sprintf("%s/%v/%v/%v", key, deps, handler, tail)
	if r, ok := ixRefs[k]; ok {
		return r
	}
	r := &ixRef{finfo: map[string]string{}}
	ixRefs[k] = r
	x, err := hw.NewIdx(nil, nil, true)
	if err != nil {
		r.err = err
		return r
	}
	for _, b := range refOrder(w, deps, handler, tail) {
		if err := x.Deliver(b); err != nil {
			r.err = fmt.Errorf("reference delivery of %v: %w", b.Ref, err)
			return r
		}
	}
	x.Quiesce()
	if n, nb, rd := x.Index.VerifPending(); n+nb+rd != 0 {
		r.err = fmt.Errorf("the sequential reference delivery left pending out-of-order state (needs %d, neededBy %d, ready %d)", n, nb, rd)
		return r
	}
	if r.rows, err = hw.Dump(x.KV); err != nil {
		r.err = err
		return r
	}
	cr, mo := sortedListings(x)
	r.created, r.modified = refStrings(cr), refStrings(mo)
	if deps {
		for i := range w.items {
			it := &w.items[i]
			if !it.finfo {
				continue
			}
			s, err := fileInfoString(x, it)
			if err != nil {
				r.err = fmt.Errorf("the sequential reference delivery did not index %s: %v", it.name, err)
				return r
			}
			r.finfo[it.name] = s
		}
	}
	return r
}

// ---------------------------------------------------------------- the perturbed blob source

// depGate is the schedule control of one dependency blob.
type depGate struct {
	name     string
	mode     int           // 0: jitter after a miss; 1: hold the first miss until the blob is stored; 2: until the index acknowledged it
	missed   chan struct{} // closed at the first missed lookup
	stored   chan struct{} // closed when the blob is in the blob source
	acked    chan struct{} // closed when its first delivery to the index returned
	held     atomic.Bool
	missOnce sync.Once
	stOnce   sync.Once
	akOnce   sync.Once
}

const depWait = 3 * time.Second // a directed schedule is given up after this (never a verdict)

func waitOr(ch <-chan struct{}, d time.Duration) bool {
	select {
	case <-ch:
		return true
	default:
	}
	t := time.NewTimer(d)
	defer t.Stop()
	select {
	case <-ch:
		return true
	case <-t.C:
		return false
	}
}

type depStats struct {
	misses, held, heldTimeout, missAfterAck, missWhileIndexing, waitTimeout atomic.Int64
}

// afterMiss runs in the indexer's goroutine right after the blob source reported br missing.
func (d *delaySrc) afterMiss(br blob.Ref) {
	g := d.gates[br]
	if g == nil {
		return
	}
	d.stats.misses.Add(1)
	g.missOnce.Do(func() { close(g.missed) })
	if g.mode != 0 && g.held.CompareAndSwap(false, true) {
		d.stats.held.Add(1)
		ch := g.stored
		if g.mode == 2 {
			ch = g.acked
		}
		if !waitOr(ch, depWait) {
			d.stats.heldTimeout.Add(1)
		}
	} else {
		for i := 0; i < 3; i++ {
			d.yield(inject.Call{})
		}
	}
	// what the indexer is about to act on
	select {
	case <-g.acked:
		d.stats.missAfterAck.Add(1) // the dependency is fully indexed, the dependent does not know
	default:
		select {
		case <-g.stored:
			d.stats.missWhileIndexing.Add(1)
		default:
		}
	}
}

// ---------------------------------------------------------------- the run

type depSpan struct {
	call, ret int64
	ok        bool
}

type depRun struct {
	w      *ixWorld
	ref    *ixRef
	gates  []*depGate // per item (nil: nothing depends on it)
	begun  []chan struct{}
	spans  [][]depSpan // per item, per delivery
	direct []bool      // per group: directed schedule (dependencies arrive after the dependent missed them)
	inOrd  []bool      // per group: the dependent is delivered after its dependencies were acknowledged
	pre    [][]int     // per item, per delivery: jitter calls before the delivery
}

func newDepRun(w *ixWorld, ref *ixRef, rng *rand.Rand, src *delaySrc) *depRun {
	dr := &depRun{w: w, ref: ref}
	n := len(w.items)
	dr.gates = make([]*depGate, n)
	dr.begun = make([]chan struct{}, n)
	dr.spans = make([][]depSpan, n)
	dr.pre = make([][]int, n)
	dr.direct = make([]bool, w.nGroups)
	dr.inOrd = make([]bool, w.nGroups)
	for g := range dr.direct {
		switch rng.Intn(4) {
		case 0: // free-running
		case 1:
			dr.inOrd[g] = true
		default:
			dr.direct[g] = true
		}
	}
	src.gates = map[blob.Ref]*depGate{}
	for i := range w.items {
		it := &w.items[i]
		dr.begun[i] = make(chan struct{})
		dr.spans[i] = make([]depSpan, it.times)
		for t := 0; t < it.times; t++ {
			dr.pre[i] = append(dr.pre[i], rng.Intn(5))
		}
		for _, d := range it.deps {
			if dr.gates[d] == nil {
				g := &depGate{name: w.items[d].name, missed: make(chan struct{}), stored: make(chan struct{}), acked: make(chan struct{})}
				switch rng.Intn(4) {
				case 0:
					g.mode = 0
				case 1:
					g.mode = 1
				default:
					g.mode = 2
				}
				dr.gates[d] = g
				src.gates[w.items[d].b.Ref] = g
			}
		}
	}
	return dr
}

func (dr *depRun) directed(i int) bool {
	it := &dr.w.items[i]
	if it.group < 0 { // the shared chunk follows the first file's group
		return dr.direct[dr.w.sharedGroupOf[0]]
	}
	return dr.direct[it.group]
}

// deliver is one delivery of item i (delivery number t): store into the blob source, then
// hand to the index - the order of hw.Idx.Deliver - with the schedule signals in between.
func (dr *depRun) deliver(x *hw.Idx, src *delaySrc, clk *clock, jit func(inject.Call), i, t int) (err error) {
	it := &dr.w.items[i]
	g := dr.gates[i]
	if g != nil && dr.directed(i) {
		// the dependency arrives only after a dependent looked for it in vain
		if !waitOr(g.missed, depWait) {
			src.stats.waitTimeout.Add(1)
		}
	}
	if len(it.deps) > 0 && it.group >= 0 && dr.inOrd[it.group] {
		for _, d := range it.deps {
			if !waitOr(dr.gates[d].acked, depWait) {
				src.stats.waitTimeout.Add(1)
			}
		}
	}
	for k := 0; k < dr.pre[i][t]; k++ {
		jit(inject.Call{})
	}
	sp := &dr.spans[i][t]
	sp.call = clk.now()
	if t == 0 {
		close(dr.begun[i])
	}
	defer func() {
		sp.ret = clk.now()
		sp.ok = err == nil
	}()
	if err = sto.StoreAll(x.Src, []sto.Blob{it.b}); err != nil {
		return err
	}
	if g != nil {
		g.stOnce.Do(func() { close(g.stored) })
	}
	_, err = blobserver.Receive(context.Background(), x.Index, it.b.Ref, strings.NewReader(string(it.b.Data)))
	if err == nil && g != nil {
		g.akOnce.Do(func() { close(g.acked) })
	}
	return err
}

// firstAck returns the earliest return stamp of an acknowledged delivery of item i (0: none).
func (dr *depRun) firstAck(i int) int64 {
	var best int64
	for _, s := range dr.spans[i] {
		if s.ok && (best == 0 || s.ret < best) {
			best = s.ret
		}
	}
	return best
}

// records turns the deliveries into register writes.
func (dr *depRun) records(maxT int64, res *histResult) []ixRec {
	var out []ixRec
	for i := range dr.w.items {
		it := &dr.w.items[i]
		for _, s := range dr.spans[i] {
			if s.call == 0 {
				continue
			}
			definite := s.ok
			for _, d := range it.deps {
				if a := dr.firstAck(d); a == 0 || a > s.call {
					definite = false
				}
			}
			op := kop{Client: -1, Kind: "deliver", W: 1, Call: s.call, Ret: s.ret}
			if !definite {
				op.Unknown, op.Ret = true, maxT+1
			}
			if len(it.deps) > 0 {
				if definite {
					res.Events = append(res.Events, "index-in-order-"+it.kind)
				} else {
					res.Events = append(res.Events, "index-out-of-order-"+it.kind)
				}
			}
			out = append(out, ixRec{"meta/" + it.name, op})
			if it.finfo {
				out = append(out, ixRec{"finfo/" + it.name, op})
			}
		}
	}
	return out
}

// readFileInfo is one reader call of GetFileInfo (+ GetDirChildren) on a file or directory.
func (dr *depRun) readFileInfo(x *hw.Idx, clk *clock, client int, kind string, i int, report func(string, string, map[string]any)) []ixRec {
	it := &dr.w.items[i]
	call := clk.now()
	s, err := fileInfoString(x, it)
	ret := clk.now()
	if err != nil && !errors.Is(err, os.ErrNotExist) {
		report("op-error/index+corpus.GetFileInfo", fmt.Sprintf("GetFileInfo(%s) failed: %v", it.name, err), nil)
		return nil
	}
	if err == nil && s != dr.ref.finfo[it.name] {
		report("fileinfo-content/index+corpus/"+it.kind, fmt.Sprintf("GetFileInfo(%s) = %s; a sequential delivery of the same blobs gives %s", it.name, s, dr.ref.finfo[it.name]), map[string]any{"blob": it.name})
	}
	return []ixRec{{"finfo/" + it.name, kop{Client: client, Kind: kind, W: 0, Present: err == nil, Call: call, Ret: ret}}}
}

func (dr *depRun) finfoItems() []int {
	var out []int
	for i := range dr.w.items {
		if dr.w.items[i].finfo {
			out = append(out, i)
		}
	}
	return out
}

func rowKind(row string) string {
	k := row
	if i := strings.IndexByte(k, 0); i >= 0 {
		k = k[:i]
	}
	if i := strings.IndexAny(k, "|:"); i >= 0 {
		k = k[:i]
	}
	return k
}

func printableRow(row string) string {
	row = strings.Replace(row, "\x00", " = ", 1)
	if len(row) > 220 {
		row = row[:220] + "…"
	}
	return row
}

// audit runs after quiescence.
func (dr *depRun) audit(x *hw.Idx, src *delaySrc, report func(string, string, map[string]any), res *histResult) {
	w := dr.w
	allAcked := true
	byRef := map[string]*ixItem{}
	for i := range w.items {
		it := &w.items[i]
		byRef[it.b.Ref.String()] = it
		for _, s := range dr.spans[i] {
			if !s.ok {
				allAcked = false
			}
		}
	}
	// (a) no blob is left waiting
	needs, neededBy, ready := x.Index.VerifPending()
	res.Evals++
	if allAcked && needs+neededBy+ready != 0 {
		var stuck []string
		for i := range w.items {
			it := &w.items[i]
			if v, err := x.KV.Get("have:" + it.b.Ref.String()); err != nil || !strings.HasSuffix(v, "|indexed") {
				stuck = append(stuck, it.name)
			}
		}
		report("pending-after-quiescence/index", fmt.Sprintf("every blob was delivered and acknowledged and asynchronous indexing has finished, but the index still waits for dependencies: needs %d, neededBy %d, ready-to-reindex %d; blobs without an |indexed have row: %v", needs, neededBy, ready, stuck), map[string]any{"not_indexed": stuck})
	}
	// (b) every acknowledged blob is indexed
	for i := range w.items {
		it := &w.items[i]
		if dr.firstAck(i) == 0 {
			continue
		}
		res.Evals++
		v, err := x.KV.Get("have:" + it.b.Ref.String())
		if err != nil || !strings.HasSuffix(v, "|indexed") {
			var deps []string
			for _, d := range it.deps {
				deps = append(deps, w.items[d].name)
			}
			report("lost/index/never-indexed/"+it.kind, fmt.Sprintf("after quiescence %s (%s) is not indexed (have row %q, err %v) although its delivery and the deliveries of its dependencies %v were all acknowledged", it.name, it.kind, v, err, deps), map[string]any{"blob": it.name, "deps": deps, "directed_group": dr.directed(i)})
		}
	}
	// (c) rows equal the sequential reference
	if allAcked {
		rows, err := hw.Dump(x.KV)
		if err != nil {
			report("op-error/index+corpus.dump", "reading the index rows failed: "+err.Error(), nil)
			return
		}
		res.Evals += len(rows)
		want := map[string]bool{}
		for _, r := range dr.ref.rows {
			want[r] = true
		}
		got := map[string]bool{}
		var extra, missing []string
		kinds := map[string]bool{}
		for _, r := range rows {
			got[r] = true
			if !want[r] {
				extra = append(extra, printableRow(r))
				kinds[rowKind(r)] = true
			}
		}
		for _, r := range dr.ref.rows {
			if !got[r] {
				missing = append(missing, printableRow(r))
				kinds[rowKind(r)] = true
			}
		}
		if len(extra)+len(missing) > 0 {
			var ks []string
			for k := range kinds {
				ks = append(ks, k)
			}
			sort.Strings(ks)
			if len(extra) > 6 {
				extra = append(extra[:6], fmt.Sprintf("… (+%d)", len(extra)-6))
			}
			if len(missing) > 6 {
				missing = append(missing[:6], fmt.Sprintf("… (+%d)", len(missing)-6))
			}
			side := "missing+extra"
			switch {
			case len(extra) == 0:
				side = "missing"
			case len(missing) == 0:
				side = "extra"
			}
			report("rows-differ/index/"+side, fmt.Sprintf("after quiescence the index rows differ from those of a sequential delivery of the same blobs (row kinds %v): %d rows here, %d there; missing here: %q; only here: %q", ks, len(rows), len(dr.ref.rows), missing, extra), map[string]any{"missing": missing, "extra": extra, "row_kinds": ks})
		}
		res.Events = append(res.Events, "index-rows-compared-with-sequential-reference")
	}
	// evidence
	st := &src.stats
	if st.misses.Load() > 0 {
		res.Events = append(res.Events, "index-dep-lookup-missed")
	}
	if st.held.Load() > 0 {
		res.Events = append(res.Events, "index-dep-miss-held")
	}
	if st.missAfterAck.Load() > 0 {
		res.Events = append(res.Events, "index-miss-acted-on-after-dep-indexed")
	}
	if st.missWhileIndexing.Load() > 0 {
		res.Events = append(res.Events, "index-miss-acted-on-while-dep-indexing")
	}
	if st.heldTimeout.Load()+st.waitTimeout.Load() > 0 {
		res.Events = append(res.Events, "index-directed-schedule-given-up")
	}
	res.Ops["dep-lookup-miss"] += int(st.misses.Load())
	res.Ops["dep-lookup-miss-held"] += int(st.held.Load())
	res.Ops["dep-miss-acted-on-after-dep-indexed"] += int(st.missAfterAck.Load())
	res.Ops["dep-directed-wait-given-up"] += int(st.heldTimeout.Load() + st.waitTimeout.Load())
}

var _ = io.EOF
