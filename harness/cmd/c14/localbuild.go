package main

// Backends the shared builder cannot perturb, constructed here with harness-owned lower layers:
//   files-yieldvfs     pkg/blobserver/files (what localdisk is) over the OS file system behind a
//                      VFS wrapper that yields before and after every file-system step
//                      ("root": name of the root directory - one that contains "queue-" is a sync
//                      queue, whose empty shard directories an enumeration removes in the background;
//                      "rmdir": the VFS removes directories like rmdir(2) / the sftp VFS does, instead
//                      of OSFS's RemoveAll)
//   diskpacked-wrapkv  diskpacked whose on-disk metaIndex (leveldb / kv / sqlite) sits behind inject.WrapKV,
//                      so that the schedule is perturbed between diskpacked's own index steps
//   proxycache-local   proxycache.New over two harness-owned memory stores, BOTH behind inject wrappers
//                      ("pc-cache", "pc-origin"): yields and directed holds at the cache's boundary,
//                      eviction by proxycache's own LRU ("cacheBytes"), origin pre-loadable below the cache

import (
	"context"
	"fmt"
	"os"
	"path/filepath"
	"sync"
	"sync/atomic"

	"go4.org/jsonconfig"
	"perkeep.org/pkg/blob"
	"perkeep.org/pkg/blobserver"
	"perkeep.org/pkg/blobserver/files"
	"perkeep.org/pkg/blobserver/memory"
	"perkeep.org/pkg/blobserver/proxycache"
	"perkeep.org/pkg/sorted"

	"verif.local/harness/inject"
	"verif.local/harness/sto"
)

type yieldVFS struct {
	files.VFS
	y func(inject.Call)
	n *atomic.Int64
	// rmdir: RemoveDir only removes an empty directory (rmdir(2), what the sftp VFS does)
	rmdir bool
	// dirsRemoved counts successful directory removals, dirsRecreated the MkdirAll calls that
	// found a directory gone which an earlier clean-up had removed (evidence)
	dirsRemoved, dirsRecreated *atomic.Int64
	gone                       *sync.Map // path -> true
}

func (v yieldVFS) step(op string) func() {
	v.n.Add(1)
	v.y(inject.Call{Layer: "vfs", Op: op})
	return func() { v.y(inject.Call{Layer: "vfs", Op: op}) }
}

func (v yieldVFS) Remove(p string) error { defer v.step("Remove")(); return v.VFS.Remove(p) }
func (v yieldVFS) RemoveDir(p string) error {
	defer v.step("RemoveDir")()
	var err error
	if v.rmdir {
		err = os.Remove(p)
	} else {
		_, serr := os.Lstat(p)
		err = v.VFS.RemoveDir(p)
		if serr != nil {
			return err // nothing was there
		}
	}
	if err == nil && v.dirsRemoved != nil {
		v.dirsRemoved.Add(1)
		v.gone.Store(p, true)
	}
	return err
}
func (v yieldVFS) Stat(p string) (os.FileInfo, error) { defer v.step("Stat")(); return v.VFS.Stat(p) }
func (v yieldVFS) Lstat(p string) (os.FileInfo, error) {
	defer v.step("Lstat")()
	return v.VFS.Lstat(p)
}
func (v yieldVFS) Open(p string) (files.ReadableFile, error) {
	defer v.step("Open")()
	return v.VFS.Open(p)
}
func (v yieldVFS) MkdirAll(p string, perm os.FileMode) error {
	defer v.step("MkdirAll")()
	if v.gone != nil {
		if _, was := v.gone.Load(p); was {
			if _, err := os.Lstat(p); err != nil {
				v.gone.Delete(p)
				v.dirsRecreated.Add(1)
			}
		}
	}
	return v.VFS.MkdirAll(p, perm)
}
func (v yieldVFS) Rename(o, n string) error { defer v.step("Rename")(); return v.VFS.Rename(o, n) }
func (v yieldVFS) TempFile(dir, prefix string) (files.WritableFile, error) {
	defer v.step("TempFile")()
	return v.VFS.TempFile(dir, prefix)
}
func (v yieldVFS) ReadDirNames(dir string) ([]string, error) {
	defer v.step("ReadDirNames")()
	return v.VFS.ReadDirNames(dir)
}

type localBuilt struct {
	b             *sto.Built
	close         func()
	vfsSteps      *atomic.Int64
	dirsRemoved   *atomic.Int64
	dirsRecreated *atomic.Int64
	kvName        string
}

var localSeq atomic.Int64

// buildLocal constructs the c14-only backends; ok=false: not one of them.
func buildLocal(dir string, plan *inject.Plan, spec *sto.Spec) (lb *localBuilt, ok bool, err error) {
	str := func(k, def string) string {
		if v, ok := spec.P[k].(string); ok {
			return v
		}
		return def
	}
	switch spec.Kind {
	case "files-yieldvfs":
		root := filepath.Join(dir, str("root", "files"))
		if err := os.MkdirAll(root, 0o700); err != nil {
			return nil, true, err
		}
		n, rm, rc := new(atomic.Int64), new(atomic.Int64), new(atomic.Int64)
		rmdir, _ := spec.P["rmdir"].(bool)
		s := files.NewStorage(yieldVFS{VFS: files.OSFS(), y: plan.Yield, n: n, rmdir: rmdir, dirsRemoved: rm, dirsRecreated: rc, gone: new(sync.Map)}, root)
		return &localBuilt{b: &sto.Built{Spec: spec, S: s, Caps: sto.Caps{Receive: true, Remove: true, SubFetch: true}}, close: func() {}, vfsSteps: n, dirsRemoved: rm, dirsRecreated: rc}, true, nil
	case "proxycache-local":
		max := int64(300)
		switch v := spec.P["cacheBytes"].(type) {
		case int:
			max = int64(v)
		case float64:
			max = int64(v)
		}
		originMem, cacheMem := &memory.Storage{}, &memory.Storage{}
		origin := inject.Wrap("pc-origin", originMem, plan)
		cache := inject.Wrap("pc-cache", cacheMem, plan)
		s := proxycache.New(max, cache, origin)
		b := &sto.Built{Spec: spec, S: s, Caps: sto.Caps{Receive: true, Remove: true, SubFetch: true},
			Leaves: []*inject.Storage{inject.Base(origin), inject.Base(cache)},
			// below the cache: only the origin holds the blobs
			Preload: func(bl []sto.Blob) error { return sto.StoreAll(originMem, bl) }}
		cl := func() {
			// blobserver.Receive keeps a hub per storage value for ever: give the memory back
			for _, m := range []*memory.Storage{originMem, cacheMem} {
				emptyMem(m)
			}
		}
		return &localBuilt{b: b, close: cl}, true, nil
	case "diskpacked-wrapkv":
		d := filepath.Join(dir, "diskpacked")
		if err := os.MkdirAll(d, 0o700); err != nil {
			return nil, true, err
		}
		env := &sto.Env{Dir: dir}
		kc, _, err := env.KVConf(str("meta", "leveldb"), "c14-dp-index")
		if err != nil {
			return nil, true, err
		}
		inner, err := sorted.NewKeyValue(kc)
		if err != nil {
			return nil, true, err
		}
		name := fmt.Sprintf("c14-dp-kv-%d-%d", os.Getpid(), localSeq.Add(1))
		conf := jsonconfig.Obj{"path": d, "metaIndex": map[string]any(inject.RegisterKV(name, inject.WrapKV("diskpacked-index", inner, plan)))}
		if v, ok := spec.P["maxFileSize"]; ok {
			switch n := v.(type) {
			case int:
				conf["maxFileSize"] = float64(n)
			case float64:
				conf["maxFileSize"] = n
			}
		}
		s, err := blobserver.CreateStorage("diskpacked", sto.NewLoader(), conf)
		if err != nil {
			inner.Close()
			inject.UnregisterKV(name)
			return nil, true, err
		}
		cl := func() {
			if c, ok := s.(interface{ Close() error }); ok {
				c.Close()
			}
			inner.Close()
			inject.UnregisterKV(name)
		}
		return &localBuilt{b: &sto.Built{Spec: spec, S: s, Caps: sto.Caps{Receive: true, Remove: true, SubFetch: true}}, close: cl, kvName: name}, true, nil
	}
	return nil, false, nil
}

func emptyMem(m *memory.Storage) {
	ctx := context.Background()
	var refs []blob.Ref
	blobserver.EnumerateAll(ctx, m, func(sb blob.SizedRef) error { refs = append(refs, sb.Ref); return nil })
	m.RemoveBlobs(ctx, refs)
}
