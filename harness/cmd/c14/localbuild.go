package main

// Backends the shared builder cannot perturb, constructed here with harness-owned lower layers:
//   files-yieldvfs     pkg/blobserver/files (what localdisk is) over the OS file system behind a
//                      VFS wrapper that yields before and after every file-system step
//   diskpacked-wrapkv  diskpacked whose on-disk metaIndex (leveldb / kv / sqlite) sits behind inject.WrapKV,
//                      so that the schedule is perturbed between diskpacked's own index steps

import (
	"fmt"
	"os"
	"path/filepath"
	"sync/atomic"

	"go4.org/jsonconfig"
	"perkeep.org/pkg/blobserver"
	"perkeep.org/pkg/blobserver/files"
	"perkeep.org/pkg/sorted"

	"verif.local/harness/inject"
	"verif.local/harness/sto"
)

type yieldVFS struct {
	files.VFS
	y func(inject.Call)
	n *atomic.Int64
}

func (v yieldVFS) step(op string) func() {
	v.n.Add(1)
	v.y(inject.Call{Layer: "vfs", Op: op})
	return func() { v.y(inject.Call{Layer: "vfs", Op: op}) }
}

func (v yieldVFS) Remove(p string) error               { defer v.step("Remove")(); return v.VFS.Remove(p) }
func (v yieldVFS) RemoveDir(p string) error            { defer v.step("RemoveDir")(); return v.VFS.RemoveDir(p) }
func (v yieldVFS) Stat(p string) (os.FileInfo, error)  { defer v.step("Stat")(); return v.VFS.Stat(p) }
func (v yieldVFS) Lstat(p string) (os.FileInfo, error) { defer v.step("Lstat")(); return v.VFS.Lstat(p) }
func (v yieldVFS) Open(p string) (files.ReadableFile, error) {
	defer v.step("Open")()
	return v.VFS.Open(p)
}
func (v yieldVFS) MkdirAll(p string, perm os.FileMode) error {
	defer v.step("MkdirAll")()
	return v.VFS.MkdirAll(p, perm)
}
func (v yieldVFS) Rename(o, n string) error { defer v.step("Rename")(); return v.VFS.Rename(o, n) }
func (v yieldVFS) TempFile(dir, prefix string) (files.WritableFile, error) {
	defer v.step("TempFile")()
	return v.VFS.TempFile(dir, prefix)
}
func (v yieldVFS) ReadDirNames(dir string) ([]string, error) {
	defer v.step("ReadDirNames")()
	return v.VFS.ReadDirNames(dir)
}

type localBuilt struct {
	b        *sto.Built
	close    func()
	vfsSteps *atomic.Int64
	kvName   string
}

var localSeq atomic.Int64

// buildLocal constructs the c14-only backends; ok=false: not one of them.
func buildLocal(dir string, plan *inject.Plan, spec *sto.Spec) (lb *localBuilt, ok bool, err error) {
	str := func(k, def string) string {
		if v, ok := spec.P[k].(string); ok {
			return v
		}
		return def
	}
	switch spec.Kind {
	case "files-yieldvfs":
		root := filepath.Join(dir, "files")
		if err := os.MkdirAll(root, 0o700); err != nil {
			return nil, true, err
		}
		n := new(atomic.Int64)
		s := files.NewStorage(yieldVFS{VFS: files.OSFS(), y: plan.Yield, n: n}, root)
		return &localBuilt{b: &sto.Built{Spec: spec, S: s, Caps: sto.Caps{Receive: true, Remove: true, SubFetch: true}}, close: func() {}, vfsSteps: n}, true, nil
	case "diskpacked-wrapkv":
		d := filepath.Join(dir, "diskpacked")
		if err := os.MkdirAll(d, 0o700); err != nil {
			return nil, true, err
		}
		env := &sto.Env{Dir: dir}
		kc, _, err := env.KVConf(str("meta", "leveldb"), "c14-dp-index")
		if err != nil {
			return nil, true, err
		}
		inner, err := sorted.NewKeyValue(kc)
		if err != nil {
			return nil, true, err
		}
		name := fmt.Sprintf("c14-dp-kv-%d-%d", os.Getpid(), localSeq.Add(1))
		conf := jsonconfig.Obj{"path": d, "metaIndex": map[string]any(inject.RegisterKV(name, inject.WrapKV("diskpacked-index", inner, plan)))}
		if v, ok := spec.P["maxFileSize"]; ok {
			switch n := v.(type) {
			case int:
				conf["maxFileSize"] = float64(n)
			case float64:
				conf["maxFileSize"] = n
			}
		}
		s, err := blobserver.CreateStorage("diskpacked", sto.NewLoader(), conf)
		if err != nil {
			inner.Close()
			inject.UnregisterKV(name)
			return nil, true, err
		}
		cl := func() {
			if c, ok := s.(interface{ Close() error }); ok {
				c.Close()
			}
			inner.Close()
			inject.UnregisterKV(name)
		}
		return &localBuilt{b: &sto.Built{Spec: spec, S: s, Caps: sto.Caps{Receive: true, Remove: true, SubFetch: true}}, close: cl, kvName: name}, true, nil
	}
	return nil, false, nil
}
