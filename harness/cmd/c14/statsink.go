package main

// The callback of a StatBlobs call.
//
// blobserver.BlobStatter: "StatBlobs checks for the existence of blobs, calling fn in serial for
// each found blob".  Every caller in the tree relies on it (plain maps and slices filled from the
// callback).  So the client's callback here is what such a caller's callback is: it accumulates
// into plain, unsynchronised memory.  A store that calls fn from two goroutines without ordering
// the calls is then seen three ways:
//
//	(1) the race detector reports the two callbacks' accesses (judged: the accesses are in
//	    (*statSink).add with a perkeep frame as the caller, see raceBlock.classify);
//	(2) an atomic in-flight counter sees a callback entered while another callback of the same
//	    call is still running (signature stat-callback-concurrent/<store>); a short pause inside
//	    the first callbacks of a call makes the overlap long enough to be seen;
//	(3) the plain accumulations disagree with each other after the call returned (lost update).
//
// The plain accesses come first in the callback, before its first atomic operation: the harness
// adds no happens-before edge between two callbacks ahead of the accesses that are judged.
// Nothing that can be torn is written unsynchronised (ints and bools into pre-allocated memory).

import (
	"fmt"
	"runtime"
	"strings"
	"sync"
	"sync/atomic"
	"time"

	"perkeep.org/pkg/blob"
)

type statSink struct {
	sr  *storeRun
	c   *call
	pos map[blob.Ref]int // read-only while the call runs

	// ---- plain, deliberately unsynchronised
	present []bool
	calls   int
	order   []int32 // capacity fixed before the call: append never re-allocates

	// ---- the explicit serial-call monitor
	seq      atomic.Int32 // callbacks entered so far
	inflight atomic.Int32
	overlaps atomic.Int32 // callbacks entered while another one of this call was running
	maxIn    atomic.Int32
	gids     [4]int64 // goroutine of the first callbacks (slot = seq, written once each)
	widen    bool

	mu  sync.Mutex // malformed answers only (each is a violation of its own)
	bad []string
}

func newStatSink(sr *storeRun, c *call, pos map[blob.Ref]int) *statSink {
	n := len(c.Keys)
	return &statSink{sr: sr, c: c, pos: pos, present: make([]bool, n), order: make([]int32, 0, 2*n+4),
		// three calls out of four pause in their first callbacks; the fourth keeps the store's own timing
		widen: n >= 2 && c.Call%4 != 0}
}

func (s *statSink) complain(m string) {
	s.mu.Lock()
	s.bad = append(s.bad, m)
	s.mu.Unlock()
}

// add is the fn of the StatBlobs call.
func (s *statSink) add(sb blob.SizedRef) error {
	i, ok := s.pos[sb.Ref]
	s.calls++
	if len(s.order) < cap(s.order) {
		s.order = append(s.order, int32(i))
	}
	switch {
	case !ok:
		s.complain(fmt.Sprintf("%v was not asked for", sb.Ref))
	case s.present[i]:
		s.complain(fmt.Sprintf("%v reported twice", sb.Ref))
	default:
		s.present[i] = true
		if want := len(s.sr.keys[s.c.Keys[i]].Data); int(sb.Size) != want {
			s.complain(fmt.Sprintf("%v reported with size %d, blob has %d bytes", sb.Ref, sb.Size, want))
		}
	}
	// ---- serial-call monitor
	k := s.seq.Add(1)
	in := s.inflight.Add(1)
	if in > 1 {
		s.overlaps.Add(1)
		for {
			m := s.maxIn.Load()
			if in <= m || s.maxIn.CompareAndSwap(m, in) {
				break
			}
		}
	}
	if int(k) <= len(s.gids) && len(s.pos) <= 16 {
		s.gids[k-1] = goid()
	}
	if s.widen {
		switch k {
		case 1:
			time.Sleep(60 * time.Microsecond)
		case 2:
			time.Sleep(25 * time.Microsecond)
		default:
			runtime.Gosched()
		}
	}
	s.inflight.Add(-1)
	return nil
}

// conclude judges the call after StatBlobs returned.
func (s *statSink) conclude(asked int) {
	sr, c := s.sr, s.c
	nPresent := 0
	for _, p := range s.present {
		if p {
			nPresent++
		}
	}
	c.StatCB = int(s.seq.Load())
	gs := map[int64]bool{}
	for _, g := range s.gids {
		if g != 0 {
			gs[g] = true
		}
	}
	c.StatGs = len(gs)
	if len(s.bad) > 0 {
		sr.report("stat-result/"+sr.label, fmt.Sprintf("[%s] StatBlobs of %d refs: %s", sr.label, asked, strings.Join(s.bad, "; ")), c)
	}
	if n := s.overlaps.Load(); n > 0 {
		sr.report("stat-callback-concurrent/"+sr.label,
			fmt.Sprintf("[%s] one StatBlobs call of %d refs entered its callback while another callback of the same call was still running (%d such entries, up to %d callbacks at once, callbacks from %d goroutines); BlobStatter promises to call fn in serial, callers fill plain maps and slices from it",
				sr.label, asked, n, s.maxIn.Load(), len(gs)), c)
	} else if len(s.bad) == 0 && (s.calls != int(s.seq.Load()) || len(s.order) != s.calls || nPresent != s.calls) {
		// every callback was well-formed (asked for, not a duplicate), so each added one to each count
		sr.report("stat-callback-concurrent/"+sr.label,
			fmt.Sprintf("[%s] one StatBlobs call of %d refs made %d callbacks, but the caller's plain (unsynchronised) accumulations hold %d calls, %d list entries and %d marked blobs: updates were lost, the callbacks did not run in serial",
				sr.label, asked, s.seq.Load(), s.calls, len(s.order), nPresent), c)
	}
}

// goid returns the current goroutine's id (evidence only: which goroutines a store calls fn from).
func goid() int64 {
	var buf [40]byte
	n := runtime.Stack(buf[:], false)
	f := strings.Fields(string(buf[:n]))
	if len(f) < 2 {
		return -1
	}
	var id int64
	for _, ch := range f[1] {
		if ch < '0' || ch > '9' {
			return -1
		}
		id = id*10 + int64(ch-'0')
	}
	return id
}
