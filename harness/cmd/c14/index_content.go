package main

// (B5) read-only phase: several clients query the quiet index at once.
//
// Corpus queries run under the index READ lock, any number of them at a time, so they must not
// write corpus state - two readers that do race with each other although nobody feeds the index.
// The main phase cannot show that: its readers overlap writers, and the harness stamps every
// call with a shared atomic clock, which orders the readers for the race detector.
//
// Here, after the index went quiet, "content" permanodes (camliContent claims whose values no
// blob of the history has: never seen by the corpus before) are delivered in waves; after each
// wave (and Quiesce) 2-8 reader goroutines start together and ask for the permanodes' times the
// ways pkg/search does:
//
//	Corpus.PermanodeAnyTime / PermanodeTime under Index.RLock,
//	Handler.Query with a time constraint (every permanode's time is computed),
//	Handler.Query sorted by creation time ascending (sort.Sort over PermanodeAnyTime) and
//	descending (the lazily sorted listing),
//
// and, once every new permanode was asked about, also through Describe, GetRecentPermanodes,
// GetClaims and Corpus.PermanodeAttrValue.
//
// While a wave's readers run they touch no harness lock, atomic or channel: between two readers
// there is no happens-before edge but what perkeep itself creates, so ANY write by a reader to
// state another reader touches is reported by the race detector, whether or not the two accesses
// happened to overlap in time (and, without it, may kill the process: judged as process-died).
//
// Oracle besides the race detector: nothing is written any more, so every answer must be the one
// the delivered claims define: a content permanode's time is the date of its newest camliContent
// set-attribute claim (it has no date attributes, its content is not an indexed file); a time
// query for [t, t+1s) returns exactly the permanode whose time is t; the sorted queries return
// all delivered content permanodes in time order; Describe / PermanodeAttrValue / GetClaims /
// GetRecentPermanodes give the newest camliContent value, the delivered claims, each delivered
// content permanode once with its newest claim's date.

import (
	"context"
	"fmt"
	"math/rand"
	"runtime"
	"sort"
	"strings"
	"sync"
	"time"

	"go4.org/types"
	"perkeep.org/pkg/blob"
	"perkeep.org/pkg/search"

	"verif.local/harness/hw"
	"verif.local/harness/sto"
)

const (
	nContent      = 24
	contentWaves  = 2
	contentTitle  = "c14-content"
	contentPerWav = nContent / contentWaves
)

type contentPn struct {
	pn     sto.Blob
	claims []sto.Blob // in date order
	when   time.Time  // the time every query must give the permanode
	mod    time.Time  // date of the newest claim
	value  string     // value of the newest camliContent claim
	cc     []sto.Blob // the camliContent claims, in date order
}

// buildContent adds the content permanodes to w (called once per world, under ixWorldMu).
func buildContent(w *ixWorld) {
	for i := 0; i < nContent; i++ {
		pn := w.signer.Permanode(fmt.Sprintf("c14-content-%d", i))
		c := contentPn{pn: pn}
		fresh := func(tag string) string {
			return blob.RefFromString(fmt.Sprintf("c14 content of permanode %d (%s): no such blob is ever delivered", i, tag)).String()
		}
		c.claims = append(c.claims, w.signer.Claim(hw.Set, pn.Ref, "title", contentTitle, hw.T(2010, 100+i)))
		c.when, c.value = hw.T(2011, 100+10*i), fresh("a")
		c.cc = append(c.cc, w.signer.Claim(hw.Set, pn.Ref, "camliContent", c.value, c.when))
		c.claims = append(c.claims, c.cc[0])
		c.mod = c.when
		switch i % 4 {
		case 0:
			// the content is replaced later: the newer claim's date counts
			c.when, c.value = hw.T(2011, 100+10*i+5), fresh("b")
			c.cc = append(c.cc, w.signer.Claim(hw.Set, pn.Ref, "camliContent", c.value, c.when))
			c.claims = append(c.claims, c.cc[1])
			c.mod = c.when
		case 1:
			// a later claim on another attribute: the modification time is not the content's time
			c.mod = hw.T(2012, 100+i)
			c.claims = append(c.claims, w.signer.Claim(hw.Set, pn.Ref, "description", fmt.Sprintf("described-%d", i), c.mod))
		}
		w.content = append(w.content, c)
	}
}

// contentObs is one answer a reader got (judged after the wave).
type contentObs struct {
	op    string
	i     int // the permanode asked about (-1: all)
	t     time.Time
	ok    bool
	refs  []blob.Ref
	s     string   // Describe / PermanodeAttrValue: what was found
	bad   []string // malformed answer
	err   error
	upTo  int // content permanodes delivered when the wave started
	start time.Time
	end   time.Time
}

func runIndexContent(x *hw.Idx, sh *search.Handler, w *ixWorld, job jobSpec, report func(string, string, map[string]any), res *histResult) {
	ctx := context.Background()
	readers := job.Readers
	if readers < 2 {
		readers = 2
	}
	if readers > 8 {
		readers = 8
	}
	byRef := map[blob.Ref]int{}
	for i, c := range w.content {
		byRef[c.pn.Ref] = i
	}
	overlapped, waves := false, 0
	for wave := 0; wave < contentWaves; wave++ {
		lo, hi := wave*contentPerWav, (wave+1)*contentPerWav
		for i := lo; i < hi; i++ {
			c := &w.content[i]
			for k, b := range append([]sto.Blob{c.pn}, c.claims...) {
				if err := x.Deliver(b); err != nil {
					report("deliver-error/index", fmt.Sprintf("delivering blob %d of content permanode %d (%v) to the quiet index failed: %v", k, i, b.Ref, err), map[string]any{"content": i})
					return
				}
			}
		}
		x.Quiesce()

		// ---- the readers of this wave: no harness synchronisation between start and wg.Wait
		obs := make([][]contentObs, readers)
		start := make(chan struct{})
		var wg sync.WaitGroup
		for rd := 0; rd < readers; rd++ {
			wg.Add(1)
			go func(rd int) {
				defer wg.Done()
				rrng := rand.New(rand.NewSource(job.Seed*9176 + int64(wave)*131 + int64(rd)))
				// first the permanodes nobody asked about yet, in this reader's own order; then everything again
				order := rrng.Perm(hi - lo)
				for k := range order {
					order[k] += lo
				}
				order = append(order, rrng.Perm(hi)...)
				ascAt := rrng.Intn(hi - lo)
				var mine []contentObs
				<-start
				for n, i := range order {
					op := rrng.Intn(3)
					if n >= hi-lo {
						op = rrng.Intn(9)
					}
					if n == ascAt {
						op = 3
					}
					o := contentObs{i: i, upTo: hi, start: time.Now()}
					c := &w.content[i]
					switch op {
					case 0:
						o.op = "content-PermanodeAnyTime"
						x.Index.RLock()
						o.t, o.ok = x.Corpus.PermanodeAnyTime(c.pn.Ref)
						x.Index.RUnlock()
					case 1:
						o.op = "content-PermanodeTime"
						x.Index.RLock()
						o.t, o.ok = x.Corpus.PermanodeTime(c.pn.Ref)
						x.Index.RUnlock()
					case 2:
						o.op = "content-Query-time"
						sq := &search.SearchQuery{Constraint: &search.Constraint{Permanode: &search.PermanodeConstraint{
							Time: &search.TimeConstraint{After: types.Time3339(c.when), Before: types.Time3339(c.when.Add(time.Second))}}}, Limit: -1}
						var sr *search.SearchResult
						if sr, o.err = sh.Query(ctx, sq); o.err == nil {
							for _, b := range sr.Blobs {
								o.refs = append(o.refs, b.Blob)
							}
						}
					case 5:
						o.op = "content-Describe"
						var dr *search.DescribeResponse
						if dr, o.err = sh.Describe(ctx, &search.DescribeRequest{BlobRef: c.pn.Ref}); o.err == nil {
							if db := dr.Meta.Get(c.pn.Ref); db != nil && db.Permanode != nil {
								o.s = fmt.Sprintf("title=%q camliContent=%q", db.Permanode.Attr["title"], db.Permanode.Attr["camliContent"])
							} else {
								o.s = "not described as a permanode"
							}
						}
					case 6:
						o.op, o.i = "content-GetRecentPermanodes", -1
						var rr *search.RecentResponse
						if rr, o.err = sh.GetRecentPermanodes(ctx, &search.RecentRequest{N: 1000}); o.err == nil {
							for _, it := range rr.Recent {
								if k, ok := byRef[it.BlobRef]; ok {
									o.refs = append(o.refs, it.BlobRef)
									if !it.ModTime.Time().Equal(w.content[k].mod) {
										o.bad = append(o.bad, fmt.Sprintf("content permanode %d has modtime %v, its newest claim is dated %v", k, it.ModTime.Time().UTC(), w.content[k].mod.UTC()))
									}
								}
							}
						}
					case 7:
						o.op = "content-GetClaims"
						var cr *search.ClaimsResponse
						if cr, o.err = sh.GetClaims(&search.ClaimsRequest{Permanode: c.pn.Ref, AttrFilter: "camliContent"}); o.err == nil {
							for _, cl := range cr.Claims {
								o.refs = append(o.refs, cl.BlobRef)
							}
						}
					case 8:
						o.op = "content-PermanodeAttrValue"
						x.Index.RLock()
						o.s = x.Corpus.PermanodeAttrValue(c.pn.Ref, "camliContent", time.Time{}, "")
						x.Index.RUnlock()
					default:
						o.op, o.i = "content-Query-created-asc", -1
						srt := search.CreatedAsc
						if op == 4 {
							o.op, srt = "content-Query-created", search.CreatedDesc
						}
						sq := &search.SearchQuery{Constraint: &search.Constraint{Permanode: &search.PermanodeConstraint{Attr: "title", Value: contentTitle}}, Sort: srt, Limit: -1}
						var sr *search.SearchResult
						if sr, o.err = sh.Query(ctx, sq); o.err == nil {
							for _, b := range sr.Blobs {
								o.refs = append(o.refs, b.Blob)
							}
						}
					}
					o.end = time.Now()
					mine = append(mine, o)
					if rrng.Intn(4) == 0 {
						runtime.Gosched()
					}
				}
				obs[rd] = mine
			}(rd)
		}
		close(start)
		wg.Wait()
		waves++

		// ---- judge the wave
		for rd := range obs {
			for _, o := range obs[rd] {
				res.Ops[o.op]++
				res.Evals++
				for rd2 := range obs {
					if rd2 != rd && len(obs[rd2]) > 0 && o.start.Before(obs[rd2][len(obs[rd2])-1].end) && obs[rd2][0].start.Before(o.end) {
						overlapped = true
					}
				}
				if o.err != nil {
					report("op-error/index+corpus."+strings.TrimPrefix(o.op, "content-"), fmt.Sprintf("%s on the quiet index (read-only phase, %d readers) failed: %v", o.op, readers, o.err), map[string]any{"content": o.i})
					continue
				}
				switch o.op {
				case "content-PermanodeAnyTime", "content-PermanodeTime":
					want := w.content[o.i].when
					if !o.ok || !o.t.Equal(want) {
						report("content-time/index+corpus/"+strings.TrimPrefix(o.op, "content-"),
							fmt.Sprintf("%s(content permanode %d) = (%v, %v) on the quiet index; its newest camliContent claim is dated %v and it has no date attribute nor file content", strings.TrimPrefix(o.op, "content-"), o.i, o.t.UTC(), o.ok, want.UTC()),
							map[string]any{"content": o.i, "readers": readers, "wave": wave})
					}
				case "content-Query-time":
					if len(o.refs) != 1 || o.refs[0] != w.content[o.i].pn.Ref {
						report("content-time/index+corpus/Query-time",
							fmt.Sprintf("search Query(permanode time in [%v, +1s)) on the quiet index returned %v; exactly content permanode %d (%v) has its time there", w.content[o.i].when.UTC(), shortBlobRefs(o.refs), o.i, short(w.content[o.i].pn.Ref)),
							map[string]any{"content": o.i, "readers": readers, "wave": wave})
					}
				case "content-Describe":
					c := &w.content[o.i]
					if want := fmt.Sprintf("title=%q camliContent=%q", []string{contentTitle}, []string{c.value}); o.s != want {
						report("content-answer/index+corpus/Describe", fmt.Sprintf("Describe(content permanode %d) on the quiet index: %s; its claims say %s", o.i, o.s, want), map[string]any{"content": o.i, "readers": readers, "wave": wave})
					}
				case "content-PermanodeAttrValue":
					if c := &w.content[o.i]; o.s != c.value {
						report("content-answer/index+corpus/PermanodeAttrValue", fmt.Sprintf("PermanodeAttrValue(content permanode %d, camliContent) = %q on the quiet index; its newest camliContent claim says %q", o.i, o.s, c.value), map[string]any{"content": o.i, "readers": readers, "wave": wave})
					}
				case "content-GetClaims":
					c := &w.content[o.i]
					okc := len(o.refs) == len(c.cc)
					for k := 0; okc && k < len(c.cc); k++ {
						okc = o.refs[k] == c.cc[k].Ref
					}
					if !okc {
						var want []blob.Ref
						for _, b := range c.cc {
							want = append(want, b.Ref)
						}
						report("content-answer/index+corpus/GetClaims", fmt.Sprintf("GetClaims(content permanode %d, camliContent) = %v on the quiet index; delivered were %v", o.i, shortBlobRefs(o.refs), shortBlobRefs(want)), map[string]any{"content": o.i, "readers": readers, "wave": wave})
					}
				case "content-GetRecentPermanodes":
					seen := map[blob.Ref]int{}
					for _, r := range o.refs {
						seen[r]++
					}
					bad := o.bad
					for i := 0; i < o.upTo; i++ {
						if n := seen[w.content[i].pn.Ref]; n != 1 {
							bad = append(bad, fmt.Sprintf("content permanode %d is listed %d times", i, n))
						}
					}
					if len(seen) > o.upTo {
						bad = append(bad, fmt.Sprintf("%d content permanodes are listed, %d were delivered", len(seen), o.upTo))
					}
					if len(bad) > 0 {
						if len(bad) > 4 {
							bad = bad[:4]
						}
						report("content-answer/index+corpus/GetRecentPermanodes", "GetRecentPermanodes on the quiet index: "+strings.Join(bad, "; "), map[string]any{"readers": readers, "wave": wave})
					}
				default:
					var want []int
					for i := 0; i < o.upTo; i++ {
						want = append(want, i)
					}
					sort.Slice(want, func(a, b int) bool {
						if o.op == "content-Query-created" {
							return w.content[want[a]].when.After(w.content[want[b]].when)
						}
						return w.content[want[a]].when.Before(w.content[want[b]].when)
					})
					var got []string
					for _, r := range o.refs {
						if i, ok := byRef[r]; ok {
							got = append(got, fmt.Sprint(i))
						} else {
							got = append(got, short(r))
						}
					}
					var wantS []string
					for _, i := range want {
						wantS = append(wantS, fmt.Sprint(i))
					}
					if strings.Join(got, ",") != strings.Join(wantS, ",") {
						report("content-time/index+corpus/"+strings.TrimPrefix(o.op, "content-"),
							fmt.Sprintf("%s (permanodes titled %q) on the quiet index returned the content permanodes %v; by the dates of their newest camliContent claims the order is %v", strings.TrimPrefix(o.op, "content-"), contentTitle, got, want),
							map[string]any{"readers": readers, "wave": wave, "got": got, "want": want})
					}
				}
			}
		}
	}
	if waves == contentWaves {
		res.Events = append(res.Events, "index-readonly-phase-concurrent-readers")
	}
	if overlapped {
		res.Events = append(res.Events, "index-readonly-readers-overlapped-in-time")
	}
	res.Ops["content-readers"] += readers
}

func shortBlobRefs(l []blob.Ref) []string {
	out := make([]string, len(l))
	for i, r := range l {
		out[i] = short(r)
	}
	return out
}
