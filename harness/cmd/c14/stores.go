package main

// (A) concurrent clients on one store: history recording at the client boundary,
// per-blobref linearizability check, content checks, final audit.

import (
	"bytes"
	"context"
	"errors"
	"fmt"
	"io"
	"math/rand"
	"os"
	"runtime/debug"
	"sort"
	"strings"
	"sync"
	"sync/atomic"
	"time"

	"github.com/anishathalye/porcupine"
	"perkeep.org/pkg/blob"
	"perkeep.org/pkg/blobserver"

	"verif.local/harness/ev"
	"verif.local/harness/inject"
	"verif.local/harness/sto"
)

// jobSpec describes one history (store or index); it is fixed by (seed, tier) in the parent.
type jobSpec struct {
	ID       string    `json:"case_id"`
	Kind     string    `json:"kind"` // store | index
	Composed bool      `json:"composed,omitempty"`
	Label    string    `json:"label"`
	Spec     *sto.Spec `json:"spec,omitempty"`
	Seed     int64     `json:"seed"`
	// store histories
	Clients  int    `json:"clients,omitempty"`
	Ops      int    `json:"ops_per_client,omitempty"`
	Blobs    int    `json:"blobs,omitempty"`
	Mode     string `json:"mode,omitempty"`      // "" | packfile | compaction | ackearly | queue | cachemiss | readonly
	PackSafe bool   `json:"pack_safe,omitempty"` // packfile mode: the file's blobs are never removed
	// Owners: that many clients own OwnBlobs blobs each which no other client writes; the owner
	// runs receive / read / remove / read sequences on them (every read directly follows the
	// acknowledged write of the same client) while all the other traffic goes on.
	// Mode "ackearly" (replica with minWritesForSuccess < replicas): the own blobs are pre-loaded into
	// every replica, each is removed once and received once afterwards (a remove is never issued
	// while replica uploads may still be in flight), shared blobs are never removed, and one
	// replica is slow in RemoveBlobs.
	Owners   int `json:"owners,omitempty"`
	OwnBlobs int `json:"own_blobs,omitempty"`
	// index histories
	Permanodes int    `json:"permanodes,omitempty"`
	Claims     int    `json:"claims,omitempty"`
	Victims    int    `json:"victims,omitempty"`
	Readers    int    `json:"readers,omitempty"`
	Reads      int    `json:"reads,omitempty"`
	KV         string `json:"kv,omitempty"`
	// Deps: files (chunks + file blob), directories (static-set + directory) and a second signer
	// (key + permanodes + claims) are delivered concurrently and out of order
	Deps bool `json:"deps,omitempty"`
	// Handler: readers also call the search handler's entry points without harness locking, and a
	// parent permanode with camliMember claims is delivered (EdgesTo)
	Handler bool `json:"handler,omitempty"`
	// Tail: after the main phase the doomed permanodes are delivered delete claim first, one after
	// the other, while the sorted permanode listings are read (index_tail.go)
	Tail bool `json:"tail,omitempty"`
	// Content: at the very end permanodes with camliContent claims are delivered to the quiet index
	// and several readers at once ask for their times, nothing being written (index_content.go)
	Content bool `json:"content,omitempty"`
}

type violRec struct {
	Sig     string `json:"sig"`
	What    string `json:"what"`
	Witness any    `json:"witness"`
}

// histResult is what a child reports for one history.
type histResult struct {
	ID           string         `json:"id"`
	Label        string         `json:"label"`
	Kind         string         `json:"kind"`
	Ops          map[string]int `json:"ops"`
	Evals        int            `json:"evals"`
	Partitions   int            `json:"partitions"`
	Shapes       []string       `json:"shapes,omitempty"`
	Events       []string       `json:"events,omitempty"`
	OverlapKeys  int            `json:"overlap_keys"`
	LinTimeouts  int            `json:"lin_timeouts"`
	Inconclusive []string       `json:"inconclusive,omitempty"`
	Viols        []violRec      `json:"viols,omitempty"`
	Sample       any            `json:"sample,omitempty"`
	ElapsedMs    int64          `json:"elapsed_ms"`
	MaxConc      int            `json:"max_concurrency"`
}

func (h *histResult) viol(sig, what string, wit any) {
	if len(h.Viols) < 12 {
		h.Viols = append(h.Viols, violRec{sig, what, wit})
	}
}

type clock struct{ n atomic.Int64 }

func (c *clock) now() int64 { return c.n.Add(1) }

// call is one client call at the public Storage boundary.
type call struct {
	Client  int      `json:"c"`
	Op      string   `json:"op"`
	Keys    []int    `json:"keys,omitempty"`
	After   string   `json:"after,omitempty"`
	Limit   int      `json:"limit,omitempty"`
	Off     int64    `json:"off,omitempty"`
	Len     int64    `json:"len,omitempty"`
	Call    int64    `json:"call"`
	Ret     int64    `json:"ret"`
	Err     string   `json:"err,omitempty"`
	Open    bool     `json:"open,omitempty"` // panicked: never returned
	Present []bool   `json:"present,omitempty"`
	Enum    []string `json:"enum,omitempty"`
	// StatBlobs calls: callbacks made, distinct goroutines among the first four callbacks
	StatCB int `json:"stat_callbacks,omitempty"`
	StatGs int `json:"stat_goroutines,omitempty"`
	bad    []violRec
	// lead (cachemiss mode): a fetch of an own blob that only the origin holds; the next call of the
	// script (the remove of the same blob) follows it directly
	lead bool
}

func compactSpec(s *sto.Spec) string {
	if len(s.Kids) == 0 {
		return s.Kind
	}
	var ks []string
	for _, k := range s.Kids {
		ks = append(ks, compactSpec(k))
	}
	return s.Kind + "[" + strings.Join(ks, ",") + "]"
}

func hasKind(s *sto.Spec, kind string) bool {
	if s.Kind == kind {
		return true
	}
	for _, k := range s.Kids {
		if hasKind(k, kind) {
			return true
		}
	}
	return false
}

func countPacks(dir string) int {
	max := 0
	var walk func(string) int
	walk = func(d string) int {
		n := 0
		ents, _ := os.ReadDir(d)
		for _, e := range ents {
			if e.IsDir() {
				if strings.HasPrefix(e.Name(), "diskpacked") {
					if k := walk(d + "/" + e.Name()); k > max {
						max = k
					}
				} else {
					n += walk(d + "/" + e.Name())
				}
			} else if strings.HasPrefix(e.Name(), "pack-") && strings.HasSuffix(e.Name(), ".blobs") {
				n++
			}
		}
		return n
	}
	walk(dir)
	return max
}

type storeRun struct {
	job   jobSpec
	res   *histResult
	S     blobserver.Storage
	sub   blob.SubFetcher
	keys  []sto.Blob // hot blobs first, then fillers, then own blobs
	nHot  int
	own0  int // index of the first own blob (len(keys) when there are none)
	yield func(inject.Call)
	idx   map[blob.Ref]int
	clk   *clock
	mu    sync.Mutex // guards res.Viols from client goroutines
	label string
	miss  *missCtl // cachemiss mode
}

// missCtl is the directed schedule of the cachemiss mode (proxycache): the write that fills the
// cache with an own blob on behalf of its owner's "lead" fetch is held at the cache store's
// ReceiveBlob boundary until the owner's next call - the remove of that blob - has returned, or
// a bounded wait is over (a fill that is part of the fetch itself always ends the wait that way:
// the owner cannot call remove before its fetch returned).  Never a verdict.
type missCtl struct {
	st                  map[string]*missState // own blob ref -> state
	held, landedAfterRm atomic.Int64
}

type missState struct {
	lead    atomic.Bool  // the owner's lead fetch was issued, its remove has not returned yet
	removes atomic.Int64 // removes of this blob by its owner that returned
}

const missHold = 4 * time.Millisecond

func (m *missCtl) yield(c inject.Call) {
	if c.Layer != "pc-cache" || c.Op != "ReceiveBlob" {
		return
	}
	st := m.st[c.Arg]
	if st == nil || !st.lead.Load() {
		return
	}
	m.held.Add(1)
	n0 := st.removes.Load()
	for t0 := time.Now(); time.Since(t0) < missHold; {
		if st.removes.Load() > n0 {
			m.landedAfterRm.Add(1)
			return
		}
		time.Sleep(40 * time.Microsecond)
	}
}

// report defers a direct (non-porcupine) violation of call c to judge, which adds the
// concurrent writes on the same blobs as context.
func (sr *storeRun) report(sig, what string, c *call) {
	c.bad = append(c.bad, violRec{Sig: sig, What: what})
}

func (sr *storeRun) reportNow(sig, what string, c *call) {
	sr.mu.Lock()
	defer sr.mu.Unlock()
	sr.res.viol(sig, what, map[string]any{"case_id": sr.job.ID, "job": sr.job, "call": c})
}

func short(r blob.Ref) string {
	s := r.String()
	if len(s) > 16 {
		return s[:16]
	}
	return s
}

// exec performs c against the store, stamping call and return.
func (sr *storeRun) exec(c *call) {
	ctx := context.Background()
	defer func() {
		if e := recover(); e != nil {
			c.Open = true
			c.Ret = -1
			st := string(debug.Stack())
			fn := "?"
			if fr := ev.PerkeepFrames(st); fr != "" {
				fn = strings.Fields(strings.Split(fr, "\n")[0])[0]
				// drop the argument list ("(0xc000…, " or "(...)"), keep a receiver such as "(*Storage)"
				if i := strings.LastIndex(fn, "("); i > 0 && !strings.Contains(fn[i:], "*") {
					fn = fn[:i]
				}
				fn = shortFunc(fn)
			}
			sr.reportNow("panic/"+fn, fmt.Sprintf("[%s] %s panicked: %v\n%s", sr.label, c.Op, e, ev.PerkeepFrames(st)), c)
		}
	}()
	c.Call = sr.clk.now()
	switch c.Op {
	case "receive":
		b := sr.keys[c.Keys[0]]
		sb, err := blobserver.Receive(ctx, sr.S, b.Ref, bytes.NewReader(b.Data))
		c.Ret = sr.clk.now()
		if err != nil {
			c.Err = err.Error()
		} else if sb.Ref != b.Ref || int(sb.Size) != len(b.Data) {
			sr.report("size/"+sr.label+".receive", fmt.Sprintf("[%s] receive of %v (%d bytes) acknowledged as %v size %d", sr.label, b.Ref, len(b.Data), sb.Ref, sb.Size), c)
		}
	case "fetch", "audit-fetch":
		b := sr.keys[c.Keys[0]]
		rc, size, err := sr.S.Fetch(ctx, b.Ref)
		var data []byte
		if err == nil {
			if sr.yield != nil && c.Call%3 == 0 {
				// the client is slow to start reading the body it was handed
				sr.yield(inject.Call{})
				sr.yield(inject.Call{})
			}
			data, err = io.ReadAll(rc)
			rc.Close()
			if err != nil {
				err = fmt.Errorf("reading the fetched body: %w", err)
			}
		}
		c.Ret = sr.clk.now()
		switch {
		case err == nil:
			c.Present = []bool{true}
			if !bytes.Equal(data, b.Data) {
				sr.report(contentClass(data, b.Data)+"/"+sr.label+".fetch", fmt.Sprintf("[%s] fetch of %v returned %d bytes that differ from the blob's %d bytes (%s)", sr.label, b.Ref, len(data), len(b.Data), diffAt(data, b.Data)), c)
			} else if int(size) != len(b.Data) {
				sr.report("size/"+sr.label+".fetch", fmt.Sprintf("[%s] fetch of %v reported size %d, blob has %d bytes", sr.label, b.Ref, size, len(b.Data)), c)
			}
		case errors.Is(err, os.ErrNotExist):
			c.Present = []bool{false}
		default:
			c.Err = err.Error()
		}
	case "subfetch":
		b := sr.keys[c.Keys[0]]
		rc, err := sr.sub.SubFetch(ctx, b.Ref, c.Off, c.Len)
		var data []byte
		if err == nil {
			data, err = io.ReadAll(rc)
			rc.Close()
			if err != nil {
				err = fmt.Errorf("reading the sub-fetched body: %w", err)
			}
		}
		c.Ret = sr.clk.now()
		switch {
		case err == nil:
			c.Present = []bool{true}
			end := c.Off + c.Len
			if end > int64(len(b.Data)) {
				end = int64(len(b.Data))
			}
			if want := b.Data[c.Off:end]; !bytes.Equal(data, want) {
				sr.report(contentClass(data, want)+"/"+sr.label+".subfetch", fmt.Sprintf("[%s] subfetch(%v, off %d, len %d) returned %d bytes that differ from the blob's range of %d bytes (%s)", sr.label, b.Ref, c.Off, c.Len, len(data), len(want), diffAt(data, want)), c)
			}
		case errors.Is(err, os.ErrNotExist):
			c.Present = []bool{false}
		case errors.Is(err, blob.ErrUnimplemented):
			c.Op = "subfetch-unimplemented" // says nothing
		default:
			c.Err = err.Error()
		}
	case "stat", "stat-batch", "audit-stat":
		refs := make([]blob.Ref, len(c.Keys))
		pos := map[blob.Ref]int{}
		for i, k := range c.Keys {
			refs[i] = sr.keys[k].Ref
			pos[refs[i]] = i
		}
		// the callback is deliberately NOT synchronised (statSink): BlobStatter says fn is called in serial
		sink := newStatSink(sr, c, pos)
		err := sr.S.StatBlobs(ctx, refs, sink.add)
		c.Ret = sr.clk.now()
		if err != nil {
			c.Err = err.Error()
		} else {
			c.Present = sink.present
		}
		sink.conclude(len(refs))
	case "enumerate", "audit-enumerate":
		ch := make(chan blob.SizedRef, 32)
		errc := make(chan error, 1)
		go func() { errc <- sr.S.EnumerateBlobs(ctx, ch, c.After, c.Limit) }()
		var list []blob.SizedRef
		for sb := range ch {
			list = append(list, sb)
		}
		err := <-errc
		c.Ret = sr.clk.now()
		if err != nil {
			c.Err = err.Error()
			break
		}
		c.Enum = make([]string, len(list))
		var bad []string
		for i, sb := range list {
			s := sb.Ref.String()
			c.Enum[i] = s
			if s <= c.After {
				bad = append(bad, fmt.Sprintf("%s is not after %q", s, c.After))
			}
			if i > 0 && s <= c.Enum[i-1] {
				bad = append(bad, fmt.Sprintf("%s follows %s (not strictly ascending)", s, c.Enum[i-1]))
			}
			if k, ok := sr.idx[sb.Ref]; !ok {
				bad = append(bad, fmt.Sprintf("%s was never given to this store", s))
			} else if int(sb.Size) != len(sr.keys[k].Data) {
				bad = append(bad, fmt.Sprintf("%s listed with size %d, blob has %d bytes", s, sb.Size, len(sr.keys[k].Data)))
			}
		}
		if len(list) > c.Limit {
			bad = append(bad, fmt.Sprintf("%d results for limit %d", len(list), c.Limit))
		}
		if len(bad) > 0 {
			if len(bad) > 4 {
				bad = bad[:4]
			}
			sr.report("enum-result/"+sr.label, fmt.Sprintf("[%s] EnumerateBlobs(after %q, limit %d): %s", sr.label, c.After, c.Limit, strings.Join(bad, "; ")), c)
			c.Err = "malformed enumeration" // not used as per-key reads
		}
	case "remove", "remove-multi":
		refs := make([]blob.Ref, len(c.Keys))
		for i, k := range c.Keys {
			refs[i] = sr.keys[k].Ref
		}
		err := sr.S.RemoveBlobs(ctx, refs)
		c.Ret = sr.clk.now()
		if err != nil {
			c.Err = err.Error()
		}
	default:
		panic("c14: unknown op " + c.Op)
	}
}

// contentClass names how returned bytes differ from the blob: content-zeroed (right length,
// every differing byte is zero: the blob or a part of it was zero-filled), content-short
// (a proper prefix), content-garbage (anything else).
func contentClass(got, want []byte) string {
	if len(got) == len(want) {
		zeroed := true
		for i := range got {
			if got[i] != want[i] && got[i] != 0 {
				zeroed = false
				break
			}
		}
		if zeroed {
			return "content-zeroed"
		}
	}
	if len(got) < len(want) && bytes.Equal(got, want[:len(got)]) {
		return "content-short"
	}
	return "content-garbage"
}

func diffAt(got, want []byte) string {
	n := len(got)
	if len(want) < n {
		n = len(want)
	}
	for i := 0; i < n; i++ {
		if got[i] != want[i] {
			allZero := true
			for _, b := range got {
				if b != 0 {
					allZero = false
					break
				}
			}
			return fmt.Sprintf("first difference at offset %d: got 0x%02x want 0x%02x; returned bytes all zero: %v", i, got[i], want[i], allZero)
		}
	}
	return fmt.Sprintf("one is a prefix of the other: got %d bytes, want %d", len(got), len(want))
}

// runStoreHistory executes one store history and checks it.
func runStoreHistory(root string, job jobSpec) *histResult {
	t0 := time.Now()
	res := &histResult{ID: job.ID, Label: job.Label, Kind: "store", Ops: map[string]int{}}
	if job.Composed {
		res.Kind = "store-composition"
	}
	defer func() { res.ElapsedMs = time.Since(t0).Milliseconds() }()
	rng := rand.New(rand.NewSource(job.Seed))
	dir, err := os.MkdirTemp(root, "h")
	if err != nil {
		res.Inconclusive = append(res.Inconclusive, "mkdir: "+err.Error())
		return res
	}
	defer os.RemoveAll(dir)
	plan := inject.NewPlan()
	jit := inject.Jitter(job.Seed)
	plan.Yield = jit
	var slowLeaf atomic.Value // string: the replica whose RemoveBlobs is slow (ackearly mode)
	var slowRemoves atomic.Int64
	if job.Mode == "ackearly" {
		plan.Yield = func(c inject.Call) {
			jit(c)
			if name, _ := slowLeaf.Load().(string); name != "" && c.Layer == name && c.Op == "RemoveBlobs" {
				slowRemoves.Add(1)
				time.Sleep(time.Duration(300+c.Index%7*100) * time.Microsecond)
			}
		}
	}
	var miss *missCtl
	switch job.Mode {
	case "queue":
		// a sync queue: longer pauses around the directory creation of a receive
		var qn atomic.Uint64
		plan.Yield = func(c inject.Call) {
			jit(c)
			if c.Layer == "vfs" && c.Op == "MkdirAll" {
				if n := qn.Add(1); (n*2654435761>>7)%8 < 3 {
					time.Sleep(time.Duration(100+n%5*80) * time.Microsecond)
				}
			}
		}
	case "cachemiss":
		miss = &missCtl{st: map[string]*missState{}}
		plan.Yield = func(c inject.Call) {
			jit(c)
			miss.yield(c)
		}
	}
	env := &sto.Env{Dir: dir, Plan: plan}
	var b *sto.Built
	lb, local, err := buildLocal(dir, plan, job.Spec)
	if local && err == nil {
		b = lb.b
		defer lb.close()
	} else if !local {
		b, err = sto.Build(env, job.Spec)
		if err == nil {
			defer b.Close()
		}
	}
	if err != nil {
		res.Inconclusive = append(res.Inconclusive, fmt.Sprintf("cannot build %s: %v", job.Spec, err))
		return res
	}
	if job.Mode == "ackearly" {
		if len(b.Leaves) < 2 {
			res.Inconclusive = append(res.Inconclusive, fmt.Sprintf("ackearly mode needs the replicas as harness-owned leaves, %s has %d", job.Spec, len(b.Leaves)))
			return res
		}
		slowLeaf.Store(b.Leaves[int(job.Seed&0xffff)%len(b.Leaves)].Name)
	}

	sr := &storeRun{job: job, res: res, S: b.S, clk: &clock{}, label: job.Label, idx: map[blob.Ref]int{}, yield: jit, miss: miss}
	if sf, ok := b.S.(blob.SubFetcher); ok {
		sr.sub = sf
	}

	// ---- blobs
	var fileBlobs []sto.Blob
	hot := sto.Universe(rng, sto.GenOpts{N: job.Blobs, MaxSize: 3000, Hashes: true})
	if job.Mode == "packfile" {
		content := make([]byte, 520<<10+rng.Intn(120<<10))
		rng.Read(content)
		_, fb, err := sto.FileBlobs(fmt.Sprintf("c14-%d.bin", rng.Int63()), content)
		if err != nil {
			res.Inconclusive = append(res.Inconclusive, "FileBlobs: "+err.Error())
			return res
		}
		fileBlobs = fb
		if len(hot) > 3 {
			hot = hot[:3]
		}
		hot = append(append([]sto.Blob(nil), fb...), hot...)
	}
	sr.keys = hot
	sr.nHot = len(hot)
	var fillers []int
	if job.Mode == "compaction" {
		for i := 0; i < 112; i++ {
			d := []byte(fmt.Sprintf("c14 filler blob %d of history %s / %d", i, job.ID, rng.Int63()))
			fillers = append(fillers, len(sr.keys))
			sr.keys = append(sr.keys, sto.FromBytes(d))
		}
	}
	sr.own0 = len(sr.keys)
	if job.Owners > 0 && job.OwnBlobs > 0 {
		orng := rand.New(rand.NewSource(job.Seed ^ 0x0b10b5))
		for i := 0; i < job.Owners*job.OwnBlobs; i++ {
			d := make([]byte, 40+orng.Intn(1200))
			orng.Read(d)
			copy(d, fmt.Sprintf("c14 own blob %d of %s;", i, job.ID))
			sr.keys = append(sr.keys, sto.FromBytes(d))
		}
	}
	for i, k := range sr.keys {
		sr.idx[k.Ref] = i
	}
	isFileBlob := map[int]bool{}
	for i := range fileBlobs {
		isFileBlob[i] = true // file blobs are the first keys
	}

	// ---- initial state
	initial := map[int]bool{}
	if b.Preload != nil {
		var pre []sto.Blob
		for i := 0; i < sr.nHot; i++ {
			// a read-only store starts with three blobs out of four, the others with every other one
			if (job.Mode == "readonly" && i%4 == 3) || (job.Mode != "readonly" && i%2 == 1) {
				continue
			}
			pre = append(pre, sr.keys[i])
			initial[i] = true
		}
		if err := b.Preload(pre); err != nil {
			res.Inconclusive = append(res.Inconclusive, fmt.Sprintf("preload %s: %v", job.Spec, err))
			return res
		}
		res.Events = append(res.Events, "preloaded-lower")
	}

	if job.Mode == "ackearly" {
		// the own blobs start out on every replica
		var pre []sto.Blob
		for k := sr.own0; k < len(sr.keys); k++ {
			pre = append(pre, sr.keys[k])
			initial[k] = true
		}
		for _, l := range b.Leaves {
			if err := sto.StoreAll(l.Inner, pre); err != nil {
				res.Inconclusive = append(res.Inconclusive, fmt.Sprintf("preload replica %s: %v", l.Name, err))
				return res
			}
		}
		res.Events = append(res.Events, "own-blobs-preloaded-on-every-replica")
	}

	if job.Mode == "cachemiss" {
		// the own blobs start out on the origin only: the owner's first fetch misses the cache
		if b.Preload == nil {
			res.Inconclusive = append(res.Inconclusive, fmt.Sprintf("cachemiss mode needs a store that can be pre-loaded below its cache, %s cannot", job.Spec))
			return res
		}
		var pre []sto.Blob
		for k := sr.own0; k < len(sr.keys); k++ {
			pre = append(pre, sr.keys[k])
			initial[k] = true
			miss.st[sr.keys[k].Ref.String()] = &missState{}
		}
		if err := b.Preload(pre); err != nil {
			res.Inconclusive = append(res.Inconclusive, fmt.Sprintf("preload origin of %s: %v", job.Spec, err))
			return res
		}
		res.Events = append(res.Events, "own-blobs-preloaded-below-the-cache")
	}

	if job.Mode == "readonly" && (b.Preload == nil || job.Owners > 0) {
		res.Inconclusive = append(res.Inconclusive, fmt.Sprintf("readonly mode needs a pre-loadable store and no owners, %s", job.Spec))
		return res
	}
	if !b.Caps.Receive && job.Mode != "readonly" {
		res.Inconclusive = append(res.Inconclusive, fmt.Sprintf("%s does not accept writes: it needs the readonly mode", job.Spec))
		return res
	}
	canRemove := b.Caps.Remove
	// cachemiss: the shared blobs are never removed either - the races of proxycache's receive/fetch/remove on
	// one blob are the business of the random proxycache plans; here only the owners remove, their own blobs
	canRemoveShared := canRemove && job.Mode != "ackearly" && job.Mode != "cachemiss"
	nClients := job.Clients
	calls := make([][]*call, nClients+1)

	genOp := func(crng *rand.Rand, client int) *call {
		pick := func() int { return crng.Intn(sr.nHot) }
		pickRemovable := func() (int, bool) {
			for try := 0; try < 8; try++ {
				k := pick()
				if !(job.PackSafe && isFileBlob[k]) {
					return k, true
				}
			}
			return 0, false
		}
		c := &call{Client: client}
		k := crng.Intn(100)
		if job.Mode == "readonly" {
			k = 26 + crng.Intn(52) // fetch, subfetch, stat, batched stat, enumerate
		}
		switch {
		case k < 26:
			c.Op, c.Keys = "receive", []int{pick()}
		case k < 43:
			c.Op, c.Keys = "fetch", []int{pick()}
		case k < 51:
			if sr.sub == nil {
				c.Op, c.Keys = "fetch", []int{pick()}
				break
			}
			key := pick()
			n := int64(len(sr.keys[key].Data))
			c.Op, c.Keys = "subfetch", []int{key}
			c.Off = crng.Int63n(n + 1)
			c.Len = crng.Int63n(n + 2)
		case k < 60:
			c.Op, c.Keys = "stat", []int{pick()}
		case k < 68:
			n := 2 + crng.Intn(sr.nHot-1)
			c.Op, c.Keys = "stat-batch", crng.Perm(sr.nHot)[:n]
		case k < 78:
			c.Op = "enumerate"
			switch crng.Intn(10) {
			case 0, 1, 2:
				c.After = sr.keys[pick()].Ref.String()
			case 3:
				c.After = "sha224-"
			}
			c.Limit = []int{1, 2, 3, sr.nHot, 1000, 1000}[crng.Intn(6)]
		default:
			if !canRemoveShared {
				if crng.Intn(2) == 0 {
					c.Op, c.Keys = "receive", []int{pick()}
				} else {
					c.Op, c.Keys = "fetch", []int{pick()}
				}
				break
			}
			if k < 95 {
				if key, ok := pickRemovable(); ok {
					c.Op, c.Keys = "remove", []int{key}
				} else {
					c.Op, c.Keys = "fetch", []int{pick()}
				}
			} else {
				var ks []int
				for _, key := range crng.Perm(sr.nHot)[:2+crng.Intn(2)] {
					if !(job.PackSafe && isFileBlob[key]) {
						ks = append(ks, key)
					}
				}
				if len(ks) == 0 {
					c.Op, c.Keys = "fetch", []int{pick()}
				} else {
					c.Op, c.Keys = "remove-multi", ks
				}
			}
		}
		return c
	}

	var wg sync.WaitGroup
	start := make(chan struct{})
	for cl := 0; cl < nClients; cl++ {
		wg.Add(1)
		go func(cl int) {
			defer wg.Done()
			crng := rand.New(rand.NewSource(job.Seed*1000003 + int64(cl)*7919 + 1))
			var mine []*call
			defer func() { calls[cl] = mine }()
			do := func(c *call) {
				mine = append(mine, c)
				var ms *missState
				if sr.miss != nil && len(c.Keys) == 1 && c.Keys[0] >= sr.own0 {
					ms = sr.miss.st[sr.keys[c.Keys[0]].Ref.String()]
				}
				if ms != nil && c.lead {
					ms.lead.Store(true)
				}
				sr.exec(c)
				if ms != nil && c.Op == "remove" {
					ms.removes.Add(1)
					ms.lead.Store(false)
				}
			}
			var script []*call
			if cl < job.Owners {
				script = sr.ownScript(crng, cl, canRemove)
			}
			<-start
			if job.Mode == "packfile" && cl == 0 {
				// the uploader: chunks first, the file schema blob last (what pk-put does)
				for i := range fileBlobs {
					do(&call{Client: cl, Op: "receive", Keys: []int{i}})
				}
			}
			var myFill []int
			for i, f := range fillers {
				if i%nClients == cl {
					myFill = append(myFill, f)
				}
			}
			for i := 0; i < job.Ops; i++ {
				for len(myFill) > 0 && crng.Intn(10) < 7 {
					do(&call{Client: cl, Op: "receive", Keys: []int{myFill[0]}})
					myFill = myFill[1:]
				}
				if len(script) > 0 && crng.Intn(100) < 35 {
					// a write on an own blob and the read that follows it, back to back
					// (a lead fetch, the remove that follows it and the reads after that)
					glue := script[0].lead
					do(script[0])
					script = script[1:]
					for len(script) > 0 && (glue || (script[0].Op != "receive" && script[0].Op != "remove")) {
						glue = script[0].lead
						do(script[0])
						script = script[1:]
					}
				}
				if job.Mode == "queue" && crng.Intn(4) == 0 {
					// the sync loop of a queue: list everything
					do(&call{Client: cl, Op: "enumerate", Limit: 1000})
				}
				do(genOp(crng, cl))
			}
			for len(script) > 0 {
				do(script[0])
				script = script[1:]
			}
			for _, f := range myFill {
				do(&call{Client: cl, Op: "receive", Keys: []int{f}})
			}
		}(cl)
	}
	finished := ev.WithTimeout(150*time.Second, func() {
		close(start)
		wg.Wait()
	})
	if !finished {
		fmt.Fprintf(os.Stderr, "C14: history %s on %s did not finish within the watchdog; goroutine dump follows\n", job.ID, job.Spec)
		buf := make([]byte, 1<<20)
		n := runtimeStack(buf)
		os.Stderr.Write(buf[:n])
		res.Inconclusive = append(res.Inconclusive, fmt.Sprintf("history %s on %s: clients did not finish within the watchdog (possible deadlock; dump in the child log): %s", job.ID, job.Label, ev.PerkeepFrames(string(buf[:n]))))
		res.Events = append(res.Events, "hung")
		return res
	}

	// encrypt: give the background meta compaction a moment to finish (evidence only)
	if job.Mode == "compaction" {
		for i := 0; i < 300; i++ {
			if planSaw(plan, "RemoveBlobs") {
				res.Events = append(res.Events, "encrypt-compaction")
				break
			}
			time.Sleep(10 * time.Millisecond)
		}
	}

	// ---- final audit at quiescence: reads by an extra client
	audit := func(c *call) {
		c.Client = nClients
		calls[nClients] = append(calls[nClients], c)
		sr.exec(c)
	}
	all := make([]int, len(sr.keys))
	for i := range all {
		all[i] = i
	}
	audit(&call{Op: "audit-stat", Keys: all})
	for i := 0; i < sr.nHot; i++ {
		audit(&call{Op: "audit-fetch", Keys: []int{i}})
	}
	for i := sr.own0; i < len(sr.keys); i++ {
		audit(&call{Op: "audit-fetch", Keys: []int{i}})
	}
	if sr.own0 < len(sr.keys) {
		res.Events = append(res.Events, "own-blob-sequences")
	}
	if slowRemoves.Load() > 0 {
		res.Events = append(res.Events, "slow-replica-remove")
	}
	audit(&call{Op: "audit-enumerate", Limit: 100000})

	// ---- observed structure
	if lb != nil && lb.vfsSteps != nil && lb.vfsSteps.Load() > 0 {
		res.Events = append(res.Events, "vfs-step-yields")
	}
	if job.Mode == "queue" && lb != nil && lb.dirsRemoved != nil {
		if n := lb.dirsRemoved.Load(); n > 0 {
			res.Events = append(res.Events, "queue-empty-dir-removed-by-enumeration")
			res.Ops["queue-dir-removed"] += int(n)
		}
		if n := lb.dirsRecreated.Load(); n > 0 {
			res.Events = append(res.Events, "queue-receive-recreated-removed-dir")
			res.Ops["queue-dir-recreated"] += int(n)
		}
	}
	if miss != nil {
		ownMiss := 0
		for _, c := range plan.Log() {
			if c.Layer == "pc-origin" && c.Op == "Fetch" && miss.st[c.Arg] != nil {
				ownMiss++
			}
		}
		if ownMiss > 0 {
			res.Events = append(res.Events, "own-fetch-missed-the-cache")
			res.Ops["own-fetch-cache-miss"] += ownMiss
		}
		if n := miss.held.Load(); n > 0 {
			res.Events = append(res.Events, "cache-fill-held-for-the-owners-remove")
			res.Ops["cache-fill-held"] += int(n)
		}
		if n := miss.landedAfterRm.Load(); n > 0 {
			// only a fill that is not part of the fetch can get here
			res.Events = append(res.Events, "cache-fill-landed-after-the-owners-remove")
			res.Ops["cache-fill-after-remove"] += int(n)
		}
	}
	if lb != nil && lb.kvName != "" && planSaw(plan, "CommitBatch") {
		res.Events = append(res.Events, "ondisk-kv-yields-"+fmt.Sprint(job.Spec.P["meta"]))
	}
	if hasKind(job.Spec, "diskpacked") || hasKind(job.Spec, "diskpacked-wrapkv") {
		if n := countPacks(dir); n > 1 {
			res.Events = append(res.Events, "pack-rollover")
		}
	}
	if job.Spec.Kind == "blobpacked" && len(b.Leaves) >= 2 {
		if len(b.Leaves[len(b.Leaves)-1].StoredEvents()) > 0 {
			res.Events = append(res.Events, "zip-packed")
		}
	}

	sr.judge(calls, initial)
	return res
}

func planSaw(p *inject.Plan, op string) bool {
	for _, c := range p.Log() {
		if c.Op == op {
			return true
		}
	}
	return false
}

// judge decomposes the calls into per-key operations and checks every key.
func (sr *storeRun) judge(calls [][]*call, initial map[int]bool) {
	res := sr.res
	var maxT int64
	var flat []*call
	for _, cs := range calls {
		for _, c := range cs {
			flat = append(flat, c)
			if c.Call > maxT {
				maxT = c.Call
			}
			if c.Ret > maxT {
				maxT = c.Ret
			}
		}
	}
	res.MaxConc = maxConcurrency(flat)
	perKey := make([][]kop, len(sr.keys))
	for k := range initial {
		perKey[k] = append(perKey[k], kop{Client: -1, Kind: "init", W: 1, Call: 0, Ret: 0})
	}
	errSeen := map[string]bool{}
	statMulti, statGs := false, false
	defer func() {
		if statMulti {
			res.Events = append(res.Events, "stat-several-callbacks-in-one-call")
		}
		if statGs {
			res.Events = append(res.Events, "stat-callbacks-from-several-goroutines")
		}
	}()
	for _, c := range flat {
		for _, bad := range c.bad {
			var ctxt []string
			ovSet := map[string]bool{}
			for _, o := range flat {
				if o == c || (o.Op != "receive" && o.Op != "remove" && o.Op != "remove-multi") || o.Ret < c.Call || o.Call > c.Ret {
					continue
				}
				for _, k := range o.Keys {
					for _, ck := range c.Keys {
						if k == ck {
							ctxt = append(ctxt, fmt.Sprintf("[%d,%d] c%d %s of %s", o.Call, o.Ret, o.Client, o.Op, short(sr.keys[k].Ref)))
							ovSet[strings.TrimSuffix(o.Op, "-multi")] = true
						}
					}
				}
			}
			ovKinds := "nothing"
			if len(ovSet) > 0 {
				var ks []string
				for k := range ovSet {
					ks = append(ks, k)
				}
				sort.Slice(ks, func(i, j int) bool { return ks[i] > ks[j] }) // "remove" first: a key prefix "…||remove*" covers remove and remove+receive
				ovKinds = strings.Join(ks, "+")
			}
			what := bad.What + fmt.Sprintf("; the call ran during [%d,%d]; overlapping writes on the same blob: %v", c.Call, c.Ret, ctxt)
			if strings.HasPrefix(bad.Sig, "content-") {
				// name the racing pair: <read>||<kinds of the writes that overlapped it>
				bad.Sig += "||" + ovKinds
			}
			res.viol(bad.Sig, what, map[string]any{"case_id": sr.job.ID, "job": sr.job, "call": c, "overlapping_writes": ctxt})
		}
		res.Ops[c.Op]++
		if c.StatCB >= 2 {
			res.Ops["stat-call-with-several-callbacks"]++
			statMulti = true
		}
		if c.StatGs >= 2 {
			res.Ops["stat-call-callbacks-from-several-goroutines"]++
			statGs = true
		}
		ret := c.Ret
		unknown := false
		if c.Open {
			ret, unknown = maxT+1, true
		}
		if c.Err != "" {
			unknown = true
			if c.Err != "malformed enumeration" {
				sig := "op-error/" + sr.label + "." + strings.TrimPrefix(c.Op, "audit-")
				if !errSeen[sig] {
					errSeen[sig] = true
					res.viol(sig, fmt.Sprintf("[%s] %s failed under concurrent load without any injected fault: %s", sr.label, c.Op, c.Err),
						map[string]any{"case_id": sr.job.ID, "job": sr.job, "call": c})
				}
			}
		}
		switch c.Op {
		case "receive":
			perKey[c.Keys[0]] = append(perKey[c.Keys[0]], kop{Client: c.Client, Kind: c.Op, W: 1, Unknown: unknown, Call: c.Call, Ret: ret})
		case "remove", "remove-multi":
			for _, k := range c.Keys {
				perKey[k] = append(perKey[k], kop{Client: c.Client, Kind: c.Op, W: 2, Unknown: unknown, Call: c.Call, Ret: ret})
			}
		case "fetch", "subfetch", "stat", "stat-batch", "audit-fetch", "audit-stat":
			if unknown || c.Present == nil {
				continue // a failed read says nothing
			}
			for i, k := range c.Keys {
				perKey[k] = append(perKey[k], kop{Client: c.Client, Kind: c.Op, W: 0, Present: c.Present[i], Call: c.Call, Ret: ret})
			}
		case "enumerate", "audit-enumerate":
			if unknown {
				continue
			}
			got := map[string]bool{}
			last := ""
			for _, s := range c.Enum {
				got[s] = true
				last = s
			}
			full := len(c.Enum) >= c.Limit
			for k, b := range sr.keys {
				s := b.Ref.String()
				if s <= c.After {
					continue
				}
				if full && s > last {
					continue // beyond the page: says nothing
				}
				perKey[k] = append(perKey[k], kop{Client: c.Client, Kind: c.Op, W: 0, Present: got[s], Call: c.Call, Ret: ret})
			}
		}
	}
	shapes := map[string]bool{}
	for k, ops := range perKey {
		if len(ops) == 0 {
			continue
		}
		res.Partitions++
		res.Evals += len(ops)
		anyOv, wOv, shape := overlapInfo(ops)
		if anyOv && wOv {
			res.OverlapKeys++
			if k < sr.nHot {
				shapes[fmt.Sprintf("%s/%x", sr.label, shape)] = true
			}
		}
		switch checkPartition(presenceModel, ops) {
		case porcupine.Ok:
		case porcupine.Unknown:
			res.LinTimeouts++
		case porcupine.Illegal:
			if len(res.Viols) >= 12 {
				continue // the history's report is full (histResult.viol drops the rest): skip the costly minimisation
			}
			min := minimize(presenceModel, ops)
			var lines []string
			for _, o := range min {
				lines = append(lines, o.String())
			}
			class := "nonlinearizable"
			if k >= sr.own0 {
				// a blob only its owner writes, one call at a time: no write-write race can explain it
				class = "nonlinearizable-own-blob"
			}
			res.viol(class+"/"+sr.label+"/"+pairClass(min, ops)+"/"+anomalyClass(min),
				fmt.Sprintf("[%s] the history of blob %s (%d operations, %d after minimisation; unexplained reads: "+readKinds(min)+") has no linearization against the {absent,present} register; minimal witness (times are ticks of one global counter; 'init' = blob pre-loaded):\n  %s",
					sr.job.Spec, short(sr.keys[k].Ref), len(ops), len(min), strings.Join(lines, "\n  ")),
				map[string]any{"case_id": sr.job.ID, "job": sr.job, "blob": sr.keys[k].Ref.String(), "blob_size": len(sr.keys[k].Data), "minimal_history": min, "full_history_ops": len(ops)})
		}
	}
	for s := range shapes {
		res.Shapes = append(res.Shapes, s)
	}
	sort.Strings(res.Shapes)
	// a sample: the first calls of the history
	var sample []*call
	sort.SliceStable(flat, func(i, j int) bool { return flat[i].Call < flat[j].Call })
	for i, c := range flat {
		if i >= 14 {
			break
		}
		cc := *c
		if len(cc.Enum) > 3 {
			cc.Enum = append(cc.Enum[:3:3], fmt.Sprintf("…(+%d)", len(c.Enum)-3))
		}
		sample = append(sample, &cc)
	}
	res.Sample = map[string]any{"case_id": sr.job.ID, "backend": sr.job.Spec.String(), "clients": sr.job.Clients, "blobs": sr.nHot, "calls_total": len(flat), "max_concurrency": res.MaxConc, "first_calls": sample}
}

func maxConcurrency(cs []*call) int {
	type e struct {
		t int64
		d int
	}
	var es []e
	for _, c := range cs {
		if c.Ret > c.Call {
			es = append(es, e{c.Call, 1}, e{c.Ret, -1})
		}
	}
	sort.Slice(es, func(i, j int) bool {
		if es[i].t != es[j].t {
			return es[i].t < es[j].t
		}
		return es[i].d > es[j].d
	})
	cur, max := 0, 0
	for _, x := range es {
		cur += x.d
		if cur > max {
			max = cur
		}
	}
	return max
}

// ownScript is the program of owner cl on its own blobs: per blob a sequence of writes, each
// followed directly by reads of the same client; the blobs' sequences are interleaved.
func (sr *storeRun) ownScript(crng *rand.Rand, cl int, canRemove bool) []*call {
	job := sr.job
	read := func(k int) *call {
		switch crng.Intn(4) {
		case 0:
			return &call{Client: cl, Op: "fetch", Keys: []int{k}}
		case 1:
			s := sr.keys[k].Ref.String()
			return &call{Client: cl, Op: "enumerate", After: s[:len(s)-1], Limit: 1}
		case 2:
			return &call{Client: cl, Op: "stat-batch", Keys: []int{k, crng.Intn(sr.nHot)}}
		}
		return &call{Client: cl, Op: "stat", Keys: []int{k}}
	}
	var seqs [][]*call
	for j := 0; j < job.OwnBlobs; j++ {
		k := sr.own0 + cl*job.OwnBlobs + j
		var q []*call
		w := func(op string) {
			q = append(q, &call{Client: cl, Op: op, Keys: []int{k}}, read(k))
			if crng.Intn(2) == 0 {
				q = append(q, read(k))
			}
		}
		switch {
		case job.Mode == "cachemiss":
			// pre-loaded on the origin only: the fetch takes the miss path, the remove follows it
			// directly, then the reads; afterwards the usual cycles (the tiny LRU evicts most
			// blobs right after their receive, so the later fetches miss as well)
			q = append(q, &call{Client: cl, Op: "fetch", Keys: []int{k}, lead: true})
			w("remove")
			for rep := 0; rep < 2; rep++ {
				w("receive")
				q = append(q, &call{Client: cl, Op: "fetch", Keys: []int{k}, lead: true})
				w("remove")
			}
		case job.Mode == "ackearly":
			q = append(q, read(k)) // pre-loaded
			w("remove")
			w("receive")
		case !canRemove:
			w("receive")
			w("receive")
		default:
			for rep := 0; rep < 3; rep++ {
				w("receive")
				w("remove")
			}
		}
		seqs = append(seqs, q)
	}
	// interleave write-groups of the blobs round robin
	var out []*call
	for len(seqs) > 0 {
		var rest [][]*call
		for _, q := range seqs {
			n := 1
			if q[0].lead {
				n = 2 // the remove that directly follows a lead fetch
			}
			for n < len(q) && q[n].Op != "receive" && q[n].Op != "remove" {
				if q[n].lead {
					n++
				}
				n++
			}
			if n > len(q) {
				n = len(q)
			}
			out = append(out, q[:n]...)
			if n < len(q) {
				rest = append(rest, q[n:])
			}
		}
		seqs = rest
	}
	return out
}
