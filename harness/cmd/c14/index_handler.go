package main

// (B3) readers that go through the search handler's own entry points (GetRecentPermanodes,
// Describe, GetClaims, EdgesTo, GetPermanodesWithAttr, Query sorted by -mod) WITHOUT any locking
// by the harness: whatever lock the entry point takes is all there is, as for an HTTP client.
// Each answer is one snapshot (the entry points hold the index read lock for their whole
// duration), so it is a read of the registers the direct readers use.

import (
	"context"
	"fmt"
	"math/rand"
	"time"

	"perkeep.org/pkg/blob"
	"perkeep.org/pkg/search"

	"verif.local/harness/hw"
)

// titleRead turns a title value seen for register permanode i into a register read.
func titleRead(i int, title string, valueIdx map[string]int) (int, bool) {
	if title == "" {
		return 0, true
	}
	n, ok := valueIdx[fmt.Sprintf("%d/%s", i, title)]
	return n, ok
}

func ixHandlerRead(ctx context.Context, x *hw.Idx, sh *search.Handler, w *ixWorld, deps *depRun, clk *clock, client int, rng *rand.Rand,
	valueIdx map[string]int, report func(string, string, map[string]any)) []ixRec {
	pnIdx := map[blob.Ref]int{}
	for i, pn := range w.pns {
		pnIdx[pn.Ref] = i
	}
	switch k := rng.Intn(100); {
	case k < 22:
		// ---- GetRecentPermanodes: one snapshot of every register permanode
		call := clk.now()
		rr, err := sh.GetRecentPermanodes(ctx, &search.RecentRequest{N: 100})
		ret := clk.now()
		if err != nil {
			report("op-error/index+corpus.GetRecentPermanodes", fmt.Sprintf("GetRecentPermanodes failed under concurrent load: %v", err), nil)
			return nil
		}
		known := map[blob.Ref]bool{w.parent.Ref: true}
		for _, b := range w.pns {
			known[b.Ref] = true
		}
		for _, b := range w.victims {
			known[b.Ref] = true
		}
		for _, b := range w.orphans {
			known[b.Ref] = true
		}
		for _, b := range w.doomed {
			known[b.Ref] = true
		}
		seen := map[int]bool{}
		var out []ixRec
		for _, it := range rr.Recent {
			if !known[it.BlobRef] {
				report("recent-extra/index+corpus", fmt.Sprintf("GetRecentPermanodes lists %v, which is not a permanode of the owner in this history", it.BlobRef), nil)
				continue
			}
			i, ok := pnIdx[it.BlobRef]
			if !ok {
				continue
			}
			if seen[i] {
				report("recent-duplicate/index+corpus", fmt.Sprintf("GetRecentPermanodes lists pn%d twice", i), nil)
				continue
			}
			seen[i] = true
			// the modtime is the date of the newest claim; the described title is that claim's value
			n := 0
			for j := range w.claims[i] {
				if it.ModTime.Time().Equal(hw.T(1990+i, 100+j*10)) {
					n = j + 1
				}
			}
			if n == 0 {
				report("recent-modtime/index+corpus", fmt.Sprintf("GetRecentPermanodes gives pn%d the modtime %v, which is no claim's date", i, it.ModTime), nil)
				continue
			}
			if db := rr.Meta.Get(it.BlobRef); db != nil && db.Permanode != nil {
				t := db.Permanode.Attr.Get("title")
				if tn, ok := titleRead(i, t, valueIdx); !ok || tn != n {
					report("recent-inconsistent/index+corpus", fmt.Sprintf("one GetRecentPermanodes answer gives pn%d the modtime of claim #%d but the title %q (claim #%d): not one state of the index", i, n, t, tn), nil)
					continue
				}
			}
			out = append(out, ixRec{fmt.Sprintf("attr/%d", i), kop{Client: client, Kind: "GetRecentPermanodes", W: 5, V: n, Call: call, Ret: ret}})
		}
		for i := range w.pns {
			if !seen[i] {
				out = append(out, ixRec{fmt.Sprintf("attr/%d", i), kop{Client: client, Kind: "GetRecentPermanodes", W: 5, V: 0, Call: call, Ret: ret}})
			}
		}
		return out
	case k < 40:
		// ---- Describe of a register permanode
		i := rng.Intn(len(w.pns))
		call := clk.now()
		dres, err := sh.Describe(ctx, &search.DescribeRequest{BlobRef: w.pns[i].Ref})
		ret := clk.now()
		if err != nil {
			report("op-error/index+corpus.Describe", fmt.Sprintf("Describe(pn%d) failed under concurrent load: %v", i, err), nil)
			return nil
		}
		title := ""
		if db := dres.Meta.Get(w.pns[i].Ref); db != nil && db.Permanode != nil {
			title = db.Permanode.Attr.Get("title")
			if vs := db.Permanode.Attr["title"]; len(vs) > 1 {
				report("attr-values/index+corpus", fmt.Sprintf("Describe(pn%d): the single-valued attribute title has the values %q", i, vs), nil)
				return nil
			}
		}
		n, ok := titleRead(i, title, valueIdx)
		if !ok {
			report("attr-values/index+corpus", fmt.Sprintf("Describe(pn%d): title = %q, a value nobody wrote", i, title), nil)
			return nil
		}
		return []ixRec{{fmt.Sprintf("attr/%d", i), kop{Client: client, Kind: "Describe", W: 5, V: n, Call: call, Ret: ret}}}
	case k < 52 && deps != nil:
		// ---- Describe of a file or directory
		fi := deps.finfoItems()
		idx := fi[rng.Intn(len(fi))]
		it := &w.items[idx]
		call := clk.now()
		dres, err := sh.Describe(ctx, &search.DescribeRequest{BlobRef: it.b.Ref})
		ret := clk.now()
		if err != nil {
			report("op-error/index+corpus.Describe", fmt.Sprintf("Describe(%s) failed under concurrent load: %v", it.name, err), nil)
			return nil
		}
		present := false
		if db := dres.Meta.Get(it.b.Ref); db != nil {
			present = db.File != nil || db.Dir != nil
			if !present {
				// the blob's meta row and its file information are written by one commit
				report("describe-partial/index+corpus/"+it.kind, fmt.Sprintf("Describe(%s) knows the blob (type %q) but has no file information for it", it.name, db.CamliType), nil)
				return nil
			}
		}
		return []ixRec{{"finfo/" + it.name, kop{Client: client, Kind: "Describe", W: 0, Present: present, Call: call, Ret: ret}}}
	case k < 64:
		// ---- GetClaims
		i := rng.Intn(len(w.pns))
		call := clk.now()
		cr, err := sh.GetClaims(&search.ClaimsRequest{Permanode: w.pns[i].Ref, AttrFilter: "title"})
		ret := clk.now()
		if err != nil {
			report("op-error/index+corpus.GetClaims", fmt.Sprintf("GetClaims(pn%d) failed under concurrent load: %v", i, err), nil)
			return nil
		}
		for n, c := range cr.Claims {
			if n >= len(w.claims[i]) || c.BlobRef != w.claims[i][n].Ref || c.Value != w.values[i][n] {
				var got []string
				for _, c := range cr.Claims {
					got = append(got, c.Value)
				}
				report("claims-not-prefix/index+corpus", fmt.Sprintf("GetClaims(pn%d, attr title) = %q: not a prefix of the writer's sequence %q", i, got, w.values[i]), nil)
				return nil
			}
		}
		return []ixRec{{fmt.Sprintf("attr/%d", i), kop{Client: client, Kind: "GetClaims", W: 5, V: len(cr.Claims), Call: call, Ret: ret}}}
	case k < 76:
		// ---- EdgesTo: the parent's camliMember claim on pn i
		i := rng.Intn(len(w.members))
		call := clk.now()
		er, err := sh.EdgesTo(&search.EdgesRequest{ToRef: w.pns[i].Ref})
		ret := clk.now()
		if err != nil {
			report("op-error/index+corpus.EdgesTo", fmt.Sprintf("EdgesTo(pn%d) failed under concurrent load: %v", i, err), nil)
			return nil
		}
		present := false
		for _, e := range er.EdgesTo {
			if e.From == w.parent.Ref {
				present = true
			} else {
				report("edges-extra/index+corpus", fmt.Sprintf("EdgesTo(pn%d) lists an edge from %v; only the parent permanode refers to pn%d", i, e.From, i), nil)
			}
		}
		return []ixRec{{fmt.Sprintf("edge/%d", i), kop{Client: client, Kind: "EdgesTo", W: 0, Present: present, Call: call, Ret: ret}}}
	case k < 86:
		// ---- GetPermanodesWithAttr (exercised for locking; judged for soundness only)
		i := rng.Intn(len(w.pns))
		j := rng.Intn(len(w.values[i]))
		wr, err := sh.GetPermanodesWithAttr(&search.WithAttrRequest{N: 10, Attr: "title", Value: w.values[i][j]})
		if err != nil {
			report("op-error/index+corpus.GetPermanodesWithAttr", fmt.Sprintf("GetPermanodesWithAttr(title=%q) failed under concurrent load: %v", w.values[i][j], err), nil)
			return nil
		}
		for _, it := range wr.WithAttr {
			if it.Permanode != w.pns[i].Ref {
				report("query-extra/index+corpus", fmt.Sprintf("GetPermanodesWithAttr(title=%q) returned %v, which never had that title", w.values[i][j], it.Permanode), nil)
			}
		}
		return []ixRec{{"unjudged/GetPermanodesWithAttr", kop{Client: client, Kind: "GetPermanodesWithAttr", W: 0, Present: false, Call: clk.now(), Ret: clk.now()}}}
	default:
		// ---- Query sorted by last modification
		i := rng.Intn(len(w.pns))
		j := rng.Intn(len(w.values[i]))
		sq := &search.SearchQuery{Constraint: &search.Constraint{Permanode: &search.PermanodeConstraint{Attr: "title", Value: w.values[i][j]}}, Sort: search.LastModifiedDesc, Limit: -1}
		call := clk.now()
		sr, err := sh.Query(ctx, sq)
		ret := clk.now()
		if err != nil {
			report("op-error/index+corpus.Query", fmt.Sprintf("search Query(permanode title=%q, sort -mod) failed under concurrent load: %v", w.values[i][j], err), nil)
			return nil
		}
		found := false
		for _, b := range sr.Blobs {
			if b.Blob == w.pns[i].Ref {
				found = true
			} else {
				report("query-extra/index+corpus", fmt.Sprintf("search Query(permanode title=%q, sort -mod) returned %v, which never had that title", w.values[i][j], b.Blob), nil)
			}
		}
		return []ixRec{{fmt.Sprintf("attr/%d", i), kop{Client: client, Kind: "Query-mod", W: 4, V: j + 1, Match: found, Call: call, Ret: ret}}}
	}
}

var _ = time.Second
