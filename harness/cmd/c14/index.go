package main

// (B) index + corpus fed by concurrent writers while readers query it.

import (
	"context"
	"errors"
	"fmt"
	"io"
	"math/rand"
	"os"
	"runtime"
	"sort"
	"strings"
	"sync"
	"time"

	"github.com/anishathalye/porcupine"
	"perkeep.org/pkg/blob"
	"perkeep.org/pkg/blobserver/memory"
	"perkeep.org/pkg/index"
	"perkeep.org/pkg/search"
	"perkeep.org/pkg/sorted"

	"verif.local/harness/ev"
	"verif.local/harness/hw"
	"verif.local/harness/inject"
	"verif.local/harness/sto"
)

func runtimeStack(buf []byte) int { return runtime.Stack(buf, true) }

type delaySrc struct {
	*memory.Storage
	yield func(inject.Call)
	// gates: schedule control of the blobs other blobs' indexing depends on (index_deps.go);
	// written before the concurrent phase only
	gates map[blob.Ref]*depGate
	stats depStats
	// holds: blobs whose first Fetch (by the background re-indexing) is held (index_tail.go);
	// written before the concurrent phase only
	holds map[blob.Ref]*reindexHold
}

func (d *delaySrc) Fetch(ctx context.Context, br blob.Ref) (io.ReadCloser, uint32, error) {
	if h := d.holds[br]; h != nil {
		h.enter()
	}
	d.yield(inject.Call{})
	rc, size, err := d.Storage.Fetch(ctx, br)
	if err != nil && d.gates != nil && errors.Is(err, os.ErrNotExist) {
		d.afterMiss(br)
	}
	return rc, size, err
}

func (d *delaySrc) ReceiveBlob(ctx context.Context, br blob.Ref, src io.Reader) (blob.SizedRef, error) {
	d.yield(inject.Call{})
	return d.Storage.ReceiveBlob(ctx, br, src)
}

// ixWorld is the set of signed blobs of the index workload (built before the concurrent phase).
type ixWorld struct {
	signer  *hw.Signer
	pns     []sto.Blob
	claims  [][]sto.Blob
	values  [][]string
	victims []sto.Blob
	deletes []sto.Blob
	// orphans: permanodes delivered only after ALL of their delete claims have been delivered
	// concurrently (several out-of-order delete claims noting their needs at the same time)
	orphans       []sto.Blob
	orphanDeletes []sto.Blob
	// blobs with index dependencies, delivered out of order (index_deps.go)
	// parent permanode with one camliMember claim per register permanode (EdgesTo readers)
	parent  sto.Blob
	members []sto.Blob
	// doomed permanodes: one title claim and one delete claim each, delivered delete claim first
	// while the sorted listings are read (index_tail.go)
	doomed, doomedClaims, doomedDeletes []sto.Blob
	items                               []ixItem
	nGroups                             int
	sharedGroupOf                       [2]int
	signer2                             *hw.Signer
	// content permanodes: camliContent claims with values the corpus never saw, delivered to the
	// quiet index and then read by several clients at once (index_content.go)
	content []contentPn
}

var (
	ixWorldMu sync.Mutex
	ixWorlds  = map[string]*ixWorld{}
)

func getIxWorld(np, nc, nv int) *ixWorld {
	ixWorldMu.Lock()
	defer ixWorldMu.Unlock()
	key := fmt.Sprintf("%d/%d/%d", np, nc, nv)
	if w, ok := ixWorlds[key]; ok {
		return w
	}
	s := hw.NewSigner(1)
	w := &ixWorld{signer: s}
	for i := 0; i < np; i++ {
		pn := s.Permanode(fmt.Sprintf("c14-register-%d", i))
		w.pns = append(w.pns, pn)
		var cs []sto.Blob
		var vs []string
		for j := 0; j < nc; j++ {
			v := fmt.Sprintf("title-%d-%d", i, j+1)
			vs = append(vs, v)
			// strictly increasing dates, all in the past
			cs = append(cs, s.Claim(hw.Set, pn.Ref, "title", v, hw.T(1990+i, 100+j*10)))
		}
		w.claims = append(w.claims, cs)
		w.values = append(w.values, vs)
	}
	for j := 0; j < nv; j++ {
		v := s.Permanode(fmt.Sprintf("c14-victim-%d", j))
		w.victims = append(w.victims, v)
		w.deletes = append(w.deletes, s.Delete(v.Ref, hw.T(2005, 50+j)))
	}
	for j := 0; j < 6; j++ {
		o := s.Permanode(fmt.Sprintf("c14-orphan-%d", j))
		w.orphans = append(w.orphans, o)
		w.orphanDeletes = append(w.orphanDeletes, s.Delete(o.Ref, hw.T(2006, 70+j)))
	}
	w.parent = s.Permanode("c14-parent")
	for i, pn := range w.pns {
		w.members = append(w.members, s.Claim(hw.Add, w.parent.Ref, "camliMember", pn.Ref.String(), hw.T(2008, 10+i)))
	}
	buildDepItems(w)
	buildDoomed(w)
	buildContent(w)
	ixWorlds[key] = w
	return w
}

type ixRec struct {
	key string
	op  kop
}

type catEntry struct {
	name string
	b    sto.Blob
	typ  string
}

func newIndexKV(kind, dir string, plan *inject.Plan) (sorted.KeyValue, func(), error) {
	var inner sorted.KeyValue
	closer := func() {}
	switch kind {
	case "", "memory":
		inner = sorted.NewMemoryKeyValue()
	default:
		d, err := os.MkdirTemp(dir, "kv")
		if err != nil {
			return nil, nil, err
		}
		env := &sto.Env{Dir: d}
		conf, _, err := env.KVConf(kind, "c14-index")
		if err != nil {
			return nil, nil, err
		}
		kv, err := sorted.NewKeyValue(conf)
		if err != nil {
			return nil, nil, err
		}
		inner = kv
		closer = func() { kv.Close(); os.RemoveAll(d) }
	}
	return inject.WrapKV("index-kv", inner, plan), closer, nil
}

func runIndexHistory(root string, job jobSpec) *histResult {
	t0 := time.Now()
	res := &histResult{ID: job.ID, Label: job.Label, Kind: "index", Ops: map[string]int{}}
	defer func() { res.ElapsedMs = time.Since(t0).Milliseconds() }()
	w := getIxWorld(job.Permanodes, job.Claims, job.Victims)
	rng := rand.New(rand.NewSource(job.Seed))
	plan := inject.NewPlan()
	jit := inject.Jitter(job.Seed)
	plan.Yield = jit
	kv, closeKV, err := newIndexKV(job.KV, root, plan)
	if err != nil {
		res.Inconclusive = append(res.Inconclusive, "index kv: "+err.Error())
		return res
	}
	defer closeKV()
	src := &delaySrc{Storage: &memory.Storage{}, yield: jit}
	x, err := hw.NewIdx(kv, src, true)
	if err != nil {
		res.Inconclusive = append(res.Inconclusive, "NewIdx: "+err.Error())
		return res
	}
	sh := search.NewHandler(x.Index, index.NewOwner(w.signer.KeyID, w.signer.PubRef))
	sh.SetCorpus(x.Corpus)
	if err := x.Deliver(w.signer.Pub); err != nil {
		res.Inconclusive = append(res.Inconclusive, "deliver public key: "+err.Error())
		return res
	}

	var deps *depRun
	if job.Deps {
		ref := getIxRef(fmt.Sprintf("%d/%d/%d", job.Permanodes, job.Claims, job.Victims), w, true, job.Handler, job.Tail)
		if ref.err != nil {
			res.Inconclusive = append(res.Inconclusive, "sequential reference index: "+ref.err.Error())
			return res
		}
		deps = newDepRun(w, ref, rng, src)
	}
	if job.Tail {
		src.holds = map[blob.Ref]*reindexHold{}
		for _, d := range w.doomedDeletes {
			src.holds[d.Ref] = newReindexHold()
		}
	}
	deliverFailed := false

	clk := &clock{}
	var vmu sync.Mutex
	witness := func(extra map[string]any) map[string]any {
		m := map[string]any{"case_id": job.ID, "job": job}
		for k, v := range extra {
			m[k] = v
		}
		return m
	}
	report := func(sig, what string, extra map[string]any) {
		vmu.Lock()
		defer vmu.Unlock()
		if strings.HasPrefix(sig, "deliver-error") {
			deliverFailed = true
		}
		res.viol(sig, what, witness(extra))
	}

	// blob catalogue for GetBlobMeta reads
	var cat []catEntry
	for i, pn := range w.pns {
		cat = append(cat, catEntry{fmt.Sprintf("pn%d", i), pn, "permanode"})
		for j, c := range w.claims[i] {
			cat = append(cat, catEntry{fmt.Sprintf("claim%d.%d", i, j+1), c, "claim"})
		}
	}
	for j := range w.victims {
		cat = append(cat, catEntry{fmt.Sprintf("victim%d", j), w.victims[j], "permanode"})
		cat = append(cat, catEntry{fmt.Sprintf("delete%d", j), w.deletes[j], "claim"})
	}
	if deps != nil {
		for i := range w.items {
			cat = append(cat, catEntry{w.items[i].name, w.items[i].b, w.items[i].typ})
		}
	}
	if job.Tail {
		for j := range w.doomed {
			cat = append(cat, catEntry{fmt.Sprintf("doomed%d", j), w.doomed[j], "permanode"})
			cat = append(cat, catEntry{fmt.Sprintf("doomed-claim%d", j), w.doomedClaims[j], "claim"})
			cat = append(cat, catEntry{fmt.Sprintf("doomed-delete%d", j), w.doomedDeletes[j], "claim"})
		}
	}
	if job.Handler {
		cat = append(cat, catEntry{"parent", w.parent, "permanode"})
		for i, m := range w.members {
			cat = append(cat, catEntry{fmt.Sprintf("member%d", i), m, "claim"})
		}
	}
	valueIdx := map[string]int{"": 0}
	for i := range w.values {
		for j, v := range w.values[i] {
			valueIdx[fmt.Sprintf("%d/%s", i, v)] = j + 1
		}
	}

	nW := len(w.pns) + 2*len(w.victims) + 1
	recs := make([][]ixRec, nW+job.Readers+1)
	ctx := context.Background()

	deliver := func(slot, client int, name string, b sto.Blob) (call, ret int64, ok bool) {
		call = clk.now()
		err := x.Deliver(b)
		ret = clk.now()
		if err != nil {
			report("deliver-error/index", fmt.Sprintf("delivering %s (%v) to the index failed under concurrent load: %v", name, b.Ref, err), map[string]any{"blob": name})
			return call, ret, false
		}
		return call, ret, true
	}

	var wg sync.WaitGroup
	start := make(chan struct{})
	slot := 0
	// one writer per register permanode
	for i := range w.pns {
		wg.Add(1)
		go func(slot, i int) {
			defer wg.Done()
			<-start
			var mine []ixRec
			defer func() { recs[slot] = mine }()
			c, r, ok := deliver(slot, slot, fmt.Sprintf("pn%d", i), w.pns[i])
			mine = append(mine, ixRec{fmt.Sprintf("meta/pn%d", i), kop{Client: slot, Kind: "deliver", W: 1, Unknown: !ok, Call: c, Ret: r}})
			for j, cl := range w.claims[i] {
				c, r, ok := deliver(slot, slot, fmt.Sprintf("claim%d.%d", i, j+1), cl)
				mine = append(mine, ixRec{fmt.Sprintf("meta/claim%d.%d", i, j+1), kop{Client: slot, Kind: "deliver", W: 1, Unknown: !ok, Call: c, Ret: r}})
				if ok {
					mine = append(mine, ixRec{fmt.Sprintf("attr/%d", i), kop{Client: slot, Kind: "deliver-claim", W: 3, V: j + 1, Call: c, Ret: r}})
				} else {
					return // the register's later states are undefined; stop writing
				}
			}
		}(slot, i)
		slot++
	}
	// the parent permanode and its camliMember claims (one writer, in order)
	if job.Handler {
		wg.Add(1)
		go func(slot int) {
			defer wg.Done()
			<-start
			var mine []ixRec
			defer func() { recs[slot] = mine }()
			c, r, ok := deliver(slot, slot, "parent", w.parent)
			mine = append(mine, ixRec{"meta/parent", kop{Client: slot, Kind: "deliver", W: 1, Unknown: !ok, Call: c, Ret: r}})
			for i, m := range w.members {
				c, r, ok := deliver(slot, slot, fmt.Sprintf("member%d", i), m)
				mine = append(mine, ixRec{fmt.Sprintf("meta/member%d", i), kop{Client: slot, Kind: "deliver", W: 1, Unknown: !ok, Call: c, Ret: r}})
				mine = append(mine, ixRec{fmt.Sprintf("edge/%d", i), kop{Client: slot, Kind: "deliver", W: 1, Unknown: !ok, Call: c, Ret: r}})
			}
		}(slot)
	}
	slot++
	// victims and their delete claims race
	type span struct {
		call, ret int64
		ok        bool
	}
	vSpan := make([]span, len(w.victims))
	dSpan := make([]span, len(w.victims))
	for j := range w.victims {
		pre := [2]int{rng.Intn(4), rng.Intn(4)}
		// every third victim is deleted strictly after its delivery returned (synchronous
		// indexing of the delete claim); the others race their delete claim
		vDone := make(chan struct{})
		ordered := j%3 == 0
		wg.Add(2)
		go func(slot, j int) {
			defer wg.Done()
			defer close(vDone)
			<-start
			for k := 0; k < pre[0]; k++ {
				jit(inject.Call{})
			}
			c, r, ok := deliver(slot, slot, fmt.Sprintf("victim%d", j), w.victims[j])
			vSpan[j] = span{c, r, ok}
		}(slot, j)
		slot++
		go func(slot, j int) {
			defer wg.Done()
			<-start
			if ordered {
				<-vDone
			}
			for k := 0; k < pre[1]; k++ {
				jit(inject.Call{})
			}
			c, r, ok := deliver(slot, slot, fmt.Sprintf("delete%d", j), w.deletes[j])
			dSpan[j] = span{c, r, ok}
		}(slot, j)
		slot++
	}
	// orphan deletes: all delivered at once before any of their targets exists
	var owg sync.WaitGroup
	orphanOK := make([]bool, len(w.orphans))
	for j := range w.orphanDeletes {
		wg.Add(1)
		owg.Add(1)
		go func(j int) {
			defer wg.Done()
			defer owg.Done()
			<-start
			_, _, ok := deliver(-1, -1, fmt.Sprintf("orphan-delete%d", j), w.orphanDeletes[j])
			orphanOK[j] = ok
		}(j)
	}
	wg.Add(1)
	go func() {
		defer wg.Done()
		<-start
		owg.Wait()
		for j := range w.orphans {
			if _, _, ok := deliver(-1, -1, fmt.Sprintf("orphan%d", j), w.orphans[j]); !ok {
				orphanOK[j] = false
			}
		}
	}()
	// blobs with index dependencies: one goroutine per delivery
	if deps != nil {
		for i := range w.items {
			for t := 0; t < w.items[i].times; t++ {
				wg.Add(1)
				go func(i, t int) {
					defer wg.Done()
					<-start
					if err := deps.deliver(x, src, clk, jit, i, t); err != nil {
						report("deliver-error/index", fmt.Sprintf("delivering %s (%v) to the index failed under concurrent load: %v", w.items[i].name, w.items[i].b.Ref, err), map[string]any{"blob": w.items[i].name})
					}
				}(i, t)
			}
		}
	}
	// readers
	for rd := 0; rd < job.Readers; rd++ {
		wg.Add(1)
		go func(slot, rd int) {
			defer wg.Done()
			rrng := rand.New(rand.NewSource(job.Seed*31337 + int64(rd)))
			var mine []ixRec
			defer func() { recs[slot] = mine }()
			<-start
			for n := 0; n < job.Reads; n++ {
				if job.Handler && rrng.Intn(100) < 25 {
					mine = append(mine, ixHandlerRead(ctx, x, sh, w, deps, clk, slot, rrng, valueIdx, report)...)
				} else if deps != nil && rrng.Intn(100) < 14 {
					fi := deps.finfoItems()
					mine = append(mine, deps.readFileInfo(x, clk, slot, "GetFileInfo", fi[rrng.Intn(len(fi))], report)...)
				} else {
					mine = append(mine, ixRead(ctx, x, sh, w, clk, slot, rrng, cat, valueIdx, report)...)
				}
				if rrng.Intn(3) == 0 {
					jit(inject.Call{})
				}
			}
		}(slot, rd)
		slot++
	}
	auditSlot := slot
	finished := ev.WithTimeout(150*time.Second, func() {
		close(start)
		wg.Wait()
	})
	if !finished {
		buf := make([]byte, 1<<20)
		n := runtimeStack(buf)
		fmt.Fprintf(os.Stderr, "C14: index history %s did not finish within the watchdog; goroutine dump follows\n%s\n", job.ID, buf[:n])
		res.Inconclusive = append(res.Inconclusive, fmt.Sprintf("index history %s: workload did not finish within the watchdog (possible deadlock): %s", job.ID, ev.PerkeepFrames(string(buf[:n]))))
		res.Events = append(res.Events, "hung")
		return res
	}
	x.Quiesce()
	if job.Tail {
		// the doomed permanodes, one after the other, on the now quiet index
		var tailRecs []ixRec
		finished := ev.WithTimeout(150*time.Second, func() {
			tailRecs = runIndexTail(x, sh, w, src, clk, jit, job, auditSlot+1, report, res)
		})
		if !finished {
			buf := make([]byte, 1<<20)
			n := runtimeStack(buf)
			fmt.Fprintf(os.Stderr, "C14: index history %s (tail) did not finish within the watchdog; goroutine dump follows\n%s\n", job.ID, buf[:n])
			res.Inconclusive = append(res.Inconclusive, fmt.Sprintf("index history %s: the doomed-permanode steps did not finish within the watchdog (possible deadlock): %s", job.ID, ev.PerkeepFrames(string(buf[:n]))))
			res.Events = append(res.Events, "hung")
			return res
		}
		recs = append(recs, tailRecs)
		x.Quiesce()
	}

	// the victims' registers
	var extra []ixRec
	var maxT = clk.now()
	for j := range w.victims {
		v, d := vSpan[j], dSpan[j]
		extra = append(extra, ixRec{fmt.Sprintf("meta/victim%d", j), kop{Client: -1, Kind: "deliver", W: 1, Unknown: !v.ok, Call: v.call, Ret: v.ret}})
		inOrder := v.ok && d.ok && d.call > v.ret
		dk := kop{Client: -1, Kind: "deliver-delete", W: 1, Call: d.call, Ret: d.ret}
		if !inOrder {
			// the delete claim waits for its target and is indexed asynchronously: open-ended
			dk.Unknown, dk.Ret = true, maxT+1
			res.Events = append(res.Events, "delete-before-or-with-target")
		} else {
			res.Events = append(res.Events, "delete-after-target")
		}
		extra = append(extra, ixRec{fmt.Sprintf("meta/delete%d", j), dk})
		extra = append(extra, ixRec{fmt.Sprintf("ixdel/%d", j), dk})
		extra = append(extra, ixRec{fmt.Sprintf("cdel/%d", j), dk})
	}
	if deps != nil {
		extra = append(extra, deps.records(maxT, res)...)
	}
	recs = append(recs, extra)

	// final audit at quiescence
	var audit []ixRec
	for _, e := range cat {
		audit = append(audit, ixGetMeta(ctx, x, clk, auditSlot, "audit-GetBlobMeta", e.name, e.b, e.typ, report)...)
	}
	for i := range w.pns {
		audit = append(audit, ixAttr(x, w, clk, auditSlot, "audit-PermanodeAttrValue", i, "", valueIdx, report)...)
		audit = append(audit, ixClaims(ctx, x, w, clk, auditSlot, "audit-AppendClaims", i, "", report)...)
	}
	for j := range w.victims {
		audit = append(audit, ixDeleted(x, clk, auditSlot, "audit-Index.IsDeleted", "ixdel", j, w.victims[j].Ref, false))
		audit = append(audit, ixDeleted(x, clk, auditSlot, "audit-Corpus.IsDeleted", "cdel", j, w.victims[j].Ref, true))
	}
	if deps != nil {
		for _, i := range deps.finfoItems() {
			audit = append(audit, deps.readFileInfo(x, clk, auditSlot, "audit-GetFileInfo", i, report)...)
		}
		deps.audit(x, src, report, res)
	}
	if job.Tail {
		var ref *ixRef
		if deps != nil {
			ref = deps.ref
		}
		vmu.Lock()
		allAcked := !deliverFailed
		vmu.Unlock()
		audit = append(audit, auditTail(x, sh, w, ref, clk, auditSlot, allAcked, report, res)...)
	}
	recs[auditSlot] = audit
	for j := range w.orphans {
		if !orphanOK[j] {
			continue
		}
		res.Events = append(res.Events, "concurrent-out-of-order-deletes")
		if !x.Index.IsDeleted(w.orphans[j].Ref) {
			report("lost/index/concurrent-out-of-order-delete", fmt.Sprintf("after quiescence Index.IsDeleted(orphan %d) = false although the permanode and its (earlier, concurrently delivered) delete claim were both delivered", j), map[string]any{"orphan": j})
		}
	}
	// explicit eventual checks (the registers above accept a never-indexed out-of-order delete)
	for _, a := range audit {
		switch {
		case strings.HasPrefix(a.key, "meta/") && !a.op.Present:
			report("lost/index/GetBlobMeta", fmt.Sprintf("after quiescence GetBlobMeta(%s) says the blob is not indexed although its delivery was acknowledged", a.key[5:]), map[string]any{"blob": a.key})
		case strings.HasPrefix(a.key, "finfo/") && !a.op.Present:
			report("lost/index/GetFileInfo", fmt.Sprintf("after quiescence GetFileInfo(%s) says not found although the blob and everything its indexing needs were delivered and acknowledged", a.key[6:]), map[string]any{"blob": a.key})
		case (strings.HasPrefix(a.key, "ixdel/") || strings.HasPrefix(a.key, "cdel/")) && !a.op.Present:
			report("lost/index/"+a.op.Kind[6:], fmt.Sprintf("after quiescence %s(victim %s) = false although the victim and its delete claim were both delivered", a.op.Kind[6:], a.key), map[string]any{"register": a.key})
		}
	}

	// ---- read-only phase: content permanodes on the quiet index, several readers at once
	if job.Content {
		finished := ev.WithTimeout(150*time.Second, func() {
			runIndexContent(x, sh, w, job, report, res)
		})
		if !finished {
			buf := make([]byte, 1<<20)
			n := runtimeStack(buf)
			fmt.Fprintf(os.Stderr, "C14: index history %s (read-only phase) did not finish within the watchdog; goroutine dump follows\n%s\n", job.ID, buf[:n])
			res.Inconclusive = append(res.Inconclusive, fmt.Sprintf("index history %s: the read-only phase did not finish within the watchdog (possible deadlock): %s", job.ID, ev.PerkeepFrames(string(buf[:n]))))
			res.Events = append(res.Events, "hung")
			return res
		}
	}

	// ---- judge
	perKey := map[string][]kop{}
	for _, rs := range recs {
		for _, r := range rs {
			perKey[r.key] = append(perKey[r.key], r.op)
			res.Ops[r.op.Kind]++
		}
	}
	var keys []string
	for k := range perKey {
		keys = append(keys, k)
	}
	sort.Strings(keys)
	shapes := map[string]bool{}
	for _, k := range keys {
		ops := perKey[k]
		res.Partitions++
		res.Evals += len(ops)
		model := presenceModel
		class := k[:strings.IndexByte(k, '/')]
		if class == "attr" {
			model = seqModel
		}
		anyOv, wOv, shape := overlapInfo(ops)
		if anyOv && wOv {
			res.OverlapKeys++
			shapes[fmt.Sprintf("index/%s/%x", class, shape)] = true
		}
		switch checkPartition(model, ops) {
		case porcupine.Ok:
		case porcupine.Unknown:
			res.LinTimeouts++
		case porcupine.Illegal:
			min := minimize(model, ops)
			var lines []string
			for _, o := range min {
				lines = append(lines, o.String())
			}
			res.viol("nonlinearizable/index+corpus/"+class+"/"+pairClass(min, ops)+"/"+anomalyClass(min),
				fmt.Sprintf("[index+corpus kv=%s] the history of register %s (%d operations, %d after minimisation; unexplained reads: "+readKinds(min)+") has no linearization; minimal witness:\n  %s",
					job.KV, k, len(ops), len(min), strings.Join(lines, "\n  ")),
				witness(map[string]any{"register": k, "minimal_history": min, "full_history_ops": len(ops)}))
		}
	}
	for s := range shapes {
		res.Shapes = append(res.Shapes, s)
	}
	sort.Strings(res.Shapes)
	res.Events = append(res.Events, "index+corpus")
	if planSaw(plan, "CommitBatch") {
		res.Events = append(res.Events, "index-kv-jitter")
	}
	var first []string
	for _, k := range keys {
		if strings.HasPrefix(k, "attr/") {
			ops := append([]kop(nil), perKey[k]...)
			sort.SliceStable(ops, func(i, j int) bool { return ops[i].Call < ops[j].Call })
			for i, o := range ops {
				if i >= 10 {
					break
				}
				first = append(first, o.String())
			}
			break
		}
	}
	res.Sample = map[string]any{"case_id": job.ID, "backend": job.Label, "writers": nW, "readers": job.Readers, "registers": len(keys), "first_ops_of_attr_register_0": first}
	res.MaxConc = nW + job.Readers
	if deps != nil {
		for i := range w.items {
			res.MaxConc += w.items[i].times
		}
	}
	return res
}

// ixRead performs one random read.
func ixRead(ctx context.Context, x *hw.Idx, sh *search.Handler, w *ixWorld, clk *clock, client int, rng *rand.Rand,
	cat []catEntry, valueIdx map[string]int, report func(string, string, map[string]any)) []ixRec {
	filter := ""
	if rng.Intn(3) == 0 {
		filter = w.signer.KeyID
	}
	switch k := rng.Intn(100); {
	case k < 25:
		e := cat[rng.Intn(len(cat))]
		return ixGetMeta(ctx, x, clk, client, "GetBlobMeta", e.name, e.b, e.typ, report)
	case k < 35 && len(w.victims) > 0:
		j := rng.Intn(len(w.victims))
		return []ixRec{ixDeleted(x, clk, client, "Index.IsDeleted", "ixdel", j, w.victims[j].Ref, false)}
	case k < 45 && len(w.victims) > 0:
		j := rng.Intn(len(w.victims))
		return []ixRec{ixDeleted(x, clk, client, "Corpus.IsDeleted", "cdel", j, w.victims[j].Ref, true)}
	case k < 62:
		return ixAttr(x, w, clk, client, "PermanodeAttrValue", rng.Intn(len(w.pns)), filter, valueIdx, report)
	case k < 72:
		i := rng.Intn(len(w.pns))
		call := clk.now()
		x.Index.RLock()
		vs := x.Corpus.AppendPermanodeAttrValues(nil, w.pns[i].Ref, "title", time.Time{}, filter)
		x.Index.RUnlock()
		ret := clk.now()
		if len(vs) > 1 {
			report("attr-values/index+corpus", fmt.Sprintf("AppendPermanodeAttrValues(pn%d, title) = %q: a single-valued (set-attribute only) attribute has %d values", i, vs, len(vs)), nil)
			return nil
		}
		v := ""
		if len(vs) == 1 {
			v = vs[0]
		}
		n, ok := valueIdx[fmt.Sprintf("%d/%s", i, v)]
		if v == "" {
			n, ok = 0, true
		}
		if !ok {
			report("attr-values/index+corpus", fmt.Sprintf("AppendPermanodeAttrValues(pn%d, title) = %q: a value nobody wrote", i, vs), nil)
			return nil
		}
		return []ixRec{{fmt.Sprintf("attr/%d", i), kop{Client: client, Kind: "AppendPermanodeAttrValues", W: 5, V: n, Call: call, Ret: ret}}}
	case k < 86:
		return ixClaims(ctx, x, w, clk, client, "AppendClaims", rng.Intn(len(w.pns)), filter, report)
	default:
		i := rng.Intn(len(w.pns))
		j := rng.Intn(len(w.values[i]))
		sq := &search.SearchQuery{Constraint: &search.Constraint{Permanode: &search.PermanodeConstraint{Attr: "title", Value: w.values[i][j]}}, Limit: -1}
		call := clk.now()
		sr, err := sh.Query(ctx, sq)
		ret := clk.now()
		if err != nil {
			report("op-error/index+corpus.Query", fmt.Sprintf("search Query(permanode title=%q) failed under concurrent load: %v", w.values[i][j], err), nil)
			return nil
		}
		found := false
		for _, b := range sr.Blobs {
			if b.Blob == w.pns[i].Ref {
				found = true
			} else {
				report("query-extra/index+corpus", fmt.Sprintf("search Query(permanode title=%q) returned %v, which never had that title", w.values[i][j], b.Blob), nil)
			}
		}
		return []ixRec{{fmt.Sprintf("attr/%d", i), kop{Client: client, Kind: "Query", W: 4, V: j + 1, Match: found, Call: call, Ret: ret}}}
	}
}

func ixGetMeta(ctx context.Context, x *hw.Idx, clk *clock, client int, kind, name string, b sto.Blob, typ string, report func(string, string, map[string]any)) []ixRec {
	call := clk.now()
	x.Index.RLock()
	bm, err := x.Index.GetBlobMeta(ctx, b.Ref)
	x.Index.RUnlock()
	ret := clk.now()
	present := err == nil
	if err != nil && !errors.Is(err, os.ErrNotExist) {
		report("op-error/index+corpus.GetBlobMeta", fmt.Sprintf("GetBlobMeta(%s) failed: %v", name, err), nil)
		return nil // a failed read says nothing
	}
	if present && (int(bm.Size) != len(b.Data) || string(bm.CamliType) != typ) {
		report("meta-content/index+corpus", fmt.Sprintf("GetBlobMeta(%s) = size %d type %q, blob has %d bytes and type %q", name, bm.Size, bm.CamliType, len(b.Data), typ), nil)
	}
	return []ixRec{{"meta/" + name, kop{Client: client, Kind: kind, W: 0, Present: present, Call: call, Ret: ret}}}
}

func ixDeleted(x *hw.Idx, clk *clock, client int, kind, class string, j int, ref blob.Ref, corpus bool) ixRec {
	call := clk.now()
	x.Index.RLock()
	var d bool
	if corpus {
		d = x.Corpus.IsDeleted(ref)
	} else {
		d = x.Index.IsDeleted(ref)
	}
	x.Index.RUnlock()
	ret := clk.now()
	return ixRec{fmt.Sprintf("%s/%d", class, j), kop{Client: client, Kind: kind, W: 0, Present: d, Call: call, Ret: ret}}
}

func ixAttr(x *hw.Idx, w *ixWorld, clk *clock, client int, kind string, i int, filter string, valueIdx map[string]int, report func(string, string, map[string]any)) []ixRec {
	call := clk.now()
	x.Index.RLock()
	v := x.Corpus.PermanodeAttrValue(w.pns[i].Ref, "title", time.Time{}, filter)
	x.Index.RUnlock()
	ret := clk.now()
	n, ok := valueIdx[fmt.Sprintf("%d/%s", i, v)]
	if v == "" {
		n, ok = 0, true
	}
	if !ok {
		report("attr-values/index+corpus", fmt.Sprintf("PermanodeAttrValue(pn%d, title) = %q: a value nobody wrote", i, v), nil)
		return nil
	}
	return []ixRec{{fmt.Sprintf("attr/%d", i), kop{Client: client, Kind: kind, W: 5, V: n, Call: call, Ret: ret}}}
}

func ixClaims(ctx context.Context, x *hw.Idx, w *ixWorld, clk *clock, client int, kind string, i int, filter string, report func(string, string, map[string]any)) []ixRec {
	call := clk.now()
	x.Index.RLock()
	cls, err := x.Index.AppendClaims(ctx, nil, w.pns[i].Ref, filter, "title")
	x.Index.RUnlock()
	ret := clk.now()
	if err != nil {
		report("op-error/index+corpus.AppendClaims", fmt.Sprintf("AppendClaims(pn%d) failed: %v", i, err), nil)
		return nil
	}
	// must be exactly the first k claims of the single writer, in date order
	for n, c := range cls {
		if n >= len(w.claims[i]) || c.BlobRef != w.claims[i][n].Ref || c.Value != w.values[i][n] {
			var got []string
			for _, c := range cls {
				got = append(got, c.Value)
			}
			report("claims-not-prefix/index+corpus", fmt.Sprintf("AppendClaims(pn%d, attr title) = %q: not a prefix of the writer's sequence %q", i, got, w.values[i]), nil)
			return nil
		}
	}
	return []ixRec{{fmt.Sprintf("attr/%d", i), kop{Client: client, Kind: kind, W: 5, V: len(cls), Call: call, Ret: ret}}}
}
