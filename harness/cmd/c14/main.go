// C14 — concurrent clients see linearizable, race-free stores and index.
//
// The workloads run in child processes built with -race (GORACE log_path per child);
// each child records client-boundary histories, checks them per key with porcupine and
// reports JSON lines; the parent merges the results and judges the race logs after the
// children exited.
package main

import (
	"bufio"
	"encoding/json"
	"fmt"
	"io"
	"log"
	"os"
	"path/filepath"
	"sort"
	"strings"
	"sync"
	"time"

	"verif.local/harness/ev"
	"verif.local/harness/sto"
)

const rule = "many short concurrent histories: per backend (11 backends incl. files over a yielding VFS and diskpacked over yielding on-disk indexes, 6 compositions, a read-only union) 2-16 client goroutines x 30-60 calls (receive/fetch/subfetch/stat/batched stat/enumerate/remove/multi-remove) over 6-10 shared blobs plus blobs only their owner writes (write, then read by the same client), with seeded yields/sleeps at the harness-owned lower layers; replica with early acknowledgement runs a directed own-blob program with one slow replica; files in the sync-queue layout (root queue-…: enumerations remove empty shard directories in the background while receives re-create them, with RemoveAll- and rmdir-style VFS) gets extra enumerations and pauses around the directory creation; proxycache over harness-owned cache and origin stores has its own blobs pre-loaded below the cache, the owner's fetch (cache miss) is directly followed by its remove and reads while the cache fill is held at the cache store's boundary; plus index+corpus histories (one writer per permanode, delete claims racing their targets, files/directories/second-signer blobs delivered out of order with the dependency lookup missing right before the dependency is indexed, readers under RLock and through the search handler's entry points; then doomed permanodes whose delete claim arrives first, the background re-indexing of the claim held while the sorted permanode listings and sorted queries are read, and read again once Corpus.IsDeleted says true; finally, on the quiet index, permanodes with camliContent claims of never-seen values are delivered in two waves and after each 2-8 readers that share no harness synchronisation ask for their times at once - Corpus.PermanodeAnyTime/PermanodeTime under RLock, time-constrained and creation-sorted queries, Describe, GetRecentPermanodes, GetClaims - so that any write by a reader is a reported race, and every answer must be what the delivered claims define); a read-only union of three pre-loaded stores is read concurrently; every StatBlobs callback is an unsynchronised accumulation (BlobStatter promises serial calls) with an in-flight counter: a callback entered while another one of the same call runs is a violation, and a race report inside the callback is charged to the store that called it; every key's call/return history is checked with porcupine against a register, fetched bytes against the content, the quiescent index rows and sorted permanode listings against a sequential reference delivery, and every race-detector report with a perkeep frame is a violation; distinct = (backend, per-key interleaving shape) of a key on which a write overlapped another operation"

func sp(kind string, p map[string]any, kids ...*sto.Spec) *sto.Spec {
	return &sto.Spec{Kind: kind, P: p, Kids: kids}
}
func mem() *sto.Spec { return sp("memory", nil) }
func dp(meta string) *sto.Spec {
	return sp("diskpacked", map[string]any{"maxFileSize": 700, "meta": meta})
}

type plan struct {
	spec     *sto.Spec
	mode     string
	weight   int // relative number of histories
	composed bool
	label    string // overrides the compact spec (configurations of the same tree shape that must not share signatures)
}

func plans() []plan {
	return []plan{
		{spec: mem(), weight: 2},
		{spec: sp("localdisk", nil), weight: 2},
		{spec: dp("leveldb"), weight: 3},
		{spec: dp("kv"), weight: 2},
		{spec: dp("memory"), weight: 2}, // the index rows live in a harness-owned KV: yields inside diskpacked's own steps
		{spec: sp("blobpacked", map[string]any{"meta": "memory"}, mem(), mem()), mode: "packfile", weight: 3},
		{spec: sp("encrypt", map[string]any{"meta": "memory"}, mem(), mem()), mode: "compaction", weight: 2},
		{spec: sp("replica", map[string]any{"minWrites": 2}, mem(), mem()), weight: 2},
		{spec: sp("shard", nil, mem(), mem(), mem()), weight: 2},
		{spec: sp("cond", nil, mem(), mem()), weight: 2},
		{spec: sp("overlay", nil, mem(), mem()), weight: 2},
		{spec: sp("namespace", map[string]any{"sibling": "yes"}, mem()), weight: 2},
		{spec: sp("proxycache", map[string]any{"cacheBytes": 300}, mem()), weight: 2},
		// compositions
		{spec: sp("shard", nil, dp("leveldb"), mem()), weight: 2, composed: true},
		{spec: sp("replica", map[string]any{"minWrites": 2}, sp("localdisk", nil), mem()), weight: 2, composed: true},
		{spec: sp("overlay", nil, mem(), dp("kv")), weight: 2, composed: true},
		{spec: sp("namespace", nil, sp("shard", nil, mem(), sp("localdisk", nil))), weight: 2, composed: true},
		{spec: sp("proxycache", map[string]any{"cacheBytes": 300}, dp("leveldb")), weight: 2, composed: true},
		{spec: sp("blobpacked", map[string]any{"meta": "memory"}, mem(), sp("diskpacked", map[string]any{"meta": "leveldb"})), mode: "packfile", weight: 2, composed: true},
		// (new plans go at the end: the position is part of the case ids)
		// early acknowledgement (minWritesForSuccess < replicas): only the directed own-blob program, see jobSpec.Owners
		{spec: sp("replica", map[string]any{"minWrites": 1}, mem(), mem()), mode: "ackearly", weight: 2, label: "replica-min1[memory,memory]"},
		// schedule perturbation inside the file-system steps of files/localdisk and between diskpacked's steps on an on-disk index
		{spec: sp("files-yieldvfs", nil), weight: 3, label: "files"},
		{spec: sp("diskpacked-wrapkv", map[string]any{"maxFileSize": 700, "meta": "leveldb"}), weight: 2, label: "diskpacked"},
		{spec: sp("diskpacked-wrapkv", map[string]any{"maxFileSize": 700, "meta": "kv"}), weight: 1, label: "diskpacked"},
		{spec: sp("diskpacked-wrapkv", map[string]any{"maxFileSize": 700, "meta": "sqlite"}), weight: 1, label: "diskpacked"},
		// sync-queue layout of files/localdisk (root "queue-…"): an enumeration schedules the removal of every
		// empty shard directory it meets, receives re-create them; with OSFS's RemoveDir (RemoveAll) and with
		// rmdir(2) semantics (what the sftp VFS does)
		{spec: sp("files-yieldvfs", map[string]any{"root": "queue-c14"}), mode: "queue", weight: 2, label: "files-queue"},
		{spec: sp("files-yieldvfs", map[string]any{"root": "queue-c14", "rmdir": true}), mode: "queue", weight: 2, label: "files-queue-rmdir"},
		// proxycache whose cache store is harness-owned too: own blobs pre-loaded on the origin only, the
		// owner's fetch (cache miss) is directly followed by its remove, the cache fill is held (jobSpec.Mode cachemiss)
		{spec: sp("proxycache-local", map[string]any{"cacheBytes": 300}), mode: "cachemiss", weight: 2, label: "proxycache[memory]"},
		// union is read-only: pre-loaded subsets (overlapping), clients only read (fetch, stat, batched stat, enumerate);
		// its StatBlobs funnels the subsets' concurrent answers into one serial stream of callbacks
		{spec: sp("union", nil, mem(), mem(), mem()), mode: "readonly", weight: 1},
	}
}

func main() {
	if mode := os.Getenv("VERIF_CHILD"); mode != "" {
		childMain()
		return
	}
	ev.Main("C14", "exploration", rule, run)
}

// ---------------------------------------------------------------- child

func raceCanary() {
	// a deliberate data race in harness code: proves the detector is armed and that the
	// parent reads the right log file.  It is recognised and dropped by the parent.
	var x int
	done := make(chan struct{})
	go func() {
		x = 1
		close(done)
	}()
	x = 2
	<-done
	_ = x
}

type logFilter struct{}

func (logFilter) Write(p []byte) (int, error) { return len(p), nil }

func childMain() {
	log.SetOutput(logFilter{})
	if raceEnabled {
		raceCanary()
	}
	jb, err := os.ReadFile(os.Getenv("C14_JOBS"))
	if err != nil {
		fmt.Println("C14 child: cannot read jobs:", err)
		os.Exit(3)
	}
	var jobs []jobSpec
	if err := json.Unmarshal(jb, &jobs); err != nil {
		fmt.Println("C14 child: bad jobs:", err)
		os.Exit(3)
	}
	out, err := os.OpenFile(os.Getenv("C14_OUT"), os.O_CREATE|os.O_APPEND|os.O_WRONLY, 0o644)
	if err != nil {
		fmt.Println("C14 child: cannot open out:", err)
		os.Exit(3)
	}
	emit := func(v any) {
		b, err := json.Marshal(v)
		if err != nil {
			b, _ = json.Marshal(map[string]any{"error": err.Error()})
		}
		out.Write(append(b, '\n'))
	}
	root := ev.Scratch("c14child")
	for _, j := range jobs {
		emit(map[string]any{"start": j.ID})
		var res *histResult
		switch j.Kind {
		case "index":
			res = runIndexHistory(root, j)
		default:
			res = runStoreHistory(root, j)
		}
		emit(map[string]any{"result": res})
	}
	emit(map[string]any{"done": true})
	out.Close()
	os.RemoveAll(root)
	os.Exit(0)
}

// ---------------------------------------------------------------- parent

type childLine struct {
	Start  string      `json:"start"`
	Result *histResult `json:"result"`
	Done   bool        `json:"done"`
}

type batch struct {
	name string
	jobs []jobSpec
}

func run(r *ev.Run) {
	log.SetOutput(io.Discard)
	r.Assume("call and return stamps are ticks of one process-global atomic counter, taken before the call and after the reply (and after the fetched body was read) at the public Storage / Index boundary")
	r.Assume("multi-key calls (batched stat, enumerate, multi-remove) are decomposed into per-key operations sharing the call's interval; an enumeration page says nothing about keys beyond its last ref when it is full")
	r.Assume("a failed, panicked or never-returning call may or may not have taken effect; the random histories use replica with minWritesForSuccess = number of replicas only")
	r.Assume("replica with minWritesForSuccess < replicas acknowledges a receive while uploads to the other replicas are still in flight (documented: writes wait for minWritesForSuccess), so a remove issued right after such a receive may be overtaken; that configuration therefore only runs the directed own-blob program: blobs pre-loaded on every replica, removed once by their owner (every later read must say absent), received once afterwards (every later read must say present), shared blobs never removed")
	r.Assume("own blobs: written by one client only, one call at a time; their histories are judged like every other key, under the class nonlinearizable-own-blob (no write-write race can explain an anomaly there)")
	r.Assume("a blob whose index dependencies (file: its chunks; directory: its static-set; signed blob: the signer's public key; delete claim: its target) were all acknowledged before its delivery started is indexed synchronously (a definite write); otherwise it is indexed asynchronously (open-ended write) and must be indexed at quiescence, when the index rows must equal those of a sequential delivery of the same blobs in dependency order")
	r.Assume("index readers hold Index.RLock around corpus/index reads, as pkg/search does; the search handler's entry points are called without any harness lock; a delete claim delivered before (or while) its target is delivered is indexed asynchronously, so its effect is an open-ended write, checked for presence after quiescence")
	r.Assume("the sorted permanode listings (Corpus.EnumeratePermanodesCreated / LastModified, sorted permanode queries) list a permanode iff it is indexed, has a claim and Corpus.IsDeleted says false: per doomed permanode one register whose reads are the listings and IsDeleted = true (read as 'not listed'); the merge of an out-of-order delete claim is an open-ended write, checked explicitly after quiescence")
	r.Assume("sync-queue layout: the background removal of an empty shard directory is not a client call; no receive may fail and no acknowledged blob may disappear because of it (both VFS flavours of RemoveDir: OSFS and rmdir(2) as the sftp VFS)")
	r.Assume("proxycache cachemiss mode: the write that fills the cache for an owner's fetch is held at the cache store's ReceiveBlob until the owner's following remove returned or 4 ms passed (schedule perturbation only)")
	r.Assume("BlobStatter.StatBlobs calls fn in serial (pkg/blobserver/interface.go): the clients' callback accumulates into plain unsynchronised memory like the callers in the tree do; two callbacks of one call in flight at once, or a race report whose accesses are both in that callback below a perkeep frame, are the store's fault")
	r.Assume("read-only phase of the index histories: nothing is delivered while the readers run and the readers share no harness lock, atomic or channel, so every race report there is between two queries under the index read lock; the answers must equal what the delivered claims define (content permanode time = date of its newest camliContent set claim)")
	r.Assume("race oracle = Go race detector reports (GORACE log_path) of the child processes; a report is judged when a perkeep frame is on either access stack; signature = innermost perkeep function of each access stack")
	if !raceEnabled {
		r.Inconclusive("this binary was not built with -race: the race oracle is not armed (run through ./check)")
	}
	scratch := ev.Scratch("c14")
	defer os.RemoveAll(scratch)

	// ---- fixed case list
	var storeJobs, indexJobs []jobSpec
	ps := plans()
	perWeight := r.Pick(3, 80)
	for pi, p := range ps {
		n := p.weight * perWeight
		label := compactSpec(p.spec)
		if p.label != "" {
			label = p.label
		}
		rng := r.Rand(fmt.Sprintf("store/%d/%s", pi, p.spec))
		for h := 0; h < n; h++ {
			j := jobSpec{
				ID: fmt.Sprintf("s%d.%d;", pi, h), Kind: "store", Composed: p.composed, Label: label, Spec: p.spec, Seed: rng.Int63n(1 << 40),
				Clients: []int{2, 3, 4, 6, 8, 12, 16}[(h+pi)%7], Ops: 30 + rng.Intn(31), Blobs: 6 + rng.Intn(5),
			}
			j.Owners, j.OwnBlobs = 3, 2
			if j.Clients < j.Owners {
				j.Owners = j.Clients
			}
			if p.mode == "ackearly" {
				j.Mode, j.Owners = p.mode, j.Clients
			} else if p.mode == "queue" || p.mode == "cachemiss" {
				j.Mode = p.mode
			} else if p.mode == "readonly" {
				j.Mode, j.Owners, j.OwnBlobs = p.mode, 0, 0
			} else if p.mode != "" && h%2 == 0 {
				j.Mode = p.mode
				j.PackSafe = p.mode == "packfile" && h%4 == 0
				if p.mode == "packfile" {
					// big blobs: keep the history short
					if j.Clients > 8 {
						j.Clients = 8
					}
					j.Ops = 30 + rng.Intn(11)
				}
			}
			storeJobs = append(storeJobs, j)
		}
	}
	irng := r.Rand("index")
	kvs := []string{"memory", "memory", "leveldb", "memory"}
	if r.Thorough() {
		kvs = []string{"memory", "memory", "leveldb", "kv", "memory", "sqlite"}
	}
	for h := 0; h < r.Pick(12, 240); h++ {
		indexJobs = append(indexJobs, jobSpec{
			ID: fmt.Sprintf("i%d;", h), Kind: "index", Label: "index+corpus", Seed: irng.Int63n(1 << 40),
			Permanodes: 3, Claims: 8, Victims: 3, Readers: []int{2, 4, 6, 8, 12}[h%5], Reads: 40 + irng.Intn(41), KV: kvs[h%len(kvs)],
			Deps: true, Handler: true, Tail: true, Content: true,
		})
	}
	filter := func(js []jobSpec) []jobSpec {
		var out []jobSpec
		for _, j := range js {
			if r.Only(j.ID) {
				out = append(out, j)
			}
		}
		return out
	}
	storeJobs, indexJobs = filter(storeJobs), filter(indexJobs)

	// ---- batches (round-robin so that every batch sees every backend)
	nStoreBatches := r.Pick(4, 12)
	nIndexBatches := r.Pick(1, 4)
	var batches []*batch
	for i := 0; i < nStoreBatches; i++ {
		batches = append(batches, &batch{name: fmt.Sprintf("stores%d", i)})
	}
	// order jobs so that consecutive ones differ in backend
	sort.SliceStable(storeJobs, func(a, b int) bool {
		ha, hb := histNo(storeJobs[a].ID), histNo(storeJobs[b].ID)
		return ha < hb
	})
	for i, j := range storeJobs {
		b := batches[i%nStoreBatches]
		b.jobs = append(b.jobs, j)
	}
	for i := 0; i < nIndexBatches; i++ {
		b := &batch{name: fmt.Sprintf("index%d", i)}
		for k, j := range indexJobs {
			if k%nIndexBatches == i {
				b.jobs = append(b.jobs, j)
			}
		}
		batches = append(batches, b)
	}

	// ---- run the children
	var mu sync.Mutex
	totalHist, linTimeouts, hung, lost := 0, 0, 0, 0
	sem := make(chan struct{}, r.Pick(5, 6))
	var wg sync.WaitGroup
	var racePrefixes []string
	for bi, b := range batches {
		if len(b.jobs) == 0 {
			continue
		}
		prefix := filepath.Join(scratch, fmt.Sprintf("race-%s", b.name))
		racePrefixes = append(racePrefixes, prefix)
		wg.Add(1)
		go func(bi int, b *batch, prefix string) {
			defer wg.Done()
			sem <- struct{}{}
			defer func() { <-sem }()
			remaining := b.jobs
			for attempt := 0; attempt < 4 && len(remaining) > 0; attempt++ {
				jobsPath := filepath.Join(scratch, fmt.Sprintf("%s-%d.jobs.json", b.name, attempt))
				outPath := filepath.Join(scratch, fmt.Sprintf("%s-%d.out.jsonl", b.name, attempt))
				jb, _ := json.Marshal(remaining)
				os.WriteFile(jobsPath, jb, 0o644)
				childScratch := filepath.Join(scratch, fmt.Sprintf("%s-%d.d", b.name, attempt))
				os.MkdirAll(childScratch, 0o755)
				env := []string{
					"VERIF_CHILD=" + b.name, "C14_JOBS=" + jobsPath, "C14_OUT=" + outPath,
					"VERIF_SCRATCH=" + childScratch, "GORACE=" + goraceWith(prefix),
				}
				limit := time.Duration(r.Pick(15, 60)) * time.Minute
				out, code, timedOut := ev.Child(env, limit)
				results, started, done := readChildOut(outPath)
				os.RemoveAll(childScratch)
				mu.Lock()
				for _, res := range results {
					totalHist++
					mergeResult(r, res)
					linTimeouts += res.LinTimeouts
					for _, e := range res.Events {
						if e == "hung" {
							hung++
						}
					}
				}
				mu.Unlock()
				if done && code == 0 {
					remaining = nil
					break
				}
				// the child ended early
				running := ""
				if len(started) > len(results) {
					running = started[len(started)-1]
				}
				var runningJob *jobSpec
				var rest []jobSpec
				seen := map[string]bool{}
				for _, res := range results {
					seen[res.ID] = true
				}
				for i := range remaining {
					j := remaining[i]
					switch {
					case seen[j.ID]:
					case j.ID == running:
						jj := j
						runningJob = &jj
					default:
						rest = append(rest, j)
					}
				}
				remaining = rest
				mu.Lock()
				lost++
				mu.Unlock()
				dump := crashHead(out)
				switch {
				case timedOut:
					r.Inconclusive(fmt.Sprintf("child %s did not finish within %v (running %s); it was stopped", b.name, limit, running))
				case ev.PerkeepFrames(dump) != "":
					fn := firstPerkeepFunc(dump)
					r.Violation("process-died/"+fn, fmt.Sprintf("the workload process died (exit code %d) while running history %s:\n%s", code, running, truncateLines(dump, 60)),
						map[string]any{"case_id": running, "job": runningJob, "dump": truncateLines(dump, 120)})
				default:
					r.Inconclusive(fmt.Sprintf("child %s exited with code %d outside perkeep code while running %s: %s", b.name, code, running, truncateLines(tail(out, 30), 30)))
				}
			}
			if len(remaining) > 0 {
				r.Inconclusive(fmt.Sprintf("batch %s: %d histories were never run (the child kept dying)", b.name, len(remaining)))
			}
		}(bi, b, prefix)
	}
	wg.Wait()

	// ---- race oracle
	judgeRaces(r, racePrefixes)

	// ---- coverage requirements
	r.Extra("inconclusive_cases", map[string]int{"linearizability_timeouts": linTimeouts, "hung_histories": hung, "children_died": lost})
	if totalHist > 0 && (linTimeouts+hung)*20 > totalHist {
		r.Inconclusive(fmt.Sprintf("%d porcupine timeouts and %d hung histories out of %d histories", linTimeouts, hung, totalHist))
	}
	if os.Getenv("VERIF_ONLY") == "" {
		r.Require("backend_kinds", "memory", "localdisk", "diskpacked", "blobpacked", "encrypt", "replica", "shard", "cond", "overlay", "namespace", "proxycache", "files", "files-queue", "files-queue-rmdir", "union")
		// one StatBlobs call delivered several callbacks to the client's unsynchronised callback, on every kind of store;
		// and from more than one goroutine where the store fans the call out
		r.Require("stat_several_callbacks_kinds", "memory", "localdisk", "diskpacked", "blobpacked", "encrypt", "replica", "shard", "cond", "overlay", "namespace", "proxycache", "files", "files-queue", "files-queue-rmdir", "union")
		r.Require("stat_callbacks_from_several_goroutines_kinds", "shard", "replica", "diskpacked", "files")
		r.Require("events", "overlapping-operations", "pack-rollover", "zip-packed", "encrypt-compaction", "index+corpus", "race-logs-located", "race-detector-canary-reported",
			"own-blob-sequences", "own-blobs-preloaded-on-every-replica", "slow-replica-remove",
			"queue-empty-dir-removed-by-enumeration", "queue-receive-recreated-removed-dir",
			"own-blobs-preloaded-below-the-cache", "own-fetch-missed-the-cache", "cache-fill-held-for-the-owners-remove",
			"vfs-step-yields", "ondisk-kv-yields-leveldb", "ondisk-kv-yields-kv", "ondisk-kv-yields-sqlite",
			"index-out-of-order-file", "index-out-of-order-directory", "index-out-of-order-permanode2", "index-out-of-order-claim2",
			"index-dep-lookup-missed", "index-dep-miss-held", "index-miss-acted-on-after-dep-indexed", "index-rows-compared-with-sequential-reference",
			"index-delete-reindex-held-while-listing", "index-listing-after-deletion-became-visible", "index-sorted-listings-compared-with-sequential-reference",
			"index-readonly-phase-concurrent-readers", "index-readonly-readers-overlapped-in-time",
			"stat-several-callbacks-in-one-call", "stat-callbacks-from-several-goroutines")
		r.Require("history_kinds", "store", "store-composition", "index")
		r.Require("index_ops", "GetBlobMeta", "GetFileInfo", "PermanodeAttrValue", "AppendClaims", "Query", "Query-mod", "Query-created", "EnumeratePermanodesCreated", "EnumeratePermanodesLastModified", "GetRecentPermanodes", "Describe", "GetClaims", "EdgesTo", "GetPermanodesWithAttr",
			"content-PermanodeAnyTime", "content-PermanodeTime", "content-Query-time", "content-Query-created-asc", "content-Query-created",
			"content-Describe", "content-GetRecentPermanodes", "content-GetClaims", "content-PermanodeAttrValue")
	}
}

func histNo(id string) int {
	var a, b int
	fmt.Sscanf(id, "s%d.%d;", &a, &b)
	return b*1000 + a
}

func readChildOut(path string) (results []*histResult, started []string, done bool) {
	f, err := os.Open(path)
	if err != nil {
		return
	}
	defer f.Close()
	sc := bufio.NewScanner(f)
	sc.Buffer(make([]byte, 1<<20), 1<<28)
	for sc.Scan() {
		var l childLine
		if json.Unmarshal(sc.Bytes(), &l) != nil {
			continue
		}
		switch {
		case l.Start != "":
			started = append(started, l.Start)
		case l.Result != nil:
			results = append(results, l.Result)
		case l.Done:
			done = true
		}
	}
	return
}

var sampled = map[string]int{}

func mergeResult(r *ev.Run, res *histResult) {
	r.Count("histories", 1)
	r.Count("histories_"+res.Kind, 1)
	r.Eval(res.Evals)
	r.Count("partitions_checked", res.Partitions)
	r.Count("keys_with_write_overlap", res.OverlapKeys)
	r.Count("history_ms_total", int(res.ElapsedMs))
	for op, n := range res.Ops {
		r.Count("ops_"+op, n)
		r.Count("ops@"+res.Label, n)
	}
	if res.Kind == "index" {
		for op := range res.Ops {
			r.Note("index_ops", op)
		}
	}
	for _, s := range res.Shapes {
		r.Distinct(s)
	}
	for _, e := range res.Events {
		r.Note("events", e)
		switch e {
		case "stat-several-callbacks-in-one-call":
			for _, k := range kindsOfLabel(res.Label) {
				r.Note("stat_several_callbacks_kinds", k)
			}
		case "stat-callbacks-from-several-goroutines":
			for _, k := range kindsOfLabel(res.Label) {
				r.Note("stat_callbacks_from_several_goroutines_kinds", k)
			}
		}
	}
	if res.OverlapKeys > 0 {
		r.Note("events", "overlapping-operations")
	}
	r.Note("backends", res.Label)
	r.Note("max_concurrency", fmt.Sprintf("%02d", res.MaxConc))
	r.Note("history_kinds", res.Kind)
	for _, k := range kindsOfLabel(res.Label) {
		r.Note("backend_kinds", k)
	}
	for _, m := range res.Inconclusive {
		r.Count("inconclusive_histories", 1)
		fmt.Printf("NOTE property=C14 inconclusive history %s: %s\n", res.ID, truncateLines(m, 6))
	}
	for _, v := range res.Viols {
		// every signature that fired, whether or not a known-findings key (possibly a wildcard) covers it
		r.Note("signatures_fired", "C14/"+v.Sig)
		r.Violation(v.Sig, v.What, v.Witness)
	}
	if res.Sample != nil && sampled[res.Kind+res.Label] == 0 && (res.Kind == "index" || len(sampled) < 4) {
		sampled[res.Kind+res.Label]++
		r.Sample(res.Sample)
	}
}

func kindsOfLabel(l string) []string {
	var out []string
	for _, f := range strings.FieldsFunc(l, func(r rune) bool { return r == '[' || r == ']' || r == ',' }) {
		if f != "" && f != "index+corpus" {
			out = append(out, f)
		}
	}
	return out
}

func crashHead(out string) string {
	ls := strings.Split(out, "\n")
	for i, l := range ls {
		if strings.HasPrefix(l, "panic:") || strings.HasPrefix(l, "fatal error:") || strings.Contains(l, "[signal ") {
			end := i + 400
			if end > len(ls) {
				end = len(ls)
			}
			return strings.Join(ls[i:end], "\n")
		}
	}
	return ""
}

func tail(s string, n int) string {
	ls := strings.Split(strings.TrimRight(s, "\n"), "\n")
	if len(ls) > n {
		ls = ls[len(ls)-n:]
	}
	return strings.Join(ls, "\n")
}

func truncateLines(s string, n int) string {
	ls := strings.Split(s, "\n")
	if len(ls) > n {
		ls = append(ls[:n], fmt.Sprintf("… (+%d lines)", len(ls)-n))
	}
	return strings.Join(ls, "\n")
}

// firstPerkeepFunc names the innermost perkeep function of a goroutine dump.
func firstPerkeepFunc(dump string) string {
	for _, l := range strings.Split(dump, "\n") {
		l = strings.TrimSpace(l)
		if strings.HasPrefix(l, "perkeep.org/") {
			if i := strings.LastIndex(l, "("); i > 0 {
				l = l[:i]
			}
			return shortFunc(l)
		}
	}
	return "unknown"
}

// judgeRaces parses the race logs of all children and reports every deduplicated report
// that involves perkeep code.
func judgeRaces(r *ev.Run, prefixes []string) {
	type group struct {
		sig      string
		class    string
		first    raceBlock
		n        int
		stacks   map[string]int
		outer    map[string]int
		children map[string]bool
	}
	groups := map[string]*group{}
	total, canary, filesFound := 0, 0, 0
	childrenWithLog := 0
	addBlocks := func(prefix string, own bool) {
		files, blocks := readRaceLogs(prefix)
		filesFound += len(files)
		if len(files) > 0 && !own {
			childrenWithLog++
		}
		for _, b := range blocks {
			if strings.Contains(b.Text, "main.raceCanary") {
				canary++
				continue
			}
			total++
			class, sites, outer := b.classify()
			sig := strings.Join(sites, "|")
			g := groups[class+" "+sig]
			if g == nil {
				g = &group{sig: sig, class: class, first: b, stacks: map[string]int{}, outer: map[string]int{}, children: map[string]bool{}}
				groups[class+" "+sig] = g
			}
			g.n++
			g.stacks[b.stackKey()]++
			g.outer[strings.Join(outer, "|")]++
			g.children[filepath.Base(prefix)] = true
		}
	}
	for _, p := range prefixes {
		addBlocks(p, false)
	}
	if own := goraceOpt("log_path"); own != "" {
		addBlocks(own, true)
	}
	if childrenWithLog > 0 {
		r.Note("events", "race-logs-located")
	}
	if canary > 0 {
		r.Note("events", "race-detector-canary-reported")
	}
	var keys []string
	for k := range groups {
		keys = append(keys, k)
	}
	sort.Strings(keys)
	byClass := map[string]int{}
	dedupStacks := 0
	var listed []map[string]any
	for _, k := range keys {
		g := groups[k]
		byClass[g.class] += g.n
		dedupStacks += len(g.stacks)
		entry := map[string]any{"class": g.class, "sites": g.sig, "reports": g.n, "distinct_stack_pairs": len(g.stacks), "outermost_perkeep_entry_points": g.outer}
		if g.class == "perkeep" {
			r.Note("signatures_fired", "C14/race/"+g.sig)
			r.Violation("race/"+g.sig,
				fmt.Sprintf("data race reported by the Go race detector (%d reports, %d distinct stack pairs, children %v); entry points %v:\n%s",
					g.n, len(g.stacks), keysOf(g.children), keysOfInt(g.outer), truncateLines(g.first.Text, 70)),
				map[string]any{"sites": g.sig, "reports": g.n, "distinct_stack_pairs": len(g.stacks), "entry_points": g.outer, "block": g.first.Text})
		} else {
			entry["block"] = truncateLines(g.first.Text, 40)
			fmt.Printf("NOTE property=C14 race report outside perkeep (%s, not judged): %s\n", g.class, g.sig)
		}
		if len(listed) < 40 {
			listed = append(listed, entry)
		}
	}
	r.Eval(total + canary)
	r.Extra("race_reports", map[string]any{
		"log_files": filesFound, "blocks_total": total, "canary_blocks": canary,
		"blocks_with_perkeep_frame": byClass["perkeep"], "blocks_third_party_only": byClass["third-party"], "blocks_harness_only": byClass["harness"],
		"deduplicated_by_site_pair": len(groups), "deduplicated_by_stack_pair": dedupStacks, "groups": listed,
	})
}

func keysOf(m map[string]bool) []string {
	var out []string
	for k := range m {
		out = append(out, k)
	}
	sort.Strings(out)
	return out
}

func keysOfInt(m map[string]int) []string {
	var out []string
	for k := range m {
		out = append(out, k)
	}
	sort.Strings(out)
	return out
}
