package main

import (
	"archive/zip"
	"bytes"
	"encoding/json"
	"fmt"
	"io"
	"sort"
	"strings"
	"sync"

	"perkeep.org/pkg/blob"

	"verif.local/harness/sto"
)

const (
	blobSizeLimit   = 16 << 20 // the documented blob size limit
	zipManifestPath = "camlistore/camlistore-pack-manifest.json"
)

type problem struct{ Sig, What string }

// zipManifest mirrors the documented JSON of camlistore-pack-manifest.json.
type zipManifest struct {
	WholeRef        string `json:"wholeRef"`
	WholeSize       int64  `json:"wholeSize"`
	WholePartIndex  int    `json:"wholePartIndex"`
	DataBlobsOrigin string `json:"dataBlobsOrigin"`
	DataBlobs       []struct {
		Blob    string `json:"blob"`    // name in the package documentation
		BlobRef string `json:"blobRef"` // name actually written (blob.SizedRef)
		Size    int64  `json:"size"`
		Offset  int64  `json:"offset"`
	} `json:"dataBlobs"`
}

// zipInfo is what the validation of one zip blob found.
type zipInfo struct {
	Ref       blob.Ref
	Size      int
	Name      string // first entry
	First     []byte // bytes of the first entry
	Whole     blob.Ref
	Part      int
	Contained map[blob.Ref]bool // logical blobs inside (data chunks and schema blobs)
	Repeats   int               // data blobs listed more than once in the manifest
	Repeated  map[blob.Ref]bool // those blobs
	Problems  []problem
	parsed    bool
}

// validateZip checks one blob of `large` on its own: valid blob within the size limit, a zip,
// first entry = file data whose manifest offsets are consistent with the bytes.
func validateZip(w *world, ref blob.Ref, data []byte, limit int) *zipInfo {
	zi := &zipInfo{Ref: ref, Size: len(data), Contained: map[blob.Ref]bool{}}
	bad := func(sig, f string, a ...any) {
		zi.Problems = append(zi.Problems, problem{sig, fmt.Sprintf("zip %v (%d bytes): ", ref, len(data)) + fmt.Sprintf(f, a...)})
	}
	if len(data) > limit {
		bad("zip-too-large", "larger than the limit %d", limit)
	}
	if sto.RefOf(ref.HashName(), data) != ref {
		bad("zip-invalid/ref", "bytes do not hash to the ref")
	}
	zr, err := zip.NewReader(bytes.NewReader(data), int64(len(data)))
	if err != nil {
		bad("zip-invalid/parse", "archive/zip: %v", err)
		return zi
	}
	if len(zr.File) < 2 {
		bad("zip-invalid/entries", "%d entries", len(zr.File))
		return zi
	}
	readEntry := func(f *zip.File) ([]byte, error) {
		rc, err := f.Open()
		if err != nil {
			return nil, err
		}
		defer rc.Close()
		return io.ReadAll(rc)
	}
	f0 := zr.File[0]
	zi.Name = f0.Name
	if strings.HasPrefix(f0.Name, "camlistore/") {
		bad("zip-invalid/first-entry", "first entry is %q, not the file data", f0.Name)
		return zi
	}
	first, err := readEntry(f0)
	if err != nil {
		bad("zip-invalid/first-entry", "reading first entry: %v", err)
		return zi
	}
	zi.First = first
	if f0.Method == zip.Store {
		// stored uncompressed: the bytes must sit contiguously inside the blob
		if off, err := f0.DataOffset(); err != nil || off < 0 || int(off)+len(first) > len(data) || !bytes.Equal(data[off:int(off)+len(first)], first) {
			bad("zip-invalid/first-entry", "stored first entry is not a contiguous range of the zip blob")
		}
	} else {
		bad("zip-invalid/first-entry", "first entry is compressed (method %d): not contiguous file content", f0.Method)
	}
	var mf zipManifest
	haveMf := false
	for _, f := range zr.File[1:] {
		b, err := readEntry(f)
		if err != nil {
			bad("zip-invalid/entry", "reading %q: %v", f.Name, err)
			continue
		}
		switch {
		case f.Name == zipManifestPath:
			if err := json.Unmarshal(b, &mf); err != nil {
				bad("zip-invalid/manifest", "manifest JSON: %v", err)
			} else {
				haveMf = true
			}
		case strings.HasPrefix(f.Name, "camlistore/") && strings.HasSuffix(f.Name, ".json"):
			br, ok := blob.Parse(strings.TrimSuffix(strings.TrimPrefix(f.Name, "camlistore/"), ".json"))
			if !ok {
				bad("zip-invalid/schema-entry", "entry %q is not named after a blobref", f.Name)
				continue
			}
			if sto.RefOf(br.HashName(), b) != br {
				bad("zip-invalid/schema-entry", "entry %q does not hash to its name", f.Name)
			}
			if _, ok := w.byRef[br]; !ok {
				bad("zip-invalid/schema-entry", "entry %q is no blob any client uploaded", f.Name)
			}
			zi.Contained[br] = true
		default:
			bad("zip-invalid/entries", "unexpected entry %q", f.Name)
		}
	}
	if !haveMf {
		bad("zip-invalid/manifest", "no usable %s entry", zipManifestPath)
		return zi
	}
	whole, ok := blob.Parse(mf.WholeRef)
	if !ok {
		bad("zip-invalid/manifest", "wholeRef %q", mf.WholeRef)
		return zi
	}
	zi.Whole, zi.Part = whole, mf.WholePartIndex
	files := w.fileByWhole(whole)
	if len(files) == 0 {
		bad("zip-invalid/manifest", "wholeRef %v is not the content of any uploaded file", whole)
		return zi
	}
	content := files[0].Content
	if mf.WholeSize != int64(len(content)) {
		bad("zip-invalid/manifest", "wholeSize %d, file has %d bytes", mf.WholeSize, len(content))
	}
	nameOK := false
	for _, f := range files {
		if f.Spec.Name == f0.Name {
			nameOK = true
		}
	}
	if !nameOK {
		bad("zip-invalid/first-entry", "first entry name %q is not the file's name", f0.Name)
	}
	if org, ok := blob.Parse(mf.DataBlobsOrigin); !ok || sto.RefOf(org.HashName(), first) != org {
		bad("zip-invalid/manifest", "dataBlobsOrigin %q is not the hash of the first entry", mf.DataBlobsOrigin)
	}
	// manifest offsets vs. data
	var pos int64
	seen := map[blob.Ref]int{}
	okOffsets := true
	for i, db := range mf.DataBlobs {
		if db.Blob == "" {
			db.Blob = db.BlobRef
		}
		br, ok := blob.Parse(db.Blob)
		if !ok || db.Size < 0 || db.Offset < 0 || db.Offset+db.Size > int64(len(first)) {
			bad("zip-invalid/manifest-offsets", "dataBlobs[%d] = %+v lies outside the first entry (%d bytes)", i, db, len(first))
			okOffsets = false
			break
		}
		if db.Offset != pos {
			bad("zip-invalid/manifest-offsets", "dataBlobs[%d] offset %d, expected %d (blobs are concatenated)", i, db.Offset, pos)
			okOffsets = false
		}
		if sto.RefOf(br.HashName(), first[db.Offset:db.Offset+db.Size]) != br {
			bad("zip-invalid/manifest-offsets", "dataBlobs[%d]: first entry [%d,+%d) does not hash to %v", i, db.Offset, db.Size, br)
			okOffsets = false
		}
		seen[br]++
		zi.Contained[br] = true
		pos = db.Offset + db.Size
	}
	if okOffsets && pos != int64(len(first)) {
		bad("zip-invalid/manifest-offsets", "dataBlobs cover %d of the %d bytes of the first entry", pos, len(first))
	}
	for br, n := range seen {
		if n > 1 {
			zi.Repeats++
			if zi.Repeated == nil {
				zi.Repeated = map[blob.Ref]bool{}
			}
			zi.Repeated[br] = true
		}
	}
	// first entry = contiguous file content
	if bytes.Index(content, first) < 0 {
		bad("zip-invalid/first-entry-content", "first entry (%d bytes) is not a contiguous slice of the file", len(first))
	} else if mf.WholePartIndex == 0 && !bytes.HasPrefix(content, first) {
		bad("zip-invalid/first-entry-content", "part 0 does not start at the beginning of the file")
	}
	zi.parsed = true
	return zi
}

// zipCache validates every distinct zip of a case once.
type zipCache struct {
	limit  int // size limit of a zip blob in this case
	mu     sync.Mutex
	m      map[blob.Ref]*zipInfo
	groups map[string]bool
}

func (zc *zipCache) peek(ref blob.Ref) *zipInfo {
	zc.mu.Lock()
	defer zc.mu.Unlock()
	return zc.m[ref]
}

func (zc *zipCache) get(w *world, ref blob.Ref, data []byte) (zi *zipInfo, fresh bool) {
	zc.mu.Lock()
	defer zc.mu.Unlock()
	if zc.m == nil {
		zc.m = map[blob.Ref]*zipInfo{}
		zc.groups = map[string]bool{}
	}
	if zi, ok := zc.m[ref]; ok {
		return zi, false
	}
	zi = validateZip(w, ref, data, zc.limit)
	zc.m[ref] = zi
	return zi, true
}

// checkParts checks, for the zips of one store state, that the first entry of part i of a
// pack is the file content at the offset the manifests claim: the sum of the data of parts
// 0..i-1 of the same pack.
func (zc *zipCache) checkParts(w *world, zis []*zipInfo) []problem {
	type gkey struct {
		whole blob.Ref
		name  string
	}
	groups := map[gkey][]*zipInfo{}
	for _, zi := range zis {
		if zi.parsed {
			k := gkey{zi.Whole, zi.Name}
			groups[k] = append(groups[k], zi)
		}
	}
	var out []problem
	for k, g := range groups {
		sort.Slice(g, func(i, j int) bool {
			if g[i].Part != g[j].Part {
				return g[i].Part < g[j].Part
			}
			return g[i].Ref.String() < g[j].Ref.String()
		})
		id := k.name
		for _, zi := range g {
			id += "|" + zi.Ref.String()
		}
		zc.mu.Lock()
		done := zc.groups[id]
		zc.groups[id] = true
		zc.mu.Unlock()
		if done {
			continue
		}
		content := w.fileByWhole(k.whole)[0].Content
		var off int64
		for i, zi := range g {
			if zi.Part != i {
				break // not a gap-free sequence of parts from 0: positions are not determined
			}
			end := off + int64(len(zi.First))
			if end > int64(len(content)) || !bytes.Equal(content[off:end], zi.First) {
				out = append(out, problem{"zip-invalid/first-entry-offset",
					fmt.Sprintf("zip %v is part %d of %q: its first entry (%d bytes) differs from the file content at offset %d", zi.Ref, zi.Part, k.name, len(zi.First), off)})
				break
			}
			off = end
		}
	}
	return out
}
