package main

import (
	"bytes"
	"context"
	"errors"
	"fmt"
	"io"
	"math/rand"
	"os"
	"runtime"
	"strings"
	"time"

	"perkeep.org/pkg/blob"
	"perkeep.org/pkg/blobserver"

	"verif.local/harness/ev"
	"verif.local/harness/sto"
)

// site says where an audit happens; it becomes the tail of every signature.
type site struct {
	r       *ev.Run
	w       *world
	Variant string // live | none | fast | full | zips-alone-fast | zips-alone-full
	Phase   string // pack phase of the crash point (or of the step, for live audits)
	Stage   string // restart | after-remove | re-restart | resumed | resumed-restart | live
	K       int64
	extra   func() map[string]any
	lw      *lower    // the lower layers under the store being audited
	zc      *zipCache // validated zips of the case
	// wholeSeen: outcome of the last wholeAudit per whole-file ref: "served" (every probed offset
	// opened and delivered exactly the file from there), "notexist" (every probed offset answered
	// os.ErrNotExist), "mixed" (anything else)
	wholeSeen map[blob.Ref]string
}

// dupCause explains from the lower layers why a blob could be listed twice.
func (s *site) dupCause(ref blob.Ref) string {
	if s.lw == nil || s.zc == nil {
		return "unknown"
	}
	_, inSmall := s.lw.smallData(ref)
	zips, repeated := 0, false
	for _, zr := range s.lw.largeRefs() {
		zi := s.zipOf(zr)
		if zi.Contained[ref] {
			zips++
		}
		if zi.Repeated[ref] {
			repeated = true
		}
	}
	switch {
	case inSmall && zips > 0:
		return "loose-and-zip-copy"
	case zips > 1:
		return "in-two-zips"
	case repeated:
		return "repeated-in-manifest"
	}
	return "unknown"
}

// leftCause explains from the lower layers why a removed blob is still served.
func (s *site) leftCause(ref blob.Ref) string {
	if s.lw == nil {
		return "unknown"
	}
	if _, ok := s.lw.smallData(ref); ok {
		return "loose-copy-left"
	}
	if _, err := s.lw.meta.Get("b:" + ref.String()); err == nil {
		return "meta-row-left"
	}
	return "unknown"
}

func (s *site) tail() string { return s.Variant + "/" + s.Phase }

func (s *site) replay() map[string]any {
	m := map[string]any{"case_id": s.w.Spec.ID, "spec": s.w.Spec, "crash_at_call": s.K, "phase": s.Phase, "recovery": s.Variant, "stage": s.Stage}
	if s.extra != nil {
		for k, v := range s.extra() {
			m[k] = v
		}
	}
	return m
}

func (s *site) viol(sig, what string) {
	if s.w.TwoSizesFullLast {
		// the file names one blob with two part sizes, the full one last: reported per oracle
		// class under a prefix of its own, without the recovery/phase tail (see world.go)
		sig = "two-part-sizes/" + strings.TrimSuffix(sig, "/"+s.tail())
	}
	s.r.Violation(sig, fmt.Sprintf("[%s stage=%s k=%d] %s", s.w.Spec.ID, s.Stage, s.K, what), s.replay())
}

// report maps the reference-map checker's classes onto the C04 signatures.
func (s *site) report(removed map[blob.Ref]bool) func(sig, what string) {
	return func(sig, what string) {
		class, rest, _ := strings.Cut(sig, "/")
		op := rest
		if i := strings.LastIndex(rest, "."); i >= 0 {
			op = rest[i+1:]
		}
		switch class {
		case "present-missing":
			s.viol("acked-lost/"+s.tail(), op+": "+what)
		case "content":
			s.viol("content/"+op+"/"+s.tail(), what)
		case "enum-dup":
			s.viol("enum-dup/"+s.tail(), what)
		case "enum-paging":
			if strings.HasSuffix(what, " 0 times") {
				s.viol("enum-missing/"+s.tail(), what)
			} else {
				s.viol("enum-dup/"+s.tail(), what)
			}
		case "enum-missing":
			s.viol("enum-missing/"+s.tail(), what)
		case "absent-served":
			// a blob the reference map says is absent: either never stored, or removed by an acknowledged remove
			var hit blob.Ref
			at := -1
			for r := range removed {
				if i := strings.LastIndex(what, r.String()); i > at {
					hit, at = r, i
				}
			}
			if at >= 0 {
				s.viol("removed-still-served/"+s.leftCause(hit)+"/"+s.tail(), op+": "+what)
				return
			}
			s.viol("absent-served/"+op+"/"+s.tail(), what)
		default:
			s.viol(class+"/"+op+"/"+s.tail(), what)
		}
	}
}

var bpCaps = sto.Caps{Receive: true, Remove: true, SubFetch: true}

func (s *site) checker(st blobserver.Storage, present map[blob.Ref][]byte, uncertain map[blob.Ref]bool, removed map[blob.Ref]bool) *sto.Checker {
	ck := sto.NewChecker(st, "blobpacked", bpCaps, s.w.Universe, s.report(removed))
	for r, d := range present {
		ck.Present[r] = d
	}
	for r := range uncertain {
		ck.Uncertain[r] = true
	}
	ck.OpTimeout = 120 * time.Second
	return ck
}

// clientAudit is the client view of the statement: fetch, range fetch, stat, enumeration
// (exactly once), stream (exactly once) and whole-file reads.
//
// It returns the whole-file refs that OpenWholeRef served (at every probed offset, with the
// right bytes): a later restart of the same durable state must serve them again.
func (s *site) clientAudit(ck *sto.Checker, rng *rand.Rand, wholeMust map[blob.Ref]bool) (served map[blob.Ref]bool) {
	before := ck.Evals
	ck.Audit(rng, false)
	// range-fetch grid (over a seeded sample of the blobs for the very large files)
	grid := s.w.Universe
	if s.w.big() && len(grid) > 48 {
		grid = make([]sto.Blob, 48)
		for i, p := range rng.Perm(len(s.w.Universe))[:48] {
			grid[i] = s.w.Universe[p]
		}
	}
	for _, b := range grid {
		n := int64(len(b.Data))
		if n < 2 {
			continue
		}
		for i := 0; i < 3; i++ {
			off := rng.Int63n(n)
			ck.SubFetch(b, off, 1+rng.Int63n(n-off+8))
		}
		ck.SubFetch(b, n-1, 1)
		ck.SubFetch(b, 0, 1)
	}
	s.r.Eval(ck.Evals - before)
	if ck.Dead {
		return nil
	}
	s.streamAudit(ck)
	return s.wholeAudit(ck.S, rng, wholeMust)
}

func (s *site) streamAudit(ck *sto.Checker) {
	bs, ok := ck.S.(blobserver.BlobStreamer)
	if !ok {
		return
	}
	ctx, cancel := context.WithCancel(context.Background())
	defer cancel()
	ch := make(chan blobserver.BlobAndToken, 16)
	errc := make(chan error, 1)
	go func() { errc <- bs.StreamBlobs(ctx, ch, "") }()
	count := map[blob.Ref]int{}
	type item struct {
		b *blob.Blob
	}
	var items []item
	for bt := range ch {
		count[bt.Blob.Ref()]++
		items = append(items, item{bt.Blob})
	}
	err := <-errc
	s.r.Eval(1)
	if err != nil {
		s.viol("stream-error/"+s.tail(), fmt.Sprintf("StreamBlobs: %v", err))
		return
	}
	for _, it := range items {
		ref := it.b.Ref()
		data, present := ck.Present[ref]
		if !present {
			if !ck.Uncertain[ref] {
				s.r.Count("stream_lists_absent_blob", 1)
			}
			continue
		}
		if int(it.b.Size()) != len(data) {
			s.viol("content/stream/"+s.tail(), fmt.Sprintf("stream yields %v with size %d, want %d", ref, it.b.Size(), len(data)))
			continue
		}
		rd, err := it.b.ReadAll(ctx)
		if err != nil {
			s.viol("content/stream/"+s.tail(), fmt.Sprintf("stream yields %v but its bytes cannot be read: %v", ref, err))
			continue
		}
		got, _ := io.ReadAll(rd)
		if !bytes.Equal(got, data) {
			s.viol("content/stream/"+s.tail(), fmt.Sprintf("stream yields %v with wrong bytes (%d bytes)", ref, len(got)))
		}
		s.r.Eval(1)
	}
	// StreamBlobs is not named by the statement: how often a present blob is yielded is
	// counted, not judged
	for ref := range ck.Present {
		if ck.Uncertain[ref] {
			continue
		}
		switch n := count[ref]; {
		case n == 0:
			s.r.Count("stream_misses_present_blob", 1)
		case n > 1:
			s.r.Count("stream_dup:"+s.dupCause(ref), 1)
		default:
			s.r.Count("stream_once", 1)
		}
	}
}

// wholeAudit: OpenWholeRef is either not-exist (pack incomplete) or exactly the file from off.
func (s *site) wholeAudit(st blobserver.Storage, rng *rand.Rand, must map[blob.Ref]bool) (servedRefs map[blob.Ref]bool) {
	servedRefs = map[blob.Ref]bool{}
	s.wholeSeen = map[blob.Ref]string{}
	wf, ok := st.(blobserver.WholeRefFetcher)
	if !ok {
		s.viol("wholeref/unsupported/"+s.tail(), fmt.Sprintf("%T is no WholeRefFetcher", st))
		return
	}
	done := map[blob.Ref]bool{}
	for _, f := range s.w.Files {
		if done[f.WholeRef] {
			continue
		}
		done[f.WholeRef] = true
		n := int64(len(f.Content))
		offs := []int64{0, n}
		cand := []int64{1, n / 2, n - 1, n/2 + 1}
		for i := 0; i < 3 && len(f.Chunks) > 1; i++ {
			c := f.Chunks[1+rng.Intn(len(f.Chunks)-1)]
			cand = append(cand, c.Off, c.Off-1, c.Off+1)
		}
		rng.Shuffle(len(cand), func(i, j int) { cand[i], cand[j] = cand[j], cand[i] })
		offs = append(offs, cand[:4]...)
		served, missing, wrong := 0, 0, 0
		for _, off := range offs {
			if off < 0 || off > n {
				continue
			}
			var size int64
			var openErr, readErr error
			var got int64
			same := true
			okT := ev.WithTimeout(120*time.Second, func() {
				var rc io.ReadCloser
				rc, size, openErr = wf.OpenWholeRef(f.WholeRef, off)
				if openErr == nil {
					got, same, readErr = compareStream(rc, f.Content[off:])
					rc.Close()
				}
			})
			s.r.Eval(1)
			if !okT {
				s.r.Inconclusive(fmt.Sprintf("%s: OpenWholeRef(%v,%d) did not return within 120s", s.w.Spec.ID, f.WholeRef, off))
				return
			}
			switch {
			case openErr == nil && readErr != nil:
				wrong++
				s.viol("wholeref/read-error/"+s.tail(), fmt.Sprintf("OpenWholeRef(%v,%d) opened, then reading failed after %d bytes: %v", f.WholeRef, off, got, readErr))
			case openErr == nil:
				served++
				if size != n || !same {
					wrong++
				}
				if size != n {
					s.viol("wholeref/size/"+s.tail(), fmt.Sprintf("OpenWholeRef(%v,%d) reports whole size %d, file has %d", f.WholeRef, off, size, n))
				}
				if !same {
					s.viol("wholeref/content/"+s.tail(), fmt.Sprintf("OpenWholeRef(%v,%d) returned %d bytes, want the %d bytes of the file from that offset (content or length differs)", f.WholeRef, off, got, n-off))
				}
			case errors.Is(openErr, os.ErrNotExist):
				missing++
				if must[f.WholeRef] {
					s.viol("wholeref/missing/"+s.tail(), fmt.Sprintf("OpenWholeRef(%v,%d): not found, although the whole-file row of the pack had been written (or the whole file was served before this restart)", f.WholeRef, off))
				}
			default:
				wrong++
				s.viol("wholeref/error/"+s.tail(), fmt.Sprintf("OpenWholeRef(%v,%d): %v", f.WholeRef, off, openErr))
			}
		}
		switch {
		case served > 0 && missing == 0 && wrong == 0:
			servedRefs[f.WholeRef] = true
			s.wholeSeen[f.WholeRef] = "served"
		case missing > 0 && served == 0 && wrong == 0:
			s.wholeSeen[f.WholeRef] = "notexist"
		default:
			s.wholeSeen[f.WholeRef] = "mixed"
		}
		if served > 0 {
			s.r.Count("wholeref_served", 1)
		}
		if missing > 0 {
			s.r.Count("wholeref_notexist", 1)
		}
	}
	return servedRefs
}

// compareStream reads r to its end and compares it with want without buffering everything.
func compareStream(r io.Reader, want []byte) (n int64, same bool, err error) {
	buf := make([]byte, 256<<10)
	same = true
	idle := 0
	for {
		k, rerr := r.Read(buf)
		if k > 0 {
			if same {
				if int64(len(want)) < n+int64(k) || !bytes.Equal(buf[:k], want[n:n+int64(k)]) {
					same = false
				}
			}
			n += int64(k)
		}
		if rerr == io.EOF {
			break
		}
		if rerr != nil {
			return n, same, rerr
		}
		if k == 0 {
			if idle++; idle > 10000 {
				return n, same, errors.New("the reader keeps returning 0 bytes and no error")
			}
			runtime.Gosched()
		} else {
			idle = 0
		}
	}
	if n != int64(len(want)) {
		same = false
	}
	return n, same, nil
}

// zipOf returns the validation of one blob of large; a zip seen for the first time in the
// case is judged here.
func (s *site) zipOf(br blob.Ref) *zipInfo {
	if zi := s.zc.peek(br); zi != nil {
		return zi
	}
	c, _ := s.lw.largeData(br)
	zi, fresh := s.zc.get(s.w, br, c)
	if fresh {
		s.r.Count("zips_validated", 1)
		s.r.Eval(1)
		for _, p := range zi.Problems {
			s.viol(p.Sig, p.What)
		}
		if zi.Repeats > 0 {
			s.r.Note("zip_shape", "manifest-with-repeated-chunk")
		}
		if zi.Part > 0 {
			s.r.Note("zip_shape", "part>0")
		}
		if zi.Part >= 2 {
			s.r.Note("zip_shape", "part>=2")
		}
	}
	return zi
}

// zipAudit validates every blob of large.
func (s *site) zipAudit() (contained map[blob.Ref]bool, nzips int) {
	contained = map[blob.Ref]bool{}
	var zis []*zipInfo
	for _, br := range s.lw.largeRefs() {
		zi := s.zipOf(br)
		for r := range zi.Contained {
			contained[r] = true
		}
		zis = append(zis, zi)
	}
	for _, p := range s.zc.checkParts(s.w, zis) {
		s.viol(p.Sig, p.What)
	}
	return contained, len(zis)
}
