package main

import (
	"fmt"
	"os"

	"perkeep.org/pkg/blob"
	"verif.local/harness/inject"
)

// truncations counts, from the lower-call log of one upload history, how many chunk reads of
// the final pack exceed the two reads per occurrence (one for the whole-file hash, one for
// the zip) a pack without truncate-and-retry needs.
func truncations(w *world, log []inject.Call, opStart []int64) int {
	f := w.Files[0]
	occ := map[string]int{}
	for _, c := range f.Chunks {
		occ[c.Ref.String()]++
	}
	// last upload of the file schema blob
	last := -1
	for oi, op := range w.Ops {
		if w.Universe[op.Blob].Ref == f.FileRef {
			last = oi
		}
	}
	if last < 0 {
		return 0
	}
	lo, hi := opStart[last], int64(len(log))
	if last+1 < len(opStart) {
		hi = opStart[last+1]
	}
	got := map[string]int{}
	for _, c := range log[lo:hi] {
		if (c.Layer == "small" && c.Op == "Fetch") || (c.Layer == "large" && c.Op == "SubFetch") {
			if _, ok := blob.Parse(c.Arg); ok {
				got[c.Arg]++
			}
		}
	}
	extra := 0
	for ref, n := range occ {
		if got[ref] > 2*n {
			extra += got[ref] - 2*n
		}
	}
	return extra
}

func probe() {
	switch os.Getenv("VERIF_C04_PROBE") {
	case "trunc":
		cs := caseSpec{ID: "probe", Class: "probe", Order: "schema-last", Seed: 42,
			Files: []fileSpec{{Name: "p.bin", Size: 1400 << 10, Content: "random"}}}
		for mz := 1 << 20; mz < 1<<20+80<<10; mz += 997 {
			cs.MaxZip = mz
			w, err := buildWorld(cs)
			if err != nil {
				fmt.Println(err)
				return
			}
			c := &caseCtx{w: w, limit: mz, states: map[string]*stateEntry{}}
			res, opStart, err := c.execute(-1, nil)
			if err != nil {
				fmt.Println("exec:", err)
				return
			}
			var sizes []int
			for _, zr := range refsOf(res.lw.large) {
				d, _ := res.lw.large.BlobContents(zr)
				sizes = append(sizes, len(d))
			}
			fmt.Printf("maxzip=%d N=%d zips=%v trunc=%d\n", mz, res.calls, sizes, truncations(w, res.log, opStart))
		}
	}
}
