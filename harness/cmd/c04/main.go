// C04 — packing files into zips is invisible to clients and recoverable from the zips.
//
// A blobpacked store is built through blobserver.CreateStorage over three harness-owned
// layers (small, large: memory stores; meta: memory KV), all behind inject wrappers that
// share one call counter.  For every generated file-upload history:
//
//   - run A (no fault) counts the N lower-layer calls of upload+packing and audits the LIVE
//     store from the wrapper callback after every lower-layer write (every intermediate step);
//   - runs k = 0..N-1 replay the same history with a fail-stop (freeze) at lower call k; the
//     durable state is then restarted over fresh wrappers with NoRecovery, FastRecovery,
//     FullRecovery and with the meta index wiped ("zips alone", fast and full), audited,
//     subjected to removes of loose and packed blobs, restarted again, resumed (the client
//     uploads everything again) and restarted once more.
//
// Identical (durable state, acknowledged set) pairs reached by several k are audited once.
//
// A history is a sequence of client operations (world.Ops): uploads and, in the live-remove
// cases, RemoveBlobs calls.  The reference model of a crash state is world.model(acknowledged
// prefix, operation in flight).  Histories cover one file, two unrelated files, files that
// extend one another (shared chunks), orders in which the last schema upload misses a blob,
// and files large enough to fill zips under the production 16 MiB limit; the lower layers
// are memory stores or, in the disk cases, localdisk + leveldb (lower.go).
package main

import (
	"bytes"
	"context"
	"fmt"
	"hash/fnv"
	"io"
	"log"
	"math/rand"
	"os"
	"runtime"
	"runtime/debug"
	"runtime/pprof"
	"sort"
	"strings"
	"sync"
	"sync/atomic"
	"time"

	"perkeep.org/pkg/blob"
	"perkeep.org/pkg/blobserver"
	"perkeep.org/pkg/blobserver/blobpacked"

	"verif.local/harness/ev"
	"verif.local/harness/inject"
	"verif.local/harness/sto"
)

func main() {
	ev.Main("C04", "fault_enumeration",
		"files (single-zip, multi-zip via forced max zip size, periodic content with repeated chunk refs, same content under two names, just under/over the 512 KiB threshold) are written with perkeep's file writer and uploaded through blobserver.Receive in seeded orders (schema blob first/middle/last, chunks shuffled, duplicate uploads) into blobpacked over inject-wrapped memory small/large/meta (some cases: localdisk small/large + leveldb meta); also several distinct files per store (unrelated, or one extending the other so that they share chunks; sequential or chunks-first), upload orders whose last schema upload misses a blob (never sent / sent later / schema only first), client removes inside the history (chunk before the pack with or without re-upload, packed blobs after the pack + re-upload), and files of 17-35 MiB under the production 16 MiB zip limit (crash points: the pack's writes only); every lower-layer call index k of upload+packing is a crash point (freeze), every distinct (durable state, acked set) is restarted under none/fast/full recovery and with meta wiped, audited against the reference map, then removes (a few loose and packed blobs, or all / all but one blob of one zip) + restart + re-upload + restart; whole files served before a restart must be served after it; the durable states reached by restart-without-recovery + re-upload (in the same-content cases also without the removes in between: the second name packs the interrupted content again, large then holds two zips for one whole-file part) are restarted under fast/full recovery and with meta wiped; hand-written file schemas with a part shorter than the blob it names or one blob named with two part sizes (single zip and forced multi-zip); the same content under 2-3 names, or two unrelated files, with the file schema blobs uploaded at the same time and the packs held at their zip stores until all got there (no crash points, final state through every recovery); files spanning 11 (thorough: 11, 12, 25) zips (equal chunks, forced max zip size with room for one chunk), whole-file reads at several offsets at every step and after every recovery; per durable state, fast and full recovery are compared on whole-file reads (what full recovery serves, fast recovery must serve); a case is distinct per (history, crash state, recovery)",
		run)
}

var debugLog = os.Getenv("VERIF_C04_DEBUG") != ""

// protect runs fn in its own goroutine under a watchdog and catches a panic there.
func protect(d time.Duration, fn func()) (finished bool, panicMsg string) {
	finished = ev.WithTimeout(d, func() {
		defer func() {
			if e := recover(); e != nil {
				panicMsg = fmt.Sprintf("panic: %v\n%s", e, ev.PerkeepFrames(string(debug.Stack())))
			}
		}()
		fn()
	})
	return
}

// ------------------------------------------------------------------ pool

type pool struct {
	sem chan struct{}
	wg  sync.WaitGroup
}

func newPool(n int) *pool { return &pool{sem: make(chan struct{}, n)} }

func (p *pool) Go(fn func()) {
	p.wg.Add(1)
	go func() {
		defer p.wg.Done()
		p.sem <- struct{}{}
		defer func() { <-p.sem }()
		fn()
	}()
}

func (p *pool) Wait() { p.wg.Wait() }

// ------------------------------------------------------------------ case state

type stateEntry struct {
	sn        *snapshot
	present   []int // universe indices, sorted: certainly present (acknowledged and not removed)
	unc       []int // touched by the operation in flight at the crash
	removed   []int // removed by an acknowledged remove of the live history
	nAcked    int   // acknowledged operations (a prefix of the history)
	ks        []int64
	Phase     string
	wholeRows map[blob.Ref]bool // whole-file rows durably written (derived states: whole files served before the snapshot)
	// Derived: not a crash state of the history but the durable state reached from one by a
	// restart without recovery, the stage-2 removes and the client uploading everything again
	// (stage "resumed" of the walk in mode none); restarted in the recovery modes only.
	Derived bool
	DupZips bool   // large holds two zips for one (whole file, part index)
	From    string // derived: phase of the crash state it descends from
	key     string
	// stage1: per recovery variant, what OpenWholeRef answered per whole-file ref right after
	// the first restart of this state (site.wholeSeen); compared across the recovery modes
	stage1 map[string]map[blob.Ref]string
}

type caseCtx struct {
	r     *ev.Run
	w     *world
	zp    zipPool
	zc    zipCache
	limit int

	N        int64         // lower calls of run A (after construction)
	logA     []inject.Call // run A's calls, index 0 = first call after construction
	labels   []string
	opOf     []int // op index of every call of run A
	opStartA []int64
	writes   int
	zipsA    int
	mu       sync.Mutex
	states   map[string]*stateEntry
	order    []*stateEntry
	failed   bool
	derivedM map[string]*stateEntry
	derived  []*stateEntry // the selected derived states, in a seed-determined order
}

type execResult struct {
	nAcked   int // operations acknowledged: Ops[:nAcked]
	inflight int // index of the operation that failed at the crash, or -1
	log      []inject.Call
	calls    int64
	lw       *lower
	frozen   bool
}

// classify labels every call of run A with its pack phase.
func classify(w *world, logA []inject.Call, opStart []int64, ops []upload) []string {
	labels := make([]string, len(logA))
	for oi := range ops {
		lo := opStart[oi]
		hi := int64(len(logA))
		if oi+1 < len(opStart) {
			hi = opStart[oi+1]
		}
		isSchema := !ops[oi].isRemove() && (w.IsSchema[w.Universe[ops[oi].Blob].Ref] || len(ops[oi].Par) > 0)
		inPack := false
		for i := lo; i < hi; i++ {
			c := logA[i]
			var l string
			switch {
			case ops[oi].isRemove() && c.Write:
				l = "client-remove-write"
			case ops[oi].isRemove():
				l = "client-remove-read"
			case c.Layer == "large" && c.Op == "ReceiveBlob":
				l = "zip-store"
			case c.Layer == "meta" && c.Op == "CommitBatch":
				l = "meta-batch"
			case c.Layer == "small" && c.Op == "RemoveBlobs":
				l = "loose-deletion"
			case c.Layer == "meta" && c.Op == "Set" && strings.HasPrefix(c.Arg, "w:"):
				l = "whole-row"
			case c.Layer == "small" && c.Op == "ReceiveBlob":
				l = "upload-write"
				if isSchema {
					inPack = true
				}
			case c.Write:
				l = "other-write"
			case inPack || c.Layer == "large":
				l = "pack-read"
			default:
				l = "upload-read"
			}
			labels[i] = l
		}
	}
	return labels
}

// execute uploads the history into a fresh store.  freezeAt >= 0 plans a fail-stop at that
// lower call (0 = first call after construction).  live != nil is called after every
// successful lower-layer write with the current acknowledged set.
func (c *caseCtx) execute(freezeAt int64, live func(inst *instance, call inject.Call, nAcked, inflight int)) (res *execResult, opStart []int64, err error) {
	lw, err := newLower(c.w.Spec.Lower)
	if err != nil {
		return nil, nil, fmt.Errorf("lower layers: %w", err)
	}
	inst, err := open(lw, c.w.Spec.MaxZip)
	if err != nil {
		lw.release()
		return nil, nil, fmt.Errorf("constructing an empty blobpacked: %w", err)
	}
	defer inst.close()
	base := inst.plan.Calls()
	inst.plan.ResetLog()
	if freezeAt >= 0 {
		inst.plan.FaultAt(base+freezeAt, inject.Freeze)
	}
	res = &execResult{inflight: -1, lw: lw}
	curOp := -1
	var inRemove atomic.Bool
	runaway := inst.guardRunaway(c.w)
	audit := func(call inject.Call) {
		inst.auditing.Store(true)
		defer inst.auditing.Store(false)
		call.Index -= base
		live(inst, call, res.nAcked, curOp)
	}
	if live != nil {
		inst.plan.After = func(call inject.Call) {
			if inRemove.Load() {
				// RemoveBlobs makes its lower calls concurrently: an audit from inside one of
				// them would race with the others; the store is audited when the remove returns
				return
			}
			audit(call)
		}
	}
	ctx := context.Background()
	for oi, op := range c.w.Ops {
		opStart = append(opStart, inst.plan.Calls()-base)
		curOp = oi
		var rerr error
		var what string
		if op.isRemove() {
			refs := make([]blob.Ref, len(op.Remove))
			for i, ui := range op.Remove {
				refs[i] = c.w.Universe[ui].Ref
			}
			what = fmt.Sprintf("remove of %v", refs)
			inRemove.Store(true)
			ok, pmsg := protect(300*time.Second, func() { rerr = inst.s.RemoveBlobs(ctx, refs) })
			inRemove.Store(false)
			if !ok {
				return nil, nil, fmt.Errorf("hang: %s (op %d) did not return within 300s", what, oi)
			}
			if pmsg != "" {
				lw.release()
				return nil, nil, fmt.Errorf("panic: %s (op %d): %s", what, oi, pmsg)
			}
		} else if len(op.Par) > 0 {
			what = fmt.Sprintf("%d uploads at the same time", len(op.Par))
			inRemove.Store(true) // no audits from inside: the other uploads are running
			errs := make([]error, len(op.Par))
			ok, pmsg := protect(300*time.Second, func() { errs = c.parallelUploads(inst, op.Par) })
			inRemove.Store(false)
			if !ok {
				return nil, nil, fmt.Errorf("hang: %s (op %d) did not return within 300s", what, oi)
			}
			if pmsg != "" {
				lw.release()
				return nil, nil, fmt.Errorf("panic: %s (op %d): %s", what, oi, pmsg)
			}
			for _, e := range errs {
				if e != nil {
					rerr = e
				}
			}
			if n := runaway.Load(); n > 0 {
				lw.release()
				return nil, nil, fmt.Errorf("runaway: the packs triggered by %s (op %d) stored %d zips for files of %d chunks and were still going (stopped by the harness)", what, oi, n, c.w.maxChunks())
			}
		} else {
			b := c.w.Universe[op.Blob]
			what = fmt.Sprintf("receive of %v", b.Ref)
			ok, pmsg := protect(300*time.Second, func() {
				_, rerr = blobserver.Receive(ctx, inst.s, b.Ref, bytes.NewReader(b.Data))
			})
			if !ok {
				return nil, nil, fmt.Errorf("hang: %s (op %d) did not return within 300s", what, oi)
			}
			if pmsg != "" {
				lw.release()
				return nil, nil, fmt.Errorf("panic: %s (op %d): %s", what, oi, pmsg)
			}
			if n := runaway.Load(); n > 0 {
				lw.release()
				return nil, nil, fmt.Errorf("runaway: the pack triggered by the upload of %v (op %d) stored %d zips for a file of %d chunks and was still going (stopped by the harness)", b.Ref, oi, n, c.w.maxChunks())
			}
		}
		if rerr == nil {
			res.nAcked = oi + 1
			if op.isRemove() && live != nil && !inst.plan.Frozen() {
				curOp = -1
				audit(inject.Call{Index: inst.plan.Calls(), Layer: "client", Op: "RemoveBlobs", Write: true})
			}
			if len(op.Par) > 0 && live != nil && !inst.plan.Frozen() {
				curOp = -1
				audit(inject.Call{Index: inst.plan.Calls(), Layer: "client", Op: "ParallelUploads", Write: true})
			}
		} else {
			if !inst.plan.Frozen() {
				lw.release()
				return nil, nil, fmt.Errorf("%s (op %d) failed without any injected fault: %v", what, oi, rerr)
			}
			res.inflight = oi
		}
		if inst.plan.Frozen() {
			res.frozen = true
			break
		}
	}
	curOp = -1
	inst.plan.After = nil
	res.calls = inst.plan.Calls() - base
	res.log = inst.plan.Log()
	inst.plan.ResetLog() // the incarnation stays reachable from perkeep's hub table
	for i := range res.log {
		res.log[i].Index -= base
	}
	return res, opStart, nil
}

// parallelUploads sends the blobs at the same time, one goroutine each.  The packs they
// trigger are made to overlap: the n-th zip store of every pack waits (bounded; a timeout only
// gives up the schedule, it is no verdict) until all of them have reached their n-th zip
// store, i.e. until every pack has read its chunks and none has committed that zip's rows.
func (c *caseCtx) parallelUploads(inst *instance, par []int) []error {
	prev := inst.plan.Yield
	var mu sync.Mutex
	arrived := 0
	cond := sync.NewCond(&mu)
	gaveUp, timedOut := false, false
	inst.plan.Yield = func(cl inject.Call) {
		if prev != nil {
			prev(cl)
		}
		if cl.Layer != "large" || cl.Op != "ReceiveBlob" {
			return
		}
		mu.Lock()
		arrived++
		want := (arrived + len(par) - 1) / len(par) * len(par) // end of this round
		cond.Broadcast()
		t := time.AfterFunc(20*time.Second, func() {
			mu.Lock()
			gaveUp, timedOut = true, true
			mu.Unlock()
			cond.Broadcast()
		})
		for arrived < want && !gaveUp {
			cond.Wait()
		}
		t.Stop()
		mu.Unlock()
	}
	errs := make([]error, len(par))
	var wg sync.WaitGroup
	for i, ui := range par {
		wg.Add(1)
		go func() {
			defer wg.Done()
			defer func() {
				if e := recover(); e != nil {
					errs[i] = fmt.Errorf("panic: %v\n%s", e, ev.PerkeepFrames(string(debug.Stack())))
				}
				// an upload that is done no longer takes part in the rounds
				mu.Lock()
				gaveUp = true
				mu.Unlock()
				cond.Broadcast()
			}()
			b := c.w.Universe[ui]
			_, errs[i] = blobserver.Receive(context.Background(), inst.s, b.Ref, bytes.NewReader(b.Data))
		}()
	}
	wg.Wait()
	inst.plan.Yield = prev
	mu.Lock()
	defer mu.Unlock()
	if timedOut {
		c.r.Note("parallel_packs", "schedule-given-up-after-20s")
	} else if arrived >= len(par) {
		c.r.Note("parallel_packs", "overlapped-at-zip-store")
	} else {
		c.r.Note("parallel_packs", "not-overlapped")
	}
	return errs
}

// guardRunaway bounds the progress of a pack logically: a pack stores at most one zip per
// data chunk.  When one upload has stored more zips than the file has chunks, the incarnation
// is frozen (which ends the pack) and the count is reported.
func (in *instance) guardRunaway(w *world) *atomic.Int64 {
	var stored, runaway atomic.Int64
	limit := int64(w.maxChunks() + 2)
	in.plan.Yield = func(c inject.Call) {
		switch {
		case c.Layer == "large" && c.Op == "ReceiveBlob":
			if n := stored.Add(1); n > limit {
				runaway.Store(n)
				in.plan.FreezeNow()
			}
		case c.Layer == "small" && c.Op == "ReceiveBlob":
			stored.Store(0) // a new upload
		}
	}
	return &runaway
}

// sameContentFiles: two files of the case have identical contents (different names).
func (w *world) sameContentFiles() bool {
	seen := map[blob.Ref]bool{}
	for _, f := range w.Files {
		if seen[f.WholeRef] {
			return true
		}
		seen[f.WholeRef] = true
	}
	return false
}

func (w *world) maxChunks() int {
	n := 0
	for _, f := range w.Files {
		if len(f.Chunks) > n {
			n = len(f.Chunks)
		}
	}
	return n
}

func sortedKeys(m map[int]bool) []int {
	out := make([]int, 0, len(m))
	for i := range m {
		out = append(out, i)
	}
	sort.Ints(out)
	return out
}

func (c *caseCtx) addState(res *execResult, k int64) error {
	sn, err := res.lw.snap(c.w, &c.zp)
	if err != nil {
		return err
	}
	pm, um, rm := c.w.model(res.nAcked, res.inflight)
	present, unc, removed := sortedKeys(pm), sortedKeys(um), sortedKeys(rm)
	key := fmt.Sprintf("%s|%v|%v|%v", sn.key, present, unc, removed)
	c.mu.Lock()
	defer c.mu.Unlock()
	st := c.states[key]
	if st == nil {
		st = &stateEntry{sn: sn, present: present, unc: unc, removed: removed, nAcked: res.nAcked, wholeRows: map[blob.Ref]bool{}}
		for _, kv := range sn.Meta {
			if strings.HasPrefix(kv[0], "w:") && !strings.Contains(kv[0][2:], ":") {
				if br, ok := blob.Parse(kv[0][2:]); ok {
					st.wholeRows[br] = true
				}
			}
		}
		c.states[key] = st
		c.order = append(c.order, st)
	}
	st.ks = append(st.ks, k)
	return nil
}

func caseReplay(c *caseCtx, extra map[string]any) map[string]any {
	m := map[string]any{"case_id": c.w.Spec.ID, "spec": c.w.Spec}
	for k, v := range extra {
		m[k] = v
	}
	return m
}

var packWrite = map[string]bool{"zip-store": true, "meta-batch": true, "loose-deletion": true, "whole-row": true}

// runA is the no-fault run with live audits at every intermediate step.
func (c *caseCtx) runA() {
	r := c.r
	w := c.w
	var largeBeforeDup []blob.Ref
	wholeDone := map[blob.Ref]bool{}
	live := func(inst *instance, call inject.Call, nAcked, inflight int) {
		// label of the write that just completed
		label := "upload-write"
		switch {
		case call.Layer == "client" && call.Op == "ParallelUploads":
			label = "client-parallel-uploads"
			// the whole-file rows written meanwhile (no audits from inside the operation)
			for _, f := range w.Files {
				if _, err := inst.lw.meta.Get("w:" + f.WholeRef.String()); err == nil {
					wholeDone[f.WholeRef] = true
				}
			}
		case call.Layer == "client":
			label = "client-remove"
		case call.Layer == "large" && call.Op == "ReceiveBlob":
			label = "zip-store"
		case call.Layer == "meta" && call.Op == "CommitBatch":
			label = "meta-batch"
		case call.Layer == "small" && call.Op == "RemoveBlobs":
			label = "loose-deletion"
		case call.Layer == "meta" && call.Op == "Set" && strings.HasPrefix(call.Arg, "w:"):
			label = "whole-row"
			if br, ok := blob.Parse(call.Arg[2:]); ok {
				wholeDone[br] = true
			}
		}
		if w.DupStart >= 0 && inflight >= w.DupStart && largeBeforeDup == nil {
			largeBeforeDup = append([]blob.Ref{}, inst.lw.largeRefs()...)
		}
		if w.Spec.LiveAudit == "pack-writes" && !packWrite[label] {
			r.Count("live_step_audits_skipped", 1)
			return
		}
		st := &site{r: r, w: w, Variant: "live", Phase: "after-" + label, Stage: "live", K: call.Index, lw: inst.lw, zc: &c.zc}
		pm, um, rm := w.model(nAcked, inflight)
		present := map[blob.Ref][]byte{}
		for i := range pm {
			present[w.Universe[i].Ref] = w.Universe[i].Data
		}
		unc, removed := map[blob.Ref]bool{}, map[blob.Ref]bool{}
		for i := range um {
			unc[w.Universe[i].Ref] = true
		}
		for i := range rm {
			removed[w.Universe[i].Ref] = true
		}
		ck := st.checker(inst.s, present, unc, removed)
		must := map[blob.Ref]bool{}
		for k := range wholeDone {
			must[k] = true
		}
		rng := rand.New(rand.NewSource(w.Spec.Seed ^ call.Index<<8))
		st.clientAudit(ck, rng, must)
		r.Count("live_step_audits", 1)
		r.Note("live_step", "after-"+label)
	}
	var res *execResult
	var opStart []int64
	var err error
	panicked := r.Guard("run-a", caseReplay(c, nil), func() { res, opStart, err = c.execute(-1, live) })
	if panicked {
		c.failed = true
		return
	}
	if err != nil {
		c.failed = true
		if strings.HasPrefix(err.Error(), "hang:") {
			r.Violation("hang/no-fault-run", fmt.Sprintf("[%s] %v", w.Spec.ID, err), caseReplay(c, nil))
		} else if strings.HasPrefix(err.Error(), "runaway:") {
			r.Violation("pack-runaway/no-fault-run", fmt.Sprintf("[%s] %v", w.Spec.ID, err), caseReplay(c, nil))
		} else if strings.HasPrefix(err.Error(), "panic:") {
			r.Violation("panic/no-fault-run", fmt.Sprintf("[%s] %v", w.Spec.ID, err), caseReplay(c, nil))
		} else {
			r.Violation("op-error/no-fault-run", fmt.Sprintf("[%s] %v", w.Spec.ID, err), caseReplay(c, nil))
		}
		return
	}
	c.N = res.calls
	c.logA = res.log
	c.opStartA = opStart
	c.labels = classify(w, c.logA, opStart, w.Ops)
	c.opOf = make([]int, len(c.logA))
	for oi := range w.Ops {
		hi := int64(len(c.logA))
		if oi+1 < len(opStart) {
			hi = opStart[oi+1]
		}
		for i := opStart[oi]; i < hi; i++ {
			c.opOf[i] = oi
		}
	}
	for _, cl := range c.logA {
		if cl.Write {
			c.writes++
		}
	}
	// end-of-run observations
	st := &site{r: r, w: w, Variant: "live", Phase: "complete", Stage: "live", K: c.N, lw: res.lw, zc: &c.zc}
	_, c.zipsA = st.zipAudit()
	f0 := w.Files[0]
	// zips per packed file
	zipsOfWhole := map[blob.Ref]int{}
	for _, zr := range res.lw.largeRefs() {
		if zi := st.zipOf(zr); zi.parsed {
			zipsOfWhole[zi.Whole]++
		}
	}
	for _, f := range w.Files {
		if !lateOrder(w.orderOf(f)) {
			continue
		}
		// no upload of this file's schema blob saw every blob of the file: nothing to pack, and
		// the live and restart audits judge that the attempts had no client effect
		if zipsOfWhole[f.WholeRef] == 0 {
			r.Note("incomplete_at_last_schema", w.orderOf(f))
			r.Note("incomplete_at_last_schema", "any")
		} else {
			r.Note("incomplete_at_last_schema", "packed-all-the-same:"+w.orderOf(f))
		}
	}
	switch {
	case len(f0.Content) < packThreshold:
		if c.zipsA > 0 {
			r.Violation("under-threshold-packed", fmt.Sprintf("[%s] a %d-byte file (threshold %d) was packed into %d zips", w.Spec.ID, len(f0.Content), packThreshold, c.zipsA), caseReplay(c, nil))
		} else {
			r.Note("file_class", "under-threshold")
		}
	case c.zipsA == 0:
		r.Note("file_class", "not-packed:"+w.Spec.Class)
	default:
		if c.zipsA == 1 {
			r.Note("file_class", "single-zip")
		} else {
			r.Note("file_class", "multi-zip")
		}
		if c.zipsA >= 3 {
			r.Note("file_class", "three-or-more-zips")
		}
		if c.zipsA >= 11 {
			// the part rows of the whole file are not in numeric order in the sorted index
			r.Note("file_class", "eleven-or-more-zips")
			r.Note("many_zips", fmt.Sprint(c.zipsA))
			if wholeDone[f0.WholeRef] {
				r.Note("many_zips", "whole-file-row-written")
			}
		}
		if len(f0.Content) <= packThreshold+4096 {
			r.Note("file_class", "just-over-threshold")
		}
		if f0.Distinct < len(f0.Chunks) {
			r.Note("file_class", "repeated-chunks")
		}
		if !wholeDone[f0.WholeRef] {
			r.Note("file_class", "pack-without-whole-row")
		}
		if w.Spec.Interleave != "parallel-triggers" && truncations(w, c.logA, opStart) > 0 {
			r.Note("file_class", "truncate-retry")
		}
		if w.Spec.Removes != "" {
			r.Note("live_removes", w.Spec.Removes)
		}
		if w.Spec.Lower != "" {
			r.Note("lower_layers", w.Spec.Lower)
		}
		// several packed files in one store
		zipsOf := map[blob.Ref]map[blob.Ref]bool{} // logical blob -> wholes whose zips contain it
		wholes := map[blob.Ref]bool{}
		for _, zr := range res.lw.largeRefs() {
			zi := st.zipOf(zr)
			if !zi.parsed {
				continue
			}
			wholes[zi.Whole] = true
			for br := range zi.Contained {
				if zipsOf[br] == nil {
					zipsOf[br] = map[blob.Ref]bool{}
				}
				zipsOf[br][zi.Whole] = true
			}
			if w.Spec.MaxZip == 0 && zi.Size > blobSizeLimit-(1<<20) {
				r.Note("zip_shape", "within-1MiB-of-the-16MiB-limit")
			}
		}
		perPart := map[string]int{}
		for _, zr := range res.lw.largeRefs() {
			if zi := st.zipOf(zr); zi.parsed {
				k := fmt.Sprintf("%v:%d", zi.Whole, zi.Part)
				if perPart[k]++; perPart[k] == 2 {
					r.Note("file_class", "duplicate-zips-in-the-live-run")
					if w.Spec.Interleave == "parallel-triggers" {
						r.Note("file_class", "duplicate-zips-by-concurrent-packs")
					}
				}
			}
		}
		if len(wholes) >= 2 {
			r.Note("file_class", "several-packed-files")
			shared := 0
			for br, ws := range zipsOf {
				if len(ws) >= 2 && !w.IsSchema[br] {
					shared++
				}
			}
			if shared > 0 {
				r.Note("file_class", "shared-prefix-files")
				r.Count("chunks_in_zips_of_two_files", shared)
			}
		}
	}
	if w.DupStart >= 0 && c.zipsA > 0 {
		after := res.lw.largeRefs()
		if largeBeforeDup == nil {
			largeBeforeDup = after
		}
		if fmt.Sprint(after) != fmt.Sprint(largeBeforeDup) {
			r.Violation("dup-pack/new-zip", fmt.Sprintf("[%s] uploading the same content under a second name changed the zips: before %v, after %v", w.Spec.ID, largeBeforeDup, after), caseReplay(c, nil))
		} else {
			r.Note("file_class", "duplicate-file")
		}
	}
	for _, f := range w.Files {
		r.Note("upload_order", w.orderOf(f))
		if f.Short > 0 {
			// hand-written schema with a part shorter than its blob
			shape := strings.TrimPrefix(f.Spec.Content, "parts:")
			r.Note("part_shape", shape)
			var got int64
			nz := 0
			for _, zr := range res.lw.largeRefs() {
				if zi := st.zipOf(zr); zi.parsed && zi.Whole == f.WholeRef {
					got += int64(len(zi.First))
					nz++
				}
			}
			switch {
			case nz == 0:
				r.Note("short_part_file", "stays-loose")
			case got < int64(len(f.Content)):
				r.Note("short_part_file", "first-zips-only")
			default:
				r.Note("short_part_file", "packed")
			}
			if w.Spec.MaxZip > 0 {
				r.Note("short_part_file", "with-forced-max-zip")
			}
		}
	}
	if w.Spec.Interleave != "" {
		r.Note("upload_order", "interleave:"+w.Spec.Interleave)
	}
	defer res.lw.release()
	if err := c.addState(res, c.N); err != nil {
		r.Inconclusive(fmt.Sprintf("%s: %v", w.Spec.ID, err))
		c.failed = true
	}
}

// crashRun replays the history with a freeze at call k.
func (c *caseCtx) crashRun(k int64) {
	r := c.r
	var res *execResult
	var err error
	rp := caseReplay(c, map[string]any{"crash_at_call": k, "call": c.logA[k], "phase": c.labels[k]})
	if r.Guard("crash-run/"+c.labels[k], rp, func() { res, _, err = c.execute(k, nil) }) {
		return
	}
	if res != nil {
		defer res.lw.release()
	}
	if err != nil {
		if strings.HasPrefix(err.Error(), "hang:") {
			r.Violation("hang/crash-run/"+c.labels[k], fmt.Sprintf("[%s k=%d] %v", c.w.Spec.ID, k, err), rp)
		} else if strings.HasPrefix(err.Error(), "runaway:") {
			r.Violation("pack-runaway/crash-run/"+c.labels[k], fmt.Sprintf("[%s k=%d] %v", c.w.Spec.ID, k, err), rp)
		} else if strings.HasPrefix(err.Error(), "panic:") {
			r.Violation("panic/crash-run/"+c.labels[k], fmt.Sprintf("[%s k=%d] %v", c.w.Spec.ID, k, err), rp)
		} else {
			r.Inconclusive(fmt.Sprintf("%s k=%d: %v", c.w.Spec.ID, k, err))
		}
		return
	}
	// identical replay?
	// RemoveBlobs issues its lower calls concurrently: inside a client remove the k-th call of
	// the replay may be another call of the same remove than in run A.  It is a crash point of
	// that remove all the same; the calls before the remove must be identical.
	upto := k
	if op := c.w.Ops[c.opOf[k]]; op.isRemove() {
		upto = c.opStartA[c.opOf[k]] - 1
		r.Count("crash_points_inside_concurrent_remove", 1)
	}
	diverged := int64(len(res.log)) <= k
	sig := func(a inject.Call) string { return a.Layer + " " + a.Op + " " + a.Arg }
	for i := int64(0); !diverged && i <= upto; i++ {
		if oi := c.opOf[i]; c.w.Ops[oi].isRemove() {
			// an earlier, completed remove: the same calls in any order
			lo, hi := c.opStartA[oi], int64(len(c.logA))
			if oi+1 < len(c.opStartA) {
				hi = c.opStartA[oi+1]
			}
			var x, y []string
			for j := lo; j < hi; j++ {
				x, y = append(x, sig(c.logA[j])), append(y, sig(res.log[j]))
			}
			sort.Strings(x)
			sort.Strings(y)
			if fmt.Sprint(x) != fmt.Sprint(y) {
				diverged = true
			}
			i = hi - 1
			continue
		}
		if sig(c.logA[i]) != sig(res.log[i]) {
			diverged = true
		}
	}
	if diverged {
		r.Count("replay_divergence", 1)
		r.Inconclusive(fmt.Sprintf("%s k=%d: the replay made different lower-layer calls than run A", c.w.Spec.ID, k))
		return
	}
	r.Count("crash_points", 1)
	r.Note("crash_phase", c.labels[k])
	r.Eval(1)
	if err := c.addState(res, k); err != nil {
		r.Inconclusive(fmt.Sprintf("%s k=%d: %v", c.w.Spec.ID, k, err))
	}
}

// label every state with the phase of its last crash point (= the write that did not happen).
func (c *caseCtx) labelStates() {
	for _, st := range c.order {
		sort.Slice(st.ks, func(i, j int) bool { return st.ks[i] < st.ks[j] })
		last := st.ks[len(st.ks)-1]
		if last >= c.N {
			st.Phase = "complete"
			if len(st.ks) > 1 {
				st.Phase = c.labels[st.ks[len(st.ks)-2]]
			}
		} else {
			st.Phase = c.labels[last]
		}
	}
	sort.Slice(c.order, func(i, j int) bool { return c.order[i].ks[0] < c.order[j].ks[0] })
}

// reopen restarts blobpacked over lw in the current global recovery mode.
func (c *caseCtx) reopen(s *site, lw *lower) *instance {
	var inst *instance
	var err error
	finished, pmsg := protect(300*time.Second, func() { inst, err = open(lw, c.w.Spec.MaxZip) })
	if pmsg != "" {
		s.viol("panic/restart/"+s.tail(), "constructing blobpacked over the crash state: "+pmsg)
		return nil
	}
	if !finished {
		s.r.Inconclusive(fmt.Sprintf("%s: constructing blobpacked (%s) did not return within 300s", s.w.Spec.ID, s.tail()))
		return nil
	}
	s.r.Count("restarts", 1)
	if err != nil {
		s.viol("recovery-fails/"+s.tail(), fmt.Sprintf("constructing blobpacked over the crash state failed: %v", err))
		return nil
	}
	inst.auditing.Store(true) // no fault plan after a restart: do not count or log the lower calls
	inst.plan.ResetLog()
	return inst
}

func copyPresent(m map[blob.Ref][]byte) map[blob.Ref][]byte {
	o := make(map[blob.Ref][]byte, len(m))
	for k, v := range m {
		o[k] = v
	}
	return o
}

func copySet(m map[blob.Ref]bool) map[blob.Ref]bool {
	o := make(map[blob.Ref]bool, len(m))
	for k, v := range m {
		o[k] = v
	}
	return o
}

func seedOf(parts ...any) int64 {
	h := fnv.New64a()
	fmt.Fprint(h, parts...)
	return int64(h.Sum64())
}

// auditState restarts one crash state in one recovery variant and walks it through the stages.
//
// direct: the walk goes from the first restart straight to the re-upload (no removes, no second
// restart): the client simply carries on after the crash.
func (c *caseCtx) auditState(st *stateEntry, variant string, deep, direct bool) {
	r, w := c.r, c.w
	wipe := strings.HasPrefix(variant, "zips-alone")
	recovering := variant != "none"
	s := &site{r: r, w: w, Variant: variant, Phase: st.Phase, Stage: "restart", K: st.ks[0]}
	s.zc = &c.zc
	s.extra = func() map[string]any {
		m := map[string]any{"crash_points_with_this_state": st.ks, "acked_ops": st.nAcked, "present_blobs": len(st.present), "uncertain_blobs": len(st.unc), "removed_blobs": len(st.removed),
			"small_blobs": len(st.sn.Small), "zips": len(st.sn.Large), "meta_rows": len(st.sn.Meta)}
		if st.Derived {
			m["derived_state"] = "the crash state was restarted without recovery, a few blobs were removed, the store was restarted again and the client uploaded everything again; the resulting durable state is restarted here"
			m["crash_phase"] = st.From
			m["duplicate_zips"] = st.DupZips
		}
		return m
	}
	rng := rand.New(rand.NewSource(seedOf(w.Spec.Seed, st.ks[0], variant)))
	lw, err := st.sn.materialise(w, &c.zp, wipe)
	if err != nil {
		r.Inconclusive(fmt.Sprintf("%s: materialise: %v", w.Spec.ID, err))
		return
	}
	s.lw = lw
	defer lw.release()
	present := map[blob.Ref][]byte{}
	for _, i := range st.present {
		present[w.Universe[i].Ref] = w.Universe[i].Data
	}
	unc := map[blob.Ref]bool{}
	for _, i := range st.unc {
		unc[w.Universe[i].Ref] = true
	}

	// stage 1: restart
	inst := c.reopen(s, lw)
	if inst == nil {
		return
	}
	r.Note("recovery", variant)
	if direct {
		r.Distinct(fmt.Sprintf("%s/%d/%s/direct", w.Spec.ID, st.ks[0], variant))
	} else if st.Derived {
		r.Distinct(fmt.Sprintf("%s/%d/%s/resumed", w.Spec.ID, st.ks[0], variant))
		r.Count("derived_state_restarts", 1)
		r.Note("derived_recovery", variant)
		if st.DupZips {
			r.Note("derived_recovery_with_duplicate_zips", variant)
		}
	} else {
		r.Distinct(fmt.Sprintf("%s/%d/%s", w.Spec.ID, st.ks[0], variant))
	}
	contained, nz := s.zipAudit()
	if nz > 0 {
		r.Note("recovery_with_zips", variant)
	}
	removed := map[blob.Ref]bool{}
	liveResurrect := map[blob.Ref]bool{}
	for _, i := range st.removed {
		ref := w.Universe[i].Ref
		if recovering && contained[ref] {
			// removed in the live history but still inside a zip: removals are not recorded
			// in the zips, a recovery may bring the blob back (same rule as in stage 3)
			unc[ref] = true
			liveResurrect[ref] = true
			continue
		}
		removed[ref] = true
	}
	if len(st.removed) > 0 {
		r.Note("restart_after_live_remove", variant)
	}
	ck := s.checker(inst.s, present, unc, removed)
	s.clientAudit(ck, rng, st.wholeRows)
	if ck.Dead {
		inst.close()
		return
	}
	if !direct && s.wholeSeen != nil {
		c.mu.Lock()
		if st.stage1 == nil {
			st.stage1 = map[string]map[blob.Ref]string{}
		}
		st.stage1[variant] = s.wholeSeen
		c.mu.Unlock()
	}

	if w.big() {
		// tens of MiB per audit: the later stages only for the complete pack, without re-upload
		deep = false
		if st.Phase != "complete" {
			inst.close()
			r.Count("big_file_restart_audits", 1)
			return
		}
	}

	var ck3 *sto.Checker
	var removed3 map[blob.Ref]bool
	if direct {
		ck3, removed3 = ck, removed
		r.Count("direct_resume_walks", 1)
	} else {
		// stage 2: removes of loose and packed blobs
		s.Stage = "after-remove"
		var loose, packed []sto.Blob
		for _, b := range w.Universe {
			if _, ok := ck.Present[b.Ref]; !ok || ck.Uncertain[b.Ref] {
				continue
			}
			if contained[b.Ref] {
				packed = append(packed, b)
			} else {
				loose = append(loose, b)
			}
		}
		pick := func(from []sto.Blob, n int) []sto.Blob {
			rng.Shuffle(len(from), func(i, j int) { from[i], from[j] = from[j], from[i] })
			if len(from) > n {
				from = from[:n]
			}
			return from
		}
		loose = pick(loose, 2)
		if zrefs := lw.largeRefs(); len(zrefs) > 0 && rng.Intn(3) == 0 {
			// every blob that one zip contains
			zi := s.zipOf(zrefs[rng.Intn(len(zrefs))])
			var all []sto.Blob
			for _, b := range packed {
				if zi.Contained[b.Ref] {
					all = append(all, b)
				}
			}
			if len(all) > 0 && len(all) == len(zi.Contained) {
				if rng.Intn(2) == 0 {
					// ... but one, which must stay served
					all = all[:len(all)-1]
					r.Note("removes", "all-but-one-blob-of-a-zip")
				} else {
					r.Note("removes", "all-blobs-of-a-zip")
				}
			}
			packed = all
		} else {
			packed = pick(packed, 3)
		}
		inZip := map[blob.Ref]bool{}
		if len(loose) > 0 {
			ck.Remove(loose)
			for _, b := range loose {
				removed[b.Ref] = true
			}
			r.Note("removes", "loose")
		}
		if len(packed) > 0 {
			ck.Remove(packed)
			for _, b := range packed {
				removed[b.Ref] = true
				inZip[b.Ref] = true
			}
			r.Note("removes", "packed")
		}
		served2 := s.clientAudit(ck, rng, st.wholeRows)
		inst.close()
		if ck.Dead {
			return
		}

		// stage 3: another restart in the same mode
		s.Stage = "re-restart"
		inst = c.reopen(s, lw)
		if inst == nil {
			return
		}
		present3, unc3 := copyPresent(ck.Present), copySet(ck.Uncertain)
		removed3 = copySet(removed)
		tolerated := map[blob.Ref]bool{}
		if recovering {
			for ref := range liveResurrect {
				if _, p := present3[ref]; !p {
					unc3[ref] = true
					delete(removed3, ref)
				}
			}
			// removals are not recorded in the zips: a recovery may bring removed packed blobs back
			for ref := range inZip {
				if _, p := present3[ref]; !p {
					unc3[ref] = true
					tolerated[ref] = true
					delete(removed3, ref)
				}
			}
		}
		ck3 = s.checker(inst.s, present3, unc3, removed3)
		// whole files served before the restart are served after it
		must3 := copySet(st.wholeRows)
		for ref := range served2 {
			must3[ref] = true
			r.Count("wholeref_served_before_restart", 1)
		}
		s.clientAudit(ck3, rng, must3)
		for ref := range tolerated {
			if _, p := ck3.Present[ref]; p && !ck3.Uncertain[ref] {
				r.Count("tolerated_resurrections", 1)
			} else {
				r.Count("removed_packed_stays_removed", 1)
			}
		}
	}
	if !deep || ck3.Dead {
		inst.close()
		return
	}

	// stage 4: the client uploads everything again
	s.Stage = "resumed"
	inst.auditing.Store(false)
	runaway := inst.guardRunaway(w)
	ck3.Tolerate = false
	for _, op := range w.Ops {
		if op.isRemove() {
			continue // the client uploads everything; it does not repeat its removes
		}
		for _, ui := range op.blobs() {
			ck3.Receive(w.Universe[ui])
			delete(removed3, w.Universe[ui].Ref)
		}
		if n := runaway.Load(); n > 0 {
			s.viol("pack-runaway/"+s.tail(), fmt.Sprintf("the pack triggered by re-uploading %v stored %d zips for a file of %d chunks and was still going (stopped by the harness)", w.Universe[op.Blob].Ref, n, w.maxChunks()))
			inst.close()
			return
		}
	}
	inst.plan.Yield = nil
	inst.auditing.Store(true)
	inst.plan.ResetLog()
	s.zipAudit()
	served4 := s.clientAudit(ck3, rng, st.wholeRows)
	if variant == "none" && !st.Derived && !ck3.Dead {
		c.addDerived(st, s, lw, ck3, removed3, served4)
	}
	inst.close()
	if ck3.Dead {
		return
	}

	// stage 5: and the store restarts once more
	s.Stage = "resumed-restart"
	inst = c.reopen(s, lw)
	if inst == nil {
		return
	}
	ck5 := s.checker(inst.s, copyPresent(ck3.Present), copySet(ck3.Uncertain), removed3)
	s.zipAudit()
	must5 := copySet(st.wholeRows)
	for ref := range served4 {
		must5[ref] = true
		r.Count("wholeref_served_before_restart", 1)
	}
	s.clientAudit(ck5, rng, must5)
	inst.close()
	r.Count("full_stage_walks", 1)
}

// addDerived records the durable state under lw (reached from the crash state parent by the
// walk in mode none up to the re-upload) as a state of its own: in the recovery phases it is
// restarted under fast/full recovery and with the meta index wiped.  Whole files that the
// store served just now must be served after those recoveries.
func (c *caseCtx) addDerived(parent *stateEntry, s *site, lw *lower, ck *sto.Checker, removed map[blob.Ref]bool, served map[blob.Ref]bool) {
	sn, err := lw.snap(c.w, &c.zp)
	if err != nil {
		c.r.Inconclusive(fmt.Sprintf("%s: snapshot of the resumed state: %v", c.w.Spec.ID, err))
		return
	}
	var present, unc, rem []int
	for i, b := range c.w.Universe {
		_, p := ck.Present[b.Ref]
		switch {
		case ck.Uncertain[b.Ref]:
			unc = append(unc, i)
		case p:
			present = append(present, i)
		case removed[b.Ref]:
			rem = append(rem, i)
		}
	}
	perPart := map[string]int{}
	dup := false
	for _, zr := range sn.Large {
		if zi := s.zipOf(zr); zi.parsed {
			k := fmt.Sprintf("%v:%d", zi.Whole, zi.Part)
			if perPart[k]++; perPart[k] > 1 {
				dup = true
			}
		}
	}
	wholes := sortedRefs(served)
	key := fmt.Sprintf("%s|%v|%v|%v|%v", sn.key, present, unc, rem, wholes)
	c.mu.Lock()
	defer c.mu.Unlock()
	if c.derivedM == nil {
		c.derivedM = map[string]*stateEntry{}
	}
	c.r.Count("resumed_states_seen", 1)
	if old := c.derivedM[key]; old != nil && old.ks[0] <= parent.ks[0] {
		return // several crash states lead here: the one with the smallest crash point names it
	}
	c.derivedM[key] = &stateEntry{sn: sn, present: present, unc: unc, removed: rem, nAcked: parent.nAcked, ks: []int64{parent.ks[0]},
		Phase: "resumed:" + parent.Phase, From: parent.Phase, wholeRows: copySet(served), Derived: true, DupZips: dup, key: key}
}

// selectDerived picks the derived states that the recovery phases restart: those with
// duplicate zips first, then a few others, by crash point.
func (c *caseCtx) selectDerived(nDup, nOther int) {
	var all []*stateEntry
	for _, st := range c.derivedM {
		all = append(all, st)
	}
	sort.Slice(all, func(i, j int) bool {
		if all[i].ks[0] != all[j].ks[0] {
			return all[i].ks[0] < all[j].ks[0]
		}
		return all[i].key < all[j].key
	})
	c.r.Count("derived_states_distinct", len(all))
	// spread over the list: first, last, then the middle ones
	pick := func(from []*stateEntry, n int) []*stateEntry {
		if len(from) <= n {
			return from
		}
		var out []*stateEntry
		for i := 0; i < n; i++ {
			out = append(out, from[i*(len(from)-1)/max(n-1, 1)])
		}
		return out
	}
	var dups, others []*stateEntry
	for _, st := range all {
		if st.DupZips {
			dups = append(dups, st)
		} else {
			others = append(others, st)
		}
	}
	c.r.Count("derived_states_with_duplicate_zips", len(dups))
	if debugLog {
		for _, st := range all {
			fmt.Printf("DEBUG %s derived k=%d from=%s dup=%v zips=%d small=%d\n", c.w.Spec.ID, st.ks[0], st.From, st.DupZips, len(st.sn.Large), len(st.sn.Small))
		}
	}
	c.derived = append(pick(dups, nDup), pick(others, nOther)...)
	c.derivedM = nil
}

// compareRecoveries judges the two recovery modes against each other, per durable state: both
// rebuild the meta index from the same zips ("FastRecovery populates the blobpacked index, without
// erasing any existing one; FullRecovery erases the existing index, then rebuilds it"), after which
// whole-file reads are served identically.  A whole file that the store serves right after a full
// recovery of a state must therefore be served right after a fast recovery of the same state
// (fast on the existing index vs full; fast on a wiped index vs full on a wiped index).  Only this
// direction is judged: the existing index may legitimately know more than the zips do.
func (c *caseCtx) compareRecoveries() {
	r, w := c.r, c.w
	for _, st := range append(append([]*stateEntry{}, c.order...), c.derived...) {
		for _, pair := range [][2]string{{"fast", "full"}, {"zips-alone-fast", "zips-alone-full"}} {
			fast, full := st.stage1[pair[0]], st.stage1[pair[1]]
			if fast == nil || full == nil {
				continue
			}
			for _, ref := range sortedRefs(setOf(full, "served")) {
				r.Eval(1)
				r.Count("fast_vs_full_wholeref_comparisons", 1)
				r.Note("fast_vs_full_compared", pair[0]+"/"+st.Phase)
				if !st.wholeRows[ref] {
					// the pack had not (durably) written its final whole-file row: the recovery wrote it
					r.Note("fast_vs_full_compared", pair[0]+"/final-row-rebuilt-by-full-recovery")
					r.Count("fast_vs_full_final_row_rebuilt", 1)
				}
				if fast[ref] == "served" {
					continue
				}
				s := &site{r: r, w: w, Variant: pair[0], Phase: st.Phase, Stage: "restart", K: st.ks[0]}
				s.extra = func() map[string]any {
					return map[string]any{"crash_points_with_this_state": st.ks, "compared_with": pair[1], "derived_state": st.Derived,
						"final_whole_row_in_the_crash_state": st.wholeRows[ref], "zips": len(st.sn.Large), "meta_rows": len(st.sn.Meta)}
				}
				s.viol("wholeref/recovery-modes-disagree/"+s.tail(), fmt.Sprintf("after %s recovery of this durable state OpenWholeRef(%v) serves the whole file at every probed offset; after %s recovery of the same state it does not (%s)", pair[1], ref, pair[0], map[string]string{"notexist": "not found", "mixed": "errors or wrong bytes at some offsets", "": "not probed"}[fast[ref]]))
			}
		}
	}
}

func setOf(m map[blob.Ref]string, val string) map[blob.Ref]bool {
	out := map[blob.Ref]bool{}
	for k, v := range m {
		if v == val {
			out[k] = true
		}
	}
	return out
}

// ------------------------------------------------------------------ cases

func genCases(r *ev.Run) []caseSpec {
	rng := r.Rand("cases")
	var out []caseSpec
	id := 0
	add := func(class string, maxZip int, order string, files ...fileSpec) {
		id++
		out = append(out, caseSpec{ID: fmt.Sprintf("f%02d-%s", id, class), Class: class, Files: files, MaxZip: maxZip,
			Order: order, Loose: 4, Seed: rng.Int63()})
	}
	orders := []string{"schema-last", "schema-first", "schema-middle"}
	kib := 1 << 10
	// quick tier: one file per required class
	add("over-threshold", 0, "schema-last", fileSpec{Name: "over.bin", Size: packThreshold + []int{0, 1, 777}[rng.Intn(3)], Content: "random"})
	add("under-threshold", 0, "schema-last", fileSpec{Name: "under.bin", Size: packThreshold - 1, Content: "random"})
	add("multi-zip", 1<<20, "schema-middle", fileSpec{Name: "multi.bin", Size: 2200*kib + rng.Intn(500*kib), Content: "random"})
	add("repeated-chunks", 0, "schema-first", fileSpec{Name: "periodic.bin", Size: 1100*kib + rng.Intn(200*kib), Content: "periodic", Period: 90*kib + rng.Intn(60*kib)})
	add("duplicate-file", 0, "schema-last",
		fileSpec{Name: "first-name.bin", Size: 600*kib + rng.Intn(200*kib), Content: "random"},
		fileSpec{Name: "another name.dat", Content: "as:first-name.bin"})
	add("repeated-chunks", 1<<20, "schema-middle", fileSpec{Name: "periodic-multi.bin", Size: 1900*kib + rng.Intn(300*kib), Content: "periodic", Period: 100*kib + rng.Intn(150*kib)})
	add("duplicate-file", 1<<20, "schema-first",
		fileSpec{Name: "d1.bin", Size: 1500*kib + rng.Intn(300*kib), Content: "random"},
		fileSpec{Name: "d1 copy with another, longer file name.bin", Content: "as:d1.bin"})
	// a zip of exactly two chunks whose size estimate fails (a long file name widens the gap
	// between the estimate and the real zip size)
	add("two-chunk-zips", 0, "schema-last", fileSpec{Name: strings.Repeat("long-name-", 20) + ".bin", Size: 600*kib + rng.Intn(300*kib), Content: "random"})
	out[len(out)-1].TruncSearch = "two-chunk"
	add("truncate-retry", 500*kib+rng.Intn(500*kib), "schema-last", fileSpec{Name: "ptrunc.bin", Size: 1300*kib + rng.Intn(400*kib), Content: "periodic", Period: 66*kib + rng.Intn(300*kib)})
	out[len(out)-1].TruncSearch = "any"
	mib := 1 << 20
	// --- round 3: more of what the statement quantifies over
	// several distinct packed files in one store; the second extends the first (shared chunks)
	add("shared-prefix", 0, "schema-last",
		fileSpec{Name: "base.bin", Size: 600*kib + rng.Intn(200*kib), Content: "random"},
		fileSpec{Name: "base-extended.bin", Size: 150*kib + rng.Intn(200*kib), Content: "ext:base.bin"})
	out[len(out)-1].Interleave = []string{"", "chunks-first"}[rng.Intn(2)]
	add("two-files", 0, "schema-middle",
		fileSpec{Name: "one.bin", Size: 550*kib + rng.Intn(100*kib), Content: "random"},
		fileSpec{Name: "two.bin", Size: 550*kib + rng.Intn(100*kib), Content: "random"})
	out[len(out)-1].Loose = 2
	// the last schema upload does not see every blob of the file
	add("incomplete", 300*kib, []string{"chunk-after-last-schema", "chunk-missing", "schema-only-early"}[rng.Intn(3)],
		fileSpec{Name: "late.bin", Size: 560*kib + rng.Intn(100*kib), Content: "random"})
	out[len(out)-1].LateBlob = "last-chunk"
	// client removes inside the live history
	add("live-remove", []int{0, 300 * kib}[rng.Intn(2)], "schema-last", fileSpec{Name: "rm-after.bin", Size: 560*kib + rng.Intn(100*kib), Content: "random"})
	out[len(out)-1].Removes = "after-pack"
	add("live-remove", 0, "schema-last", fileSpec{Name: "rm-before.bin", Size: 540*kib + rng.Intn(60*kib), Content: "random"})
	out[len(out)-1].Removes = []string{"chunk-before-schema", "chunk-before-schema-reupload"}[rng.Intn(2)]
	// the production zip size limit: no forced maximum, a file that needs two zips
	add("production-limit", 0, "schema-last", fileSpec{Name: "seventeen.bin", Size: 16*mib + 600*kib + rng.Intn(2*mib), Content: "random"})
	out[len(out)-1].Crash, out[len(out)-1].LiveAudit, out[len(out)-1].Loose = "pack-writes", "pack-writes", 2
	// lower layers on disk
	add("disk-lower", 0, "schema-last", fileSpec{Name: "on-disk.bin", Size: 530*kib + rng.Intn(40*kib), Content: "random"})
	out[len(out)-1].Lower, out[len(out)-1].Loose = "disk", 2
	if !r.Thorough() {
		return out
	}
	lateOrders := []string{"chunk-after-last-schema", "chunk-missing", "schema-only-early"}
	for i, o := range lateOrders {
		mz := []int{0, 1 << 20, 0}[i]
		add("incomplete", mz, o, fileSpec{Name: fmt.Sprintf("late%d.bin", i), Size: 600*kib + rng.Intn(900*kib), Content: "random"})
	}
	for i, o := range lateOrders[:2] { // the last chunk of a file that needs three zips
		mz := 1<<20 + i*100*kib
		add("incomplete", mz, o, fileSpec{Name: fmt.Sprintf("late-multi%d.bin", i), Size: 2*mz + mz/3 + rng.Intn(mz/3), Content: "random"})
		out[len(out)-1].LateBlob = "last-chunk"
	}
	// ... on the second of two files that share a prefix (the first is packed)
	add("incomplete", 0, "schema-last",
		fileSpec{Name: "lbase.bin", Size: 600 * kib, Content: "random"},
		fileSpec{Name: "lbase-ext.bin", Size: 200 * kib, Content: "ext:lbase.bin", Order: lateOrders[rng.Intn(2)]})
	for i := 0; i < 4; i++ { // shared prefix: sequential and interleaved, single and multi zip
		mz := []int{0, 0, 1 << 20, 1<<20 + 200*kib}[i]
		sz := 600*kib + rng.Intn(300*kib)
		if mz > 0 {
			sz = mz + mz/2 + rng.Intn(mz/2)
		}
		n1 := fmt.Sprintf("pre%d.bin", i)
		add("shared-prefix", mz, orders[i%3],
			fileSpec{Name: n1, Size: sz, Content: "random"},
			fileSpec{Name: fmt.Sprintf("pre%d-longer.bin", i), Size: 100*kib + rng.Intn(500*kib), Content: "ext:" + n1})
		if i%2 == 1 {
			out[len(out)-1].Interleave = "chunks-first"
		}
	}
	add("shared-prefix", 0, "schema-last", // three generations of one growing file
		fileSpec{Name: "gen0.log", Size: 520*kib + rng.Intn(100*kib), Content: "random"},
		fileSpec{Name: "gen1.log", Size: 64*kib + rng.Intn(100*kib), Content: "ext:gen0.log"},
		fileSpec{Name: "gen2.log", Size: 64*kib + rng.Intn(100*kib), Content: "ext:gen1.log"})
	for i := 0; i < 3; i++ { // unrelated files
		mz := []int{0, 1 << 20, 0}[i]
		add("two-files", mz, orders[(i+1)%3],
			fileSpec{Name: fmt.Sprintf("u%d-a.bin", i), Size: 600*kib + rng.Intn(900*kib), Content: "random"},
			fileSpec{Name: fmt.Sprintf("u%d-b.bin", i), Size: 600*kib + rng.Intn(900*kib), Content: []string{"random", "random", "periodic"}[i], Period: 100 * kib})
		if i == 2 {
			out[len(out)-1].Interleave = "chunks-first"
		}
	}
	for i, rm := range []string{"after-pack", "chunk-before-schema", "chunk-before-schema-reupload", "after-pack", "chunk-before-schema"} {
		mz := []int{0, 0, 0, 1 << 20, 1 << 20}[i]
		sz := 560*kib + rng.Intn(300*kib)
		if mz > 0 {
			sz = 2*mz + rng.Intn(mz)
		}
		add("live-remove", mz, orders[i%3], fileSpec{Name: fmt.Sprintf("rm%d.bin", i), Size: sz, Content: "random"})
		out[len(out)-1].Removes = rm
	}
	for i, rm := range []string{"after-pack", "after-pack-no-reupload"} { // removes in a store that holds two files sharing chunks
		n1 := fmt.Sprintf("rmbase%d.bin", i)
		add("live-remove", 0, "schema-last",
			fileSpec{Name: n1, Size: 600 * kib, Content: "random"},
			fileSpec{Name: fmt.Sprintf("rmbase%d-ext.bin", i), Size: 150 * kib, Content: "ext:" + n1})
		out[len(out)-1].Removes = rm
	}
	for i, rm := range []string{"after-pack-no-reupload", "after-pack-all", "after-pack-all"} {
		mz := []int{0, 0, 400 * kib}[i]
		add("live-remove", mz, orders[(i+1)%3], fileSpec{Name: fmt.Sprintf("rmall%d.bin", i), Size: 540*kib + rng.Intn(400*kib), Content: "random"})
		out[len(out)-1].Removes = rm
	}
	// the production limit again: three zips
	add("production-limit", 0, "schema-middle", fileSpec{Name: "thirtyfour.bin", Size: 33*mib + rng.Intn(2*mib), Content: "random"})
	out[len(out)-1].Crash, out[len(out)-1].LiveAudit, out[len(out)-1].Loose = "pack-writes", "pack-writes", 2
	for i := 0; i < 4; i++ { // disk lower layers: multi-zip and two files
		if i%2 == 0 {
			add("disk-lower", 1<<20, "schema-middle", fileSpec{Name: fmt.Sprintf("on-disk-multi%d.bin", i), Size: 2*mib + rng.Intn(mib), Content: "random"})
		} else {
			n1 := fmt.Sprintf("dbase%d.bin", i)
			add("disk-lower", 0, "schema-first",
				fileSpec{Name: n1, Size: 560 * kib, Content: "random"},
				fileSpec{Name: fmt.Sprintf("dbase%d-ext.bin", i), Size: 120 * kib, Content: "ext:" + n1})
			if i == 3 {
				out[len(out)-1].Removes = "after-pack"
			}
		}
		out[len(out)-1].Lower, out[len(out)-1].Loose = []string{"disk", "disk", "diskpacked", "diskpacked"}[i], 2
	}
	// thorough tier
	add("over-threshold", 0, "schema-first", fileSpec{Name: "exact.bin", Size: packThreshold, Content: "random"})
	add("over-threshold", 0, "schema-middle", fileSpec{Name: "plus1.bin", Size: packThreshold + 1, Content: "random"})
	add("under-threshold", 0, "schema-first", fileSpec{Name: "under2.bin", Size: packThreshold - 1 - rng.Intn(1000), Content: "periodic", Period: 70 * kib})
	for i := 0; i < 6; i++ { // 3+ zips
		mz := []int{1 << 20, 1<<20 + 300*kib, 2 << 20}[i%3]
		add("multi-zip", mz, orders[i%3], fileSpec{Name: fmt.Sprintf("big%d.bin", i), Size: 3*mz + rng.Intn(mz), Content: "random"})
	}
	for i := 0; i < 4; i++ { // 2 zips
		mz := 1<<20 + rng.Intn(512*kib)
		add("multi-zip", mz, orders[(i+1)%3], fileSpec{Name: fmt.Sprintf("two%d.bin", i), Size: mz + mz/2 + rng.Intn(mz/4), Content: "random"})
	}
	for i := 0; i < 5; i++ { // periodic, single and multi zip
		mz := []int{0, 1 << 20, 0, 1<<20 + 200*kib, 2 << 20}[i]
		add("repeated-chunks", mz, orders[i%3], fileSpec{Name: fmt.Sprintf("per%d.bin", i), Size: 1200*kib + rng.Intn(2500*kib), Content: "periodic", Period: 80*kib + rng.Intn(200*kib)})
	}
	// zeros: 1 MiB chunks, all the same ref
	add("repeated-chunks", 0, "schema-last", fileSpec{Name: "zeros.bin", Size: 3*(1<<20) + 300*kib, Content: "zeros"})
	add("repeated-chunks", 2<<20+400*kib, "schema-middle", fileSpec{Name: "zeros2.bin", Size: 5*(1<<20) + 100*kib, Content: "zeros"})
	for i := 0; i < 4; i++ { // duplicates, also multi-zip
		mz := []int{0, 1 << 20, 0, 1<<20 + 100*kib}[i]
		sz := 600*kib + rng.Intn(400*kib)
		if mz > 0 {
			sz = 2*mz + rng.Intn(mz)
		}
		n1 := fmt.Sprintf("dup%d-a.bin", i)
		add("duplicate-file", mz, orders[i%3],
			fileSpec{Name: n1, Size: sz, Content: "random"},
			fileSpec{Name: fmt.Sprintf("dup%d-b-with-a-longer-name.bin", i), Content: "as:" + n1})
	}
	for i := 0; i < 2; i++ { // the size estimate fails: truncate-and-retry
		add("truncate-retry", 1<<20, orders[i%3], fileSpec{Name: fmt.Sprintf("trunc%d.bin", i), Size: 1300*kib + rng.Intn(900*kib), Content: "random"})
		out[len(out)-1].TruncSearch = "any"
	}
	for i := 0; i < 4; i++ { // ... with repeated chunks
		add("truncate-retry", 500*kib+rng.Intn(600*kib), orders[(i+1)%3], fileSpec{Name: fmt.Sprintf("ptrunc%d.bin", i), Size: 1300*kib + rng.Intn(1200*kib), Content: "periodic", Period: 66*kib + rng.Intn(400*kib)})
		out[len(out)-1].TruncSearch = "any"
	}
	for i := 0; i < 4; i++ { // single zips of assorted sizes
		add("single-zip", 0, orders[(i+2)%3], fileSpec{Name: fmt.Sprintf("one%d.bin", i), Size: 700*kib + rng.Intn(1500*kib), Content: "random"})
	}
	return out
}

// genCasesR4 lists the round-4 cases.  They draw from a PRNG of their own and are numbered
// apart (g..), so that the cases of genCases keep their ids and seeds.
func genCasesR4(r *ev.Run) []caseSpec {
	rng := r.Rand("cases-r4")
	var out []caseSpec
	id := 0
	add := func(class string, maxZip int, order string, files ...fileSpec) *caseSpec {
		id++
		out = append(out, caseSpec{ID: fmt.Sprintf("g%02d-%s", id, class), Class: class, Files: files, MaxZip: maxZip,
			Order: order, Loose: 2, Seed: rng.Int63()})
		return &out[len(out)-1]
	}
	orders := []string{"schema-last", "schema-first", "schema-middle"}
	kib := 1 << 10
	// hand-written file schemas: a part that covers only the first bytes of the blob it names
	// (offset 0), or one blob named by two parts with different sizes.  Whatever the packer
	// decides to do with such a file, the blobs keep their bytes and sizes.
	shapes := []string{"short-mid", "short-first", "short-last", "short-by-one", "short-twice", "two-sizes-short-first", "two-sizes-full-first"}
	// quick: one short part in a file that fits one zip; one in the second zip of two (the first
	// zip is stored before the packer meets the short part); one blob with two part sizes
	add("short-part", 0, "schema-last", fileSpec{Name: "short.bin", Size: 600*kib + rng.Intn(300*kib), Content: "parts:" + shapes[rng.Intn(4)]})
	add("short-part", 0, "schema-last", fileSpec{Name: "short-second-zip.bin", Size: 900*kib + rng.Intn(300*kib), Content: "parts:short-last"})
	out[len(out)-1].MaxZipPerMille = 560
	add("short-part", 0, orders[rng.Intn(3)], fileSpec{Name: "two-sizes.bin", Size: 600*kib + rng.Intn(300*kib), Content: "parts:two-sizes-short-first"})
	// the same content under two names, the two file schema blobs uploaded at the same time:
	// both packs run (neither sees the other's final whole-file row), large gets two zips for
	// one (whole file, part); no crash points, the final state goes through every recovery
	par := add("parallel-dup", 0, "schema-last",
		fileSpec{Name: "par-a.bin", Size: 560*kib + rng.Intn(200*kib), Content: "random"},
		fileSpec{Name: "par-b.bin", Content: "as:par-a.bin"})
	par.Interleave, par.Crash = "parallel-triggers", "none"
	if !r.Thorough() {
		return out
	}
	for i, sh := range shapes {
		add("short-part", 0, orders[i%3], fileSpec{Name: fmt.Sprintf("sp%d.bin", i), Size: 560*kib + rng.Intn(600*kib), Content: "parts:" + sh})
		add("short-part", 0, orders[(i+1)%3], fileSpec{Name: fmt.Sprintf("sp%d-multi.bin", i), Size: 900*kib + rng.Intn(600*kib), Content: "parts:" + sh})
		out[len(out)-1].MaxZipPerMille = []int{560, 420, 700}[i%3]
	}
	par = add("parallel-dup", 1<<20, "schema-last", // two zips each; names of equal length = equal splits
		fileSpec{Name: "par-multi-a.bin", Size: 1300*kib + rng.Intn(500*kib), Content: "random"},
		fileSpec{Name: "par-multi-b.bin", Content: "as:par-multi-a.bin"})
	par.Interleave, par.Crash = "parallel-triggers", "none"
	par = add("parallel-dup", 0, "schema-last", // three names
		fileSpec{Name: "par3-a.bin", Size: 560*kib + rng.Intn(400*kib), Content: "periodic", Period: 90 * kib},
		fileSpec{Name: "par3-b.bin", Content: "as:par3-a.bin"},
		fileSpec{Name: "par3-c.bin", Content: "as:par3-a.bin"})
	par.Interleave, par.Crash = "parallel-triggers", "none"
	par = add("parallel-dup", 0, "schema-last", // two unrelated files packed at the same time
		fileSpec{Name: "par-x.bin", Size: 560*kib + rng.Intn(200*kib), Content: "random"},
		fileSpec{Name: "par-y.bin", Size: 560*kib + rng.Intn(200*kib), Content: "random"})
	par.Interleave, par.Crash = "parallel-triggers", "none"
	// a short-part file next to a packed file that shares its ordinary chunks is not possible
	// with generated contents; next to an unrelated packed file it is
	add("short-part", 0, "schema-last",
		fileSpec{Name: "plain.bin", Size: 560*kib + rng.Intn(100*kib), Content: "random"},
		fileSpec{Name: "short-next-to-plain.bin", Size: 600*kib + rng.Intn(200*kib), Content: "parts:" + shapes[rng.Intn(len(shapes))]})
	return out
}

// genCasesR5 lists the round-5 cases (PRNG and numbering of their own: h..).
//
// A file spanning many zips: n equal chunks under a forced maximum zip size that has room for
// one chunk (plus the file schema blob and the manifest) but not for two, so that the pack stores
// n zips.  From 11 zips on the whole-file part rows w:<wholeref>:<n> are no longer in numeric
// order in the sorted index (…:1, …:10, …:2).
func genCasesR5(r *ev.Run) []caseSpec {
	rng := r.Rand("cases-r5")
	var out []caseSpec
	id := 0
	kib := 1 << 10
	many := func(n int, order string) {
		id++
		size := 540*kib + rng.Intn(120*kib)
		unit := size / n
		out = append(out, caseSpec{ID: fmt.Sprintf("h%02d-many-zips", id), Class: "many-zips", MaxZip: unit * 8 / 5, Order: order, Loose: 2, Seed: rng.Int63(),
			Files: []fileSpec{{Name: fmt.Sprintf("spans-%d-zips.bin", n), Size: size, Content: fmt.Sprintf("parts:many:%d", n)}}})
	}
	many(11, "schema-last")
	if !r.Thorough() {
		return out
	}
	many(12, "schema-first")
	many(25, "schema-last")
	many(11, "schema-middle")
	return out
}

// ------------------------------------------------------------------ run

func run(r *ev.Run) {
	if !debugLog {
		log.SetOutput(io.Discard)
	}
	defer blobpacked.SetRecovery(blobpacked.NoRecovery)
	if pf := os.Getenv("VERIF_C04_PROF"); pf != "" {
		f, _ := os.Create(pf)
		pprof.StartCPUProfile(f)
		defer pprof.StopCPUProfile()
	}
	workers := runtime.GOMAXPROCS(0)
	if workers > 16 {
		workers = 16
	}
	r.Assume("the lower layers are perkeep's memory blob store and memory sorted KV behind inject wrappers: a crash is a fail-stop of every later lower-layer call; what the three layers hold at that moment is the durable state")
	r.Assume("an acknowledged upload is a blobserver.Receive that returned nil before the crash; the upload in flight at the crash is uncertain (DESIGN A.1)")
	r.Assume("after Fast/Full recovery a removed blob that is still contained in a zip may reappear (removals are not recorded in zips); counted as tolerated_resurrections, not judged")
	r.Assume("blobpacked.RemoveBlobs issues its lower-layer calls concurrently: a crash point inside a client remove is the k-th lower call of that replay, which need not be the same call as in run A; live audits are made when the remove has returned, not from inside it")
	r.Assume("files of tens of MiB (production zip limit): crash points are the writes of the pack only, live audits after those writes only, the range-fetch grid covers a seeded sample of 48 blobs, and only the completely packed state goes through the remove and re-restart stages")
	r.Assume("crash points with identical durable state and acknowledged set (e.g. consecutive reads) are restarted once")
	r.Assume("derived states (restart without recovery + removes + re-upload of a crash state) are deduplicated by durable state and a seed-determined selection per case (those with duplicate zips first) is restarted under recovery; whole files that OpenWholeRef served completely before a restart must be served after it")
	r.Assume("recovery modes compared per durable state: a whole file that OpenWholeRef serves (every probed offset, exact bytes) right after a full recovery of a state must be served right after a fast recovery of the same state (fast vs full on the existing index; fast vs full on a wiped index); the other direction is not judged (the existing index may know more than the zips)")
	r.Assume("histories with concurrent uploads have no replayable lower-call order: no crash points, their final state is restarted in every recovery variant; the 20 s bound on the zip-store rendezvous only gives up the schedule")

	specs := append(append(genCases(r), genCasesR4(r)...), genCasesR5(r)...)
	var cases []*caseCtx
	var cmu sync.Mutex
	t0 := time.Now()

	// phase 0a: run A + crash runs (global recovery mode: none)
	blobpacked.SetRecovery(blobpacked.NoRecovery)
	p := newPool(workers)
	for _, cs := range specs {
		if !r.Only(cs.ID) {
			continue
		}
		cs := cs
		p.Go(func() {
			w, err := buildWorld(cs)
			if err != nil {
				r.Inconclusive(fmt.Sprintf("%s: cannot build the case: %v", cs.ID, err))
				return
			}
			c := &caseCtx{r: r, w: w, limit: blobSizeLimit, states: map[string]*stateEntry{}}
			if w.Spec.MaxZip > 0 {
				c.limit = w.Spec.MaxZip
			}
			c.zc.limit = c.limit
			if cs.TruncSearch != "" {
				c.searchTrunc()
			}
			c.runA()
			if c.failed {
				return
			}
			cmu.Lock()
			cases = append(cases, c)
			cmu.Unlock()
			for k := int64(0); k < c.N; k++ {
				k := k
				if cs.Crash == "none" || (cs.Crash == "pack-writes" && !packWrite[c.labels[k]]) {
					r.Count("crash_points_not_enumerated", 1)
					continue
				}
				p.Go(func() { c.crashRun(k) })
			}
		})
	}
	p.Wait()
	sort.Slice(cases, func(i, j int) bool { return cases[i].w.Spec.ID < cases[j].w.Spec.ID })
	var fileEv []map[string]any
	nstates := 0
	for _, c := range cases {
		c.labelStates()
		nstates += len(c.order)
		f := c.w.Files[0]
		fileEv = append(fileEv, map[string]any{"case_id": c.w.Spec.ID, "class": c.w.Spec.Class, "size": len(f.Content), "files": len(c.w.Files),
			"chunks": len(f.Chunks), "distinct_chunks": f.Distinct, "schema_blobs": f.Schemas, "max_zip": c.w.Spec.MaxZip, "order": c.w.Spec.Order,
			"N": c.N, "lower_writes": c.writes, "zips": c.zipsA, "distinct_crash_states": len(c.order), "uploads": len(c.w.Ops)})
		r.Sample(map[string]any{"case_id": c.w.Spec.ID, "class": c.w.Spec.Class, "N": c.N, "zips": c.zipsA, "crash_states": len(c.order)})
	}
	r.Extra("files", fileEv)
	r.Count("distinct_crash_states", nstates)
	fmt.Printf("PROGRESS property=C04 crash runs done: %d cases, %d crash points, %d distinct states, %.1fs\n", len(cases), r.Counter("crash_points"), nstates, time.Since(t0).Seconds())

	// phases 0b, 1, 2: restarts, serialised by the process-global recovery mode
	type modePhase struct {
		mode     blobpacked.RecoveryMode
		variants []string
	}
	for _, mp := range []modePhase{
		{blobpacked.NoRecovery, []string{"none"}},
		{blobpacked.FastRecovery, []string{"fast", "zips-alone-fast"}},
		{blobpacked.FullRecovery, []string{"full", "zips-alone-full"}},
	} {
		blobpacked.SetRecovery(mp.mode)
		p := newPool(workers)
		for _, c := range cases {
			for si, st := range c.order {
				for _, v := range mp.variants {
					c, st, v := c, st, v
					packedState := len(st.sn.Large) > 0
					if !packedState && (strings.HasPrefix(v, "zips-alone") || (v != "none" && si%4 != 0)) {
						// nothing packed yet: a recovery has nothing to rebuild; every fourth such
						// state is still restarted in fast and full mode
						continue
					}
					// the re-upload + third restart: every state with zips; every second state without
					deep := packedState || si%2 == 0
					p.Go(func() { c.auditState(st, v, deep, false) })
					if v == "none" && packedState && c.w.sameContentFiles() && len(st.wholeRows) == 0 {
						// an interrupted pack of a content that the client also uploads under
						// another name: carry straight on (the second name packs the content again)
						p.Go(func() { c.auditState(st, v, true, true) })
					}
				}
			}
		}
		if mp.mode != blobpacked.NoRecovery {
			// the states reached by restart without recovery + re-upload, now under recovery
			for _, c := range cases {
				for _, st := range c.derived {
					for _, v := range mp.variants {
						c, st, v := c, st, v
						p.Go(func() { c.auditState(st, v, r.Thorough() && st.DupZips, false) })
					}
				}
			}
		}
		p.Wait()
		if mp.mode == blobpacked.NoRecovery {
			nd := 0
			for _, c := range cases {
				if r.Thorough() {
					c.selectDerived(4, 2)
				} else {
					c.selectDerived(2, 1)
				}
				nd += len(c.derived)
				for _, st := range c.derived {
					if st.DupZips {
						r.Note("derived_state", "duplicate-zips")
						r.Note("duplicate_zips_after", st.From)
					} else {
						r.Note("derived_state", "other")
					}
				}
			}
			r.Count("derived_states", nd)
		}
		fmt.Printf("PROGRESS property=C04 recovery phase %v done, %.1fs\n", mp.variants, time.Since(t0).Seconds())
	}
	blobpacked.SetRecovery(blobpacked.NoRecovery)
	for _, c := range cases {
		c.compareRecoveries()
	}

	if os.Getenv("VERIF_ONLY") != "" {
		r.Assume("VERIF_ONLY replay of selected cases: the coverage requirements of a full run are not applied")
		return
	}
	r.Require("file_class", "single-zip", "multi-zip", "repeated-chunks", "duplicate-file", "under-threshold", "just-over-threshold")
	if r.Thorough() {
		r.Require("file_class", "three-or-more-zips", "truncate-retry")
	}
	r.Require("recovery", "none", "fast", "full", "zips-alone-fast", "zips-alone-full")
	r.Require("recovery_with_zips", "none", "fast", "full", "zips-alone-fast", "zips-alone-full")
	r.Require("crash_phase", "zip-store", "meta-batch", "loose-deletion", "whole-row", "upload-write", "pack-read")
	r.Require("live_step", "after-zip-store", "after-meta-batch", "after-loose-deletion", "after-whole-row")
	r.Require("removes", "loose", "packed", "all-blobs-of-a-zip", "all-but-one-blob-of-a-zip")
	// round 3 families
	r.Require("file_class", "several-packed-files", "shared-prefix-files")
	r.Require("live_removes", "after-pack")
	r.Require("crash_phase", "client-remove-write", "client-remove-read")
	r.Require("live_step", "after-client-remove")
	r.Require("restart_after_live_remove", "none", "fast", "full", "zips-alone-fast", "zips-alone-full")
	r.Require("zip_shape", "within-1MiB-of-the-16MiB-limit")
	r.Require("lower_layers", "disk")
	r.Require("incomplete_at_last_schema", "any")
	if r.Thorough() {
		r.Require("incomplete_at_last_schema", "chunk-after-last-schema", "chunk-missing", "schema-only-early")
		r.Require("live_removes", "chunk-before-schema", "chunk-before-schema-reupload", "after-pack-no-reupload", "after-pack-all")
		r.Require("lower_layers", "diskpacked")
		r.Require("upload_order", "interleave:chunks-first")
	}
	r.Require("zip_shape", "manifest-with-repeated-chunk", "part>0")
	// round 4 families
	r.Require("derived_state", "duplicate-zips", "other")
	r.Require("derived_recovery_with_duplicate_zips", "fast", "full", "zips-alone-fast", "zips-alone-full")
	r.Require("short_part_file", "stays-loose", "first-zips-only")
	r.Require("part_shape", "two-sizes-short-first")
	r.Require("parallel_packs", "overlapped-at-zip-store")
	r.Require("file_class", "duplicate-zips-by-concurrent-packs")
	// round 5 families
	r.Require("file_class", "eleven-or-more-zips")
	r.Require("many_zips", "11", "whole-file-row-written")
	r.Require("fast_vs_full_compared", "fast/whole-row", "fast/final-row-rebuilt-by-full-recovery", "fast/complete", "zips-alone-fast/complete")
	if r.Thorough() {
		r.Require("many_zips", "12", "25")
	}
	if r.Thorough() {
		r.Require("part_shape", "short-mid", "short-first", "short-last", "short-by-one", "short-twice", "two-sizes-full-first")
	}
}

// ------------------------------------------------------------------ truncate-and-retry

// truncations counts, from the lower-call log of one upload history, how many chunk reads of
// the final pack exceed the two reads per occurrence (one for the whole-file hash, one for
// the zip) that a pack without truncate-and-retry needs.
func truncations(w *world, log []inject.Call, opStart []int64) int {
	f := w.Files[0]
	occ := map[string]int{}
	for _, c := range f.Chunks {
		occ[c.Ref.String()]++
	}
	last := -1 // the upload of the file schema blob that packed (else the last one)
	packing := false
	for oi, op := range w.Ops {
		if op.isRemove() || w.Universe[op.Blob].Ref != f.FileRef || oi >= len(opStart) {
			continue
		}
		lo, hi := opStart[oi], int64(len(log))
		if oi+1 < len(opStart) {
			hi = opStart[oi+1]
		}
		stores := false
		for _, c := range log[lo:hi] {
			if c.Layer == "large" && c.Op == "ReceiveBlob" {
				stores = true
			}
		}
		if stores || !packing {
			last = oi
		}
		packing = packing || stores
	}
	if last < 0 {
		return 0
	}
	lo, hi := opStart[last], int64(len(log))
	if last+1 < len(opStart) {
		hi = opStart[last+1]
	}
	got := map[string]int{}
	for _, c := range log[lo:hi] {
		if (c.Layer == "small" && c.Op == "Fetch") || (c.Layer == "large" && c.Op == "SubFetch") {
			got[c.Arg]++
		}
	}
	extra := 0
	for ref, n := range occ {
		if got[ref] > 2*n {
			extra += got[ref] - 2*n
		}
	}
	return extra
}

// searchTrunc looks for a maximum zip size at which the packer's size estimate accepts a
// chunk set whose real zip is too large (so that the truncate-and-retry path runs), by
// trying sizes just below the sizes of the zips a first pack produced.  The case continues
// with the first such size.  A pack that does not terminate is reported.
func (c *caseCtx) searchTrunc() {
	r, w := c.r, c.w
	try := func(mz int) (sizes []int, trunc int, err error) {
		w2 := *w
		w2.Spec.MaxZip = mz
		c2 := &caseCtx{r: r, w: &w2, limit: mz, states: map[string]*stateEntry{}}
		res, opStart, err := c2.execute(-1, nil)
		if err != nil {
			return nil, 0, err
		}
		defer res.lw.release()
		type ps struct{ part, size int }
		var parts []ps
		for _, zr := range res.lw.largeRefs() {
			d, _ := res.lw.largeData(zr)
			zi := validateZip(w, zr, d, mz)
			for _, p := range zi.Problems {
				r.Violation(p.Sig, fmt.Sprintf("[%s max zip size %d] %s", w.Spec.ID, mz, p.What), caseReplay(c, map[string]any{"max_zip_used": mz}))
			}
			r.Count("zips_validated", 1)
			r.Eval(1)
			if zi.parsed {
				parts = append(parts, ps{zi.Part, len(d)})
			}
		}
		sort.Slice(parts, func(i, j int) bool { return parts[i].part < parts[j].part })
		for _, p := range parts {
			sizes = append(sizes, p.size)
		}
		return sizes, truncations(&w2, res.log, opStart), nil
	}
	start := w.Spec.MaxZip
	ds := []int{1, 40, 120, 250, 400, 700}
	if w.Spec.TruncSearch == "two-chunk" {
		// room for the first two chunks of the file but not for the third
		ch := w.Files[0].Chunks
		if len(ch) < 4 {
			r.Inconclusive(fmt.Sprintf("%s: file has only %d chunks", w.Spec.ID, len(ch)))
			return
		}
		start = int(ch[0].Size+ch[1].Size+ch[2].Size/2) + 2048
		w.Spec.MaxZip, c.limit, c.zc.limit = start, start, start
		ds = []int{1, 20, 60, 120, 200}
	}
	sizes, _, err := try(start)
	if err != nil {
		r.Inconclusive(fmt.Sprintf("%s: truncate search: %v", w.Spec.ID, err))
		return
	}
	if (w.Spec.TruncSearch == "part0" || w.Spec.TruncSearch == "two-chunk") && len(sizes) > 1 {
		sizes = sizes[:1]
	}
	chosen, tries, reported := 0, 0, false
	for _, z := range sizes {
		for _, d := range ds {
			mz := z - d
			if mz < 300<<10 {
				continue
			}
			tries++
			_, tr, err := try(mz)
			switch {
			case err != nil && strings.HasPrefix(err.Error(), "runaway:"):
				r.Note("trunc_search", "runaway")
				r.Note("runaway_found_in", w.Spec.Class)
				if !reported {
					reported = true
					r.Violation("pack-runaway/truncate-retry", fmt.Sprintf("[%s max zip size %d] %v", w.Spec.ID, mz, err),
						caseReplay(c, map[string]any{"max_zip_used": mz}))
				}
			case err != nil:
				r.Inconclusive(fmt.Sprintf("%s: truncate search at %d: %v", w.Spec.ID, mz, err))
				return
			case tr > 0 && chosen == 0:
				chosen = mz
			}
		}
	}
	r.Count("trunc_search_packs", tries+1)
	if chosen == 0 {
		r.Note("trunc_search", "no-size-found")
		return
	}
	r.Note("trunc_search", "found")
	w.Spec.MaxZip = chosen
	c.limit = chosen
	c.zc.limit = chosen
}
