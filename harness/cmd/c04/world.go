package main

import (
	"bytes"
	"context"
	"fmt"
	"math/rand"
	"strings"

	"perkeep.org/pkg/blob"
	"perkeep.org/pkg/blobserver/memory"
	"perkeep.org/pkg/schema"

	"verif.local/harness/sto"
)

const packThreshold = 512 << 10 // documented: files under this size are not packed

// fileSpec describes one generated file.
type fileSpec struct {
	Name    string `json:"name"`
	Size    int    `json:"size"`
	Content string `json:"content"` // parts:many:<n> (hand-written schema over n equal chunks) | random | periodic | zeros | as:<name> (same bytes as another file of the case) | ext:<name> (that file's bytes followed by Size fresh random bytes) | parts:<shape> (hand-written file schema with a part that uses only a prefix of its blob, see partsFile)
	Period  int    `json:"period,omitempty"`
	Order   string `json:"order,omitempty"` // overrides the case's upload order for this file
}

func lateOrder(o string) bool {
	return o == "schema-only-early" || o == "chunk-after-last-schema" || o == "chunk-missing"
}

// big: a file whose crash points are not all enumerated (tens of MiB); its audits are lighter.
func (w *world) big() bool { return w.Spec.Crash == "pack-writes" }

func (w *world) orderOf(f *fileInfo) string {
	if f.Spec.Order != "" {
		return f.Spec.Order
	}
	return w.Spec.Order
}

// caseSpec is one file-upload history on a fresh blobpacked store.
type caseSpec struct {
	ID     string     `json:"case_id"`
	Class  string     `json:"class"`
	Files  []fileSpec `json:"files"`
	MaxZip int        `json:"max_zip,omitempty"` // 0 = default 16 MiB
	// MaxZipPerMille: MaxZip is set to this share of the first file's size (known only when
	// the file has been generated), so that the file needs two or three zips.
	MaxZipPerMille int `json:"max_zip_per_mille,omitempty"`
	// Order: schema-last | schema-first | schema-middle (the file schema blob is always (re-)sent
	// last, when every chunk is there), or one of the orders in which the last upload of the file
	// schema blob does NOT see every chunk: schema-only-early (schema first, never re-sent),
	// chunk-after-last-schema (one blob of the file arrives after the schema), chunk-missing (one
	// blob of the file is never uploaded).
	Order string `json:"order"`
	// LateBlob: which blob the late orders hold back: "" = a seeded blob of the file (data chunk
	// or "bytes" schema blob), "last-chunk" = the file's last data chunk.
	LateBlob string `json:"late_blob,omitempty"`
	// Interleave: "" = the files are uploaded one after the other; "chunks-first" = everything
	// but the last schema upload of every file first, then those schema uploads in seeded order;
	// "parallel-triggers" = as chunks-first, but the last schema uploads of all files are sent
	// at the same time (one operation); the packs they trigger are held at every zip store
	// until all of them have got there (execute), so that they really overlap.
	Interleave string `json:"interleave,omitempty"`
	// Removes: client removes inside the live history (on the first file):
	// chunk-before-schema-reupload | chunk-before-schema | after-pack | after-pack-no-reupload |
	// after-pack-all.
	Removes string `json:"removes,omitempty"`
	// Crash: "" = every lower call is a crash point; "pack-writes" = only the writes of a pack
	// (for files whose full enumeration would not fit the budget); "none" = no crash point (the
	// history has concurrent uploads: its lower calls have no replayable order), only the final
	// state is restarted.
	Crash string `json:"crash,omitempty"`
	// LiveAudit: "" = after every lower write of run A; "pack-writes" = after the writes of a pack only.
	LiveAudit string `json:"live_audit,omitempty"`
	// Lower: "" = memory small/large/meta; "disk" = localdisk small, localdisk large, leveldb
	// meta; "diskpacked" = localdisk small, diskpacked large, leveldb meta.
	Lower string `json:"lower,omitempty"`
	Loose int    `json:"loose"` // loose non-file blobs uploaded around the file
	Seed  int64  `json:"seed"`
	// TruncSearch: search a max zip size (below MaxZip) that makes the packer's size estimate
	// fail: "part0" tries sizes around the first zip only, "any" around every zip.
	TruncSearch string `json:"trunc_search,omitempty"`
}

// chunkPos is one data chunk of a file, in file order.
type chunkPos struct {
	Ref  blob.Ref
	Off  int64
	Size int64 // bytes of the file this part covers: the blob's size, or less for a short part
}

type fileInfo struct {
	Spec     fileSpec
	Content  []byte
	FileRef  blob.Ref
	WholeRef blob.Ref
	Blobs    []sto.Blob // chunks, "bytes" schema blobs, file schema blob last
	Chunks   []chunkPos
	Distinct int // distinct chunk refs
	Schemas  int // schema blobs (file + bytes)
	Short    int // parts that cover only a prefix of the blob they name (hand-written schemas)
}

// upload is one client operation of the history: the upload of one blob or, when Remove is
// set, one RemoveBlobs call.
type upload struct {
	Blob   int   `json:"blob"`             // index into world.Universe (upload)
	Remove []int `json:"remove,omitempty"` // universe indices (remove)
	// Par: universe indices of blobs that the client uploads at the same time, from one
	// goroutine each (Blob is Par[0]).  One operation of the history: acknowledged when every
	// upload has returned.
	Par []int `json:"par,omitempty"`
}

func (u upload) isRemove() bool { return len(u.Remove) > 0 }

// blobs lists the universe indices an upload operation sends.
func (u upload) blobs() []int {
	if len(u.Par) > 0 {
		return u.Par
	}
	return []int{u.Blob}
}

// world is everything a case needs, determined by the spec only.
type world struct {
	Spec     caseSpec
	Files    []*fileInfo
	Universe []sto.Blob
	byRef    map[blob.Ref]int
	IsSchema map[blob.Ref]bool // file schema blobs (the pack trigger)
	LooseIdx []int             // universe indices of the loose non-file blobs
	Ops      []upload
	// dupStart: index into Ops where the uploads of the second (same-content) file start; -1 if none
	DupStart int
	// Late: universe indices of the blobs that the last schema upload of their file does not see
	Late []int
	// TwoSizesFullLast: some file names one blob in two parts of different sizes, and the last
	// of them covers the whole blob.  (The packer keeps one size per blob ref, the last one
	// named; the short part then passes its size check and the whole blob is copied in its
	// place.)  Findings in such a world carry the signature prefix two-part-sizes/.
	TwoSizesFullLast bool
}

func genContent(rng *rand.Rand, fs fileSpec, prev map[string][]byte) []byte {
	switch {
	case len(fs.Content) > 3 && fs.Content[:3] == "as:":
		return prev[fs.Content[3:]]
	case len(fs.Content) > 4 && fs.Content[:4] == "ext:":
		tail := make([]byte, fs.Size)
		rng.Read(tail)
		return append(append([]byte{}, prev[fs.Content[4:]]...), tail...)
	case fs.Content == "zeros":
		return make([]byte, fs.Size)
	case fs.Content == "periodic":
		blk := make([]byte, fs.Period)
		rng.Read(blk)
		out := make([]byte, 0, fs.Size+fs.Period)
		for len(out) < fs.Size {
			out = append(out, blk...)
		}
		return out[:fs.Size]
	default:
		b := make([]byte, fs.Size)
		rng.Read(b)
		return b
	}
}

// partsFile writes a file schema blob by hand (schema.Builder.PopulateParts): a flat list of
// parts over a handful of data blobs in which one blob B is larger than a part that names it.
// Such a part {blobRef: B, size: n} with n < len(B), offset 0, covers the first n bytes of B;
// perkeep's file reader serves it (layout re-reads the file through it).  fs.Size is the
// approximate file size.  Shapes (c* are ordinary parts covering their whole blob):
//
//	short-first            B:n c0 c1 c2 c3
//	short-mid              c0 c1 B:n c2 c3
//	short-last             c0 c1 c2 c3 B:n
//	short-by-one           c0 B:len-1 c1 c2 c3
//	two-sizes-short-first  B:n c0 c1 B c2     (one blob named with two part sizes)
//	two-sizes-full-first   B c0 c1 B:n c2
//	short-twice            c0 B:n c1 B:n c2
func partsFile(rng *rand.Rand, fs fileSpec) (content []byte, fileRef blob.Ref, blobs []sto.Blob, err error) {
	shape := strings.TrimPrefix(fs.Content, "parts:")
	if strings.HasPrefix(shape, "many:") {
		return manyPartsFile(rng, fs)
	}
	unit := fs.Size / 5
	if unit < 4096 {
		return nil, blob.Ref{}, nil, fmt.Errorf("file too small for %q", fs.Content)
	}
	mk := func(n int) sto.Blob {
		d := make([]byte, n)
		rng.Read(d)
		return sto.FromBytes(d)
	}
	var c []sto.Blob
	for i := 0; i < 4; i++ {
		c = append(c, mk(unit-rng.Intn(unit/8)))
	}
	B := mk(unit + unit/2 + rng.Intn(unit/4))
	n := unit - rng.Intn(unit/4) // bytes of B that the short part uses
	type part struct {
		b    sto.Blob
		size int
	}
	full := func(b sto.Blob) part { return part{b, len(b.Data)} }
	var parts []part
	switch shape {
	case "short-first":
		parts = []part{{B, n}, full(c[0]), full(c[1]), full(c[2]), full(c[3])}
	case "short-mid":
		parts = []part{full(c[0]), full(c[1]), {B, n}, full(c[2]), full(c[3])}
	case "short-last":
		parts = []part{full(c[0]), full(c[1]), full(c[2]), full(c[3]), {B, n}}
	case "short-by-one":
		parts = []part{full(c[0]), {B, len(B.Data) - 1}, full(c[1]), full(c[2]), full(c[3])}
	case "two-sizes-short-first":
		parts = []part{{B, n}, full(c[0]), full(c[1]), full(B), full(c[2])}
	case "two-sizes-full-first":
		parts = []part{full(B), full(c[0]), full(c[1]), {B, n}, full(c[2])}
	case "short-twice":
		parts = []part{full(c[0]), {B, n}, full(c[1]), {B, n}, full(c[2])}
	default:
		return nil, blob.Ref{}, nil, fmt.Errorf("unknown parts shape %q", shape)
	}
	var bps []schema.BytesPart
	seen := map[blob.Ref]bool{}
	for _, p := range parts {
		content = append(content, p.b.Data[:p.size]...)
		bps = append(bps, schema.BytesPart{Size: uint64(p.size), BlobRef: p.b.Ref})
		if !seen[p.b.Ref] {
			seen[p.b.Ref] = true
			blobs = append(blobs, p.b)
		}
	}
	m := schema.NewFileMap(fs.Name)
	if err := m.PopulateParts(int64(len(content)), bps); err != nil {
		return nil, blob.Ref{}, nil, err
	}
	js, err := m.JSON()
	if err != nil {
		return nil, blob.Ref{}, nil, err
	}
	fb := sto.FromBytes([]byte(js))
	return content, fb.Ref, append(blobs, fb), nil
}

// manyPartsFile ("parts:many:<n>") writes a file schema blob by hand whose flat part list names n
// data blobs of fs.Size/n random bytes each, every part covering its whole blob.  With a forced
// maximum zip size between one and two such chunks the packer stores one zip per chunk: a file
// spanning n zips.
func manyPartsFile(rng *rand.Rand, fs fileSpec) (content []byte, fileRef blob.Ref, blobs []sto.Blob, err error) {
	var n int
	if _, err := fmt.Sscanf(fs.Content, "parts:many:%d", &n); err != nil || n < 2 {
		return nil, blob.Ref{}, nil, fmt.Errorf("bad content %q", fs.Content)
	}
	unit := fs.Size / n
	if unit < 4096 {
		return nil, blob.Ref{}, nil, fmt.Errorf("file too small for %q", fs.Content)
	}
	var bps []schema.BytesPart
	for i := 0; i < n; i++ {
		d := make([]byte, unit)
		rng.Read(d)
		b := sto.FromBytes(d)
		content = append(content, d...)
		bps = append(bps, schema.BytesPart{Size: uint64(unit), BlobRef: b.Ref})
		blobs = append(blobs, b)
	}
	m := schema.NewFileMap(fs.Name)
	if err := m.PopulateParts(int64(len(content)), bps); err != nil {
		return nil, blob.Ref{}, nil, err
	}
	js, err := m.JSON()
	if err != nil {
		return nil, blob.Ref{}, nil, err
	}
	fb := sto.FromBytes([]byte(js))
	return content, fb.Ref, append(blobs, fb), nil
}

// layout interprets the file schema to list the data chunks in file order.  perkeep's own
// FileReader walks the schema (the byte content is re-derived and compared here).
func layout(fi *fileInfo) error {
	ms := &memory.Storage{}
	if err := sto.StoreAll(ms, fi.Blobs); err != nil {
		return err
	}
	fr, err := schema.NewFileReader(context.Background(), ms, fi.FileRef)
	if err != nil {
		return err
	}
	defer fr.Close()
	data := map[blob.Ref][]byte{}
	for _, b := range fi.Blobs {
		data[b.Ref] = b.Data
	}
	var off int64
	seen := map[blob.Ref]bool{}
	schemas := map[blob.Ref]bool{}
	err = fr.ForeachChunk(context.Background(), func(path []blob.Ref, p schema.BytesPart) error {
		for _, s := range path {
			schemas[s] = true
		}
		if !p.BlobRef.Valid() || p.Offset != 0 {
			return fmt.Errorf("unexpected part shape %+v", p)
		}
		d, ok := data[p.BlobRef]
		if !ok || int64(len(d)) < int64(p.Size) {
			return fmt.Errorf("chunk %v missing or too small", p.BlobRef)
		}
		if int64(len(d)) > int64(p.Size) {
			// a part may use only the first bytes of its blob (offset 0)
			if !strings.HasPrefix(fi.Spec.Content, "parts:") {
				return fmt.Errorf("chunk %v: part size %d, blob size %d", p.BlobRef, p.Size, len(d))
			}
			fi.Short++
			d = d[:p.Size]
		}
		if off+int64(len(d)) > int64(len(fi.Content)) || !bytes.Equal(d, fi.Content[off:off+int64(len(d))]) {
			return fmt.Errorf("chunk %v at %d does not match the content", p.BlobRef, off)
		}
		fi.Chunks = append(fi.Chunks, chunkPos{Ref: p.BlobRef, Off: off, Size: int64(len(d))})
		seen[p.BlobRef] = true
		off += int64(len(d))
		return nil
	})
	if err != nil {
		return err
	}
	if off != int64(len(fi.Content)) {
		return fmt.Errorf("chunks cover %d of %d bytes", off, len(fi.Content))
	}
	fi.Distinct = len(seen)
	fi.Schemas = len(schemas)
	return nil
}

func buildWorld(cs caseSpec) (*world, error) {
	rng := rand.New(rand.NewSource(cs.Seed))
	w := &world{Spec: cs, byRef: map[blob.Ref]int{}, IsSchema: map[blob.Ref]bool{}, DupStart: -1}
	prev := map[string][]byte{}
	add := func(b sto.Blob) int {
		if i, ok := w.byRef[b.Ref]; ok {
			return i
		}
		w.byRef[b.Ref] = len(w.Universe)
		w.Universe = append(w.Universe, b)
		return len(w.Universe) - 1
	}
	for _, fs := range cs.Files {
		var content []byte
		var fileRef blob.Ref
		var blobs []sto.Blob
		var err error
		if strings.HasPrefix(fs.Content, "parts:") {
			content, fileRef, blobs, err = partsFile(rng, fs)
		} else {
			content = genContent(rng, fs, prev)
			fileRef, blobs, err = sto.FileBlobs(fs.Name, content)
		}
		prev[fs.Name] = content
		if err != nil {
			return nil, fmt.Errorf("writing file %q: %w", fs.Name, err)
		}
		fi := &fileInfo{Spec: fs, Content: content, FileRef: fileRef, WholeRef: sto.RefOf("sha224", content), Blobs: blobs}
		if err := layout(fi); err != nil {
			return nil, fmt.Errorf("layout of %q: %w", fs.Name, err)
		}
		w.Files = append(w.Files, fi)
		w.IsSchema[fileRef] = true
		lastSize, differs := map[blob.Ref]int64{}, map[blob.Ref]bool{}
		for _, ch := range fi.Chunks {
			if sz, ok := lastSize[ch.Ref]; ok && sz != ch.Size {
				differs[ch.Ref] = true
			}
			lastSize[ch.Ref] = ch.Size
		}
		for _, b := range blobs {
			if differs[b.Ref] && lastSize[b.Ref] == int64(len(b.Data)) {
				w.TwoSizesFullLast = true
			}
		}
	}
	if cs.MaxZipPerMille > 0 && w.Spec.MaxZip == 0 {
		w.Spec.MaxZip = len(w.Files[0].Content) / 1000 * cs.MaxZipPerMille
	}
	// loose blobs: small, never part of a file
	var loose []int
	for i := 0; i < cs.Loose; i++ {
		n := []int{0, 1, 17, 300, 5000, 70000}[rng.Intn(6)]
		d := make([]byte, n)
		rng.Read(d)
		if n >= 17 && rng.Intn(3) == 0 {
			d = []byte(fmt.Sprintf("{\"camliVersion\": 1,\n  \"camliType\": \"bytes\",\n  \"parts\": [],\n  \"verifNonce\": %d\n}", rng.Int63()))
		}
		loose = append(loose, add(sto.FromBytes(d)))
	}
	w.LooseIdx = loose
	// upload history
	half := len(loose) / 2
	for _, i := range loose[:half] {
		w.Ops = append(w.Ops, upload{Blob: i})
	}
	up := func(is ...int) []upload {
		var o []upload
		for _, i := range is {
			o = append(o, upload{Blob: i})
		}
		return o
	}
	var bodies [][]upload // per file: everything but the last schema upload
	var triggers [][]upload
	for fidx, fi := range w.Files {
		order := w.orderOf(fi)
		var idx, fresh []int
		for _, b := range fi.Blobs[:len(fi.Blobs)-1] {
			_, old := w.byRef[b.Ref]
			i := add(b)
			idx = append(idx, i)
			if !old {
				fresh = append(fresh, i)
			}
		}
		sch := add(fi.Blobs[len(fi.Blobs)-1])
		rng.Shuffle(len(idx), func(i, j int) { idx[i], idx[j] = idx[j], idx[i] })
		// late: the blob of the file that the last schema upload does not see
		late := -1
		switch order {
		case "chunk-after-last-schema", "chunk-missing":
			if len(fresh) == 0 {
				return nil, fmt.Errorf("file %q has no blob of its own", fi.Spec.Name)
			}
			late = fresh[rng.Intn(len(fresh))]
			if lc := w.byRef[fi.Chunks[len(fi.Chunks)-1].Ref]; cs.LateBlob == "last-chunk" {
				// the last data chunk: a pack that went on regardless would have stored the
				// zips before it
				for _, i := range fresh {
					if i == lc {
						late = lc
					}
				}
			}
			w.Late = append(w.Late, late)
			var rest []int
			for _, i := range idx {
				if i != late {
					rest = append(rest, i)
				}
			}
			idx = rest
		}
		var seq, tail []upload
		switch order {
		case "schema-first":
			seq = append(append(up(sch), up(idx...)...), up(sch)...) // the client retries the schema blob at the end
		case "schema-middle":
			m := len(idx) / 2
			seq = append(append(append(up(idx[:m]...), up(sch)...), up(idx[m:]...)...), up(sch)...)
		case "schema-only-early":
			seq = append(up(sch), up(idx...)...)
		case "chunk-after-last-schema":
			seq = append(up(idx...), up(sch)...)
			tail = up(late)
		default: // schema-last, chunk-missing
			seq = append(up(idx...), up(sch)...)
		}
		// duplicate uploads of a few chunks
		nd := 1 + rng.Intn(3)
		for d := 0; d < nd && len(idx) > 0; d++ {
			pos := rng.Intn(len(seq))
			seq = append(seq[:pos+1], append(up(idx[rng.Intn(len(idx))]), seq[pos+1:]...)...)
		}
		switch order {
		case "schema-only-early":
			// the schema blob is never sent again: no upload of it sees every chunk
		default:
			// the last schema upload stays last (in the classic orders it then sees every chunk)
			if seq[len(seq)-1].Blob != sch {
				seq = append(seq, up(sch)...)
			}
		}
		// client removes inside the history of the first file
		if fidx == 0 && cs.Removes != "" {
			if lateOrder(order) || len(fi.Chunks) == 0 {
				return nil, fmt.Errorf("removes %q need an order that ends with the schema upload", cs.Removes)
			}
			c := w.byRef[fi.Chunks[rng.Intn(len(fi.Chunks))].Ref]
			body, trig := seq[:len(seq)-1], seq[len(seq)-1]
			switch cs.Removes {
			case "chunk-before-schema-reupload":
				// a chunk is removed and uploaded again before the pack
				seq = append(append(body, upload{Remove: []int{c}}, upload{Blob: c}), trig)
			case "chunk-before-schema":
				// the pack trigger finds a chunk removed; chunk and schema are sent again later
				seq = append(append(body, upload{Remove: []int{c}}), trig)
				tail = append(tail, upload{Blob: c}, upload{Blob: sch})
			case "after-pack":
				// blobs of the packed file are removed in the live run and uploaded again
				rm := []int{c, sch}
				if len(idx) > 0 {
					if o := idx[rng.Intn(len(idx))]; o != c {
						rm = append(rm, o)
					}
				}
				tail = append(tail, upload{Remove: rm}, upload{Blob: c}, upload{Blob: sch})
			case "after-pack-no-reupload":
				// a packed chunk is removed for good (unless a later file brings it again)
				tail = append(tail, upload{Remove: []int{c}})
			case "after-pack-all":
				// every blob of the packed file is removed, then the client uploads the file again
				rm := append(append([]int{}, idx...), sch)
				tail = append(tail, upload{Remove: rm})
				re := append([]int{}, idx...)
				rng.Shuffle(len(re), func(i, j int) { re[i], re[j] = re[j], re[i] })
				tail = append(tail, up(re...)...)
				tail = append(tail, upload{Blob: sch})
			default:
				return nil, fmt.Errorf("unknown removes %q", cs.Removes)
			}
		}
		if order == "schema-only-early" {
			bodies = append(bodies, seq)
			triggers = append(triggers, tail)
		} else {
			bodies = append(bodies, seq[:len(seq)-1])
			triggers = append(triggers, append([]upload{seq[len(seq)-1]}, tail...))
		}
	}
	switch cs.Interleave {
	case "chunks-first":
		for _, b := range bodies {
			w.Ops = append(w.Ops, b...)
		}
		perm := rng.Perm(len(triggers))
		for _, fi := range perm {
			w.Ops = append(w.Ops, triggers[fi]...)
		}
	case "parallel-triggers":
		var par []int
		for fi, b := range bodies {
			for _, op := range b {
				// no earlier upload of a file schema blob: the packs start together
				if op.isRemove() || !w.IsSchema[w.Universe[op.Blob].Ref] {
					w.Ops = append(w.Ops, op)
				}
			}
			if len(triggers[fi]) != 1 || triggers[fi][0].isRemove() {
				return nil, fmt.Errorf("parallel-triggers needs files whose history ends with the schema upload")
			}
			par = append(par, triggers[fi][0].Blob)
		}
		w.Ops = append(w.Ops, upload{Blob: par[0], Par: par})
	default:
		for fidx := range bodies {
			if fidx == 1 && strings.HasPrefix(w.Files[1].Spec.Content, "as:") {
				w.DupStart = len(w.Ops)
			}
			w.Ops = append(w.Ops, bodies[fidx]...)
			w.Ops = append(w.Ops, triggers[fidx]...)
		}
	}
	for _, i := range loose[half:] {
		w.Ops = append(w.Ops, upload{Blob: i})
	}
	return w, nil
}

// model replays the first n operations of the history (all acknowledged) and the operation
// inflight (an index into Ops, or -1) that was running at the crash: present = certainly
// there, unc = may or may not be there (DESIGN A.1), removed = certainly gone by an
// acknowledged remove.  Keys are universe indices.
func (w *world) model(n, inflight int) (present, unc, removed map[int]bool) {
	present, unc, removed = map[int]bool{}, map[int]bool{}, map[int]bool{}
	for _, op := range w.Ops[:n] {
		if op.isRemove() {
			for _, i := range op.Remove {
				if present[i] {
					removed[i] = true
				}
				delete(present, i)
			}
			continue
		}
		for _, i := range op.blobs() {
			present[i] = true
			delete(removed, i)
		}
	}
	if inflight >= 0 && inflight < len(w.Ops) {
		op := w.Ops[inflight]
		if op.isRemove() {
			for _, i := range op.Remove {
				if present[i] {
					unc[i] = true
				}
			}
		} else {
			for _, i := range op.blobs() {
				if !present[i] {
					unc[i] = true
					delete(removed, i)
				}
			}
		}
	}
	return
}

func (w *world) fileByWhole(ref blob.Ref) []*fileInfo {
	var out []*fileInfo
	for _, f := range w.Files {
		if f.WholeRef == ref {
			out = append(out, f)
		}
	}
	return out
}
