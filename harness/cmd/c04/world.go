package main

import (
	"bytes"
	"context"
	"fmt"
	"math/rand"

	"perkeep.org/pkg/blob"
	"perkeep.org/pkg/blobserver/memory"
	"perkeep.org/pkg/schema"

	"verif.local/harness/sto"
)

const packThreshold = 512 << 10 // documented: files under this size are not packed

// fileSpec describes one generated file.
type fileSpec struct {
	Name    string `json:"name"`
	Size    int    `json:"size"`
	Content string `json:"content"` // random | periodic | zeros | as:<name> (same bytes as another file of the case)
	Period  int    `json:"period,omitempty"`
}

// caseSpec is one file-upload history on a fresh blobpacked store.
type caseSpec struct {
	ID     string     `json:"case_id"`
	Class  string     `json:"class"`
	Files  []fileSpec `json:"files"`
	MaxZip int        `json:"max_zip,omitempty"` // 0 = default 16 MiB
	Order  string     `json:"order"`             // schema-last | schema-first | schema-middle
	Loose  int        `json:"loose"`             // loose non-file blobs uploaded around the file
	Seed   int64      `json:"seed"`
	// TruncSearch: search a max zip size (below MaxZip) that makes the packer's size estimate
	// fail: "part0" tries sizes around the first zip only, "any" around every zip.
	TruncSearch string `json:"trunc_search,omitempty"`
}

// chunkPos is one data chunk of a file, in file order.
type chunkPos struct {
	Ref  blob.Ref
	Off  int64
	Size int64
}

type fileInfo struct {
	Spec     fileSpec
	Content  []byte
	FileRef  blob.Ref
	WholeRef blob.Ref
	Blobs    []sto.Blob // chunks, "bytes" schema blobs, file schema blob last
	Chunks   []chunkPos
	Distinct int // distinct chunk refs
	Schemas  int // schema blobs (file + bytes)
}

// upload is one client upload in the history.
type upload struct {
	Blob int `json:"blob"` // index into world.Universe
}

// world is everything a case needs, determined by the spec only.
type world struct {
	Spec     caseSpec
	Files    []*fileInfo
	Universe []sto.Blob
	byRef    map[blob.Ref]int
	IsSchema map[blob.Ref]bool // file schema blobs (the pack trigger)
	LooseIdx []int             // universe indices of the loose non-file blobs
	Ops      []upload
	// dupStart: index into Ops where the uploads of the second (same-content) file start; -1 if none
	DupStart int
}

func genContent(rng *rand.Rand, fs fileSpec, prev map[string][]byte) []byte {
	switch {
	case len(fs.Content) > 3 && fs.Content[:3] == "as:":
		return prev[fs.Content[3:]]
	case fs.Content == "zeros":
		return make([]byte, fs.Size)
	case fs.Content == "periodic":
		blk := make([]byte, fs.Period)
		rng.Read(blk)
		out := make([]byte, 0, fs.Size+fs.Period)
		for len(out) < fs.Size {
			out = append(out, blk...)
		}
		return out[:fs.Size]
	default:
		b := make([]byte, fs.Size)
		rng.Read(b)
		return b
	}
}

// layout interprets the file schema to list the data chunks in file order.  perkeep's own
// FileReader walks the schema (the byte content is re-derived and compared here).
func layout(fi *fileInfo) error {
	ms := &memory.Storage{}
	if err := sto.StoreAll(ms, fi.Blobs); err != nil {
		return err
	}
	fr, err := schema.NewFileReader(context.Background(), ms, fi.FileRef)
	if err != nil {
		return err
	}
	defer fr.Close()
	data := map[blob.Ref][]byte{}
	for _, b := range fi.Blobs {
		data[b.Ref] = b.Data
	}
	var off int64
	seen := map[blob.Ref]bool{}
	schemas := map[blob.Ref]bool{}
	err = fr.ForeachChunk(context.Background(), func(path []blob.Ref, p schema.BytesPart) error {
		for _, s := range path {
			schemas[s] = true
		}
		if !p.BlobRef.Valid() || p.Offset != 0 {
			return fmt.Errorf("unexpected part shape %+v", p)
		}
		d, ok := data[p.BlobRef]
		if !ok || int64(len(d)) != int64(p.Size) {
			return fmt.Errorf("chunk %v missing or wrong size", p.BlobRef)
		}
		if !bytes.Equal(d, fi.Content[off:off+int64(len(d))]) {
			return fmt.Errorf("chunk %v at %d does not match the content", p.BlobRef, off)
		}
		fi.Chunks = append(fi.Chunks, chunkPos{Ref: p.BlobRef, Off: off, Size: int64(len(d))})
		seen[p.BlobRef] = true
		off += int64(len(d))
		return nil
	})
	if err != nil {
		return err
	}
	if off != int64(len(fi.Content)) {
		return fmt.Errorf("chunks cover %d of %d bytes", off, len(fi.Content))
	}
	fi.Distinct = len(seen)
	fi.Schemas = len(schemas)
	return nil
}

func buildWorld(cs caseSpec) (*world, error) {
	rng := rand.New(rand.NewSource(cs.Seed))
	w := &world{Spec: cs, byRef: map[blob.Ref]int{}, IsSchema: map[blob.Ref]bool{}, DupStart: -1}
	prev := map[string][]byte{}
	add := func(b sto.Blob) int {
		if i, ok := w.byRef[b.Ref]; ok {
			return i
		}
		w.byRef[b.Ref] = len(w.Universe)
		w.Universe = append(w.Universe, b)
		return len(w.Universe) - 1
	}
	for _, fs := range cs.Files {
		content := genContent(rng, fs, prev)
		prev[fs.Name] = content
		fileRef, blobs, err := sto.FileBlobs(fs.Name, content)
		if err != nil {
			return nil, fmt.Errorf("writing file %q: %w", fs.Name, err)
		}
		fi := &fileInfo{Spec: fs, Content: content, FileRef: fileRef, WholeRef: sto.RefOf("sha224", content), Blobs: blobs}
		if err := layout(fi); err != nil {
			return nil, fmt.Errorf("layout of %q: %w", fs.Name, err)
		}
		w.Files = append(w.Files, fi)
		w.IsSchema[fileRef] = true
	}
	// loose blobs: small, never part of a file
	var loose []int
	for i := 0; i < cs.Loose; i++ {
		n := []int{0, 1, 17, 300, 5000, 70000}[rng.Intn(6)]
		d := make([]byte, n)
		rng.Read(d)
		if n >= 17 && rng.Intn(3) == 0 {
			d = []byte(fmt.Sprintf("{\"camliVersion\": 1,\n  \"camliType\": \"bytes\",\n  \"parts\": [],\n  \"verifNonce\": %d\n}", rng.Int63()))
		}
		loose = append(loose, add(sto.FromBytes(d)))
	}
	w.LooseIdx = loose
	// upload history
	half := len(loose) / 2
	for _, i := range loose[:half] {
		w.Ops = append(w.Ops, upload{i})
	}
	for fidx, fi := range w.Files {
		if fidx == 1 {
			w.DupStart = len(w.Ops)
		}
		var idx []int
		for _, b := range fi.Blobs[:len(fi.Blobs)-1] {
			idx = append(idx, add(b))
		}
		sch := add(fi.Blobs[len(fi.Blobs)-1])
		rng.Shuffle(len(idx), func(i, j int) { idx[i], idx[j] = idx[j], idx[i] })
		var seq []int
		switch cs.Order {
		case "schema-first":
			seq = append(append([]int{sch}, idx...), sch) // the client retries the schema blob at the end
		case "schema-middle":
			m := len(idx) / 2
			seq = append(append(append(append([]int{}, idx[:m]...), sch), idx[m:]...), sch)
		default:
			seq = append(idx, sch)
		}
		// duplicate uploads of a few chunks
		nd := 1 + rng.Intn(3)
		for d := 0; d < nd && len(idx) > 0; d++ {
			pos := rng.Intn(len(seq))
			seq = append(seq[:pos+1], append([]int{idx[rng.Intn(len(idx))]}, seq[pos+1:]...)...)
		}
		// the trigger must stay last so that the pack sees every chunk
		if seq[len(seq)-1] != sch {
			seq = append(seq, sch)
		}
		for _, i := range seq {
			w.Ops = append(w.Ops, upload{i})
		}
	}
	for _, i := range loose[half:] {
		w.Ops = append(w.Ops, upload{i})
	}
	return w, nil
}

func (w *world) fileByWhole(ref blob.Ref) []*fileInfo {
	var out []*fileInfo
	for _, f := range w.Files {
		if f.WholeRef == ref {
			out = append(out, f)
		}
	}
	return out
}
