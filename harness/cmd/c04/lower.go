package main

import (
	"bytes"
	"context"
	"crypto/sha256"
	"encoding/hex"
	"fmt"
	"io"
	"os"
	"path/filepath"
	"sort"
	"strings"
	"sync"
	"sync/atomic"

	"go4.org/jsonconfig"
	"perkeep.org/pkg/blob"
	"perkeep.org/pkg/blobserver"
	"perkeep.org/pkg/blobserver/blobpacked"
	"perkeep.org/pkg/blobserver/diskpacked"
	"perkeep.org/pkg/blobserver/localdisk"
	"perkeep.org/pkg/blobserver/memory"
	"perkeep.org/pkg/sorted"
	_ "perkeep.org/pkg/sorted/leveldb"

	"verif.local/harness/ev"
	"verif.local/harness/inject"
	"verif.local/harness/sto"
)

// lower is the durable state of one blobpacked store: the three harness-owned layers.
// kind "" = perkeep's memory blob stores and memory KV; "disk" = two localdisk stores and a
// leveldb file under one scratch directory; "diskpacked" = the same with a diskpacked large.
type lower struct {
	kind  string
	small blobserver.Storage
	large blobserver.Storage
	meta  sorted.KeyValue
	dir   string
}

func newLower(kind string) (*lower, error) {
	switch kind {
	case "":
		return &lower{small: &memory.Storage{}, large: &memory.Storage{}, meta: sorted.NewMemoryKeyValue()}, nil
	case "disk", "diskpacked":
		lw := &lower{kind: kind, dir: ev.Scratch("c04-lower")}
		var err error
		fail := func(err error) (*lower, error) {
			os.RemoveAll(lw.dir)
			return nil, err
		}
		for _, d := range []string{"small", "large"} {
			if err := os.Mkdir(filepath.Join(lw.dir, d), 0o700); err != nil {
				return fail(err)
			}
		}
		if lw.small, err = localdisk.New(filepath.Join(lw.dir, "small")); err != nil {
			return fail(err)
		}
		if kind == "diskpacked" {
			lw.large, err = diskpacked.New(filepath.Join(lw.dir, "large"))
		} else {
			lw.large, err = localdisk.New(filepath.Join(lw.dir, "large"))
		}
		if err != nil {
			return fail(err)
		}
		if lw.meta, err = sorted.NewKeyValue(jsonconfig.Obj{"type": "leveldb", "file": filepath.Join(lw.dir, "meta.leveldb")}); err != nil {
			return fail(err)
		}
		return lw, nil
	}
	return nil, fmt.Errorf("unknown lower kind %q", kind)
}

// release drops the blob bytes.  perkeep keeps every storage that ever received a blob in a
// process-global hub table (blobserver.GetHub), so the shells of finished incarnations stay
// reachable; emptied, they are small.
func (lw *lower) release() {
	if lw.kind != "" {
		lw.meta.Close()
		if c, ok := lw.large.(io.Closer); ok {
			c.Close()
		}
		os.RemoveAll(lw.dir)
		return
	}
	ctx := context.Background()
	lw.small.RemoveBlobs(ctx, lw.smallRefs())
	lw.large.RemoveBlobs(ctx, lw.largeRefs())
	if w, ok := lw.meta.(sorted.Wiper); ok {
		w.Wipe()
	}
}

func refsOfStore(st blobserver.Storage) []blob.Ref {
	if ms, ok := st.(*memory.Storage); ok {
		return refsOf(ms)
	}
	var out []blob.Ref
	err := blobserver.EnumerateAll(context.Background(), st, func(sb blob.SizedRef) error {
		out = append(out, sb.Ref)
		return nil
	})
	if err != nil {
		panic(fmt.Sprintf("harness: enumerating a lower store: %v", err))
	}
	sort.Slice(out, func(i, j int) bool { return out[i].String() < out[j].String() })
	return out
}

func dataOfStore(st blobserver.Storage, br blob.Ref) ([]byte, bool) {
	if ms, ok := st.(*memory.Storage); ok {
		c, ok := ms.BlobContents(br)
		return []byte(c), ok
	}
	rc, _, err := st.Fetch(context.Background(), br)
	if err != nil {
		return nil, false
	}
	defer rc.Close()
	d, err := io.ReadAll(rc)
	if err != nil {
		return nil, false
	}
	return d, true
}

func (lw *lower) smallRefs() []blob.Ref                { return refsOfStore(lw.small) }
func (lw *lower) largeRefs() []blob.Ref                { return refsOfStore(lw.large) }
func (lw *lower) smallData(br blob.Ref) ([]byte, bool) { return dataOfStore(lw.small, br) }
func (lw *lower) largeData(br blob.Ref) ([]byte, bool) { return dataOfStore(lw.large, br) }

// snapshot is an immutable copy of a durable state.  Blob bytes are interned (loose blobs
// are the universe's own slices, zips are kept once per case).
type snapshot struct {
	Small []blob.Ref
	Large []blob.Ref
	Meta  [][2]string
	key   string
}

// zipPool interns zip blobs by ref for one case.
type zipPool struct {
	mu sync.Mutex
	m  map[blob.Ref][]byte
}

func (zp *zipPool) intern(ref blob.Ref, get func() []byte) []byte {
	zp.mu.Lock()
	defer zp.mu.Unlock()
	if d, ok := zp.m[ref]; ok {
		return d
	}
	d := get()
	if zp.m == nil {
		zp.m = map[blob.Ref][]byte{}
	}
	zp.m[ref] = d
	return d
}

func (zp *zipPool) get(ref blob.Ref) []byte {
	zp.mu.Lock()
	defer zp.mu.Unlock()
	return zp.m[ref]
}

func refsOf(ms *memory.Storage) []blob.Ref {
	ss := ms.BlobrefStrings()
	out := make([]blob.Ref, len(ss))
	for i, s := range ss {
		out[i] = blob.MustParse(s)
	}
	return out
}

// snap copies the durable state.  It reports loose blobs whose stored bytes differ from the
// universe (a lower store never does that; it would invalidate every later comparison).
func (lw *lower) snap(w *world, zp *zipPool) (*snapshot, error) {
	sn := &snapshot{}
	for _, br := range lw.smallRefs() {
		i, ok := w.byRef[br]
		if !ok {
			return nil, fmt.Errorf("small holds %v which no client uploaded", br)
		}
		c, _ := lw.smallData(br)
		if !bytes.Equal(c, w.Universe[i].Data) {
			return nil, fmt.Errorf("small holds %v with foreign bytes", br)
		}
		sn.Small = append(sn.Small, br)
	}
	for _, br := range lw.largeRefs() {
		zp.intern(br, func() []byte {
			c, _ := lw.largeData(br)
			return c
		})
		sn.Large = append(sn.Large, br)
	}
	it := lw.meta.Find("", "")
	for it.Next() {
		sn.Meta = append(sn.Meta, [2]string{it.Key(), it.Value()})
	}
	if err := it.Close(); err != nil {
		return nil, err
	}
	h := sha256.New()
	for _, r := range sn.Small {
		fmt.Fprintf(h, "s%s\n", r)
	}
	for _, r := range sn.Large {
		fmt.Fprintf(h, "l%s\n", r)
	}
	for _, kv := range sn.Meta {
		v := kv[1]
		if strings.HasPrefix(kv[0], "d:") {
			v = "" // value is a wall-clock time
		}
		fmt.Fprintf(h, "m%q=%q\n", kv[0], v)
	}
	sn.key = hex.EncodeToString(h.Sum(nil)[:12])
	return sn, nil
}

// materialise builds fresh lower layers holding the snapshot.
func (sn *snapshot) materialise(w *world, zp *zipPool, wipeMeta bool) (*lower, error) {
	lw, err := newLower(w.Spec.Lower)
	if err != nil {
		return nil, err
	}
	ctx := context.Background()
	for _, br := range sn.Small {
		if _, err := lw.small.ReceiveBlob(ctx, br, bytes.NewReader(w.Universe[w.byRef[br]].Data)); err != nil {
			lw.release()
			return nil, err
		}
	}
	for _, br := range sn.Large {
		if _, err := lw.large.ReceiveBlob(ctx, br, bytes.NewReader(zp.get(br))); err != nil {
			lw.release()
			return nil, err
		}
	}
	if !wipeMeta {
		for _, kv := range sn.Meta {
			if err := lw.meta.Set(kv[0], kv[1]); err != nil {
				lw.release()
				return nil, err
			}
		}
	}
	return lw, nil
}

// instance is one incarnation of the blobpacked store over a lower state.
type instance struct {
	lw       *lower
	plan     *inject.Plan
	s        blobserver.Storage
	kvName   string
	auditing atomic.Bool // calls made by an audit are not counted
}

var kvSeq atomic.Int64

// open constructs blobpacked through the public constructor over fresh inject wrappers.
// The recovery mode is the process-global one (blobpacked.SetRecovery).
func open(lw *lower, maxZip int) (inst *instance, err error) {
	inst = &instance{lw: lw, plan: inject.NewPlan()}
	inst.plan.Match = func(layer, op string) bool { return !inst.auditing.Load() }
	inst.kvName = fmt.Sprintf("c04-meta-%d", kvSeq.Add(1))
	kvc := inject.RegisterKV(inst.kvName, inject.WrapKV("meta", lw.meta, inst.plan))
	ld := sto.NewLoader()
	ld.Set("/small/", inject.Wrap("small", lw.small, inst.plan))
	ld.Set("/large/", inject.Wrap("large", lw.large, inst.plan))
	conf := jsonconfig.Obj{"smallBlobs": "/small/", "largeBlobs": "/large/", "metaIndex": map[string]any(kvc), "keepGoing": true}
	defer func() {
		if e := recover(); e != nil {
			inject.UnregisterKV(inst.kvName)
			panic(e)
		}
	}()
	s, err := blobserver.CreateStorage("blobpacked", ld, conf)
	if err != nil {
		inject.UnregisterKV(inst.kvName)
		return nil, err
	}
	inst.s = s
	if maxZip > 0 {
		if !blobpacked.VerifSetMaxZipBlobSize(s, maxZip) {
			inject.UnregisterKV(inst.kvName)
			return nil, fmt.Errorf("VerifSetMaxZipBlobSize: not a blobpacked storage: %T", s)
		}
	}
	return inst, nil
}

func (in *instance) close() {
	inject.UnregisterKV(in.kvName)
	in.plan.Yield = nil
	in.plan.After = nil
	in.plan.ResetLog()
}

// packedRefs lists the logical blobs contained in the zips of large according to meta-free
// inspection (used only to decide which removed blobs a recovery may legitimately restore).
func sortedRefs(m map[blob.Ref]bool) []blob.Ref {
	out := make([]blob.Ref, 0, len(m))
	for r := range m {
		out = append(out, r)
	}
	sort.Slice(out, func(i, j int) bool { return out[i].String() < out[j].String() })
	return out
}
