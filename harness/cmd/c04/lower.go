package main

import (
	"bytes"
	"context"
	"crypto/sha256"
	"encoding/hex"
	"fmt"
	"sort"
	"strings"
	"sync"
	"sync/atomic"

	"go4.org/jsonconfig"
	"perkeep.org/pkg/blob"
	"perkeep.org/pkg/blobserver"
	"perkeep.org/pkg/blobserver/blobpacked"
	"perkeep.org/pkg/blobserver/memory"
	"perkeep.org/pkg/sorted"

	"verif.local/harness/inject"
	"verif.local/harness/sto"
)

// lower is the durable state of one blobpacked store: the three harness-owned layers.
type lower struct {
	small *memory.Storage
	large *memory.Storage
	meta  sorted.KeyValue
}

func newLower() *lower {
	return &lower{small: &memory.Storage{}, large: &memory.Storage{}, meta: sorted.NewMemoryKeyValue()}
}

// release drops the blob bytes.  perkeep keeps every storage that ever received a blob in a
// process-global hub table (blobserver.GetHub), so the shells of finished incarnations stay
// reachable; emptied, they are small.
func (lw *lower) release() {
	ctx := context.Background()
	lw.small.RemoveBlobs(ctx, refsOf(lw.small))
	lw.large.RemoveBlobs(ctx, refsOf(lw.large))
	if w, ok := lw.meta.(sorted.Wiper); ok {
		w.Wipe()
	}
}

// snapshot is an immutable copy of a durable state.  Blob bytes are interned (loose blobs
// are the universe's own slices, zips are kept once per case).
type snapshot struct {
	Small []blob.Ref
	Large []blob.Ref
	Meta  [][2]string
	key   string
}

// zipPool interns zip blobs by ref for one case.
type zipPool struct {
	mu sync.Mutex
	m  map[blob.Ref][]byte
}

func (zp *zipPool) intern(ref blob.Ref, get func() []byte) []byte {
	zp.mu.Lock()
	defer zp.mu.Unlock()
	if d, ok := zp.m[ref]; ok {
		return d
	}
	d := get()
	if zp.m == nil {
		zp.m = map[blob.Ref][]byte{}
	}
	zp.m[ref] = d
	return d
}

func (zp *zipPool) get(ref blob.Ref) []byte {
	zp.mu.Lock()
	defer zp.mu.Unlock()
	return zp.m[ref]
}

func refsOf(ms *memory.Storage) []blob.Ref {
	ss := ms.BlobrefStrings()
	out := make([]blob.Ref, len(ss))
	for i, s := range ss {
		out[i] = blob.MustParse(s)
	}
	return out
}

// snap copies the durable state.  It reports loose blobs whose stored bytes differ from the
// universe (a lower store never does that; it would invalidate every later comparison).
func (lw *lower) snap(w *world, zp *zipPool) (*snapshot, error) {
	sn := &snapshot{}
	for _, br := range refsOf(lw.small) {
		i, ok := w.byRef[br]
		if !ok {
			return nil, fmt.Errorf("small holds %v which no client uploaded", br)
		}
		c, _ := lw.small.BlobContents(br)
		if c != string(w.Universe[i].Data) {
			return nil, fmt.Errorf("small holds %v with foreign bytes", br)
		}
		sn.Small = append(sn.Small, br)
	}
	for _, br := range refsOf(lw.large) {
		zp.intern(br, func() []byte {
			c, _ := lw.large.BlobContents(br)
			return []byte(c)
		})
		sn.Large = append(sn.Large, br)
	}
	it := lw.meta.Find("", "")
	for it.Next() {
		sn.Meta = append(sn.Meta, [2]string{it.Key(), it.Value()})
	}
	if err := it.Close(); err != nil {
		return nil, err
	}
	h := sha256.New()
	for _, r := range sn.Small {
		fmt.Fprintf(h, "s%s\n", r)
	}
	for _, r := range sn.Large {
		fmt.Fprintf(h, "l%s\n", r)
	}
	for _, kv := range sn.Meta {
		v := kv[1]
		if strings.HasPrefix(kv[0], "d:") {
			v = "" // value is a wall-clock time
		}
		fmt.Fprintf(h, "m%q=%q\n", kv[0], v)
	}
	sn.key = hex.EncodeToString(h.Sum(nil)[:12])
	return sn, nil
}

// materialise builds fresh lower layers holding the snapshot.
func (sn *snapshot) materialise(w *world, zp *zipPool, wipeMeta bool) (*lower, error) {
	lw := newLower()
	ctx := context.Background()
	for _, br := range sn.Small {
		if _, err := lw.small.ReceiveBlob(ctx, br, bytes.NewReader(w.Universe[w.byRef[br]].Data)); err != nil {
			return nil, err
		}
	}
	for _, br := range sn.Large {
		if _, err := lw.large.ReceiveBlob(ctx, br, bytes.NewReader(zp.get(br))); err != nil {
			return nil, err
		}
	}
	if !wipeMeta {
		for _, kv := range sn.Meta {
			if err := lw.meta.Set(kv[0], kv[1]); err != nil {
				return nil, err
			}
		}
	}
	return lw, nil
}

// instance is one incarnation of the blobpacked store over a lower state.
type instance struct {
	lw       *lower
	plan     *inject.Plan
	s        blobserver.Storage
	kvName   string
	auditing atomic.Bool // calls made by an audit are not counted
}

var kvSeq atomic.Int64

// open constructs blobpacked through the public constructor over fresh inject wrappers.
// The recovery mode is the process-global one (blobpacked.SetRecovery).
func open(lw *lower, maxZip int) (inst *instance, err error) {
	inst = &instance{lw: lw, plan: inject.NewPlan()}
	inst.plan.Match = func(layer, op string) bool { return !inst.auditing.Load() }
	inst.kvName = fmt.Sprintf("c04-meta-%d", kvSeq.Add(1))
	kvc := inject.RegisterKV(inst.kvName, inject.WrapKV("meta", lw.meta, inst.plan))
	ld := sto.NewLoader()
	ld.Set("/small/", inject.Wrap("small", lw.small, inst.plan))
	ld.Set("/large/", inject.Wrap("large", lw.large, inst.plan))
	conf := jsonconfig.Obj{"smallBlobs": "/small/", "largeBlobs": "/large/", "metaIndex": map[string]any(kvc), "keepGoing": true}
	defer func() {
		if e := recover(); e != nil {
			inject.UnregisterKV(inst.kvName)
			panic(e)
		}
	}()
	s, err := blobserver.CreateStorage("blobpacked", ld, conf)
	if err != nil {
		inject.UnregisterKV(inst.kvName)
		return nil, err
	}
	inst.s = s
	if maxZip > 0 {
		if !blobpacked.VerifSetMaxZipBlobSize(s, maxZip) {
			inject.UnregisterKV(inst.kvName)
			return nil, fmt.Errorf("VerifSetMaxZipBlobSize: not a blobpacked storage: %T", s)
		}
	}
	return inst, nil
}

func (in *instance) close() {
	inject.UnregisterKV(in.kvName)
	in.plan.Yield = nil
	in.plan.After = nil
	in.plan.ResetLog()
}

// packedRefs lists the logical blobs contained in the zips of large according to meta-free
// inspection (used only to decide which removed blobs a recovery may legitimately restore).
func sortedRefs(m map[blob.Ref]bool) []blob.Ref {
	out := make([]blob.Ref, 0, len(m))
	for r := range m {
		out = append(out, r)
	}
	sort.Slice(out, func(i, j int) bool { return out[i].String() < out[j].String() })
	return out
}
