package main

// Part 2e: a fetch failure BELOW a bytesRef part, seen through every way of reading.
//
// A FileReader reads a bytesRef part through a sub-FileReader.  A blob that cannot be
// fetched down there (a data chunk of a nested bytes blob, or a bytes blob two levels
// down) is the one fault whose report has to travel up through the sub-reader.  The
// property binds every read that does NOT fail: a stream that ends without an error
// (io.ReadAll / io.Copy / io.CopyBuffer / io.SectionReader return nil, Read returns
// io.EOF, ReadAt returns nil or io.EOF) has delivered exactly the bytes the schema
// denotes there, ALL of them: the length is compared with the true size, so a clean end
// before the true size (a silently truncated file) is a violation.  A read that reports
// an error is accepted iff the armed fetch failure was delivered.
//
// Used on writer-made files (WriteFileFromReader, a few hundred KiB to 5 MiB: their
// trees have bytesRef parts by construction) and on the generated trees of Parts 2 / 2c.
// The fault is by ref: "missing" (every fetch of that blob fails for the duration of
// the read) or "once" (only the first fetch of it fails; aimed at the first part of a
// nested bytes blob).

import (
	"bytes"
	"context"
	"encoding/json"
	"errors"
	"fmt"
	"io"
	"math/rand"

	"perkeep.org/pkg/blob"
	"perkeep.org/pkg/blobserver/memory"
	"perkeep.org/pkg/schema"

	"verif.local/harness/ev"
)

// deepRef is a blob that a read of the root reaches only through at least one bytesRef
// part: a part of a bytes schema blob that is itself the target of a bytesRef.
type deepRef struct {
	ref   blob.Ref
	what  string // "data-chunk" | "bytes-schema"
	hops  int    // bytesRef parts between the root and the blob holding the reference
	first bool   // referenced by the first part of its bytes blob
}

// deepRefsOf walks the stored JSON (harness's own reading, encoding/json) in tree order.
func deepRefsOf(st *memory.Storage, root blob.Ref) []deepRef {
	var out []deepRef
	seen := map[string]bool{}
	visited := map[string]bool{}
	var walk func(ref blob.Ref, hops int)
	walk = func(ref blob.Ref, hops int) {
		key := fmt.Sprintf("%s@%d", ref, min(hops, 2))
		if visited[key] || len(visited) > 20000 {
			return
		}
		visited[key] = true
		s, ok := st.BlobContents(ref)
		if !ok {
			return
		}
		var n jnode
		if json.Unmarshal([]byte(s), &n) != nil {
			return
		}
		for i, p := range n.Parts {
			switch {
			case p.BlobRef != "" && p.BytesRef == "":
				br, ok := blob.Parse(p.BlobRef)
				if ok && hops >= 1 && !seen[p.BlobRef] {
					seen[p.BlobRef] = true
					out = append(out, deepRef{br, "data-chunk", hops, i == 0})
				}
			case p.BytesRef != "" && p.BlobRef == "":
				br, ok := blob.Parse(p.BytesRef)
				if !ok {
					continue
				}
				if hops >= 1 && !seen[p.BytesRef] {
					seen[p.BytesRef] = true
					out = append(out, deepRef{br, "bytes-schema", hops, i == 0})
				}
				walk(br, hops+1)
			}
		}
	}
	walk(root, 0)
	return out
}

var deepOps = []string{"readat", "readall", "copy", "copybuffer", "sectionreader", "read-loop", "seek+readall"}

// checkDeepFaults runs one seeded deep fault against every read path.  family labels the
// signatures ("writer-file", "tree", "hole-tree").
func checkDeepFaults(r *ev.Run, rng *rand.Rand, st *memory.Storage, rootRef blob.Ref, want []byte, family string, viol func(sig, op, format string, a ...any)) {
	size := len(want)
	if size == 0 {
		return
	}
	deep := deepRefsOf(st, rootRef)
	if len(deep) == 0 {
		r.Note("deep_fault_skipped", family+":no-blob-below-a-bytesRef")
		return
	}
	ctx := context.Background()

	// the target: "once" needs the first part of a nested bytes blob (a later part's
	// one-shot failure is retried by the reader's own loop and never surfaces)
	mode := "missing"
	var firsts []deepRef
	for _, d := range deep {
		if d.first {
			firsts = append(firsts, d)
		}
	}
	var tgt deepRef
	if len(firsts) > 0 && rng.Intn(3) == 0 {
		mode = "once"
		tgt = firsts[rng.Intn(len(firsts))]
	} else {
		tgt = deep[rng.Intn(len(deep))]
		// prefer the deepest kind now and then: a bytes blob two levels down
		if rng.Intn(3) == 0 {
			var bs []deepRef
			for _, d := range deep {
				if d.what == "bytes-schema" {
					bs = append(bs, d)
				}
			}
			if len(bs) > 0 {
				tgt = bs[rng.Intn(len(bs))]
			}
		}
	}
	kind := ffKinds[rng.Intn(len(ffKinds))]
	where := fmt.Sprintf("%s %s, reached through %d bytesRef part(s), is %s (%s; every other blob is served)", tgt.what, tgt.ref, tgt.hops, map[string]string{"missing": "unfetchable for the whole read", "once": "unfetchable on its first fetch only"}[mode], kind)
	r.Count("deep_fault_sequences", 1)
	r.Note("deep_fault_family", family)
	r.Note("deep_fault_mode", mode)
	r.Note("deep_fault_kind", kind)

	bufSizes := []int{4*kib + 1, 8 * kib, 64 * kib, mib, 1 + rng.Intn(300*kib)}
	for _, op := range deepOps {
		ff := &flakyFetcher{inner: st, sticky: mode == "missing"}
		ff.arm(0, tgt.ref, kind)
		fr, err := schema.NewFileReader(ctx, ff, rootRef)
		r.Eval(1)
		if err != nil {
			if ff.firedCount() == 0 {
				viol("deep-fault-error/no-fault/"+family, "NewFileReader", "%s: failed though no fetch had failed: %v", where, err)
			}
			return
		}
		// a seeded range for the ranged ops; half of them start at 0 (so that the
		// damaged region is reached whenever a whole read reaches it)
		off := 0
		if rng.Intn(2) == 0 {
			off = rng.Intn(size)
		}
		n := size - off
		if rng.Intn(3) == 0 {
			n = 1 + rng.Intn(size-off)
		}
		bs := bufSizes[rng.Intn(len(bufSizes))]

		var got []byte
		var rerr error // nil = the stream ended cleanly
		exp := want
		desc := op
		switch op {
		case "readat":
			salt := rng.Intn(255)
			buf := dirtyBuf(n, salt)
			g, err := fr.ReadAt(buf, int64(off))
			exp = want[off : off+n]
			desc = fmt.Sprintf("ReadAt(off=%d, len=%d)", off, n)
			got = buf[:min(max(g, 0), len(buf))]
			rerr = err
			if errors.Is(err, io.EOF) {
				// io.ReaderAt: io.EOF = the input ends here.  It may come with a full
				// buffer at the very end of the file, never before the true size.
				r.Eval(1)
				if off+g < size {
					viol("deep-fault/readat-eof-before-end/"+family, desc, "%s: returned (%d, io.EOF): end of file reported at offset %d, the schema denotes %d bytes", where, g, off+g, size)
					fr.Close()
					return
				}
				rerr = nil
			}
		case "readall":
			got, rerr = io.ReadAll(fr)
			desc = "io.ReadAll"
		case "copy":
			var out bytes.Buffer
			_, rerr = io.Copy(&out, fr)
			got = out.Bytes()
			desc = "io.Copy"
		case "copybuffer":
			var out bytes.Buffer
			_, rerr = io.CopyBuffer(onlyWriter{&out}, onlyReader{fr}, dirtyBuf(bs, rng.Intn(255)))
			got = out.Bytes()
			desc = fmt.Sprintf("io.CopyBuffer with a %d-byte buffer", bs)
		case "sectionreader":
			got, rerr = io.ReadAll(io.NewSectionReader(fr, int64(off), int64(n)))
			exp = want[off : off+n]
			desc = fmt.Sprintf("io.ReadAll(io.NewSectionReader(fr, %d, %d))", off, n)
		case "read-loop":
			buf := dirtyBuf(bs, rng.Intn(255))
			for calls := 0; ; calls++ {
				g, err := fr.Read(buf)
				got = append(got, buf[:min(max(g, 0), len(buf))]...)
				if err != nil {
					if !errors.Is(err, io.EOF) {
						rerr = err
					}
					break
				}
				if g == 0 && calls > 4*size+16 {
					rerr = errors.New("harness: Read keeps returning (0, nil)")
					break
				}
			}
			desc = fmt.Sprintf("Read with a %d-byte buffer until io.EOF", bs)
		case "seek+readall":
			if _, err := fr.Seek(int64(off), io.SeekStart); err != nil {
				rerr = err
				break
			}
			got, rerr = io.ReadAll(fr)
			exp = want[off:]
			desc = fmt.Sprintf("Seek(%d, SeekStart) + io.ReadAll", off)
		}
		fr.Close()
		r.Eval(1)
		fired := ff.firedCount() > 0
		if rerr != nil {
			if !fired {
				viol("deep-fault-error/no-fault/"+family, desc, "%s: failed though no fetch had failed: %v", where, rerr)
				return
			}
			r.Note("deep_fault_read", op+":error")
			r.Note("deep_fault", fmt.Sprintf("%s@hops=%d:error-reported", tgt.what, min(tgt.hops, 2)))
			continue
		}
		if !bytes.Equal(got, exp) {
			d := firstDiff(got, exp)
			how := "differs"
			if len(got) < len(exp) && bytes.Equal(got, exp[:len(got)]) {
				how = "ended WITHOUT AN ERROR on a strict prefix (silently truncated)"
			}
			viol("deep-fault/"+op+"/"+family, desc, "%s: the read %s: %d bytes delivered, the schema denotes %d bytes there (file size %d); first difference at index %d: got %s, want %s", where, how, len(got), len(exp), size, d, around(got, d), around(exp, d))
			return
		}
		if fired {
			r.Note("deep_fault_read", op+":complete-despite-fault")
		} else {
			r.Note("deep_fault_read", op+":fault-not-reached")
		}
	}
}
