package main

import (
	"bytes"
	"context"
	"errors"
	"fmt"
	"io"
	"math/rand"
	"sort"
	"strings"

	"perkeep.org/pkg/blob"
	"perkeep.org/pkg/blobserver/memory"
	"perkeep.org/pkg/schema"

	"verif.local/harness/ev"
	"verif.local/harness/sto"
)

// ---------------------------------------------------------------- generated trees

const (
	kHole = iota
	kBlob
	kBytes
)

type dblob struct {
	data []byte
	ref  blob.Ref
}

type tpart struct {
	kind  int
	b     *dblob
	child *tnode
	off   int
	size  int
}

func (p tpart) refLen() int {
	switch p.kind {
	case kBlob:
		return len(p.b.data)
	case kBytes:
		return len(p.child.den)
	}
	return p.size
}

type tnode struct {
	typ   string
	parts []tpart
	den   []byte // what the node denotes (bytes.md)
	js    string
	ref   blob.Ref
	depth int
}

func (n *tnode) finish(explicitZeroOffset bool) {
	var sb strings.Builder
	sb.WriteString("{\"camliVersion\": 1,\n \"camliType\": \"" + n.typ + "\",\n")
	if n.typ == "file" {
		sb.WriteString(" \"fileName\": \"c15-tree.bin\",\n")
	}
	sb.WriteString(" \"parts\": [")
	n.den = nil
	n.depth = 1
	for i, p := range n.parts {
		if i > 0 {
			sb.WriteString(",")
		}
		sb.WriteString("\n  {")
		switch p.kind {
		case kBlob:
			fmt.Fprintf(&sb, "\"blobRef\": %q, ", p.b.ref.String())
			n.den = append(n.den, p.b.data[p.off:p.off+p.size]...)
		case kBytes:
			fmt.Fprintf(&sb, "\"bytesRef\": %q, ", p.child.ref.String())
			n.den = append(n.den, p.child.den[p.off:p.off+p.size]...)
			if p.child.depth+1 > n.depth {
				n.depth = p.child.depth + 1
			}
		default:
			n.den = append(n.den, make([]byte, p.size)...)
		}
		fmt.Fprintf(&sb, "\"size\": %d", p.size)
		if p.off > 0 || (explicitZeroOffset && p.kind != kHole) {
			fmt.Fprintf(&sb, ", \"offset\": %d", p.off)
		}
		sb.WriteString("}")
	}
	sb.WriteString("\n ]\n}")
	n.js = sb.String()
	n.ref = sto.RefOf("sha224", []byte(n.js))
}

type tgen struct {
	rng    *rand.Rand
	pool   []*dblob
	nodes  []*tnode // finished non-root nodes, for sharing
	shapes map[string]bool
	big    bool
}

func (g *tgen) newBlob() *dblob {
	rng := g.rng
	var n int
	switch k := rng.Intn(10); {
	case k < 5:
		n = 1 + rng.Intn(12)
	case k < 9:
		n = 8 + rng.Intn(40)
	default:
		n = 100 + rng.Intn(400)
	}
	if g.big && rng.Intn(3) == 0 {
		n = 1000 + rng.Intn(6000)
	}
	data := make([]byte, n)
	if rng.Intn(2) == 0 {
		// readable content: position-revealing
		tag := byte('A' + len(g.pool)%26)
		for i := range data {
			if i%2 == 0 {
				data[i] = tag
			} else {
				data[i] = "0123456789abcdefghijklmnopqrstuvwxyz"[(i/2)%36]
			}
		}
	} else {
		rng.Read(data)
	}
	hash := "sha224"
	if rng.Intn(6) == 0 {
		hash = []string{"sha1", "sha256"}[rng.Intn(2)]
	}
	b := &dblob{data: data, ref: sto.RefOf(hash, data)}
	g.pool = append(g.pool, b)
	return b
}

func (g *tgen) pickBlob() *dblob {
	if len(g.pool) == 0 || (len(g.pool) < 5 && g.rng.Intn(2) == 0) {
		return g.newBlob()
	}
	return g.pool[g.rng.Intn(len(g.pool))]
}

// window picks offset and size (size>0) inside a referent of length n.
func (g *tgen) window(n int, kind string) (off, size int) {
	rng := g.rng
	mode := rng.Intn(6)
	if n == 1 {
		mode = 0
	}
	switch mode {
	case 0, 1: // whole
		g.shapes[kind+"-full"] = true
		return 0, n
	case 2: // prefix: ends before the referent does
		g.shapes[kind+"-short"] = true
		return 0, 1 + rng.Intn(n-1)
	case 3: // suffix
		off = 1 + rng.Intn(n-1)
		g.shapes[kind+"-offset"] = true
		return off, n - off
	default: // middle
		if n < 3 {
			g.shapes[kind+"-short"] = true
			return 0, 1
		}
		off = 1 + rng.Intn(n-2)
		size = 1 + rng.Intn(n-off-1)
		g.shapes[kind+"-offset+short"] = true
		return off, size
	}
}

func (g *tgen) node(depth int, root bool) *tnode {
	rng := g.rng
	n := &tnode{typ: "bytes"}
	if root && rng.Intn(2) == 0 {
		n.typ = "file"
	}
	nparts := 1 + rng.Intn(5)
	if rng.Intn(8) == 0 {
		nparts = 1
	}
	if root && rng.Intn(60) == 0 {
		nparts = 0
	}
	for len(n.parts) < nparts {
		k := rng.Intn(10)
		switch {
		case k < 2:
			hs := 1 + rng.Intn(20)
			if g.big && rng.Intn(3) == 0 {
				// longer than a page: one read call takes many pages of zeros
				hs = 4090 + rng.Intn(5000)
				g.shapes["hole>4Ki"] = true
			}
			n.parts = append(n.parts, tpart{kind: kHole, size: hs})
			g.shapes["hole"] = true
		case k < 5 || depth <= 1:
			b := g.pickBlob()
			if len(b.data) >= 3 && rng.Intn(4) == 0 {
				// the same blob cut into two adjacent parts, with or without a gap
				c1 := 1 + rng.Intn(len(b.data)-2)
				c2 := c1 + rng.Intn(len(b.data)-c1)
				n.parts = append(n.parts, tpart{kind: kBlob, b: b, off: 0, size: c1}, tpart{kind: kBlob, b: b, off: c2, size: len(b.data) - c2})
				g.shapes["same-blob-adjacent"] = true
				g.shapes["blob-short"] = true
				g.shapes["blob-offset"] = true
				continue
			}
			off, size := g.window(len(b.data), "blob")
			n.parts = append(n.parts, tpart{kind: kBlob, b: b, off: off, size: size})
		default:
			var c *tnode
			if len(g.nodes) > 0 && rng.Intn(4) == 0 {
				c = g.nodes[rng.Intn(len(g.nodes))]
				if c.depth >= depth {
					c = nil
				} else {
					g.shapes["shared-bytes-node"] = true
				}
			}
			if c == nil {
				c = g.node(depth-1, false)
			}
			if len(c.den) == 0 {
				continue
			}
			off, size := g.window(len(c.den), "bytes")
			n.parts = append(n.parts, tpart{kind: kBytes, child: c, off: off, size: size})
		}
	}
	n.finish(rng.Intn(10) == 0)
	if !root {
		g.nodes = append(g.nodes, n)
	}
	return n
}

// witnessTree is the minimal tree of the design-phase finding: two parts of one blob,
// the first ending before the blob does.
func witnessTree() (*tnode, []*dblob) {
	data := []byte("0123456789ABCDEFGHIJ")
	b := &dblob{data: data, ref: sto.RefOf("sha224", data)}
	n := &tnode{typ: "bytes", parts: []tpart{{kind: kBlob, b: b, off: 0, size: 10}, {kind: kBlob, b: b, off: 15, size: 5}}}
	n.finish(false)
	return n, []*dblob{b}
}

// witnessTreeEOF: one part that ends before its blob does; a read that starts inside
// the part and asks for more than the file has must stop at the end of the file.
func witnessTreeEOF() *tnode {
	data := []byte("0123456789")
	b := &dblob{data: data, ref: sto.RefOf("sha224", data)}
	n := &tnode{typ: "file", parts: []tpart{{kind: kBlob, b: b, off: 0, size: 5}}}
	n.finish(false)
	return n
}

// ---------------------------------------------------------------- structure queries

type seg struct{ start, end int }

// segments returns the leaf segments of t in root coordinates, restricted to the
// window [lo,hi) of t, shifted so that lo maps to base.
func segments(t *tnode, lo, hi, base int, out *[]seg) {
	pos := 0
	for _, p := range t.parts {
		s, e := pos, pos+p.size
		pos = e
		cs, ce := max(s, lo), min(e, hi)
		if cs >= ce {
			continue
		}
		if p.kind == kBytes {
			segments(p.child, p.off+(cs-s), p.off+(ce-s), base+(cs-lo), out)
		} else {
			*out = append(*out, seg{base + (cs - lo), base + (ce - lo)})
		}
	}
}

// hazard reports whether a read of n bytes at off in t enters some part strictly
// inside, extends beyond that part's end, and the part's referent continues after the
// part's end ("part shorter than its blob / bytes").  It returns "", "blob" or "bytes".
//
// n is the length the reader implementation is asked for at this level: the caller's
// buffer length for ReadAt (a read that starts inside the last part and asks for more
// than the file has "extends beyond" that part too), the length clipped to the end of
// the file for Read (io.SectionReader clips).
func hazard(t *tnode, off, n int) string {
	pos := 0
	for _, p := range t.parts {
		s, e := pos, pos+p.size
		pos = e
		if e <= off || s >= off+n {
			continue
		}
		rs := max(off, s) - s
		re := min(off+n, e) - s
		if rs > 0 && off+n > e && p.kind != kHole && p.refLen() > p.off+p.size {
			if p.kind == kBlob {
				return "blob"
			}
			return "bytes"
		}
		if p.kind == kBytes {
			if h := hazard(p.child, p.off+rs, re-rs); h != "" {
				return h
			}
		}
	}
	return ""
}

// readShape is a structural description of where a read starts at the root.
func readShape(t *tnode, off, n int) string {
	if off >= len(t.den) {
		return "beyond-eof"
	}
	pos := 0
	for _, p := range t.parts {
		s, e := pos, pos+p.size
		pos = e
		if off >= e {
			continue
		}
		name := []string{"hole", "blob", "bytes"}[p.kind]
		if p.kind != kHole {
			if p.off > 0 {
				name += "+offset"
			}
			if p.refLen() > p.off+p.size {
				name += "+short"
			}
		}
		if off > s {
			name += "-midpart"
		} else {
			name += "-partstart"
		}
		if off+n > e {
			name += "-crossing"
		}
		return name
	}
	return "beyond-eof"
}

func anyShortPart(t *tnode) string {
	for _, p := range t.parts {
		if p.kind != kHole && p.refLen() > p.off+p.size {
			if p.kind == kBlob {
				return "blob"
			}
			return "bytes"
		}
		if p.kind == kBytes {
			if s := anyShortPart(p.child); s != "" {
				return s
			}
		}
	}
	return ""
}

// ---------------------------------------------------------------- jobs

type treeCase struct {
	CaseID string            `json:"case_id"`
	Root   string            `json:"root"`
	Schema map[string]string `json:"schema_blobs"`
	Data   map[string]string `json:"data_blobs"`
	Op     string            `json:"op,omitempty"`
}

func treeJobs(r *ev.Run) []job {
	n := r.Pick(12000, 100000)
	var jobs []job
	for i := 0; i <= n; i++ {
		id := fmt.Sprintf("t%d;", i)
		i := i
		w := 0
		if i < 2 {
			w = 1 << 20 // the two fixed witness trees run (and report) first
		}
		jobs = append(jobs, job{id: id, weight: w, fn: func() { runTree(r, id, i) }})
	}
	return jobs
}

func collect(t *tnode, schemaBlobs map[string]*tnode, dataBlobs map[string]*dblob) {
	schemaBlobs[t.ref.String()] = t
	for _, p := range t.parts {
		switch p.kind {
		case kBlob:
			dataBlobs[p.b.ref.String()] = p.b
		case kBytes:
			collect(p.child, schemaBlobs, dataBlobs)
		}
	}
}

func runTree(r *ev.Run, id string, idx int) {
	rng := r.Rand("tree/" + id)
	var root *tnode
	shapes := map[string]bool{}
	if idx == 0 {
		root, _ = witnessTree()
		shapes["known-witness"] = true
		shapes["same-blob-adjacent"] = true
		shapes["blob-short"] = true
		shapes["blob-offset"] = true
	} else if idx == 1 {
		root = witnessTreeEOF()
		shapes["known-witness"] = true
		shapes["blob-short"] = true
	} else {
		g := &tgen{rng: rng, shapes: shapes, big: idx%7 == 0}
		root = g.node([]int{1, 1, 2, 2, 2, 3, 3, 3, 3}[rng.Intn(9)], true)
	}
	schemaBlobs := map[string]*tnode{}
	dataBlobs := map[string]*dblob{}
	collect(root, schemaBlobs, dataBlobs)

	ctx := context.Background()
	st := &memory.Storage{}
	tc := treeCase{CaseID: id, Root: root.ref.String(), Schema: map[string]string{}, Data: map[string]string{}}
	for ref, n := range schemaBlobs {
		tc.Schema[ref] = n.js
		if _, err := st.ReceiveBlob(ctx, n.ref, strings.NewReader(n.js)); err != nil {
			r.Inconclusive("memory store refused a schema blob: " + err.Error())
			return
		}
	}
	for ref, b := range dataBlobs {
		tc.Data[ref] = show(b.data)
		if _, err := st.ReceiveBlob(ctx, b.ref, bytes.NewReader(b.data)); err != nil {
			r.Inconclusive("memory store refused a data blob: " + err.Error())
			return
		}
	}
	want := root.den
	size := len(want)

	// The generator's denotation must agree with the interpreter run over the stored JSON
	// (guards the harness against its own generator).
	in := &interp{get: func(ref string) ([]byte, bool) {
		if n, ok := schemaBlobs[ref]; ok {
			return []byte(n.js), true
		}
		if b, ok := dataBlobs[ref]; ok {
			return b.data, true
		}
		return nil, false
	}}
	den := in.denote(root.ref.String(), "file", 1)
	if len(in.problems) > 0 || !bytes.Equal(den, want) {
		r.Inconclusive(fmt.Sprintf("harness bug: generated tree %s is not well-formed or generator and interpreter disagree: %v", id, in.problems))
		return
	}

	// shape notes
	shapes["root="+root.typ] = true
	shapes[fmt.Sprintf("depth=%d", root.depth)] = true
	if len(root.parts) == 1 {
		shapes["single-part"] = true
	}
	if len(root.parts) == 0 {
		shapes["empty-root"] = true
	}
	holeOnly := len(root.parts) > 0
	for _, p := range root.parts {
		if p.kind != kHole {
			holeOnly = false
		}
	}
	if holeOnly {
		shapes["hole-only"] = true
	}
	seen := map[*dblob]int{}
	var countBlobs func(t *tnode)
	countBlobs = func(t *tnode) {
		for _, p := range t.parts {
			if p.kind == kBlob {
				seen[p.b]++
			} else if p.kind == kBytes {
				countBlobs(p.child)
			}
		}
	}
	countBlobs(root)
	for _, c := range seen {
		if c > 1 {
			shapes["same-blob-twice"] = true
		}
	}
	for s := range shapes {
		r.Note("tree_shape", s)
	}
	r.Count("trees", 1)
	if len(root.parts) >= 2 || root.depth > 1 || (len(root.parts) == 1 && root.parts[0].off > 0) {
		r.Distinct("tree/" + root.ref.String())
	}
	if idx == 0 || idx == 2 {
		r.Sample(map[string]any{"kind": "tree", "case": tc, "denotes": show(want)})
	}

	nviol := 0   // reports not attributed to the short-part defect
	nhazard := 0 // reports attributed to it (capped per tree, checking continues)
	viol := func(sig, op, format string, a ...any) {
		if strings.HasPrefix(sig, "readat/part-shorter-than-") {
			nhazard++
			if nhazard > 2 {
				return
			}
		} else {
			nviol++
		}
		c := tc
		c.Op = op
		r.Violation(sig, fmt.Sprintf("tree %s (%d bytes, depth %d): %s: ", root.ref, size, root.depth, op)+fmt.Sprintf(format, a...), c)
	}
	// classify attributes a mismatch of a read of n bytes at off.
	classify := func(prefix string, off, n int) string {
		if h := hazard(root, off, n); h != "" {
			// one defect, whatever API performed the read
			return "readat/part-shorter-than-" + h
		}
		return prefix + "/" + readShape(root, off, n)
	}

	fr, err := schema.NewFileReader(ctx, st, root.ref)
	r.Eval(1)
	if err != nil {
		viol("open-error/tree-"+root.typ, "NewFileReader", "%v", err)
		return
	}
	defer fr.Close()
	r.Eval(1)
	if fr.Size() != int64(size) {
		viol("size/filereader-size-tree", "Size", "Size()=%d, the tree denotes %d bytes", fr.Size(), size)
	}

	// ---- ReadAt grid
	var segs []seg
	segments(root, 0, size, 0, &segs)
	type rd struct{ off, n int }
	var reads []rd
	if size <= 40 {
		for off := 0; off <= size+1; off++ {
			for n := 1; n <= size-off+2; n++ {
				reads = append(reads, rd{off, n})
			}
		}
	} else {
		offSet := map[int]bool{0: true, size - 1: true, size: true, size + 1: true, size + 17: true}
		var bounds []int
		for _, s := range segs {
			for _, b := range []int{s.start, s.end} {
				offSet[b-1], offSet[b], offSet[b+1] = true, true, true
			}
			offSet[(s.start+s.end)/2] = true
			offSet[s.start+rng.Intn(s.end-s.start)] = true
			bounds = append(bounds, s.end)
		}
		// root-level part boundaries as well (they coincide with leaf boundaries, listed for clarity)
		pos := 0
		for _, p := range root.parts {
			pos += p.size
			offSet[pos-1], offSet[pos], offSet[pos+1] = true, true, true
		}
		sort.Ints(bounds)
		var offs []int
		for o := range offSet {
			if o >= 0 {
				offs = append(offs, o)
			}
		}
		sort.Ints(offs)
		for _, off := range offs {
			lens := map[int]bool{1: true, 2: true, 3: true, size - off: true, size - off + 1: true, 1 + rng.Intn(size+2): true, 1 + rng.Intn(16): true}
			i := sort.SearchInts(bounds, off+1) // first boundary > off
			for k := 0; k < 3 && i+k < len(bounds); k++ {
				d := bounds[i+k] - off
				lens[d-1], lens[d], lens[d+1] = true, true, true
			}
			var ls []int
			for l := range lens {
				if l >= 1 {
					ls = append(ls, l)
				}
			}
			sort.Ints(ls)
			for _, l := range ls {
				reads = append(reads, rd{off, l})
			}
		}
	}
	switch {
	case idx == 0:
		reads = append([]rd{{5, 8}}, reads...) // the design-phase witness first
	case idx == 1:
		reads = append([]rd{{2, 5}}, reads...)
	case r.Thorough() || idx%2 == 0:
		rng.Shuffle(len(reads), func(i, j int) { reads[i], reads[j] = reads[j], reads[i] })
	}
	for _, q := range reads {
		if nviol >= 4 {
			break
		}
		// the buffer holds non-zero bytes before the call: what the read reports must be
		// what it wrote (holes included), not what the caller's memory happened to hold
		buf := dirtyBuf(q.n, q.off)
		n, err := fr.ReadAt(buf, int64(q.off))
		r.Eval(1)
		r.Count("tree_readat", 1)
		op := fmt.Sprintf("ReadAt(off=%d, len=%d)", q.off, q.n)
		if q.off >= size {
			r.Note("read_kinds", "readat-beyond-eof")
			if n != 0 || !errors.Is(err, io.EOF) {
				viol("readat/beyond-eof", op, "= (%d, %v), want (0, EOF)", n, err)
			}
			continue
		}
		r.Note("read_kinds", "readat")
		exp := want[q.off:min(q.off+q.n, size)]
		hz := hazard(root, q.off, q.n)
		if hz != "" {
			r.Note("read_kinds", "readat-mid-part-crossing-short-part")
		}
		if len(exp) < q.n {
			r.Note("read_kinds", "readat-short-at-eof")
		}
		switch {
		case n != len(exp) || !bytes.Equal(buf[:n], exp):
			viol(classify("readat", q.off, q.n), op, "returned %d bytes %s (err=%v), the schema denotes %d bytes %s", n, show(buf[:max(n, 0)]), err, len(exp), show(exp))
		case n < q.n && err == nil:
			viol("readat-error/short-without-error", op, "returned %d < %d bytes with a nil error", n, q.n)
		case err != nil && !((n < q.n || q.off+n == size) && (errors.Is(err, io.EOF) || errors.Is(err, io.ErrUnexpectedEOF))):
			viol("readat-error/"+readShape(root, q.off, q.n), op, "returned the right %d bytes but error %v", n, err)
		}
	}
	// negative offset must be refused
	{
		buf := make([]byte, 4)
		n, err := fr.ReadAt(buf, -1)
		r.Eval(1)
		if n != 0 || err == nil {
			viol("readat/negative-offset", "ReadAt(off=-1)", "= (%d, %v), want an error", n, err)
		}
	}

	// ---- Seek + Read
	if nviol < 4 {
		fr2, err := schema.NewFileReader(ctx, st, root.ref)
		if err != nil {
			viol("open-error/tree-"+root.typ, "NewFileReader", "%v", err)
			return
		}
		pos := 0
		var trace []string
		for step := 0; step < 24 && nviol < 4; step++ {
			// seek
			whence := rng.Intn(3)
			target := rng.Intn(size+4) - 1
			if len(segs) > 0 && rng.Intn(2) == 0 {
				s := segs[rng.Intn(len(segs))]
				target = []int{s.start, s.end - 1, s.end, s.start + 1, (s.start + s.end) / 2}[rng.Intn(5)]
			}
			var arg int64
			switch whence {
			case io.SeekStart:
				arg = int64(target)
			case io.SeekCurrent:
				arg = int64(target - pos)
			case io.SeekEnd:
				arg = int64(target - size)
			}
			np, err := fr2.Seek(arg, whence)
			r.Eval(1)
			op := fmt.Sprintf("Seek(%d, whence=%d) at position %d", arg, whence, pos)
			trace = append(trace, op)
			if target < 0 {
				if err == nil {
					viol("seek/negative-position-accepted", strings.Join(trace, "; "), "returned (%d, nil)", np)
					break
				}
				continue // position unchanged (io.Seeker: seeking before the start is an error)
			}
			if err != nil || np != int64(target) {
				viol("seek/position", strings.Join(trace, "; "), "= (%d, %v), want (%d, nil)", np, err, target)
				break
			}
			pos = target
			// read
			l := 1 + rng.Intn(size+3)
			if rng.Intn(2) == 0 {
				l = 1 + rng.Intn(12)
			}
			buf := dirtyBuf(l, step)
			full := rng.Intn(2) == 0
			var n int
			if full {
				n, err = io.ReadFull(fr2, buf)
				op = fmt.Sprintf("io.ReadFull(len=%d) at position %d", l, pos)
			} else {
				n, err = fr2.Read(buf)
				op = fmt.Sprintf("Read(len=%d) at position %d", l, pos)
			}
			trace = append(trace, op)
			r.Eval(1)
			r.Count("tree_seek_read", 1)
			r.Note("read_kinds", "seek+read")
			if pos >= size {
				if n != 0 || !errors.Is(err, io.EOF) {
					viol("seek/read-beyond-eof", strings.Join(trace, "; "), "= (%d, %v), want (0, EOF)", n, err)
					break
				}
				continue
			}
			avail := min(l, size-pos)
			okN := n == avail || (!full && n >= 1 && n <= avail)
			if !okN || !bytes.Equal(buf[:min(max(n, 0), avail)], want[pos:pos+min(max(n, 0), avail)]) {
				viol(classify("seek", pos, avail), strings.Join(trace, "; "), "returned %d bytes %s (err=%v), the schema denotes %s there", n, show(buf[:max(n, 0)]), err, show(want[pos:pos+avail]))
				break
			}
			if err != nil && !(errors.Is(err, io.EOF) && pos+n == size) && !(full && n < l && errors.Is(err, io.ErrUnexpectedEOF)) {
				viol("seek/read-error", strings.Join(trace, "; "), "returned the right bytes but error %v", err)
				break
			}
			if full && n < l && err == nil {
				viol("seek/read-error", strings.Join(trace, "; "), "io.ReadFull returned %d < %d with nil error", n, l)
				break
			}
			pos += n
		}
	}

	// ---- sequential reads with fixed buffer sizes, from a fresh reader each
	for _, bs := range []int{1, 3, 7, 64, size + 1} {
		if nviol >= 4 || size == 0 || (bs == 1 && size > 4096) {
			break
		}
		fr3, err := schema.NewFileReader(ctx, st, root.ref)
		if err != nil {
			break
		}
		pos := 0
		buf := dirtyBuf(bs, bs) // reused for every call, as io.Copy does
		for calls := 0; calls < size+8; calls++ {
			n, err := fr3.Read(buf)
			r.Eval(1)
			if pos >= size {
				if n != 0 || !errors.Is(err, io.EOF) {
					viol("seek/read-beyond-eof", fmt.Sprintf("sequential Read(len=%d) at position %d", bs, pos), "= (%d, %v), want (0, EOF)", n, err)
				}
				break
			}
			avail := min(bs, size-pos)
			if n < 1 || n > avail || !bytes.Equal(buf[:n], want[pos:pos+n]) {
				viol(classify("sequential", pos, avail), fmt.Sprintf("sequential Read(len=%d) at position %d", bs, pos), "returned %d bytes %s (err=%v), the schema denotes %s there", n, show(buf[:min(max(n, 0), bs)]), err, show(want[pos:pos+avail]))
				break
			}
			if err != nil && !(errors.Is(err, io.EOF) && pos+n == size) {
				viol("sequential/read-error", fmt.Sprintf("sequential Read(len=%d) at position %d", bs, pos), "error %v", err)
				break
			}
			pos += n
		}
		r.Note("read_kinds", "sequential-read")
		r.Count("tree_sequential_passes", 1)
	}

	// ---- ReadAll from a fresh reader
	if nviol < 4 {
		fr4, err := schema.NewFileReader(ctx, st, root.ref)
		if err == nil {
			got, err := io.ReadAll(fr4)
			r.Eval(1)
			r.Note("read_kinds", "readall")
			if err != nil || !bytes.Equal(got, want) {
				sig := "readall/" + root.typ
				if h := anyShortPart(root); h != "" && err == nil {
					// io.ReadAll's buffer sizes are not specified; attribute to the short-part
					// defect only if one of the reads it can have made is exposed to it
					exposed := ""
					for off := 0; off < size && exposed == ""; off++ {
						exposed = hazard(root, off, size-off)
					}
					if exposed != "" {
						sig = "readat/part-shorter-than-" + exposed
					}
				}
				viol(sig, "io.ReadAll", "returned %d bytes %s (err=%v), the schema denotes %d bytes %s; first difference at %d", len(got), show(got), err, size, show(want), firstDiff(got, want))
			}
		}
	}

	// ---- the same tree through a fetcher that fails one seeded fetch once (treefaults.go)
	if nviol < 4 {
		checkTreeAfterFault(r, rng, st, root, schemaBlobs, viol)
	}
	// ---- a blob BELOW a bytesRef part unfetchable, through every read path (deepfaults.go)
	if nviol < 4 {
		checkDeepFaults(r, r.Rand("deepfault/"+id), st, root.ref, want, "tree", viol)
	}

	// ---- ForeachChunk over generated trees.  The documented contract (filereader.go):
	// fn is never given a bytesRef part, and schemaPath leads from the root to the schema
	// blob that holds the part.  When every bytesRef part of the tree spans its whole
	// referent, "each chunk of fr, in order" also pins the content: the chunks'
	// blob[offset:offset+size] / zeros concatenate to what the tree denotes.  For trees
	// with sub-ranged bytesRef parts the doc does not say whether chunks are clipped to
	// the window: recorded, not judged.
	if nviol < 4 {
		fr5, err := schema.NewFileReader(ctx, st, root.ref)
		if err != nil {
			return
		}
		defer fr5.Close()
		subranged := looseBytesPart(root)
		var cat []byte
		bad, badWhat := "", ""
		calls := 0
		ferr := fr5.ForeachChunk(ctx, func(path []blob.Ref, p schema.BytesPart) error {
			calls++
			if bad != "" {
				return nil
			}
			if p.BytesRef.Valid() {
				bad, badWhat = "bytesref-part", fmt.Sprintf("call %d passed a part with bytesRef %s", calls, p.BytesRef)
				return nil
			}
			if len(path) == 0 || path[0] != root.ref {
				bad, badWhat = "path", fmt.Sprintf("call %d: schemaPath %v does not start at the root", calls, path)
				return nil
			}
			for i := 1; i < len(path); i++ {
				parent := schemaBlobs[path[i-1].String()]
				found := false
				if parent != nil {
					for _, q := range parent.parts {
						if q.kind == kBytes && q.child.ref == path[i] {
							found = true
						}
					}
				}
				if !found {
					bad, badWhat = "path", fmt.Sprintf("call %d: schemaPath %v: %s is not a bytesRef of %s", calls, path, path[i], path[i-1])
					return nil
				}
			}
			holder := schemaBlobs[path[len(path)-1].String()]
			found := false
			if holder != nil {
				for _, q := range holder.parts {
					switch {
					case q.kind == kBlob && p.BlobRef.Valid() && q.b.ref == p.BlobRef && uint64(q.off) == p.Offset && uint64(q.size) == p.Size:
						found = true
					case q.kind == kHole && !p.BlobRef.Valid() && uint64(q.size) == p.Size:
						found = true
					}
				}
			}
			if !found {
				bad, badWhat = "path", fmt.Sprintf("call %d: part {blobRef %v offset %d size %d} is not a part of the last schemaPath element %s", calls, p.BlobRef, p.Offset, p.Size, path[len(path)-1])
				return nil
			}
			if p.BlobRef.Valid() {
				b := dataBlobs[p.BlobRef.String()]
				cat = append(cat, b.data[p.Offset:p.Offset+p.Size]...)
			} else {
				cat = append(cat, make([]byte, p.Size)...)
			}
			return nil
		})
		r.Eval(1)
		r.Count("tree_foreachchunk", 1)
		switch {
		case ferr != nil:
			viol("foreachchunk/tree-error", "ForeachChunk", "%v", ferr)
		case bad != "":
			viol("foreachchunk/tree-"+bad, "ForeachChunk", "%s", badWhat)
		case !subranged:
			r.Note("read_kinds", "foreachchunk-tree")
			if root.depth > 1 {
				r.Note("read_kinds", "foreachchunk-nested-tree")
			}
			if !bytes.Equal(cat, want) {
				viol("foreachchunk/tree-content", "ForeachChunk", "the %d chunks passed denote %d bytes %s, the tree (no sub-ranged bytesRef part) denotes %d bytes %s; first difference at %d", calls, len(cat), show(cat), size, show(want), firstDiff(cat, want))
			}
		case bytes.Equal(cat, want):
			r.Note("foreachchunk_subranged_bytesref(not judged)", "chunks-equal-denotation")
		default:
			r.Note("foreachchunk_subranged_bytesref(not judged)", "chunks-cover-whole-referents")
		}
	}
}

// looseBytesPart reports whether some bytesRef part of t uses less than its referent.
func looseBytesPart(t *tnode) bool {
	for _, p := range t.parts {
		if p.kind == kBytes {
			if p.off != 0 || p.size != len(p.child.den) || looseBytesPart(p.child) {
				return true
			}
		}
	}
	return false
}
