package main

// Part 2b: sparse file/bytes trees with offsets and sizes beyond 2^31 and 2^32.
//
// bytes.md allows holes of any size and 64-bit offsets; such trees cannot be read in
// full, so the denotation is evaluated lazily, range by range, by a second small
// interpreter over the stored JSON (rangeOf), cross-checked against the generator's own
// structure.  Reads are placed around the late part boundaries (those that lie beyond
// 2^31 / 2^32 in root coordinates or inside a sub-ranged bytes blob whose offset is that
// large) and at seeded positions inside the huge holes.

import (
	"bytes"
	"context"
	"encoding/json"
	"errors"
	"fmt"
	"io"
	"math/rand"
	"sort"
	"strings"

	"perkeep.org/pkg/blob"
	"perkeep.org/pkg/blobserver/memory"
	"perkeep.org/pkg/schema"

	"verif.local/harness/ev"
	"verif.local/harness/sto"
)

type hpart struct {
	kind  int
	b     *dblob
	child *hnode
	off   int64
	size  int64
}

type hnode struct {
	typ   string
	parts []hpart
	size  int64
	js    string
	ref   blob.Ref
	depth int
}

func (n *hnode) finish() {
	var sb strings.Builder
	sb.WriteString("{\"camliVersion\": 1,\n \"camliType\": \"" + n.typ + "\",\n")
	if n.typ == "file" {
		sb.WriteString(" \"fileName\": \"c15-sparse.bin\",\n")
	}
	sb.WriteString(" \"parts\": [")
	n.size = 0
	n.depth = 1
	for i, p := range n.parts {
		if i > 0 {
			sb.WriteString(",")
		}
		sb.WriteString("\n  {")
		switch p.kind {
		case kBlob:
			fmt.Fprintf(&sb, "\"blobRef\": %q, ", p.b.ref.String())
		case kBytes:
			fmt.Fprintf(&sb, "\"bytesRef\": %q, ", p.child.ref.String())
			if p.child.depth+1 > n.depth {
				n.depth = p.child.depth + 1
			}
		}
		fmt.Fprintf(&sb, "\"size\": %d", p.size)
		if p.off > 0 {
			fmt.Fprintf(&sb, ", \"offset\": %d", p.off)
		}
		sb.WriteString("}")
		n.size += p.size
	}
	sb.WriteString("\n ]\n}")
	n.js = sb.String()
	n.ref = sto.RefOf("sha224", []byte(n.js))
}

// fill writes den(n)[off:off+len(out)] into out (generator's view; out is zeroed).
func (n *hnode) fill(off int64, out []byte) {
	pos := int64(0)
	end := off + int64(len(out))
	for _, p := range n.parts {
		s, e := pos, pos+p.size
		pos = e
		cs, ce := max(s, off), min(e, end)
		if cs >= ce {
			continue
		}
		dst := out[cs-off : ce-off]
		switch p.kind {
		case kBlob:
			copy(dst, p.b.data[p.off+(cs-s):])
		case kBytes:
			p.child.fill(p.off+(cs-s), dst)
		}
	}
}

type hseg struct {
	start, end int64
	kind       int
}

// hsegments: leaf segments of the window [lo,hi) of t, in coordinates where lo maps to base.
func hsegments(t *hnode, lo, hi, base int64, out *[]hseg) {
	pos := int64(0)
	for _, p := range t.parts {
		s, e := pos, pos+p.size
		pos = e
		cs, ce := max(s, lo), min(e, hi)
		if cs >= ce {
			continue
		}
		if p.kind == kBytes {
			hsegments(p.child, p.off+(cs-s), p.off+(ce-s), base+(cs-lo), out)
		} else {
			*out = append(*out, hseg{base + (cs - lo), base + (ce - lo), p.kind})
		}
	}
}

// rangeOf is the lazy form of interp.denote: den(ref)[off:off+n] read from the stored
// JSON.  It shares no code with pkg/schema nor with the generator.
func rangeOf(get func(string) ([]byte, bool), ref string, off, n int64, depth int) ([]byte, error) {
	if depth > 16 {
		return nil, errors.New("too deep")
	}
	raw, ok := get(ref)
	if !ok {
		return nil, fmt.Errorf("blob %s not stored", ref)
	}
	var node jnode
	if err := json.Unmarshal(raw, &node); err != nil {
		return nil, err
	}
	if node.Type != "file" && node.Type != "bytes" {
		return nil, fmt.Errorf("%s has camliType %q", ref, node.Type)
	}
	out := make([]byte, 0, n)
	pos := int64(0)
	end := off + n
	for i, p := range node.Parts {
		if p.Size == nil || *p.Size == 0 || *p.Size > 1<<62 {
			return nil, fmt.Errorf("part %d of %s: bad size", i, ref)
		}
		s, e := pos, pos+int64(*p.Size)
		pos = e
		cs, ce := max(s, off), min(e, end)
		if cs >= ce {
			continue
		}
		if int64(len(out)) != cs-off {
			return nil, errors.New("internal: gap")
		}
		switch {
		case p.BlobRef != "" && p.BytesRef != "":
			return nil, errors.New("both refs")
		case p.BlobRef == "" && p.BytesRef == "":
			out = append(out, make([]byte, ce-cs)...)
		case p.BlobRef != "":
			data, ok := get(p.BlobRef)
			if !ok {
				return nil, fmt.Errorf("data blob %s not stored", p.BlobRef)
			}
			a, b := int64(p.Offset)+(cs-s), int64(p.Offset)+(ce-s)
			if b > int64(len(data)) {
				return nil, fmt.Errorf("part %d of %s exceeds its blob", i, ref)
			}
			out = append(out, data[a:b]...)
		default:
			sub, err := rangeOf(get, p.BytesRef, int64(p.Offset)+(cs-s), ce-cs, depth+1)
			if err != nil {
				return nil, err
			}
			out = append(out, sub...)
		}
	}
	if int64(len(out)) != n {
		return nil, fmt.Errorf("%s denotes fewer than %d bytes", ref, off+n)
	}
	return out, nil
}

// ---------------------------------------------------------------- generator

var hugeSizes = []int64{1<<31 - 1, 1 << 31, 1<<31 + 1, 1<<32 - 1, 1 << 32, 1<<32 + 1, 5 << 30, 1<<33 + 12345, 1<<32 + 1<<31, 3 << 30}

type hgen struct {
	rng    *rand.Rand
	blobs  []*dblob
	shapes map[string]bool
}

func (g *hgen) blob() *dblob {
	if len(g.blobs) > 0 && g.rng.Intn(3) == 0 {
		return g.blobs[g.rng.Intn(len(g.blobs))]
	}
	n := 2 + g.rng.Intn(60)
	data := make([]byte, n)
	tag := byte('A' + len(g.blobs)%26)
	for i := range data {
		if i%2 == 0 {
			data[i] = tag
		} else {
			data[i] = "0123456789abcdefghijklmnopqrstuvwxyz"[(i/2)%36]
		}
	}
	b := &dblob{data: data, ref: sto.RefOf("sha224", data)}
	g.blobs = append(g.blobs, b)
	return b
}

func (g *hgen) hugeSize() int64 {
	s := hugeSizes[g.rng.Intn(len(hugeSizes))]
	if g.rng.Intn(3) == 0 {
		s += int64(g.rng.Intn(2000)) - 1000
	}
	return s
}

func (g *hgen) blobPart() hpart {
	b := g.blob()
	n := int64(len(b.data))
	switch g.rng.Intn(4) {
	case 0:
		off := 1 + g.rng.Int63n(n-1)
		g.shapes["blob-offset"] = true
		return hpart{kind: kBlob, b: b, off: off, size: n - off}
	case 1:
		g.shapes["blob-short"] = true
		return hpart{kind: kBlob, b: b, size: 1 + g.rng.Int63n(n-1)}
	}
	return hpart{kind: kBlob, b: b, size: n}
}

// node builds a node with at least one huge hole and blobs on both sides of it.
func (g *hgen) node(depth int, root bool) *hnode {
	rng := g.rng
	n := &hnode{typ: "bytes"}
	if root && rng.Intn(2) == 0 {
		n.typ = "file"
	}
	if rng.Intn(3) > 0 {
		n.parts = append(n.parts, g.blobPart())
	}
	nhuge := 1 + rng.Intn(2)
	for h := 0; h < nhuge; h++ {
		n.parts = append(n.parts, hpart{kind: kHole, size: g.hugeSize()})
		g.shapes["huge-hole"] = true
		for k := rng.Intn(3); k >= 0; k-- {
			switch c := rng.Intn(6); {
			case c == 0:
				n.parts = append(n.parts, hpart{kind: kHole, size: 1 + rng.Int63n(20)})
			case c <= 2 && depth > 1:
				child := g.node(depth-1, false)
				// a window of the child: whole, or starting / ending inside one of its huge
				// holes or next to one of its late boundaries
				var segs []hseg
				hsegments(child, 0, child.size, 0, &segs)
				pick := func() int64 {
					s := segs[rng.Intn(len(segs))]
					switch rng.Intn(4) {
					case 0:
						return s.start
					case 1:
						return s.end
					case 2:
						return s.start + rng.Int63n(s.end-s.start)
					}
					return max(s.start, s.end-1-rng.Int63n(min(s.end-s.start, 40)))
				}
				a, b := int64(0), child.size
				if rng.Intn(4) > 0 {
					a, b = pick(), pick()
					if a > b {
						a, b = b, a
					}
					if a == b {
						a, b = 0, child.size
					}
				}
				if a > 0 {
					g.shapes["bytes-offset"] = true
					if a >= 1<<31 {
						g.shapes["bytes-offset>=2^31"] = true
					}
					if a >= 1<<32 {
						g.shapes["bytes-offset>=2^32"] = true
					}
				}
				if b < child.size {
					g.shapes["bytes-short"] = true
				}
				if a == 0 && b == child.size {
					g.shapes["bytes-full"] = true
				}
				n.parts = append(n.parts, hpart{kind: kBytes, child: child, off: a, size: b - a})
			default:
				n.parts = append(n.parts, g.blobPart())
			}
		}
	}
	n.finish()
	return n
}

// ---------------------------------------------------------------- jobs

type hugeCase struct {
	CaseID string            `json:"case_id"`
	Root   string            `json:"root"`
	Size   int64             `json:"denoted_size"`
	Schema map[string]string `json:"schema_blobs"`
	Data   map[string]string `json:"data_blobs"`
	Op     string            `json:"op,omitempty"`
}

func hugeJobs(r *ev.Run) []job {
	n := r.Pick(300, 4000)
	var jobs []job
	for i := 0; i < n; i++ {
		id := fmt.Sprintf("h%d;", i)
		jobs = append(jobs, job{id: id, weight: 0, fn: func() { runHuge(r, id, i) }})
	}
	return jobs
}

func hcollect(t *hnode, schemaBlobs map[string]*hnode, dataBlobs map[string]*dblob) {
	schemaBlobs[t.ref.String()] = t
	for _, p := range t.parts {
		switch p.kind {
		case kBlob:
			dataBlobs[p.b.ref.String()] = p.b
		case kBytes:
			hcollect(p.child, schemaBlobs, dataBlobs)
		}
	}
}

func hugeClass(off int64) string {
	switch {
	case off >= 1<<32:
		return ">=2^32"
	case off >= 1<<31:
		return ">=2^31"
	}
	return "<2^31"
}

func runHuge(r *ev.Run, id string, hnum int) {
	rng := r.Rand("huge/" + id)
	g := &hgen{rng: rng, shapes: map[string]bool{}}
	root := g.node(1+rng.Intn(3), true)
	schemaBlobs := map[string]*hnode{}
	dataBlobs := map[string]*dblob{}
	hcollect(root, schemaBlobs, dataBlobs)

	ctx := context.Background()
	st := &memory.Storage{}
	hc := hugeCase{CaseID: id, Root: root.ref.String(), Size: root.size, Schema: map[string]string{}, Data: map[string]string{}}
	for ref, n := range schemaBlobs {
		hc.Schema[ref] = n.js
		if _, err := st.ReceiveBlob(ctx, n.ref, strings.NewReader(n.js)); err != nil {
			r.Inconclusive("memory store refused a schema blob: " + err.Error())
			return
		}
	}
	for ref, b := range dataBlobs {
		hc.Data[ref] = show(b.data)
		if _, err := st.ReceiveBlob(ctx, b.ref, bytes.NewReader(b.data)); err != nil {
			r.Inconclusive("memory store refused a data blob: " + err.Error())
			return
		}
	}
	get := func(ref string) ([]byte, bool) {
		if n, ok := schemaBlobs[ref]; ok {
			return []byte(n.js), true
		}
		if b, ok := dataBlobs[ref]; ok {
			return b.data, true
		}
		return nil, false
	}
	size := root.size
	// oracle: the JSON interpreter; the generator's structure guards the harness
	denote := func(off, n int64) ([]byte, bool) {
		if off >= size {
			return nil, true
		}
		n = min(n, size-off)
		want, err := rangeOf(get, root.ref.String(), off, n, 1)
		own := make([]byte, n)
		root.fill(off, own)
		if err != nil || !bytes.Equal(want, own) {
			r.Inconclusive(fmt.Sprintf("harness bug: sparse tree %s: interpreter and generator disagree on [%d,+%d): %v", id, off, n, err))
			return nil, false
		}
		return want, true
	}

	var segs []hseg
	hsegments(root, 0, size, 0, &segs)
	for s := range g.shapes {
		r.Note("sparse_tree_shape", s)
	}
	r.Note("sparse_tree_shape", fmt.Sprintf("depth=%d", root.depth))
	r.Note("sparse_tree_shape", "root="+root.typ)
	r.Note("sparse_tree_shape", "size"+hugeClass(size))
	r.Count("sparse_trees", 1)
	r.Distinct("sparse-tree/" + root.ref.String())
	if id == "h0;" {
		r.Sample(map[string]any{"kind": "sparse tree", "case": hc})
	}

	nviol := 0
	viol := func(sig, op, format string, a ...any) {
		nviol++
		c := hc
		c.Op = op
		r.Violation(sig, fmt.Sprintf("sparse tree %s (denotes %d bytes, depth %d): %s: ", root.ref, size, root.depth, op)+fmt.Sprintf(format, a...), c)
	}
	// where a read starts, structurally
	shapeAt := func(off, n int64) string {
		if off >= size {
			return "beyond-eof"
		}
		i := sort.Search(len(segs), func(i int) bool { return segs[i].end > off })
		s := segs[i]
		name := []string{"hole", "blob", "bytes"}[s.kind]
		if off > s.start {
			name += "-midpart"
		} else {
			name += "-partstart"
		}
		if off+n > s.end {
			name += "-crossing"
		}
		return name + "@" + hugeClass(off)
	}

	fr, err := schema.NewFileReader(ctx, st, root.ref)
	r.Eval(1)
	if err != nil {
		viol("open-error/sparse-tree-"+root.typ, "NewFileReader", "%v", err)
		return
	}
	defer fr.Close()
	r.Eval(1)
	if fr.Size() != size {
		viol("size/filereader-size-sparse-tree", "Size", "Size()=%d, the tree denotes %d bytes", fr.Size(), size)
	}

	// ---- ReadAt around every leaf boundary and inside the huge holes
	type rd struct{ off, n int64 }
	var reads []rd
	seenOff := map[int64]bool{}
	addOff := func(off int64) {
		if off < 0 || seenOff[off] {
			return
		}
		seenOff[off] = true
		for _, l := range []int64{1, 2, 9, 1 + rng.Int63n(200)} {
			reads = append(reads, rd{off, l})
		}
	}
	for _, s := range segs {
		for _, b := range []int64{s.start, s.end} {
			addOff(b - 1)
			addOff(b)
			addOff(b + 1)
			addOff(b - 3 - rng.Int63n(40))
		}
		addOff(s.start + rng.Int63n(s.end-s.start))
		if s.end-s.start > 1<<30 {
			// reads that start in a huge hole just below / above the 2^31 and 2^32 marks
			for _, m := range []int64{1 << 31, 1 << 32, 1<<32 + 1<<31, 1 << 33} {
				for _, o := range []int64{m - 1, m, m + 1} {
					if o >= s.start && o < s.end {
						addOff(o)
					}
					if s.start+o < s.end {
						addOff(s.start + o) // 2^k bytes into the hole
					}
				}
			}
		}
	}
	addOff(size)
	addOff(size + 1)
	addOff(size + 1<<32)
	rng.Shuffle(len(reads), func(i, j int) { reads[i], reads[j] = reads[j], reads[i] })
	for _, q := range reads {
		if nviol >= 4 {
			return
		}
		buf := dirtyBuf(int(q.n), int(q.off&0xff))
		n, err := fr.ReadAt(buf, q.off)
		r.Eval(1)
		r.Count("sparse_tree_readat", 1)
		op := fmt.Sprintf("ReadAt(off=%d, len=%d)", q.off, q.n)
		if q.off >= size {
			if n != 0 || !errors.Is(err, io.EOF) {
				viol("readat/beyond-eof", op, "= (%d, %v), want (0, EOF)", n, err)
			}
			continue
		}
		exp, ok := denote(q.off, q.n)
		if !ok {
			return
		}
		r.Note("sparse_read", "readat-"+shapeAt(q.off, q.n))
		switch {
		case n != len(exp) || !bytes.Equal(buf[:max(n, 0)], exp):
			viol("readat/sparse-tree/"+shapeAt(q.off, q.n), op, "returned %d bytes %s (err=%v), the schema denotes %d bytes %s", n, show(buf[:max(n, 0)]), err, len(exp), show(exp))
		case int64(n) < q.n && err == nil:
			viol("readat-error/short-without-error", op, "returned %d < %d bytes with a nil error", n, q.n)
		case err != nil && !((int64(n) < q.n || q.off+int64(n) == size) && (errors.Is(err, io.EOF) || errors.Is(err, io.ErrUnexpectedEOF))):
			viol("readat-error/sparse-tree", op, "returned the right %d bytes but error %v", n, err)
		}
	}

	// ---- many pages of a huge hole in ONE call, into buffers that hold non-zero bytes
	// before the call (a reader must write the zeros it reports)
	var hugeHoles []hseg
	for _, s := range segs {
		if s.kind == kHole && s.end-s.start > 1<<30 {
			hugeHoles = append(hugeHoles, s)
		}
	}
	for k, bs := range []int64{4097, 8192, 64 << 10, 1 << 20} {
		if len(hugeHoles) == 0 || nviol >= 4 {
			break
		}
		if bs == 1<<20 && !r.Thorough() && hnum%4 != 0 {
			continue
		}
		s := hugeHoles[rng.Intn(len(hugeHoles))]
		var off int64
		how := ""
		switch (k + hnum) % 4 {
		case 0:
			off, how = s.start, "starts-with-hole"
		case 1:
			off, how = s.start+1+rng.Int63n(s.end-s.start-bs-1), "inside-hole"
		case 2:
			off, how = max(0, s.start-1-rng.Int63n(60)), "runs-into-hole"
		default:
			off, how = s.end-(4097+rng.Int63n(bs-4096)), "leaves-hole-after>4Ki"
		}
		salt := rng.Intn(255)
		buf := dirtyBuf(int(bs), salt)
		n, err := fr.ReadAt(buf, off)
		r.Eval(1)
		r.Count("sparse_tree_readat_dirty", 1)
		op := fmt.Sprintf("ReadAt(off=%d, len=%d) into a buffer filled with non-zero bytes", off, bs)
		exp, ok := denote(off, bs)
		if !ok {
			return
		}
		r.Note("sparse_read", "readat-dirty:"+bufClass(int(bs)))
		r.Note("sparse_read", "readat-dirty:"+how+"@"+hugeClass(off))
		switch {
		case n != len(exp) || !bytes.Equal(buf[:max(n, 0)], exp):
			got := buf[:min(max(n, 0), len(buf))]
			d := firstDiff(got, exp)
			viol("readat/sparse-tree/"+shapeAt(off, bs), op, "returned %d bytes (err=%v), the schema denotes %d bytes; first difference at index %d of the read: got %s, want %s%s", n, err, len(exp), d, around(got, d), around(exp, d), unwritten(got, exp, salt))
		case int64(n) < bs && err == nil:
			viol("readat-error/short-without-error", op, "returned %d < %d bytes with a nil error", n, bs)
		case err != nil && !((int64(n) < bs || off+int64(n) == size) && (errors.Is(err, io.EOF) || errors.Is(err, io.ErrUnexpectedEOF))):
			viol("readat-error/sparse-tree", op, "returned the right %d bytes but error %v", n, err)
		}
	}
	if nviol >= 4 {
		return
	}

	// ---- Seek + Read beyond 2^32
	fr2, err := schema.NewFileReader(ctx, st, root.ref)
	if err != nil {
		viol("open-error/sparse-tree-"+root.typ, "NewFileReader", "%v", err)
		return
	}
	defer fr2.Close()
	pos := int64(0)
	var trace []string
	for step := 0; step < 16 && nviol < 4; step++ {
		s := segs[rng.Intn(len(segs))]
		target := []int64{s.start, s.end - 1, s.end, s.start + 1, s.start + rng.Int63n(s.end-s.start), max(0, s.start-1-rng.Int63n(8))}[rng.Intn(6)]
		whence := rng.Intn(3)
		var arg int64
		switch whence {
		case io.SeekStart:
			arg = target
		case io.SeekCurrent:
			arg = target - pos
		case io.SeekEnd:
			arg = target - size
		}
		np, err := fr2.Seek(arg, whence)
		r.Eval(1)
		op := fmt.Sprintf("Seek(%d, whence=%d) at position %d", arg, whence, pos)
		trace = append(trace, op)
		if len(trace) > 6 {
			trace = trace[len(trace)-6:]
		}
		if err != nil || np != target {
			viol("seek/position", strings.Join(trace, "; "), "= (%d, %v), want (%d, nil)", np, err, target)
			return
		}
		pos = target
		l := 1 + rng.Int63n(100)
		if step%8 == 3 {
			l = []int64{4097, 8192, 64 << 10}[rng.Intn(3)] // many pages in one call
		}
		buf := dirtyBuf(int(l), step)
		full := rng.Intn(2) == 0
		var n int
		if full {
			n, err = io.ReadFull(fr2, buf)
			op = fmt.Sprintf("io.ReadFull(len=%d) at position %d", l, pos)
		} else {
			n, err = fr2.Read(buf)
			op = fmt.Sprintf("Read(len=%d) at position %d", l, pos)
		}
		trace = append(trace, op)
		r.Eval(1)
		r.Count("sparse_tree_seek_read", 1)
		if pos >= size {
			if n != 0 || !errors.Is(err, io.EOF) {
				viol("seek/read-beyond-eof", strings.Join(trace, "; "), "= (%d, %v), want (0, EOF)", n, err)
				return
			}
			continue
		}
		exp, ok := denote(pos, l)
		if !ok {
			return
		}
		r.Note("sparse_read", "seek+read@"+hugeClass(pos))
		if l > 4096 && n > 4096 && n <= len(exp) && bytes.Count(exp[:n], []byte{0}) > 4096 {
			r.Note("sparse_read", "seek+read-dirty>4Ki")
		}
		avail := len(exp)
		okN := n == avail || (!full && n >= 1 && n <= avail)
		if !okN || !bytes.Equal(buf[:min(max(n, 0), avail)], exp[:min(max(n, 0), avail)]) {
			viol("seek/sparse-tree/"+shapeAt(pos, int64(avail)), strings.Join(trace, "; "), "returned %d bytes %s (err=%v), the schema denotes %s there", n, show(buf[:max(n, 0)]), err, show(exp))
			return
		}
		if err != nil && !(errors.Is(err, io.EOF) && pos+int64(n) == size) && !(full && int64(n) < l && errors.Is(err, io.ErrUnexpectedEOF)) {
			viol("seek/read-error", strings.Join(trace, "; "), "returned the right bytes but error %v", err)
			return
		}
		pos += int64(n)
	}
}

var _ = ev.Root
